"""C01 -- every datapoint lands in exactly one flush (standalone mode).
R1: Pipeline.tla (goroutines, channels, queue sizes, flusher hand-over) composed with the ConservationProp monitor: conservation
    as an inductive invariant, monitor never latched, for several (parsers, workers, queue, bucket function) instances; the
    broken design (Reset as a second round) must be refuted.
R2: PipelineSched.tla stimulus schedules (offers, ticks, gates at ReceiveMap / Flush / before Reset / backend callback).
S2: harness c01 drives the real parser -> tag stage -> BackendHandler -> aggregators -> flusher chain in a synctest bubble.
R3: ConservationTrace.tla judges the recorded trace.
Stage (socket side): rcvstage -- Receiver.tla / ReceiverSched.tla schedules through the real DatagramReceiver + parsers over an in-memory
    socket, judged by ReceiverTrace.tla (clauses Garbled / AtMostOnce / Lost)."""
import json
import os
import vlib
import rcvstage

LEVEL = "model_checking"
R1 = """SPECIFICATION Spec
CONSTANTS NP = %d W = %d Q = %d Batches <- %s KeyOf <- %s BucketOf <- %s MaxTicks = %d UseGates = %s SplitReset = %s
INVARIANTS Conservation MonitorQuiet RouteStable QuiesceClause
CHECK_DEADLOCK FALSE
"""
SCHED = """SPECIFICATION Spec
CONSTANTS MaxLen = %d MaxOffers = %d MaxTicks = %d Shapes = {0, 1, 2, 3, 4, 5}
CONSTRAINT Emit
CHECK_DEADLOCK FALSE
"""


def stage(ctx, plans, clauses=None):
    """The pipeline schedules (real parsers -> BackendHandler with gated real aggregators -> MetricFlusher -> recording backend); returns the
    named situations. clauses: the ConservationProp clauses the caller is concerned with (None = all). Also a stage of C06."""
    named = {}
    for label, ml, mo, mt, sim, depth in plans:
        cfg = ctx.write_cfg("PipelineSched.%s.cfg" % label, SCHED % (ml, mo, mt))
        cases = ctx.path("sched-%s.ndjson" % label)
        ctx.tlc_generate("PipelineSched", cfg, cases, label=label, simulate=sim, depth=depth, workers=1, timeout=3000)
        out, tr = ctx.path("out-%s.json" % label), ctx.path("trace-%s.ndjson" % label)
        rc, txt, wall = ctx.go_test("c01", run="TestSchedules", env={"VERIF_CASES": cases, "VERIF_OUT": out, "VERIF_TRACE_OUT": tr}, timeout=3000)
        if rc != 0 or not os.path.exists(out):
            raise vlib.MachineryError("harness c01 failed (rc=%d)\n%s" % (rc, txt[-3000:]))
        r = vlib.read_results(out)
        v = ctx.tlc_validate("ConservationTrace", "ConservationTrace.cfg", tr, r["traces"], label=label, timeout=3000)
        ctx.cov["evaluations"] += r["evaluations"]
        ctx.cov["distinct_nontrivial"] += r["distinct_nontrivial"]
        ctx.cov["traces_validated_against_impl"] += r["evaluations"]
        ctx.cov["samples"] += r["samples"][:2]
        for k, n in r["named"].items():
            named[k] = named.get(k, 0) + n
        if v.violated:
            lines = open(tr).read().splitlines()
            # the schedule this line belongs to: walk back to the last reset
            start = v.line - 1
            while start > 0 and '"ev":"reset"' not in lines[start]:
                start -= 1
            keep = ctx.save_replay(v.bad.replace("(", "_").replace(")", "").replace(" ", "_"),
                                   {"clause": v.bad, "trace_line": v.line, "event": json.loads(lines[v.line - 1]) if 0 < v.line <= len(lines) else None,
                                    "schedule_trace": [json.loads(x) for x in lines[start:v.line]]})
            if clauses is None or v.bad.split("(")[0] in clauses:
                ctx.violation(v.bad, keep, "ConservationProp clause %s broken at trace line %d: %s" % (v.bad, v.line, lines[v.line - 1][:500] if v.line else ""))
    return named


def run(ctx):
    r1 = [(2, 2, 0, "B3", "Key5", "Bk2a", 2, "FALSE"), (2, 2, 1, "B3", "Key5", "Bk2b", 2, "FALSE"), (1, 1, 0, "B3", "Key5", "Bk1", 2, "FALSE"),
          (2, 2, 1, "B3", "Key5", "Bk2a", 2, "TRUE")]
    if ctx.tier == "thorough":
        r1 += [(2, 3, 1, "B4", "Key6", "Bk3", 3, "FALSE"), (3, 2, 2, "B4", "Key6", "Bk2a", 2, "FALSE"), (2, 2, 0, "B4", "Key6", "Bk2b", 3, "TRUE")]
    for i, (np_, w, q, b, k, bk, mt, g) in enumerate(r1):
        cfg = ctx.write_cfg("MCPipeline.%d.cfg" % i, R1 % (np_, w, q, b, k, bk, mt, g, "FALSE"))
        ctx.tlc_check("MCPipeline", cfg, label="P=%d W=%d Q=%d %s gates=%s" % (np_, w, q, bk, g), timeout=3000)
    bad = ctx.tlc_check("MCPipeline", ctx.write_cfg("MCPipeline.broken.cfg", R1 % (2, 2, 1, "B3", "Key5", "Bk2a", 2, "FALSE", "TRUE")),
                        label="broken design: Reset as a later command (must fail)", must_pass=False)
    if bad.violated not in ("Conservation", "MonitorQuiet", "QuiesceClause"):
        raise vlib.MachineryError("vacuity: the broken design was not refuted (%s)" % bad.violated)
    rcv_named = rcvstage.run(ctx, clauses=("Garbled", "NoPhantom", "AtMostOnce", "Lost"))   # the socket side: nothing lost or duplicated

    plans = [("sim9", 9, 4, 3, "num=%d" % (150 if ctx.tier == "quick" else 4000), 10)]
    if ctx.tier == "thorough":
        plans.append(("sim14", 14, 6, 4, "num=3000", 15))
    named = stage(ctx, plans)
    for need in ("Q=0", "offer-while-post-held", "offer-while-backend-held", "tick-while-merge-held", "offer-while-merge-held"):
        if named.get(need, 0) == 0 and not (ctx.violations or locals().get("fails")):  # no vacuity verdict once something was found
            raise vlib.MachineryError("vacuity: situation %s never reached" % need)
    ctx.cov["named_situations"] = named
    ctx.cov["rule"] = ("seeded TLC simulation of stimulus schedules over 6 (parsers, workers, queue) configurations x 4 batch shapes "
                       "(all four metric types, sampled counters/timers, two datapoints of one series in a batch) x gates; one "
                       "evaluation = one schedule run on the real pipeline; distinct_nontrivial = schedules with >= 2 offers")
    ctx.assumptions += ["shutdown is excluded, as in the statement", "counter weights are distinct powers of two and sample rates powers "
                        "of two so that trunc(value/rate) is exact and every aggregate decodes into datapoint ids"]


def replay(ctx, path):
    print(open(path).read()[:4000])
    return 0
