"""C07 -- merging batches is independent of order and grouping.
R1: MergeLaw (every ordered binary merge tree over every family evaluates into Canonical) on MetricMap.tla's I-level Merge;
R2: families with their canonical aggregate; harness c07 runs every tree through MetricMap.Merge, every permutation through
MergeMaps, the consolidator (1..3 slots) and the aggregator."""
import os
import vlib

LEVEL = "model_checking"
GEN = """SPECIFICATION Spec
CONSTANTS MaxMaps = %d PoolKind = "%s"
INVARIANT Law
CONSTRAINT Emit
CHECK_DEADLOCK FALSE
"""


def run(ctx):
    plans = [("single3", 3, "single"), ("gauge4", 4, "gauge"), ("mixed3", 3, "mixed"), ("timers2", 2, "timers")]
    if ctx.tier == "thorough":
        plans += [("mixed4", 4, "mixed"), ("single4", 4, "single"), ("timers3", 3, "timers")]
    named = {}
    fails = []
    for label, mm, kind in plans:
        cfg = ctx.write_cfg("MCMerge.%s.cfg" % label, GEN % (mm, kind))
        cases = ctx.path("merge-%s.ndjson" % label)
        n = ctx.tlc_generate("MCMerge", cfg, cases, label=label, timeout=3000)
        out = ctx.path("out-%s.json" % label)
        rc, txt, wall = ctx.go_test("c07", run="TestCases", env={"VERIF_CASES": cases, "VERIF_OUT": out})
        if rc != 0 or not os.path.exists(out):
            raise vlib.MachineryError("harness c07 failed (rc=%d)\n%s" % (rc, txt[-3000:]))
        r = vlib.read_results(out)
        os.unlink(cases)
        ctx.cov["traces_validated_against_impl"] += n
        ctx.cov["evaluations"] += r["evaluations"]
        ctx.cov["distinct_nontrivial"] += r["distinct_nontrivial"]
        ctx.cov["samples"] += r["samples"][:1]
        fails += r["failures"]
        for k, v in r["named"].items():
            named[k] = named.get(k, 0) + v
    # 6. the cloud stage's parking merge (same driver as C11; failures carry the signature CloudStage:*)
    import c11
    cf, cn = c11.execute(ctx, ("C07",))
    fails += cf
    named["cloud-stage-second-batch-for-pending-source"] = cn.get("second-batch-for-pending-source", 0)
    if named.get("gauge-tie", 0) == 0 and not fails:
        raise vlib.MachineryError("vacuity: no family with a gauge timestamp tie")
    ctx.cov["named_situations"] = named
    ctx.cov["exhaustive"] = True
    ctx.cov["rule"] = ("families of <= MaxMaps maps from the pools of MCMerge.tla (all four types, value/timestamp domains with ties, "
                       "multi-series maps); for each family all ordered binary trees (n!*Catalan) through MetricMap.Merge and all "
                       "permutations through MergeMaps, MetricConsolidator (1..3 slots), MetricAggregator.ReceiveMap and the tag stage; the cloud "
                       "stage's parking merge is driven by the C11 schedules; an "
                       "evaluation = one executed tree/permutation compared with the canonical aggregate")
    seen = set()
    for f in fails:
        if f["prop"] != "C07" or f["sig"] in seen:
            continue
        seen.add(f["sig"])
        ctx.violation(f["sig"], ctx.save_replay(f["sig"].replace(":", "_"), f), f["desc"])


def replay(ctx, path):
    print(open(path).read()[:3000])
    return 0
