"""X02 (beyond the listed properties) -- start-up and shutdown of a whole server.
R1: Shutdown.tla (the goroutines RunWithCustomSocket starts stage by stage through the stager, their blocking points, the stop event,
    stager.Shutdown last-started-first) composed with the ShutdownProp monitor; safety (no send on a closed queue, nothing left running
    when Run has returned) and liveness (once asked to stop the server returns, even with a backend stuck for ever); four deviations must
    be refuted: stages stopped in start order, a dispatch that ignores its context, a backend that ignores its context, a cloud
    stage that returns before the goroutines it started (the code as found, finding 15).
    ForwarderDrain.tla: the end of HttpForwarderHandlerV2.Run (drain loop against waiting merge goroutines), documenting an observation.
    AccountingProp.tla (second monitor over the same runs, "X03"): the server's own counters -- datagrams received, metrics / events parsed,
    bad lines -- as the backends (or the upstream of a forwarder) are told them equal what was offered once the system has settled;
    InternalStats.tla is its I-level (report at notify, statser consolidator, dispatch at the next notify, MergeGauge by timestamp, expiry).
R2: ShutdownSched.tla configurations x schedules.  S2: harness shut (the real statsd.Server over an in-memory socket with recording
    backends that honour their contexts, an instance cache that answers, virtual time).  R3: ShutdownTrace.tla and AccountingTrace.tla.
Not in MANIFEST.json (the property list is fixed); run with ./check X02 --tier quick|thorough."""
import json
import os
import vlib

LEVEL = "model_checking"
R1 = """SPECIFICATION Spec
CONSTANTS Q = %d P = %d MaxDg = %d MaxTicks = %d MaxHolds = %d Order = "%s" DispatchHonoursCtx = %s BackendHonoursCtx = %s ReleasersTracked = %s
INVARIANTS MonitorQuiet NoPanic AllGone
PROPERTIES Terminates
CHECK_DEADLOCK FALSE
"""
FD = """SPECIFICATION Spec
CONSTANTS Slots = %d Flushes = %d MergeSeesDone = %s
INVARIANTS TypeOK PostsDone
PROPERTIES NothingLeftBehind
CHECK_DEADLOCK FALSE
"""
IS = """SPECIFICATION Spec
CONSTANTS MaxOffers = %d MaxTicks = %d Expiry = %d Stamped = %s SettleAfter = %d
INVARIANTS MonitorQuiet
CHECK_DEADLOCK FALSE
"""
SCHED = """SPECIFICATION Spec
CONSTANTS MaxLen = %d
CONSTRAINT Emit
CHECK_DEADLOCK FALSE
"""


def run(ctx):
    quick = ctx.tier == "quick"
    for q, p, dg, ticks, holds in ([(1, 2, 3, 2, 1)] if quick else [(1, 2, 3, 2, 1), (2, 2, 4, 2, 2), (1, 3, 4, 2, 1)]):
        ctx.tlc_check("Shutdown", ctx.write_cfg("Shutdown.%d-%d-%d.cfg" % (q, p, dg), R1 % (q, p, dg, ticks, holds, "reverse", "TRUE", "TRUE", "TRUE")),
                      label="stager as coded: queue=%d parsers=%d datagrams=%d" % (q, p, dg), timeout=3000)
    for name, flags, expect in (("stages stopped in start order", ("forward", "TRUE", "TRUE", "TRUE"), ("MonitorQuiet", "NoPanic")),
                                ("dispatch ignores its context", ("reverse", "FALSE", "TRUE", "TRUE"), ("Terminates", "temporal")),
                                ("backend ignores its context", ("reverse", "TRUE", "FALSE", "TRUE"), ("Terminates", "temporal")),
                                ("cloud stage does not wait for its releasers (the code as found)", ("reverse", "TRUE", "TRUE", "FALSE"), ("MonitorQuiet", "NoPanic"))):
        bad = ctx.tlc_check("Shutdown", ctx.write_cfg("Shutdown.dev.cfg", R1 % ((1, 2, 3, 2, 1) + flags)), label=name + " (must fail)", must_pass=False)
        if bad.violated not in expect:
            raise vlib.MachineryError("vacuity: deviation '%s' not refuted (%s)" % (name, bad.violated))
    # the forwarder's own way of ending (observed by the driver, not judged): TLC shows how a merge goroutine is left waiting when Run's
    # drain loop wins the request slots, and that a merge goroutine which notices the closed handler would not be
    fd = ctx.tlc_check("ForwarderDrain", ctx.write_cfg("ForwarderDrain.asis.cfg", FD % (2, 3, "FALSE")), label="forwarder drain loop as coded (leaves a merge goroutine: expected)", must_pass=False)
    if fd.violated not in ("NothingLeftBehind", "temporal"):
        raise vlib.MachineryError("ForwarderDrain as coded: expected NothingLeftBehind to be refuted, got %s" % fd.violated)
    ctx.tlc_check("ForwarderDrain", ctx.write_cfg("ForwarderDrain.fix.cfg", FD % (2, 3, "TRUE")), label="merge goroutine gives up when the handler is closed", timeout=600)
    # the accounting monitor's design side: how a running total travels (report at notify, consolidator, dispatch at the next notify, merge
    # by timestamp, flush, expiry); three quiet flush intervals suffice (the driver waits four), fewer do not; an unstamped gauge with expiry
    # disabled (the code as found, finding 16) freezes
    for exp in (0, 5):
        ctx.tlc_check("InternalStats", ctx.write_cfg("InternalStats.%d.cfg" % exp, IS % (3, 9 if quick else 11, exp, "TRUE", 3)), label="own totals, expiry=%d" % exp, timeout=600)
    ctx.tlc_check("InternalStats", ctx.write_cfg("InternalStats.u5.cfg", IS % (3, 9, 5, "FALSE", 4)), label="unstamped gauge with expiry (works by expiring every flush; needs one more quiet interval)", timeout=600)
    for name, args in (("unstamped gauge, expiry disabled (the code as found)", (3, 9, 0, "FALSE", 3)), ("settled after two quiet intervals only", (3, 9, 0, "TRUE", 2))):
        badr = ctx.tlc_check("InternalStats", ctx.write_cfg("InternalStats.dev.cfg", IS % args), label=name + " (must fail)", must_pass=False)
        if badr.violated != "MonitorQuiet":
            raise vlib.MachineryError("vacuity: '%s' not refuted" % name)
    named = {}
    plans = [("bfs2", 2, None, None), ("sim10", 10, "num=600", 12)] if quick else [("bfs3", 3, None, None), ("sim10", 10, "num=6000", 12), ("sim16", 16, "num=2000", 18)]
    for label, ml, sim, depth in plans:
        cfg = ctx.write_cfg("ShutdownSched.%s.cfg" % label, SCHED % ml)
        cases = ctx.path("shut-%s.ndjson" % label)
        if sim:
            ctx.tlc_generate("ShutdownSched", cfg, cases, label=label, simulate=sim, depth=depth, workers=1, timeout=3000)
        else:
            ctx.tlc_generate("ShutdownSched", cfg, cases, label=label, timeout=3000)
        out, tr = ctx.path("out-%s.json" % label), ctx.path("trace-%s.ndjson" % label)
        rc, txt, wall = ctx.go_test("shut", run="TestSchedules", env={"VERIF_CASES": cases, "VERIF_OUT": out, "VERIF_TRACE_OUT": tr}, timeout=3000)
        if rc != 0 or not os.path.exists(out):
            sig = vlib.crash_attribution(txt)
            if sig:
                ctx.violation("NoPanic:" + sig[0], ctx.save_replay("crash", {"output": sig[1]}), "the server crashed while starting or stopping: " + sig[0])
                return
            raise vlib.MachineryError("harness shut failed (rc=%d)\n%s" % (rc, txt[-3000:]))
        os.unlink(cases)
        r = vlib.read_results(out)
        ctx.cov["evaluations"] += r["evaluations"]
        ctx.cov["distinct_nontrivial"] += r["distinct_nontrivial"]
        ctx.cov["traces_validated_against_impl"] += r["evaluations"]
        ctx.cov["samples"] += r["samples"][:2]
        for k, n in r["named"].items():
            named[k] = named.get(k, 0) + n
        v = ctx.tlc_validate("ShutdownTrace", "ShutdownTrace.cfg", tr, r["traces"], label=label, timeout=3000)
        if v.violated:
            lines = open(tr).read().splitlines()
            start = v.line - 1
            while start > 0 and '"ev":"start"' not in lines[start]:
                start -= 1
            keep = ctx.save_replay(v.bad.split("(")[0], {"clause": v.bad, "trace_line": v.line, "run_trace": [json.loads(x) for x in lines[start:v.line]]})
            ctx.violation(v.bad, keep, "ShutdownProp clause %s broken at trace line %d: %s" % (v.bad, v.line, lines[v.line - 1][:300]))
            return
        # the same runs against the second monitor: the server's own counters, as the backends are told them, add up
        v = ctx.tlc_validate("AccountingTrace", "AccountingTrace.cfg", tr, r["traces"], label=label + "/accounting", timeout=3000)
        if v.violated:
            lines = open(tr).read().splitlines()
            start = v.line - 1
            while start > 0 and '"ev":"start"' not in lines[start]:
                start -= 1
            keep = ctx.save_replay(v.bad.split("(")[0], {"clause": v.bad, "trace_line": v.line,
                                                          "run_trace": [json.loads(x) for x in lines[start:v.line] if '"flush' not in x and '"event' not in x]})
            ctx.violation(v.bad, keep, "AccountingProp clause %s broken at trace line %d: %s" % (v.bad, v.line, lines[v.line - 1][:300]))
            return
    for need in ("backend-held", "client-event", "cloud-stage", "datagram", "stop-in-schedule", "mode:forwarder", "settled", "expiry-disabled", "bad-line"):
        if named.get(need, 0) == 0 and not (ctx.violations or locals().get("fails")):  # no vacuity verdict once something was found
            raise vlib.MachineryError("vacuity: %s never reached" % need)
    ctx.cov["named_situations"] = named
    ctx.cov["rule"] = ("every configuration (standalone: 1..2 aggregators x queue size 1..2 x 1..2 backends | forwarder with a scripted upstream; x cloud stage x internal events) x every schedule of "
                       "MaxLen stimuli over {datagram of 1 | 3 lines, event datagram, hold / release backend b, 100 ms | 1.2 s pass, stop}, the Core "
                       "schedules (stopped with a stuck backend, a full queue and waiting parsers; stopped at once) and seeded longer walks")


def replay(ctx, path):
    print(open(path).read()[:4000])
    return 0
