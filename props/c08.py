"""C08 -- timer statistics and histograms are those of the received multiset.
P-level TimerStats.tla (declarative, exact integers / fractions), I-level the transcribed Flush arithmetic with index bounds;
MCTimer enumerates value bags x rate patterns (summary) and x bucket tags x limits (hist); harness c08 feeds the real aggregator."""
import os
import vlib

LEVEL = "model_checking"
GEN = """SPECIFICATION Spec
CONSTANTS MaxN = %d ValSet <- %s Pcts <- PctAll Mode = "%s" GuardKEqualsN = TRUE
INVARIANTS IndexSafe IAgreesWithP
CONSTRAINT Emit
CHECK_DEADLOCK FALSE
"""
UNGUARDED = """SPECIFICATION Spec
CONSTANTS MaxN = 3 ValSet <- VS5 Pcts <- PctAll Mode = "summary" GuardKEqualsN = FALSE
INVARIANTS IndexSafe
CHECK_DEADLOCK FALSE
"""


def plans(tier):
    p = [("sum5", 5, "VS5", "summary"), ("hist4", 4, "VS5", "hist")]
    if tier == "thorough":
        p += [("sum8", 8, "VS6", "summary"), ("hist6", 6, "VS6", "hist")]
    return p


def execute(ctx, prop_filter):
    fails, named = [], {}
    for label, n, vs, mode in plans(ctx.tier):
        cfg = ctx.write_cfg("MCTimer.%s.cfg" % label, GEN % (n, vs, mode))
        cases = ctx.path("timer-%s.ndjson" % label)
        ncase = ctx.tlc_generate("MCTimer", cfg, cases, label=label, timeout=3000)
        out = ctx.path("out-%s.json" % label)
        rc, txt, wall = ctx.go_test("c08", run="TestCases", env={"VERIF_CASES": cases, "VERIF_OUT": out})
        if rc != 0 or not os.path.exists(out):
            raise vlib.MachineryError("harness c08 failed (rc=%d)\n%s" % (rc, txt[-3000:]))
        r = vlib.read_results(out)
        os.unlink(cases)
        ctx.cov["traces_validated_against_impl"] += ncase
        ctx.cov["evaluations"] += r["evaluations"]
        ctx.cov["distinct_nontrivial"] += r["distinct_nontrivial"]
        ctx.cov["samples"] += r["samples"][:2]
        fails += [f for f in r["failures"] if f["prop"] in prop_filter]
        for k, v in r["named"].items():
            named[k] = named.get(k, 0) + v
    return fails, named


def run(ctx):
    # vacuity of IndexSafe: the unguarded transcription (the code before the fix) must be refuted
    r = ctx.tlc_check("MCTimer", ctx.write_cfg("MCTimer.unguarded.cfg", UNGUARDED), label="unguarded k=n (must fail)", must_pass=False)
    if r.violated != "IndexSafe":
        raise vlib.MachineryError("vacuity: IndexSafe does not refute the unguarded index")
    fails, named = execute(ctx, ("C08",))
    for need in ("idle-timer", "n=1", "limit:0", "limit:2"):
        if named.get(need, 0) == 0 and not (ctx.violations or locals().get("fails")):  # no vacuity verdict once something was found
            raise vlib.MachineryError("vacuity: %s never reached" % need)
    ctx.cov["named_situations"] = named
    ctx.cov["exhaustive"] = True
    ctx.cov["rule"] = ("all value bags of size 0..MaxN over the value set x 3 inverse-rate patterns, 12 percentiles of both signs "
                       "(all, and seeded subsets, with seeded sub-metric masks), seeded arrival order in 1..3 batches, 3 intervals; "
                       "histogram: x 5 bucket tags (malformed, empty, duplicate items) x limits {0,1,2,1000}")
    ctx.assumptions += ["statistics compared in float64 with relative tolerance 1e-9; at an exact .5 rank both ranks are accepted",
                        "values are small integers: rank / selection / case logic is decided, not floating-point conditioning"]
    seen = set()
    for f in fails:
        if f["sig"] in seen:
            continue
        seen.add(f["sig"])
        ctx.violation(f["sig"], ctx.save_replay(f["sig"].replace(":", "_"), f), f["desc"])


def replay(ctx, path):
    print(open(path).read()[:3000])
    return 0
