"""Socket side of ingestion, shared by C01 (nothing lost or duplicated), C03 (no datagram stops the process) and C05 (a datagram's bytes are
its own until it has been parsed; the sender address is the source).
R1: Receiver.tla (reader, buffer pool, DoneFunc, parsers) composed with ReceiverProp; returning the reader's live buffer must be refuted.
R2: ReceiverSched.tla.  S2: harness rcv (real DatagramReceiver + real DatagramParsers over an in-memory PacketConn, synctest).
R3: ReceiverTrace.tla.  Violations are reported under the calling property."""
import json
import os
import vlib

R1 = """SPECIFICATION Spec
CONSTANTS NData = %d NParsers = %d ReturnLive = %s
INVARIANTS MonitorQuiet
CHECK_DEADLOCK FALSE
"""
SCHED = """SPECIFICATION Spec
CONSTANTS MaxLen = %d
CONSTRAINT Emit
CHECK_DEADLOCK FALSE
"""


def run(ctx, clauses=None):
    """clauses: the ReceiverProp clauses that are this property's business (None = all)."""
    quick = ctx.tier == "quick"
    ctx.tlc_check("Receiver", ctx.write_cfg("Receiver.r1.cfg", R1 % ((4, 2, "FALSE") if quick else (6, 3, "FALSE"))), label="receiver buffer pool", timeout=3000)
    bad = ctx.tlc_check("Receiver", ctx.write_cfg("Receiver.dev.cfg", R1 % (3, 2, "TRUE")), label="DoneFunc returns the live buffer (must fail)", must_pass=False)
    if bad.violated != "MonitorQuiet":
        raise vlib.MachineryError("vacuity: live-buffer return not refuted")
    label, ml, sim = ("rcv9", 9, "num=150") if quick else ("rcv14", 14, "num=3000")
    cfg = ctx.write_cfg("ReceiverSched.%s.cfg" % label, SCHED % ml)
    cases = ctx.path("rcv-%s.ndjson" % label)
    ctx.tlc_generate("ReceiverSched", cfg, cases, label=label, simulate=sim, depth=ml + 2, workers=1, timeout=3000)
    out, tr = ctx.path("out-%s.json" % label), ctx.path("trace-%s.ndjson" % label)
    rc, txt, wall = ctx.go_test("rcv", run="TestReceiver", env={"VERIF_CASES": cases, "VERIF_OUT": out, "VERIF_TRACE_OUT": tr}, timeout=3000)
    if rc != 0 or not os.path.exists(out):
        crash = vlib.crash_attribution(txt)
        if crash and (clauses is None or "Alive" in clauses):
            ctx.violation("receiver-crash:" + crash[0], ctx.save_replay("receiver-crash", {"output": crash[1]}),
                          "a datagram stopped the process (receiver / parser): " + crash[0])
            return {}
        if crash:
            return {}
        raise vlib.MachineryError("harness rcv failed (rc=%d)\n%s" % (rc, txt[-3000:]))
    os.unlink(cases)
    r = vlib.read_results(out)
    ctx.cov["evaluations"] += r["evaluations"]
    ctx.cov["traces_validated_against_impl"] += r["evaluations"]
    v = ctx.tlc_validate("ReceiverTrace", "ReceiverTrace.cfg", tr, r["traces"], label=label, timeout=3000)
    if v.violated and (clauses is None or v.bad.split("(")[0] in clauses):
        lines = open(tr).read().splitlines()
        start = v.line - 1
        while start > 0 and '"ev":"start"' not in lines[start]:
            start -= 1
        keep = ctx.save_replay("receiver-" + v.bad.split("(")[0], {"clause": v.bad, "trace_line": v.line,
                                                                     "schedule_trace": [json.loads(x) for x in lines[start:v.line]]})
        ctx.violation("receiver:" + v.bad, keep, "ReceiverProp clause %s broken at trace line %d: %s" % (v.bad, v.line, lines[v.line - 1][:300]))
    for need in ("empty-datagram", "held", "shape:4"):
        if r["named"].get(need, 0) == 0 and not ctx.violations:
            raise vlib.MachineryError("vacuity (receiver stage): %s never reached" % need)
    return {"receiver:" + k: n for k, n in r["named"].items()}
