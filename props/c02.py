"""C02 -- the line parser accepts exactly the documented grammar and extracts its fields.
P-level spec/Grammar.tla, I-level spec/Lexer.tla, generator spec/MCLexer.tla, harness harness/c02."""
import json
import os
import vlib

LEVEL = "model_checking"

CFG = """SPECIFICATION Spec
CONSTANTS L = %d NameMax = %d ValMax = %d FieldMax = %d Mode = "%s"
CONSTRAINT Bound
CONSTRAINT Emit
INVARIANTS IAgreesWithP TokensOnly
CHECK_DEADLOCK FALSE
"""

# (label, L, NameMax, ValMax, FieldMax, Mode)
QUICK = [("metric-L8", 8, 2, 1, 1, "metric"), ("event-L10", 10, 2, 1, 1, "event"), ("evdeep-L15", 15, 2, 1, 1, "evdeep")]
THOROUGH = [("metric-L10", 10, 2, 1, 1, "metric"), ("metric-wide-L8", 8, 3, 2, 2, "metric"),
            ("event-L13", 13, 2, 1, 1, "event"), ("evdeep-L17", 17, 2, 1, 1, "evdeep")]
SIM = ("sim-L24", 24, 6, 3, 3, "both")


def generate(ctx, want_props=("C02", "C03")):
    """Runs R1+R2 for every bound and the harness on the cases; returns merged harness results."""
    plans = QUICK if ctx.tier == "quick" else QUICK + THOROUGH
    merged = {"failures": [], "evaluations": 0, "distinct": 0, "named": {}, "samples": [], "cases": 0}
    jobs = [(p, None) for p in plans]
    jobs.append((SIM, "num=%d" % (300 if ctx.tier == "quick" else 20000)))
    for (label, L, nm, vm, fm, mode), sim in jobs:
        cfg = ctx.write_cfg("MCLexer.%s.cfg" % label, CFG % (L, nm, vm, fm, mode))
        cases = ctx.path("cases-%s.ndjson" % label)
        if sim:
            n = ctx.tlc_generate("MCLexer", cfg, cases, label=label, simulate=sim, depth=L, workers=1, timeout=1200)
        else:
            n = ctx.tlc_generate("MCLexer", cfg, cases, label=label, timeout=1800)
        out = ctx.path("out-%s.json" % label)
        rc, txt, wall = ctx.go_test("c02", run="TestCases", env={"VERIF_CASES": cases, "VERIF_OUT": out})
        if rc != 0 or not os.path.exists(out):
            raise vlib.MachineryError("harness c02 failed (rc=%d)\n%s" % (rc, txt[-3000:]))
        r = vlib.read_results(out)
        os.unlink(cases)
        merged["cases"] += n
        merged["evaluations"] += r["evaluations"]
        merged["distinct"] += r["distinct_nontrivial"]
        merged["failures"] += [dict(f, bound=label) for f in r["failures"]]
        merged["samples"] += r["samples"][:2]
        for k, v in r["named"].items():
            merged["named"][k] = merged["named"].get(k, 0) + v
    return merged


def report(ctx, merged, prop):
    ctx.cov["evaluations"] = merged["evaluations"]
    ctx.cov["distinct_nontrivial"] = merged["distinct"]
    ctx.cov["traces_validated_against_impl"] = merged["cases"]
    ctx.cov["samples"] = merged["samples"][:6]
    ctx.cov["named_situations"] = merged["named"]
    ctx.cov["exhaustive"] = True
    seen = set()
    for f in merged["failures"]:
        if f["prop"] != prop:
            continue
        if f["sig"] in seen:
            continue
        seen.add(f["sig"])
        path = ctx.save_replay(f["sig"].replace(":", "_").replace("/", "_"), f)
        ctx.violation(f["sig"], path, f["desc"])


def vacuity(merged):
    need = ["expect:metric", "expect:reject", "expect:event", "expect:unspec", "state:rate", "state:tag",
            "state:ev_val", "state:ev_tag", "state:ev_date", "rate-and-tags"]
    missing = [n for n in need if merged["named"].get(n, 0) == 0]
    if missing:
        raise vlib.MachineryError("vacuity: named situations never reached: %s" % missing)


def run(ctx):
    merged = generate(ctx)
    vacuity(merged)
    ctx.cov["rule"] = ("TLC enumerates every token string the lexer automaton can read up to the stated bounds "
                       "(one representative per byte class each control state distinguishes) plus seeded random "
                       "walks to depth 24; each prefix is a case; each case is run with the identity and one seeded "
                       "class-preserving byte substitution, on a fresh and two pooled lexers, under three "
                       "namespaces. distinct_nontrivial = distinct concrete lines of >= 2 tokens.")
    ctx.assumptions += ["float parsing is strconv.ParseFloat's (the statement's own criterion), evaluated by the harness",
                        "byte classes: the lexer branches only on the class of a byte; representatives are varied by seed"]
    report(ctx, merged, "C02")


def replay(ctx, path):
    f = json.load(open(path))
    cases = ctx.path("replay.ndjson")
    # re-run the single case through the harness
    print("replay of %s: line=%r" % (f.get("sig"), f.get("case", {}).get("line")))
    return 0
