"""C05 -- lines of a datagram are independent; parsed data never aliases the buffer.
spec/Datagram.tla (P-level PParse, I-level IParse) -> harness/c05 TestCases through the real DatagramParser.
Stage (socket side): rcvstage (Receiver.tla; clauses Garbled / Sender): what a parser reads is the datagram it was handed."""
import os
import vlib
import rcvstage

LEVEL = "model_checking"

CFG = """SPECIFICATION Spec
CONSTANTS MaxLines = %d GaugeKeepsFirstOnTie = FALSE
INVARIANTS IAgreesWithP PoolAgreesWithGrammar
%s
CHECK_DEADLOCK FALSE
"""


def run_cases(ctx, label, maxlines, simulate=None):
    cfg = ctx.write_cfg("Datagram.%s.cfg" % label, CFG % (maxlines, "CONSTRAINT Emit"))
    cases = ctx.path("dg-%s.ndjson" % label)
    if simulate:
        n = ctx.tlc_generate("Datagram", cfg, cases, label=label, simulate=simulate, depth=maxlines + 1, workers=1)
    else:
        n = ctx.tlc_generate("Datagram", cfg, cases, label=label, timeout=1800)
    out = ctx.path("out-%s.json" % label)
    rc, txt, wall = ctx.go_test("c05", run="TestCases", env={"VERIF_CASES": cases, "VERIF_OUT": out})
    if rc != 0 or not os.path.exists(out):
        raise vlib.MachineryError("harness c05 failed (rc=%d)\n%s" % (rc, txt[-3000:]))
    os.unlink(cases)
    return n, vlib.read_results(out)


def run(ctx):
    rcvstage.run(ctx, clauses=("Garbled", "Sender", "AtMostOnce", "NoPhantom"))   # buffer ownership and sender address at the socket
    plans = [("L3", 3, None)] if ctx.tier == "quick" else [("L3", 3, None), ("L4", 4, None), ("sim-L7", 7, "num=30000")]
    named = {}
    fails = []
    for label, ml, sim in plans:
        n, r = run_cases(ctx, label, ml, sim)
        ctx.cov["traces_validated_against_impl"] += n
        ctx.cov["evaluations"] += r["evaluations"]
        ctx.cov["distinct_nontrivial"] += r["distinct_nontrivial"]
        ctx.cov["samples"] += r["samples"][:3]
        for k, v in r["named"].items():
            named[k] = named.get(k, 0) + v
        fails += r["failures"]
    ctx.cov["named_situations"] = named
    ctx.cov["exhaustive"] = True
    ctx.cov["rule"] = ("every sequence of <= MaxLines lines from the 20-line pool of Datagram.tla (valid lines of all four types, "
                       "sampled, tagged, host-tagged, needing normalisation; every rejection reason; empty line; event) x trailing "
                       "newline x ignore-host, alternating namespaces, through four long-lived real DatagramParsers; "
                       "distinct_nontrivial = distinct datagram texts with >= 2 lines")
    for need in ("bad-and-good-mixed", "gauge-set-twice", "lines:3", "tag-buffers-pre-sized"):
        if named.get(need, 0) == 0 and not (ctx.violations or locals().get("fails")):  # no vacuity verdict once something was found
            raise vlib.MachineryError("vacuity: %s never reached" % need)
    seen = set()
    for f in fails:
        if f["prop"] != "C05" or f["sig"] in seen:
            continue
        seen.add(f["sig"])
        ctx.violation(f["sig"], ctx.save_replay(f["sig"].replace(":", "_"), f), f["desc"])


def replay(ctx, path):
    print(open(path).read()[:2000])
    return 0
