"""X01 (beyond the listed properties) -- forwarder -> aggregating server, end to end.
R1: Gostatsd.tla (forwarder: consolidator, one body per flush, attempts / back-off / give-up; network: refuse, ingest, lose the response;
    server: ingestion into the aggregator, flush reports and resets) composed with the EndToEndProp monitor; two deviations must be refuted.
R2: GostatsdSched.tla schedules.  S2: harness e2e (real parser -> tag handler -> forwarder; in-memory link; real ingestion endpoint ->
    BackendHandler -> aggregators -> flusher -> recording backend; synctest).  R3: EndToEndTrace.tla.
Not in MANIFEST.json (the property list is fixed); run with ./check X01 --tier quick|thorough."""
import json
import os
import vlib

LEVEL = "model_checking"
R1 = """SPECIFICATION Spec
CONSTANTS MaxPoints = %d MaxAttempts = %d MaxFlushes = %d ResendAfterSuccess = %s ServerKeeps = %s
INVARIANTS MonitorQuiet
CHECK_DEADLOCK FALSE
"""
SCHED = """SPECIFICATION Spec
CONSTANTS MaxLen = %d
CONSTRAINT Emit
CHECK_DEADLOCK FALSE
"""


def run(ctx):
    quick = ctx.tier == "quick"
    ctx.tlc_check("Gostatsd", ctx.write_cfg("Gostatsd.r1.cfg", R1 % (((3, 2, 3) if quick else (4, 3, 3)) + ("FALSE", "FALSE"))), label="topology as coded", timeout=3000)
    for name, flags in (("resend after success", ("TRUE", "FALSE")), ("server keeps reported counters", ("FALSE", "TRUE"))):
        bad = ctx.tlc_check("Gostatsd", ctx.write_cfg("Gostatsd.dev.cfg", R1 % ((3, 2, 3) + flags)), label=name + " (must fail)", must_pass=False)
        if bad.violated != "MonitorQuiet":
            raise vlib.MachineryError("vacuity: deviation '%s' not refuted" % name)
    named = {}
    for label, ml, sim, depth in ([("sim8", 8, "num=300", 10)] if quick else [("sim8", 8, "num=4000", 10), ("sim14", 14, "num=2000", 16)]):
        cfg = ctx.write_cfg("GostatsdSched.%s.cfg" % label, SCHED % ml)
        cases = ctx.path("e2e-%s.ndjson" % label)
        ctx.tlc_generate("GostatsdSched", cfg, cases, label=label, simulate=sim, depth=depth, workers=1, timeout=3000)
        out, tr = ctx.path("out-%s.json" % label), ctx.path("trace-%s.ndjson" % label)
        rc, txt, wall = ctx.go_test("e2e", run="TestTopology", env={"VERIF_CASES": cases, "VERIF_OUT": out, "VERIF_TRACE_OUT": tr}, timeout=3000)
        if rc != 0 or not os.path.exists(out):
            raise vlib.MachineryError("harness e2e failed (rc=%d)\n%s" % (rc, txt[-3000:]))
        os.unlink(cases)
        r = vlib.read_results(out)
        ctx.cov["evaluations"] += r["evaluations"]
        ctx.cov["distinct_nontrivial"] += r["distinct_nontrivial"]
        ctx.cov["traces_validated_against_impl"] += r["evaluations"]
        ctx.cov["samples"] += r["samples"][:2]
        for k, n in r["named"].items():
            named[k] = named.get(k, 0) + n
        v = ctx.tlc_validate("EndToEndTrace", "EndToEndTrace.cfg", tr, r["traces"], label=label, timeout=3000)
        if v.violated:
            lines = open(tr).read().splitlines()
            start = v.line - 1
            while start > 0 and '"ev":"start"' not in lines[start]:
                start -= 1
            keep = ctx.save_replay(v.bad.split("(")[0], {"clause": v.bad, "trace_line": v.line, "notes": r.get("notes", [])[:5],
                                                          "schedule_trace": [json.loads(x) for x in lines[start:v.line]]})
            ctx.violation(v.bad, keep, "EndToEndProp clause %s broken at trace line %d: %s" % (v.bad, v.line, lines[v.line - 1][:300]))
            return
    for need in ("net:lose", "net:refuse", "net:slow", "dropped"):
        if named.get(need, 0) == 0 and not (ctx.violations or locals().get("fails")):  # no vacuity verdict once something was found
            raise vlib.MachineryError("vacuity: %s never reached" % need)
    ctx.cov["named_situations"] = named
    ctx.cov["rule"] = "hand-written core schedules plus seeded random schedules over {datagram, second passes, next request refused | response lost | slow | ok} x retry window x shards x slots"


def replay(ctx, path):
    print(open(path).read()[:4000])
    return 0
