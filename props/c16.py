"""C16 -- each backend flush request completes exactly once under any transport fault.
R1: Sender.tla (Run / innerRun / cleanup of the socket sender, label by label) composed with the CompletionProp monitor; the code
    as found (stale sink / streamCancel) must be refuted.
R2: SenderSched.tla and BackendSched.tla fault schedules (+ Core schedules).
S2: harness c16: the real sender.Sender over a scripted ConnFactory, and 12 real backend variants (graphite, statsdaemon tcp/udp,
    datadog, influxdb, newrelic x2, otlp x2, cloudwatch, stdout, null) over in-memory transports, in synctest bubbles.
R3: CompletionTrace.tla.
CompletionProp also holds the caller: every SendMetricsAsync call returns (ret events; FlusherNotBlocked), also when the request is cancelled
    while a socket sender's queue is full."""
import json
import os
import vlib

LEVEL = "model_checking"
R1 = """SPECIFICATION Spec
CONSTANTS NStreams = %d MaxPerConn = 2 MaxFaults = %d ClearStale = %s BufsOf <- %s
INVARIANTS MonitorQuiet AllAnswered
CHECK_DEADLOCK FALSE
"""
SCHED = """SPECIFICATION Spec
CONSTANTS MaxLen = %d
CONSTRAINT Emit
CHECK_DEADLOCK FALSE
"""


def drive(ctx, module, label, ml, sim, depth, test, env, named):
    cfg = ctx.write_cfg("%s.%s.cfg" % (module, label), SCHED % ml)
    cases = ctx.path("%s-%s.ndjson" % (module, label))
    if sim:
        ctx.tlc_generate(module, cfg, cases, label=label, simulate=sim, depth=depth, workers=1, timeout=3000)
    else:
        ctx.tlc_generate(module, cfg, cases, label=label, timeout=3000)
    out, tr = ctx.path("out-%s-%s.json" % (module, label)), ctx.path("trace-%s-%s.ndjson" % (module, label))
    e = {"VERIF_CASES": cases, "VERIF_OUT": out, "VERIF_TRACE_OUT": tr}
    e.update(env)
    rc, txt, wall = ctx.go_test("c16", run=test, env=e, timeout=3000)
    if rc != 0 or not os.path.exists(out):
        crash = vlib.crash_attribution(txt)
        if crash:
            keep = ctx.save_replay("process-killed", {"fatal": crash[0], "stack": crash[1]})
            ctx.violation("process-killed:" + crash[0][:50], keep, "the test process died inside gostatsd backend code: " + crash[0])
            return
        raise vlib.MachineryError("harness c16 %s failed (rc=%d)\n%s" % (test, rc, txt[-3000:]))
    os.unlink(cases)
    r = vlib.read_results(out)
    v = ctx.tlc_validate("CompletionTrace", "CompletionTrace.cfg", tr, r["traces"], label=module + "-" + label, timeout=3000)
    ctx.cov["evaluations"] += r["evaluations"]
    ctx.cov["distinct_nontrivial"] += r["distinct_nontrivial"]
    ctx.cov["traces_validated_against_impl"] += r["evaluations"]
    ctx.cov["samples"] += r["samples"][:2]
    for k, n in r["named"].items():
        named[k] = named.get(k, 0) + n
    if v.violated:
        lines = open(tr).read().splitlines()
        start = v.line - 1
        while start > 0 and '"ev":"reset"' not in lines[start]:
            start -= 1
        what = json.loads(lines[start]).get("what", "?")
        tail = [json.loads(x) for x in lines[start:v.line] if '"attempt"' not in x][-60:]
        keep = ctx.save_replay(v.bad.split("(")[0] + "-" + what.replace("/", "_"), {"clause": v.bad, "backend": what, "trace_line": v.line, "run_trace": tail})
        ctx.violation(v.bad + ":" + what, keep, "%s: CompletionProp clause %s broken at trace line %d: %s" % (what, v.bad, v.line, lines[v.line - 1][:300]))


def run(ctx):
    for ns, mf, bufs in ([(3, 3, "B3")] if ctx.tier == "quick" else [(3, 3, "B3"), (4, 3, "B4"), (3, 4, "B3")]):
        ctx.tlc_check("MCSender", ctx.write_cfg("MCSender.%d-%d.cfg" % (ns, mf), R1 % (ns, mf, "TRUE", bufs)), label="streams=%d faults=%d" % (ns, mf), timeout=3000)
    bad = ctx.tlc_check("MCSender", ctx.write_cfg("MCSender.stale.cfg", R1 % (3, 3, "FALSE", "B3")), label="stale sink/streamCancel (must fail)", must_pass=False)
    if not bad.violated:
        raise vlib.MachineryError("vacuity: the sender as found was not refuted")
    named = {}
    quick = ctx.tier == "quick"
    drive(ctx, "SenderSched", "bfs3", 3, None, None, "TestSender", {}, named)
    drive(ctx, "SenderSched", "sim9", 9, "num=%d" % (300 if quick else 10000), 10, "TestSender", {}, named)
    drive(ctx, "BackendSched", "bfs2", 2, None, None, "TestBackends", {"VERIF_EVERY": "4" if quick else "1"}, named)
    drive(ctx, "BackendSched", "sim7", 7, "num=%d" % (40 if quick else 800), 8, "TestBackends", {"VERIF_EVERY": "1"}, named)
    for need in ("hundred-streams", "dial-fails", "write-fails", "request-cancelled", "cancel", "fail:429ra", "fail:slow", "batches:0", "batches:3",
                 "variant:datadog", "variant:graphite/tags", "variant:cloudwatch", "variant:otlp/AsGauge"):
        if named.get(need, 0) == 0 and not (ctx.violations or locals().get("fails")):  # no vacuity verdict once something was found
            raise vlib.MachineryError("vacuity: %s never reached" % need)
    ctx.cov["named_situations"] = named
    ctx.cov["rule"] = ("sender: every schedule of 3 stimuli over {request with 0|1|3 buffers, 99 requests, next dial ok|fails, next write "
                       "fails, 1 s passes, cancel request k} + Core + seeded walks; backends: schedules over {request making 0|1|3 batches, "
                       "next 1|2|9 transport operations fail with 500 | connection error | 429+Retry-After | slow, advance, cancel} on 12 "
                       "variants; epilogue: recovery, 12 s, one more request with a fresh context, shutdown")
    ctx.assumptions.append("attempts are attributed to requests by the series names inside the payload (repeated gzip layers are peeled: "
                           "newrelic compresses its body again on every retry)")


def replay(ctx, path):
    print(open(path).read()[:3000])
    return 0
