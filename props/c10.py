"""C10 -- static tags, tag de-duplication and filters follow the documented rules.
TagStage.tla: declarative result (P) vs the ordered loop + in-place tag de-duplication (I); MCTagStage enumerates
(filter list, static tags, metric); harness c10 drives real TagHandlers; the 'series coincide' clause runs the MCMerge
families through the tag stage's own collision merge (harness c07, signatures TagStage:*)."""
import os
import vlib

LEVEL = "model_checking"
GEN = """SPECIFICATION Spec
CONSTANTS MaxFilters = %d PoolKind = "%s" BreakOnExclude = %s
INVARIANT IAgreesWithP
CONSTRAINT Emit
CHECK_DEADLOCK FALSE
"""
MERGE = """SPECIFICATION Spec
CONSTANTS MaxMaps = %d PoolKind = "%s"
INVARIANT Law
CONSTRAINT Emit
CHECK_DEADLOCK FALSE
"""


def run(ctx):
    fails, named = [], {}
    bad = ctx.tlc_check("MCTagStage", ctx.write_cfg("MCTagStage.break.cfg", GEN.replace("CONSTRAINT Emit\n", "") % (2, "chain", "TRUE")),
                        label="an exclude hit ends the filter chain (must fail)", must_pass=False, timeout=3000)
    if bad.violated != "IAgreesWithP":
        raise vlib.MachineryError("vacuity: the break-on-exclude variant was not refuted")
    plans = [("f1-small", 1, "small", None), ("f2-pairs", 2, "pairs", None), ("f2-chain", 2, "chain", None), ("f2-full-sim", 3, "full", "num=%d" % (40000 if ctx.tier == "quick" else 600000))]
    for label, mf, pool, sim in plans:
        cfg = ctx.write_cfg("MCTagStage.%s.cfg" % label, GEN % (mf, pool, "FALSE"))
        cases = ctx.path("tags-%s.ndjson" % label)
        if sim:
            n = ctx.tlc_generate("MCTagStage", cfg, cases, label=label, simulate=sim, depth=mf + 1, workers=1, timeout=3000)
        else:
            n = ctx.tlc_generate("MCTagStage", cfg, cases, label=label, timeout=3000)
        out = ctx.path("out-%s.json" % label)
        rc, txt, wall = ctx.go_test("c10", run="TestCases", env={"VERIF_CASES": cases, "VERIF_OUT": out})
        if rc != 0 or not os.path.exists(out):
            raise vlib.MachineryError("harness c10 failed (rc=%d)\n%s" % (rc, txt[-3000:]))
        r = vlib.read_results(out)
        os.unlink(cases)
        ctx.cov["traces_validated_against_impl"] += n
        ctx.cov["evaluations"] += r["evaluations"]
        ctx.cov["distinct_nontrivial"] += r["distinct_nontrivial"]
        ctx.cov["samples"] += r["samples"][:2]
        fails += [f for f in r["failures"] if f["prop"] == "C10"]
        for k, v in r["named"].items():
            named[k] = named.get(k, 0) + v
    # series made to coincide by tag removal are combined without loss
    for label, mm, kind in [("single3", 3, "single"), ("mixed3", 3, "mixed")]:
        cfg = ctx.write_cfg("MCMerge.%s.cfg" % label, MERGE % (mm, kind))
        cases = ctx.path("merge-%s.ndjson" % label)
        n = ctx.tlc_generate("MCMerge", cfg, cases, label="collapse-" + label, timeout=3000)
        out = ctx.path("out-merge-%s.json" % label)
        rc, txt, wall = ctx.go_test("c07", run="TestCases", env={"VERIF_CASES": cases, "VERIF_OUT": out})
        if rc != 0 or not os.path.exists(out):
            raise vlib.MachineryError("harness c07 failed (rc=%d)\n%s" % (rc, txt[-3000:]))
        r = vlib.read_results(out)
        os.unlink(cases)
        ctx.cov["traces_validated_against_impl"] += n
        named["collapse-families"] = named.get("collapse-families", 0) + n
        fails += [dict(f, prop="C10") for f in r["failures"] if f["sig"].startswith("TagStage:")]
    for need in ("dropped", "host-cleared", "tags-removed", "collapse-families"):
        if named.get(need, 0) == 0 and not (ctx.violations or locals().get("fails")):  # no vacuity verdict once something was found
            raise vlib.MachineryError("vacuity: %s never reached" % need)
    ctx.cov["named_situations"] = named
    ctx.cov["exhaustive"] = True
    ctx.cov["rule"] = ("exhaustive: 1 filter over the 5-pattern pool (each of match-metrics / exclude-metrics / match-tags / drop-tags "
                       "empty or one pattern, both drop flags) x 4 static lists x 3 names x 8 tag lists (duplicates, overlaps); seeded "
                       "simulation: up to 3 filters over the 12-pattern pool with two-pattern lists; every metric in all four types "
                       "through long-lived handlers; plus MCMerge families through the tag stage's collision merge")
    seen = set()
    for f in fails:
        if f["sig"] in seen:
            continue
        seen.add(f["sig"])
        ctx.violation(f["sig"], ctx.save_replay(f["sig"].replace(":", "_"), f), f["desc"])


def replay(ctx, path):
    print(open(path).read()[:3000])
    return 0
