"""C11 -- cloud enrichment forwards every item exactly once, correctly tagged.
R1: CloudHandler.tla (select arms of Run, parking, toLookupIPs, gauges as integers) composed with the EnrichProp monitor; the
    pre-fix gauge accounting must be refuted.  R2: CloudSched.tla stimulus schedules.  S2: harness c11 (real CloudHandler, driver-owned
    CachedInstances, capturing downstream, fake Statser, synctest).  R3: EnrichTrace.tla."""
import json
import os
import vlib

LEVEL = "model_checking"
R1 = """SPECIFICATION Spec
CONSTANTS Sources = {"x", "y"} MaxArrivals = %d CountPerQueue = %s PeekAtRelease = %s
INVARIANTS MonitorQuiet GaugesNonNegative StageEmpty
CHECK_DEADLOCK FALSE
"""
SCHED = """SPECIFICATION Spec
CONSTANTS MaxLen = %d Sources = {"x", "y"}
CONSTRAINT Emit
CHECK_DEADLOCK FALSE
"""


def execute(ctx, props):
    ctx.tlc_check("CloudHandler", ctx.write_cfg("CloudHandler.r1.cfg", R1 % (4 if ctx.tier == "quick" else 5, "TRUE", "FALSE")), label="per-queue host counting", timeout=3000)
    bad = ctx.tlc_check("CloudHandler", ctx.write_cfg("CloudHandler.old.cfg", R1 % (3, "FALSE", "FALSE")), label="pre-fix host counting (must fail)", must_pass=False)
    if bad.violated not in ("MonitorQuiet", "GaugesNonNegative"):
        raise vlib.MachineryError("vacuity: pre-fix gauge accounting not refuted")
    bad = ctx.tlc_check("CloudHandler", ctx.write_cfg("CloudHandler.peek.cfg", R1 % (3, "TRUE", "TRUE")), label="failed lookup enriched from the cache at release (must fail)", must_pass=False)
    if bad.violated != "MonitorQuiet":
        raise vlib.MachineryError("vacuity: enrichment from the cache at release not refuted")
    plans = [("bfs4", 4, None, None)] + ([("sim9", 9, "num=%d" % 300, 10)] if ctx.tier == "quick" else [("bfs5", 5, None, None), ("sim12", 12, "num=3000", 13)])
    named, fails = {}, []
    for label, ml, sim, depth in plans:
        cfg = ctx.write_cfg("CloudSched.%s.cfg" % label, SCHED % ml)
        cases = ctx.path("cloud-%s.ndjson" % label)
        if sim:
            ctx.tlc_generate("CloudSched", cfg, cases, label=label, simulate=sim, depth=depth, workers=1, timeout=3000)
        else:
            ctx.tlc_generate("CloudSched", cfg, cases, label=label, timeout=3000)
        out, tr = ctx.path("out-%s.json" % label), ctx.path("trace-%s.ndjson" % label)
        rc, txt, wall = ctx.go_test("c11", run="TestSchedules", env={"VERIF_CASES": cases, "VERIF_OUT": out, "VERIF_TRACE_OUT": tr}, timeout=3000)
        if rc != 0 or not os.path.exists(out):
            raise vlib.MachineryError("harness c11 failed (rc=%d)\n%s" % (rc, txt[-3000:]))
        os.unlink(cases)
        r = vlib.read_results(out)
        ctx.cov["evaluations"] += r["evaluations"]
        ctx.cov["distinct_nontrivial"] += r["distinct_nontrivial"]
        ctx.cov["traces_validated_against_impl"] += r["evaluations"]
        ctx.cov["samples"] += r["samples"][:2]
        fails += [f for f in r["failures"] if f["prop"] in props]
        for k, n in r["named"].items():
            named[k] = named.get(k, 0) + n
        if "C11" in props:
            v = ctx.tlc_validate("EnrichTrace", "EnrichTrace.cfg", tr, r["traces"], label=label, timeout=3000)
            if v.violated:
                lines = open(tr).read().splitlines()
                start = v.line - 1
                while start > 0 and '"ev":"reset"' not in lines[start]:
                    start -= 1
                keep = ctx.save_replay(v.bad.split("(")[0], {"clause": v.bad, "trace_line": v.line,
                                                              "schedule_trace": [json.loads(x) for x in lines[start:v.line]]})
                ctx.violation(v.bad, keep, "EnrichProp clause %s broken at trace line %d: %s" % (v.bad, v.line, lines[v.line - 1][:400]))
    return fails, named


def run(ctx):
    fails, named = execute(ctx, ("C11",))
    for need in ("metrics-after-parked-event-same-source", "event-after-parked-metrics-same-source", "second-batch-for-pending-source",
                 "answer-negative", "empty-source", "emit", "failed-lookup-cache-keeps-instance"):
        if named.get(need, 0) == 0 and not (ctx.violations or locals().get("fails")):  # no vacuity verdict once something was found
            raise vlib.MachineryError("vacuity: %s never reached" % need)
    ctx.cov["named_situations"] = named
    ctx.cov["exhaustive"] = True
    ctx.cov["rule"] = ("every stimulus sequence up to MaxLen over {metric batch | event from x | y | no source, service takes a lookup, "
                       "service answers pos | neg, emit}, plus seeded longer walks; each on a fresh real CloudHandler; the driver's "
                       "epilogue serves all lookups; one evaluation = one schedule")
    seen = set()
    for f in fails:
        if f["sig"] in seen:
            continue
        seen.add(f["sig"])
        ctx.violation(f["sig"], ctx.save_replay(f["sig"].replace(":", "_"), f), f["desc"])


def replay(ctx, path):
    print(open(path).read()[:4000])
    return 0
