"""C06 -- shard routing is a deterministic partition of series.
R1 MCSplit (algebra for every bucket function); R2 batch structures; harness c06 records real Split / DispatchMetricMap
results; R3 PartitionTrace judges the recorded trace (route learned on first sight).
Stage: C01's pipeline driver with ConservationProp's OncePerFlush / same-aggregator clauses (every shard reports exactly once per flush)."""
import json
import os
import vlib

LEVEL = "model_checking"
GEN = """SPECIFICATION Spec
CONSTANTS NKeys = %d MaxN = %d MaxBatches = %d
CONSTRAINT Emit
CHECK_DEADLOCK FALSE
"""


def run(ctx):
    plans = [("k4b2", 1, 4, 2), ("k8b1", 2, 4, 1)]
    if ctx.tier == "thorough":
        plans += [("k4b3", 1, 6, 3), ("k12b1", 3, 5, 1)]
    named = {}
    for label, nk, maxn, mb in plans:
        cfg = ctx.write_cfg("MCSplit.%s.cfg" % label, GEN % (nk, maxn, mb))
        cases = ctx.path("split-%s.ndjson" % label)
        ctx.tlc_generate("MCSplit", cfg, cases, label=label)
        out, tr = ctx.path("out-%s.json" % label), ctx.path("trace-%s.ndjson" % label)
        rc, txt, wall = ctx.go_test("c06", run="TestCases", env={"VERIF_CASES": cases, "VERIF_OUT": out, "VERIF_TRACE_OUT": tr})
        if rc != 0 or not os.path.exists(out):
            raise vlib.MachineryError("harness c06 failed (rc=%d)\n%s" % (rc, txt[-3000:]))
        r = vlib.read_results(out)
        nlines = r["traces"]
        v = ctx.tlc_validate("PartitionTrace", "PartitionTrace.cfg", tr, nlines, label=label)
        ctx.cov["evaluations"] += r["evaluations"]
        ctx.cov["distinct_nontrivial"] += r["distinct_nontrivial"]
        ctx.cov["traces_validated_against_impl"] += nlines
        ctx.cov["samples"] += r["samples"][:2]
        if v.violated:
            lines = open(tr).read().splitlines()
            ev = lines[v.line - 1] if 0 < v.line <= len(lines) else ""
            keep = ctx.save_replay(v.bad.replace("(", "_").replace(")", ""), {"clause": v.bad, "trace_line": v.line, "event": json.loads(ev) if ev else None,
                                                                               "trace_prefix": lines[max(0, v.line - 3):v.line]})
            ctx.violation(v.bad, keep, "PartitionProp clause %s broken at trace line %d: %s" % (v.bad, v.line, ev[:600]))
        named[label] = nlines
    # the route depends on the series and the shard count only: not on what was split before (same-bytes pairs across a history larger
    # than any bounded memo), not on what other goroutines split at the same moment (recorded run, same trace format, same monitor)
    out, tr = ctx.path("out-history.json"), ctx.path("trace-history.ndjson")
    rc, txt, wall = ctx.go_test("c06", run="TestHistory", env={"VERIF_OUT": out, "VERIF_TRACE_OUT": tr})
    if rc != 0 or not os.path.exists(out):
        sig = vlib.crash_attribution(txt)
        if sig:
            ctx.violation("crash:" + sig[0], ctx.save_replay("crash", {"output": sig[1]}), "splitting crashed: " + sig[0])
        else:
            raise vlib.MachineryError("harness c06 TestHistory failed (rc=%d)\n%s" % (rc, txt[-3000:]))
    else:
        r = vlib.read_results(out)
        v = ctx.tlc_validate("PartitionTrace", "PartitionTrace.cfg", tr, r["traces"], label="history")
        ctx.cov["evaluations"] += r["evaluations"]
        ctx.cov["traces_validated_against_impl"] += r["traces"]
        for k, n in r["named"].items():
            named[k] = named.get(k, 0) + n
        if v.violated:
            lines = open(tr).read().splitlines()
            ev = lines[v.line - 1] if 0 < v.line <= len(lines) else ""
            keep = ctx.save_replay(v.bad.replace("(", "_").replace(")", "") + "-history", {"clause": v.bad, "trace_line": v.line, "event": json.loads(ev) if ev else None,
                                                                                            "trace_prefix": lines[max(0, v.line - 4):v.line]})
            ctx.violation(v.bad, keep, "PartitionProp clause %s broken (history / concurrent splits) at trace line %d: %s" % (v.bad, v.line, ev[:400]))
    # the statement's series identity is (name, tag set, source); the map's is (name, a string built from tags and source): pairs of
    # triples that spell the same string (finding 19, recorded)
    tk = "SPECIFICATION Spec\nCONSTANT Escape = %s\nINVARIANT InjectiveNow\nCHECK_DEADLOCK FALSE\n"
    bad = ctx.tlc_check("TagsKey", ctx.write_cfg("TagsKey.code.cfg", tk % "FALSE"), label="the tags key as the code builds it is injective (must fail: finding 19)", must_pass=False)
    if bad.violated != "InjectiveNow":
        raise vlib.MachineryError("TagsKey.tla: the code's key format was not shown to collide (%s)" % bad.violated)
    ctx.tlc_check("TagsKey", ctx.write_cfg("TagsKey.esc.cfg", tk % "TRUE"), label="an escaping key format is injective")
    out = ctx.path("out-identity.json")
    rc, txt, wall = ctx.go_test("c06", run="TestIdentity", env={"VERIF_OUT": out})
    if rc != 0 or not os.path.exists(out):
        raise vlib.MachineryError("harness c06 TestIdentity failed (rc=%d)\n%s" % (rc, txt[-3000:]))
    r = vlib.read_results(out)
    ctx.cov["evaluations"] += r["evaluations"]
    ctx.cov["traces_validated_against_impl"] += r["evaluations"]
    for k, n in r["named"].items():
        named[k] = named.get(k, 0) + n
    seen_sig = set()
    for f in r["failures"]:
        if f["sig"] not in seen_sig:
            seen_sig.add(f["sig"])
            ctx.violation(f["sig"], ctx.save_replay(f["sig"].replace(":", "_"), f), f["desc"])
    # "is reported at most once per flush", end to end: the pipeline schedules of C01 (workers held in ReceiveMap / Flush / before Reset
    # while the flusher ticks), judged on the clauses that are this property's
    import c01
    pn = c01.stage(ctx, [("sim9", 9, 4, 3, "num=%d" % (100 if ctx.tier == "quick" else 2000), 10)], clauses=("SameAggregator", "NoDupInFlush", "OncePerFlush"))
    named["pipeline:tick-while-merge-held"] = pn.get("tick-while-merge-held", 0)
    ctx.cov["named_situations"] = named
    ctx.cov["exhaustive"] = True
    ctx.cov["rule"] = ("every sequence of <= MaxBatches non-empty subsets of the abstract key pool x shard counts 1..MaxN, plus "
                       "seeded random batches with 1..16 shards; each batch goes through MetricMap.Split and through a real "
                       "BackendHandler with recording aggregators; series identities include twins that differ only in source, "
                       "only in tag set, empty names, and seeded tag order")
    ctx.assumptions.append("the route is learned from the first observation of (series, n): a routing that is consistently wrong "
                           "is indistinguishable from a different hash and is not a violation")


def replay(ctx, path):
    print(open(path).read()[:3000])
    return 0
