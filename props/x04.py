"""X04 (beyond the listed properties) -- the flush notifier: the "a flush has happened" fan-out of pkg/stats that the receiver, the parsers,
the cloud handler, the forwarder and the channel watchers register on and the flusher notifies.
R1: FlushNotifier.tla (registrants registering / parking / unregistering against the notifier's loop, the RWMutex, the in-place filter of
    the target slice) with the latched clauses NoSendOnClosed / AtMostOnce / ParkedGetsIt; the deviation "copy the slice header under the
    lock, send after releasing it" must be refuted.
R2: FlushNotifierSeq.tla: every sequential history up to the bound with the observation each step must produce.
    ChangeGauge.tla: prev / pending of pkg/stats/change_gauge.go against the doc comment's "sent for 22 flush intervals" on every history
    of set v / send k (k around the repeat count), each replayed into the real ChangeGauge.
S1: harness notif replays them into the real notifier inside NullStatser / LoggingStatser / InternalStatser (and their tagged views) in a
    synctest bubble; a concurrent run on the real scheduler is judged by the clauses that do not need the interleaving.
Not in MANIFEST.json (the property list is fixed); run with ./check X04 --tier quick|thorough."""
import os
import vlib

LEVEL = "model_checking"
R1 = """SPECIFICATION Spec
CONSTANTS Ids <- %s MaxNotifies = %d MaxRegs = %d SnapshotThenSend = %s
INVARIANTS MonitorQuiet %s
CHECK_DEADLOCK FALSE
"""
WATCH = """SPECIFICATION Spec
CONSTANTS Cap = %d MaxLen = %d
INVARIANTS AlwaysASample
CONSTRAINT Emit
CHECK_DEADLOCK FALSE
"""
CG = """SPECIFICATION Spec
CONSTANTS MaxLen = %d Repeat = 22
INVARIANT IAgreesWithP
CONSTRAINT Emit
CHECK_DEADLOCK FALSE
"""
GEN = """SPECIFICATION Spec
CONSTANTS Ids <- %s MaxLen = %d
INVARIANTS ParkedAreRegistered
CONSTRAINT Emit
CHECK_DEADLOCK FALSE
"""


def run(ctx):
    quick = ctx.tier == "quick"
    ctx.tlc_check("MCFlushNotifier", ctx.write_cfg("FlushNotifier.r1.cfg", R1 % ("I3", 2, 2, "FALSE", "InBounds")), label="as coded, 3 registrants", timeout=3000)
    if not quick:
        ctx.tlc_check("MCFlushNotifier", ctx.write_cfg("FlushNotifier.r1b.cfg", R1 % ("I4", 3, 2, "FALSE", "InBounds")), label="as coded, 4 registrants", timeout=6000)
    bad = ctx.tlc_check("MCFlushNotifier", ctx.write_cfg("FlushNotifier.dev.cfg", R1 % ("I3", 2, 2, "TRUE", "")), label="snapshot then send (must fail)", must_pass=False)
    if bad.violated != "MonitorQuiet":
        raise vlib.MachineryError("vacuity: deviation 'snapshot then send' not refuted")
    fails, named = [], {}
    for label, ids, ml in ([("i2-6", "I2", 6), ("i3-5", "I3", 5)] if quick else [("i2-7", "I2", 7), ("i3-6", "I3", 6)]):
        cfg = ctx.write_cfg("FlushNotifierSeq.%s.cfg" % label, GEN % (ids, ml))
        cases = ctx.path("fn-%s.ndjson" % label)
        ctx.tlc_generate("MCFlushNotifierSeq", cfg, cases, label=label, timeout=3000)
        out = ctx.path("out-%s.json" % label)
        rc, txt, wall = ctx.go_test("notif", run="TestCases", env={"VERIF_CASES": cases, "VERIF_OUT": out}, timeout=3000)
        if rc != 0 or not os.path.exists(out):
            raise vlib.MachineryError("harness notif failed (rc=%d)\n%s" % (rc, txt[-3000:]))
        os.unlink(cases)
        r = vlib.read_results(out)
        ctx.cov["traces_validated_against_impl"] += r["evaluations"]
        ctx.cov["evaluations"] += r["evaluations"]
        ctx.cov["distinct_nontrivial"] += r["distinct_nontrivial"]
        ctx.cov["samples"] += r["samples"][:2]
        fails += r["failures"]
        for k, v in r["named"].items():
            named[k] = named.get(k, 0) + v
    for label, cap_, ml in ([("w2-7", 2, 7)] if quick else [("w2-8", 2, 8), ("w3-7", 3, 7)]):
        cfg = ctx.write_cfg("ChannelWatcher.%s.cfg" % label, WATCH % (cap_, ml))
        cases = ctx.path("cw-%s.ndjson" % label)
        ctx.tlc_generate("ChannelWatcher", cfg, cases, label=label, timeout=3000)
        out = ctx.path("out-%s.json" % label)
        rc, txt, wall = ctx.go_test("notif", run="TestWatcher", env={"VERIF_CASES": cases, "VERIF_OUT": out}, timeout=3000)
        if rc != 0 or not os.path.exists(out):
            raise vlib.MachineryError("harness notif (watcher) failed (rc=%d)\n%s" % (rc, txt[-3000:]))
        os.unlink(cases)
        r = vlib.read_results(out)
        ctx.cov["traces_validated_against_impl"] += r["evaluations"]
        ctx.cov["evaluations"] += r["evaluations"]
        fails += r["failures"]
        for k, v in r["named"].items():
            named[k] = named.get(k, 0) + v
    # the change gauge (parser.bad_lines_seen, the backends' retried-batch counters): I = P on every history, every history replayed
    cfg = ctx.write_cfg("ChangeGauge.cfg", CG % (4 if quick else 5))
    cases = ctx.path("cg.ndjson")
    ctx.tlc_generate("ChangeGauge", cfg, cases, label="change gauge", timeout=3000)
    out = ctx.path("out-cg.json")
    rc, txt, wall = ctx.go_test("notif", run="TestChangeGauge", env={"VERIF_CASES": cases, "VERIF_OUT": out}, timeout=3000)
    if rc != 0 or not os.path.exists(out):
        raise vlib.MachineryError("harness notif (change gauge) failed (rc=%d)\n%s" % (rc, txt[-3000:]))
    os.unlink(cases)
    r = vlib.read_results(out)
    ctx.cov["traces_validated_against_impl"] += r["evaluations"]
    ctx.cov["evaluations"] += r["evaluations"]
    fails += r["failures"]
    for k, v in r["named"].items():
        named[k] = named.get(k, 0) + v
    out = ctx.path("out-conc.json")
    rc, txt, wall = ctx.go_test("notif", run="TestConcurrent", env={"VERIF_OUT": out}, timeout=3000)
    if rc != 0 or not os.path.exists(out):
        raise vlib.MachineryError("harness notif (concurrent) failed (rc=%d)\n%s" % (rc, txt[-3000:]))
    r = vlib.read_results(out)
    ctx.cov["evaluations"] += r["evaluations"]
    fails += r["failures"]
    for k, v in r["named"].items():
        named[k] = named.get(k, 0) + v
    for need in ("delivered", "dropped-for-a-busy-registrant", "woken-by-close", "churn-registration", "steady-received", "minimum-above-zero", "several-samples",
                 "change-gauge-sent", "change-gauge-silent", "change-gauge-sent-at-the-22nd-call"):
        if named.get(need, 0) == 0 and not (ctx.violations or fails):
            raise vlib.MachineryError("vacuity: %s never reached" % need)
    ctx.cov["named_situations"] = named
    ctx.cov["exhaustive"] = True
    ctx.cov["rule"] = ("every sequential history of reg / park / notify / unreg up to MaxLen (6 with 2 registrants, 5 with 3; thorough 7 and 6), "
                       "each on the three statsers that embed the notifier and through a tagged view; one evaluation = one step whose "
                       "observation (who received what, who was woken by the close, the call returned) was compared; plus concurrent rounds "
                       "of 3000 notifications against 6-11 churning registrants and one steady one")
    ctx.assumptions.append("the concurrent stage cannot choose its interleavings; it is judged only by clauses that hold for every one")
    seen = set()
    for f in fails:
        if f["sig"] in seen:
            continue
        seen.add(f["sig"])
        ctx.violation(f["sig"], ctx.save_replay(f["sig"].replace(":", "_"), f), f["desc"])


def replay(ctx, path):
    print(open(path).read()[:3000])
    return 0
