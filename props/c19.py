"""C19 -- every event is delivered once to every backend with its fields intact; WaitForEvents returns only after delivery.
R1: EventPipeline.tla (cloud stage wait group incremented before parking and decremented after forwarding, backend wait group
    += B per event, semaphore tokens, WaitForEvents = cloud wait then backend wait) composed with the EventProp monitor; the same
    model with the two waits swapped must be refuted.  R2: EventSched.tla configurations x stimulus schedules with the event fields
    Grammar!PLine assigns to each line.  S2: harness c19 (real DatagramParser -> CloudHandler -> TagHandler -> BackendHandler with
    recording backends that honour their context, the real /v2/event endpoint whose request context is cancelled on return, the real
    forwarder to a scripted upstream; synctest).  R3: EventTrace.tla.
Stage: C12's cache driver (an unanswered lookup is an undelivered event).  Schedules include backend send errors, datagram events in
    forwarder mode, invalid UTF-8 tags, cache eviction and unasked refresh."""
import json
import os
import vlib

LEVEL = "model_checking"
R1 = """SPECIFICATION Spec
CONSTANTS NEvents = %d B = %d Tokens = %d WaitOrderSwapped = %s LeakTokenOnError = %s
INVARIANTS MonitorQuiet
CHECK_DEADLOCK FALSE
"""
SCHED = """SPECIFICATION Spec
CONSTANTS MaxLen = %d
CONSTRAINT Emit
CHECK_DEADLOCK FALSE
"""


def run(ctx):
    quick = ctx.tier == "quick"
    ctx.tlc_check("EventPipeline", ctx.write_cfg("EventPipeline.r1.cfg", R1 % (3, 2, 1, "FALSE", "FALSE")), label="wait groups, B=2 tokens=1", timeout=3000)
    if not quick:
        ctx.tlc_check("EventPipeline", ctx.write_cfg("EventPipeline.r1b.cfg", R1 % (4, 2, 2, "FALSE", "FALSE")), label="wait groups, 4 events B=2 tokens=2", timeout=3000)
        ctx.tlc_check("EventPipeline", ctx.write_cfg("EventPipeline.r1c.cfg", R1 % (3, 3, 2, "FALSE", "FALSE")), label="wait groups, B=3 tokens=2", timeout=3000)
    bad = ctx.tlc_check("EventPipeline", ctx.write_cfg("EventPipeline.swap.cfg", R1 % (2, 1, 1, "TRUE", "FALSE")), label="backend wait before cloud wait (must fail)", must_pass=False)
    if bad.violated != "MonitorQuiet":
        raise vlib.MachineryError("vacuity: swapped wait order not refuted")
    bad = ctx.tlc_check("EventPipeline", ctx.write_cfg("EventPipeline.leak.cfg", R1 % (3, 2, 1, "FALSE", "TRUE")), label="token kept after a failed send (must fail)", must_pass=False)
    if bad.violated != "MonitorQuiet":
        raise vlib.MachineryError("vacuity: token leak on a failed send not refuted")
    plans = [("bfs3", 3, None, None), ("sim8", 8, "num=400", 9)] if quick else [("bfs4", 4, None, None), ("sim10", 10, "num=3000", 11)]
    named = {}
    for label, ml, sim, depth in plans:
        cfg = ctx.write_cfg("EventSched.%s.cfg" % label, SCHED % ml)
        cases = ctx.path("ev-%s.ndjson" % label)
        if sim:
            ctx.tlc_generate("EventSched", cfg, cases, label=label, simulate=sim, depth=depth, workers=1, timeout=3000)
        else:
            ctx.tlc_generate("EventSched", cfg, cases, label=label, timeout=3000)
        out, tr = ctx.path("out-%s.json" % label), ctx.path("trace-%s.ndjson" % label)
        rc, txt, wall = ctx.go_test("c19", run="TestSchedules", env={"VERIF_CASES": cases, "VERIF_OUT": out, "VERIF_TRACE_OUT": tr}, timeout=3000)
        if rc != 0 or not os.path.exists(out):
            sig = vlib.crash_attribution(txt)
            if sig:
                ctx.violation("crash:" + sig[0], ctx.save_replay("crash", {"output": sig[1]}), "the event path crashed inside gostatsd: " + sig[0])
                return
            raise vlib.MachineryError("harness c19 failed (rc=%d)\n%s" % (rc, txt[-3000:]))
        os.unlink(cases)
        r = vlib.read_results(out)
        ctx.cov["evaluations"] += r["evaluations"]
        ctx.cov["distinct_nontrivial"] += r["distinct_nontrivial"]
        ctx.cov["traces_validated_against_impl"] += r["evaluations"]
        ctx.cov["samples"] += r["samples"][:2]
        for k, n in r["named"].items():
            named[k] = named.get(k, 0) + n
        v = ctx.tlc_validate("EventTrace", "EventTrace.cfg", tr, r["traces"], label=label, timeout=3000)
        if v.violated:
            lines = open(tr).read().splitlines()
            start = v.line - 1
            while start > 0 and '"ev":"start"' not in lines[start]:
                start -= 1
            notes = [n for n in r.get("notes", [])][:5]
            keep = ctx.save_replay(v.bad.split("(")[0], {"clause": v.bad, "trace_line": v.line, "notes": notes,
                                                          "schedule_trace": [json.loads(x) for x in lines[start:v.line]]})
            ctx.violation(v.bad, keep, "EventProp clause %s broken at trace line %d: %s" % (v.bad, v.line, lines[v.line - 1][:400]))
            return
    # the instance cache behind the cloud stage: an event parked for a lookup leaves only when the cache answers, also for an address it
    # already holds (C12's driver: real CachedCloudProvider, scripted provider); an unanswered lookup is an undelivered event
    import c12
    _, found = c12.stage(ctx, [("bfs3", 3, None, None)])
    for clause, keep, desc in found:
        if clause.startswith("AnswerOnce"):
            ctx.violation("Delivered(cache:" + clause + ")", keep, "an event waiting for this lookup would never be delivered: " + desc)
            return
    for need in ("lookup-pending", "backend-held", "wait", "http-ingested", "mode:forwarder", "mode:standalone", "B=0", "B=2"):
        if named.get(need, 0) == 0 and not (ctx.violations or locals().get("fails")):  # no vacuity verdict once something was found
            raise vlib.MachineryError("vacuity: %s never reached" % need)
    ctx.cov["named_situations"] = named
    ctx.cov["exhaustive"] = True
    ctx.cov["rule"] = ("every configuration (standalone with 0..2 backends and 1..2 event tokens | forwarder) x every stimulus sequence up to "
                       "MaxLen over {event line k from sender s | event POSTed to /v2/event | cache learns s | service takes / answers a lookup | "
                       "hold / release backend b | WaitForEvents}, plus seeded longer walks and hand-written core schedules; each on a fresh "
                       "real pipeline; the epilogue releases all backends and serves all lookups; one evaluation = one schedule")


def replay(ctx, path):
    print(open(path).read()[:4000])
    return 0
