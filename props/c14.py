"""C14 -- what a forwarder encodes is what the ingesting server decodes.
Codec.tla: translation tables forwarder -> protobuf -> ingestion as record transformations (RoundTripOK) and the structural
enumeration; harness c14 composes the two real halves (HttpForwarderHandlerV2 -> in-memory RoundTripper -> real ingestion router);
undecodable bodies: harness c14's corruption pass and the HttpIngest.tla request classes through harness c03 (signatures http-*)."""
import os
import vlib
import c03

LEVEL = "model_checking"
GEN = """SPECIFICATION Spec
CONSTANT MaxEntries = %d
CONSTRAINT Emit
CHECK_DEADLOCK FALSE
"""


def run(ctx):
    fails, named = [], {}
    for label, me, every in ([("e1", 1, 1), ("e2", 2, 12)] if ctx.tier == "quick" else [("e1", 1, 1), ("e2", 2, 1), ("e3", 3, 40)]):
        cfg = ctx.write_cfg("Codec.%s.cfg" % label, GEN % me)
        cases = ctx.path("codec-%s.ndjson" % label)
        ctx.tlc_generate("Codec", cfg, cases, label=label, timeout=3000)
        out = ctx.path("out-%s.json" % label)
        rc, txt, wall = ctx.go_test("c14", run="TestCases", env={"VERIF_CASES": cases, "VERIF_OUT": out, "VERIF_EVERY": str(every)}, timeout=3000)
        if rc != 0 or not os.path.exists(out):
            raise vlib.MachineryError("harness c14 failed (rc=%d)\n%s" % (rc, txt[-3000:]))
        os.unlink(cases)
        r = vlib.read_results(out)
        ctx.cov["traces_validated_against_impl"] += r["evaluations"]
        ctx.cov["evaluations"] += r["evaluations"]
        ctx.cov["distinct_nontrivial"] += r["distinct_nontrivial"]
        ctx.cov["samples"] += r["samples"][:2]
        fails += [f for f in r["failures"] if f["prop"] == "C14"]
        for k, v in r["named"].items():
            named[k] = named.get(k, 0) + v
    # the ingestion side's decision table (status >= 400 and no dispatch for unreadable / undecodable bodies)
    hf, hn = [], {}
    c03.http_part(ctx, hf, hn)
    fails += [f for f in hf if f["prop"] == "C14"]
    named.update(hn)
    for need in ("comp:none", "comp:zlib", "comp:lz4", "event", "corrupted", "retry-overlap", "http:exp:reject"):
        if named.get(need, 0) == 0 and not (ctx.violations or locals().get("fails")):  # no vacuity verdict once something was found
            raise vlib.MachineryError("vacuity: %s never reached" % need)
    ctx.cov["named_situations"] = named
    ctx.cov["exhaustive"] = True
    ctx.cov["rule"] = ("maps of <= MaxEntries entries from the structural pool of Codec.tla (all four types; tag list absent / present / "
                       "non-ASCII; empty source; series differing only in source; values negative, zero, huge, +-Inf, NaN; sampled count "
                       "different from len(values); sets of size 0..2) x {off, zlib 0..9, lz4 0..9}; 256 event shapes x 4 compressions; "
                       "every 5th case with a certainly-unreadable body; plus the HttpIngest request classes")
    ctx.assumptions.append("TLC says nothing about protobuf, zlib or lz4 themselves: the decision comes from round-tripping through the real halves")
    seen = set()
    for f in fails:
        if f["sig"] in seen:
            continue
        seen.add(f["sig"])
        ctx.violation(f["sig"], ctx.save_replay(f["sig"].replace(":", "_").replace("/", "_"), f), f["desc"])


def replay(ctx, path):
    print(open(path).read()[:3000])
    return 0
