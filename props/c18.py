"""C18 -- aligned flushing happens exactly on interval boundaries.
R1: AlignedTicker.tla (ticker goroutine phases, mock-clock firing rule, non-blocking send, flusher lastFlush) composed with the
    AlignedProp monitor for several (interval, offset, start); a sendTick that rounds up must be refuted.
R2: AlignedSched.tla configurations x stimulus sequences (clock jumps, slow consumer).
S2: harness c18: real AlignedTicker on a jumping mock clock; real MetricFlusher in aligned mode on the bubble's smooth clock
    (clock reading at the invocation = flush time) and on the mock clock (elapsed time only).  R3: AlignedTrace.tla."""
import json
import os
import vlib

LEVEL = "model_checking"
R1 = """SPECIFICATION Spec
CONSTANTS I = %d O = %d S = %d MaxAdvances = %d MaxStep = %d RoundUp = %s TowardZero = %s
INVARIANTS MonitorQuiet PendingAligned
CHECK_DEADLOCK FALSE
"""
SCHED = """SPECIFICATION Spec
CONSTANTS MaxLen = %d
CONSTRAINT Emit
CHECK_DEADLOCK FALSE
"""


def run(ctx):
    insts = [(2, 0, 0), (3, 4, 5), (5, 7, 3), (2, 1, 1), (3, 0, 2)]
    if ctx.tier == "thorough":
        insts += [(5, 11, 9), (3, 7, 4), (2, 4, 2), (5, 0, 4), (3, 1, 0)]
    for i, o, s in insts:
        ctx.tlc_check("AlignedTicker", ctx.write_cfg("AlignedTicker.%d-%d-%d.cfg" % (i, o, s), R1 % (i, o, s, 5 if ctx.tier == "quick" else 6, 3 * i, "FALSE", "FALSE")),
                      label="i=%d o=%d s=%d" % (i, o, s), timeout=3000)
    bad = ctx.tlc_check("AlignedTicker", ctx.write_cfg("AlignedTicker.roundup.cfg", R1 % (3, 4, 5, 5, 9, "TRUE", "FALSE")), label="rounding up (must fail)", must_pass=False)
    if bad.violated != "MonitorQuiet":
        raise vlib.MachineryError("vacuity: rounding up not refuted")
    bad = ctx.tlc_check("AlignedTicker", ctx.write_cfg("AlignedTicker.tozero.cfg", R1 % (5, 7, 3, 5, 15, "FALSE", "TRUE")),
                        label="remainder with the sign of the dividend, start - offset before the reference instant (must fail)", must_pass=False)
    if bad.violated != "MonitorQuiet":
        raise vlib.MachineryError("vacuity: rounding towards zero not refuted")
    plans = [("sim8", 8, "num=%d" % (400 if ctx.tier == "quick" else 8000), 9)]
    if ctx.tier == "thorough":
        plans.append(("sim14", 14, "num=4000", 15))
    named = {}
    for label, ml, sim, depth in plans:
        cfg = ctx.write_cfg("AlignedSched.%s.cfg" % label, SCHED % ml)
        cases = ctx.path("al-%s.ndjson" % label)
        ctx.tlc_generate("AlignedSched", cfg, cases, label=label, simulate=sim, depth=depth, workers=1, timeout=3000)
        out, tr = ctx.path("out-%s.json" % label), ctx.path("trace-%s.ndjson" % label)
        rc, txt, wall = ctx.go_test("c18", run="TestSchedules", env={"VERIF_CASES": cases, "VERIF_OUT": out, "VERIF_TRACE_OUT": tr}, timeout=3000)
        if rc != 0 or not os.path.exists(out):
            raise vlib.MachineryError("harness c18 failed (rc=%d)\n%s" % (rc, txt[-3000:]))
        r = vlib.read_results(out)
        v = ctx.tlc_validate("AlignedTrace", "AlignedTrace.cfg", tr, r["traces"], label=label, timeout=3000)
        ctx.cov["evaluations"] += r["evaluations"]
        ctx.cov["distinct_nontrivial"] += r["distinct_nontrivial"]
        ctx.cov["traces_validated_against_impl"] += r["evaluations"]
        ctx.cov["samples"] += r["samples"][:2]
        for k, n in r["named"].items():
            named[k] = named.get(k, 0) + n
        if v.violated:
            lines = open(tr).read().splitlines()
            start = v.line - 1
            while start > 0 and '"ev":"start"' not in lines[start]:
                start -= 1
            keep = ctx.save_replay(v.bad.split("(")[0].replace(" ", "").replace("/", ""), {"clause": v.bad, "trace_line": v.line,
                                                                        "run_trace": [json.loads(x) for x in lines[start:v.line]]})
            ctx.violation(v.bad, keep, "AlignedProp clause %s broken at trace line %d: %s (run started with %s)" % (v.bad, v.line, lines[v.line - 1][:300], lines[start][:200]))
    for need in ("offset-beyond-interval", "start-on-boundary", "jump-over-interval", "consumer-behind", "slow-flush", "flush", "tick"):
        if named.get(need, 0) == 0 and not (ctx.violations or locals().get("fails")):  # no vacuity verdict once something was found
            raise vlib.MachineryError("vacuity: %s never reached" % need)
    ctx.cov["named_situations"] = named
    ctx.cov["rule"] = ("seeded TLC simulation over intervals {2,3,5} x offsets {0,1,4,7,11} (also beyond the interval) x start phases x "
                       "sequences of clock advances {1, i-1, i, i+1, 2i+1, 3i}, hold, take; each schedule on the ticker (mock clock), the "
                       "flusher (smooth clock) and the flusher (mock clock); units of 100 ms")
    ctx.assumptions.append("real-clock timer lateness of a whole interval cannot be produced on the real code by the mock or the bubble (DESIGN 6/C18 limits)")


def replay(ctx, path):
    print(open(path).read()[:3000])
    return 0
