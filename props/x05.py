"""X05 (beyond the listed properties) -- cluster membership: the Redis node tracker of internal/cluster/nodes (cmd/cluster).
What the package's comments promise to whoever routes by its NodePicker: a started tracker introduces itself and every running tracker
answers, so that a newcomer knows the cluster without waiting for an update interval; every tracker sends a heartbeat per update interval;
a picker holds every node heard of within the expiry interval, none that dropped or was never heard of, none silent for longer than
expiry + one update interval; a node is never added twice; on shutdown the tracker publishes its drop and leaves its own picker.
R1: NodeTracker.tla (one tracker per node: Subscribe / Intro / Recv / Tick / Exit, Redis pub/sub as per-subscriber FIFO inboxes, failing
    publishes) composed with the monitor MembershipProp.tla; six deviations (no introduction reply, add on every refresh, introduction
    before the subscription, no self-removal, inclusive expiry, silent drop) must be refuted.
R2: NodeSched.tla: every sensible schedule of up / cancel / mute / unmute / advance up to the bound, hand-written Core schedules, seeded walks.
S2: harness nodes: real trackers (through the hook verifhooks.NewRedisNodeTracker) with their own go-redis clients on one miniredis server,
    the real consistent-hash picker behind a recording wrapper, one mock clock; real time, rest = no observable activity for a quiet period.
R3: MembershipTrace.tla.  A rejected schedule is re-driven twice with an eight times longer quiet period and is a verdict only if the
    monitor rejects those runs too; accepted twice, the two re-driven runs stand in for it (counted as timing-artefacts-redriven, the rest
    of the trace is validated without it); anything in between, or more than five artefacts in one stage, is exit 2.
Not in MANIFEST.json (the property list is fixed); run with ./check X05 --tier quick|thorough."""
import json
import os
import vlib

LEVEL = "model_checking"
R1 = """SPECIFICATION Spec
CONSTANTS Nodes <- %s U = 2 E = 5 MaxTime = %d MaxStarts = %d Deviation = "%s"
INVARIANTS MonitorQuiet MapIsPicker
CHECK_DEADLOCK FALSE
"""
SCHED = """SPECIFICATION Spec
CONSTANTS MaxLen = %d
CONSTRAINT Emit
CHECK_DEADLOCK FALSE
"""
DEVIATIONS = ("NoIntroReply", "AddAlways", "IntroBeforeSubscribe", "NoSelfRemove", "ExpireInclusive", "DropSilently")


def drive(ctx, cases, label, env=None):
    out, tr = ctx.path("out-%s.json" % label), ctx.path("trace-%s.ndjson" % label)
    e = {"VERIF_CASES": cases, "VERIF_OUT": out, "VERIF_TRACE_OUT": tr}
    e.update(env or {})
    rc, txt, wall = ctx.go_test("nodes", run="TestSchedules", env=e, timeout=3000)
    if rc != 0 or not os.path.exists(out):
        raise vlib.MachineryError("harness nodes failed (rc=%d)\n%s" % (rc, txt[-3000:]))
    r = vlib.read_results(out)
    v = ctx.tlc_validate("MCMembershipTrace", "MembershipTrace.cfg", tr, r["traces"], label=label, timeout=3000)
    return r, v, tr


def run(ctx):
    quick = ctx.tier == "quick"
    ctx.tlc_check("MCNodeTracker", ctx.write_cfg("NodeTracker.n2.cfg", R1 % ("N2", 7 if quick else 9, 3, "none")), label="as coded, 2 nodes", timeout=3000)
    ctx.tlc_check("MCNodeTracker", ctx.write_cfg("NodeTracker.n3.cfg", R1 % ("N3", 2 if quick else 4, 3, "none")), label="as coded, 3 nodes", timeout=6000)
    for d in DEVIATIONS:
        bad = ctx.tlc_check("MCNodeTracker", ctx.write_cfg("NodeTracker.%s.cfg" % d, R1 % ("N2", 9, 3, d)), label=d + " (must fail)", must_pass=False, timeout=3000)
        if bad.violated != "MonitorQuiet":
            raise vlib.MachineryError("vacuity: deviation %s not refuted" % d)
    # liveness: after every stimulus the trackers' own steps come to an end (no message storm); the storm variant must be refuted
    live = R1.replace("SPECIFICATION Spec", "SPECIFICATION FairSpec").replace("INVARIANTS MonitorQuiet MapIsPicker", "INVARIANTS MonitorQuiet\nPROPERTY ComesToRest")
    ctx.tlc_check("MCNodeTracker", ctx.write_cfg("NodeTracker.live.cfg", live % ("N2", 4 if quick else 5, 2, "none")), label="ComesToRest under weak fairness", timeout=3000)
    bad = ctx.tlc_check("MCNodeTracker", ctx.write_cfg("NodeTracker.storm.cfg", live % ("N2", 4, 2, "ReplyToHeartbeat")), label="ReplyToHeartbeat (must fail)", must_pass=False, timeout=3000)
    if "ComesToRest" not in (bad.violated or "") and "Temporal" not in bad.output:
        raise vlib.MachineryError("vacuity: the heartbeat ping-pong was not refuted by ComesToRest")
    named, fails = {}, []
    plans = [("bfs4", 4, None, None), ("sim10", 10, "num=%d" % 120, 11)] if quick else [("bfs5", 5, None, None), ("sim12", 12, "num=%d" % 1500, 13)]
    for label, ml, sim, depth in plans:
        cfg = ctx.write_cfg("NodeSched.%s.cfg" % label, SCHED % ml)
        cases = ctx.path("nodes-%s.ndjson" % label)
        if sim:
            ctx.tlc_generate("NodeSched", cfg, cases, label=label, simulate=sim, depth=depth, workers=1, timeout=3000)
        else:
            ctx.tlc_generate("NodeSched", cfg, cases, label=label, timeout=3000)
        r, v, tr = drive(ctx, cases, label)
        ctx.cov["evaluations"] += r["evaluations"]
        ctx.cov["distinct_nontrivial"] += r["distinct_nontrivial"]
        ctx.cov["traces_validated_against_impl"] += r["evaluations"]
        ctx.cov["samples"] += r["samples"][:2]
        fails += r["failures"]
        for k, n in r["named"].items():
            named[k] = named.get(k, 0) + n
        artefacts = 0
        while v.violated:
            lines = open(tr).read().splitlines()
            start = v.line - 1
            while start > 0 and '"ev":"start"' not in lines[start]:
                start -= 1
            end = v.line
            while end < len(lines) and '"ev":"start"' not in lines[end]:
                end += 1
            head = json.loads(lines[start])
            # the schedule on its own, twice, with a much longer quiet period
            again = 0
            for k in range(2):
                r2, v2, tr2 = drive(ctx, cases, "%s-again%d" % (label, k), env={"VERIF_ONLY": str(head["idx"]), "VERIF_QUIET_MS": "500"})
                again += 1 if v2.violated else 0
            if again == 2:
                keep = ctx.save_replay(v.bad.split("(")[0], {"clause": v.bad, "schedule": json.loads(head["sched"]), "trace_line": v.line,
                                                             "run_trace": [json.loads(x) for x in lines[start:v.line]]})
                ctx.violation(v.bad.split("(")[0], keep, "MembershipProp clause %s broken (reproduced twice with a 500 ms quiet period), schedule %s, at: %s"
                              % (v.bad, head["sched"], lines[v.line - 1][:300]))
                break
            # not reproduced: a timing artefact of this real-time harness (the machine was busy and "at rest" was declared too early);
            # the two re-driven runs of the schedule were accepted and stand in for it; the rest of the trace is validated without it
            artefacts += 1
            ctx.note("schedule %d of %s: rejected once (%s), accepted twice when re-driven at 500 ms" % (head["idx"], label, v.bad))
            if artefacts > 5 or again == 1:
                raise vlib.MachineryError("schedule %d of %s: %d timing artefacts / a rejection reproduced once out of twice (%s): the machine is too busy for this real-time harness"
                                          % (head["idx"], label, artefacts, v.bad))
            with open(tr, "w") as fh:
                fh.write("\n".join(lines[:start] + lines[end:]) + "\n")
            v = ctx.tlc_validate("MCMembershipTrace", "MembershipTrace.cfg", tr, len(lines) - (end - start), label=label + "-without-%d" % head["idx"], timeout=3000)
        named["timing-artefacts-redriven"] = named.get("timing-artefacts-redriven", 0) + artefacts
        os.unlink(cases)
    for f in fails:
        ctx.violation(f["sig"], ctx.save_replay(f["sig"], f), f["desc"])
    for need in ("introduction-answered", "publish-failed", "removed-by-drop", "removed-by-expiry", "restart"):
        if named.get(need, 0) == 0 and not ctx.violations:
            raise vlib.MachineryError("vacuity: %s never reached" % need)
    ctx.cov["named_situations"] = named
    ctx.cov["exhaustive"] = True
    ctx.cov["rule"] = ("every sensible schedule of up / cancel / mute / unmute of nodes a, b, c and clock advances of half and one update interval "
                       "up to MaxLen stimuli (4; thorough 5), five Core schedules (a silent node expires everywhere incl. its own picker; silent, "
                       "cancelled unheard, expired, restarted; shifted tick phases; restart after a drop), seeded walks of length 10 / 12; one "
                       "evaluation = one schedule driven through real trackers and judged event by event by MembershipProp")
    ctx.assumptions.append("stimuli are applied when the cluster is at rest; rest is inferred from 60 ms without observable activity "
                           "(publishes, picker calls, clock readings); a rejection counts only if it is reproduced twice at 500 ms")
    ctx.assumptions.append("miniredis stands in for Redis pub/sub (in-order delivery to the subscribers connected at publication)")
    ctx.cov["trusted_base"] = ["TLC 1.8.0 (tla2tools)", "miniredis v2.23.0", "go-redis v8", "tilinna/clock mock", "harness/nodes", "tools/vlib.py"]


def replay(ctx, path):
    print(open(path).read()[:3000])
    return 0
