"""C17 -- backend payloads contain every series exactly once and are well formed.
R1: BackendBatching.tla (the batchers of datadog/newrelic, influxdb, otlp, cloudwatch and the statsd relay as automata over the items a
    flush walks through) composed with the BatchProp monitor; deviations (open batch not emitted, count after the check, relay fit
    off by the newline) must be refuted.  R2: BatchSched.tla aggregate states x configurations.  S1: harness c17 -- real aggregator ->
    every real backend variant -> strict protocol parsers (the relay: gostatsd's own parser).  R3: BatchTrace.tla judges every flush.
Every seventh plain case is also flushed as the maps of six aggregators (MetricMap.Split) handed to the backend at the same time: the flush is
    what they emit together."""
import json
import os
import re
import vlib

LEVEL = "model_checking"
R1 = """SPECIFICATION Spec
CONSTANTS Kind = "%s" MaxSeries = %d MaxRun = %d PerBatch = %d Slack = 2 PacketSize = 4 MaxLine = 5 NoFinish = %s CountLate = %s FitExact = %s
INVARIANTS MonitorQuiet
CHECK_DEADLOCK FALSE
"""
SCHED = """SPECIFICATION Spec
CONSTANTS MaxSeries = %d
CONSTRAINT Emit
CHECK_DEADLOCK FALSE
"""


def run(ctx):
    quick = ctx.tier == "quick"
    for kind, ms, mr, pb in (("plus20", 4, 3, 6), ("influx", 4, 3, 3), ("otlp", 4, 3, 3), ("chunk", 4, 3, 3), ("relay", 3, 2, 3)):
        if not quick:
            ms, mr = (ms + 1, mr) if kind != "relay" else (3, 2)
        ctx.tlc_check("BackendBatching", ctx.write_cfg("BackendBatching.%s.cfg" % kind, R1 % (kind, ms, mr, pb, "FALSE", "FALSE", "FALSE")),
                      label="batcher " + kind, timeout=3000)
    for name, kind, flags, clause in (("open batch not emitted", "influx", ("TRUE", "FALSE", "FALSE"), "Missing"),
                                      ("open batch not emitted", "plus20", ("TRUE", "FALSE", "FALSE"), "Missing"),
                                      ("counted after the check", "influx", ("FALSE", "TRUE", "FALSE"), "SizeLimit"),
                                      ("relay fit ignores the newline", "relay", ("FALSE", "FALSE", "TRUE"), "SizeLimit")):
        bad = ctx.tlc_check("BackendBatching", ctx.write_cfg("BackendBatching.dev.cfg", R1 % ((kind, 3, 2, 6 if kind == "plus20" else 3) + flags)),
                            label="%s: %s (must fail)" % (kind, name), must_pass=False)
        if bad.violated != "MonitorQuiet" or clause not in bad.output:
            raise vlib.MachineryError("vacuity: deviation '%s' of %s not refuted with %s" % (name, kind, clause))
    known = vlib.load_known()
    hostless = sorted(k["hostless"] for k in known if k.get("property") == "C17" and k.get("status") == "known" and k.get("hostless"))
    plans = [("sim4", 4, "num=140", 6)] if quick else [("sim4", 4, "num=1500", 6), ("sim7", 7, "num=800", 9)]
    named = {}
    for label, ml, sim, depth in plans:
        cfg = ctx.write_cfg("BatchSched.%s.cfg" % label, SCHED % ml)
        cases = ctx.path("batch-%s.ndjson" % label)
        ctx.tlc_generate("BatchSched", cfg, cases, label=label, simulate=sim, depth=depth, workers=1, timeout=3000)
        out, tr, det = ctx.path("out-%s.json" % label), ctx.path("trace-%s.ndjson" % label), ctx.path("detail-%s.ndjson" % label)
        rc, txt, wall = ctx.go_test("c17", run="TestPayloads", env={"VERIF_CASES": cases, "VERIF_OUT": out, "VERIF_TRACE_OUT": tr, "VERIF_DETAIL_OUT": det,
                                                                     "VERIF_KNOWN_HOSTLESS": ",".join(hostless)}, timeout=3000)
        if rc != 0 or not os.path.exists(out):
            sig = vlib.crash_attribution(txt)
            if sig:
                ctx.violation("crash:" + sig[0], ctx.save_replay("crash", {"output": sig[1]}), "a backend crashed while sending a flush: " + sig[0])
                return
            raise vlib.MachineryError("harness c17 failed (rc=%d)\n%s" % (rc, txt[-3000:]))
        os.unlink(cases)
        r = vlib.read_results(out)
        ctx.cov["evaluations"] += r["evaluations"]
        ctx.cov["distinct_nontrivial"] += r["distinct_nontrivial"]
        ctx.cov["traces_validated_against_impl"] += r["evaluations"]
        ctx.cov["samples"] += r["samples"][:2]
        for k, n in r["named"].items():
            named[k] = named.get(k, 0) + n
        for f in r["failures"]:
            ctx.violation(f["sig"], ctx.save_replay(f["sig"].replace(":", "_").replace("/", "_"), f), f["desc"])
        v = ctx.tlc_validate("BatchTrace", "BatchTrace.cfg", tr, r["traces"], label=label, timeout=3000)
        m = re.search(r'<<"VERDICTS", "(.*)">>', v.output)
        if not m:
            raise vlib.MachineryError("BatchTrace printed no verdicts\n" + v.output[-2000:])
        verdicts = json.loads(json.loads('"' + m.group(1) + '"'))
        details = {d["n"]: d for d in vlib.read_ndjson(det)}
        for n, clause in verdicts:
            d = details.get(n)
            if d is None:
                raise vlib.MachineryError("flush %d judged '%s' by the monitor but the driver kept no account of it" % (n, clause))
            sig = "%s|%s|%s" % (d["variant"], d["label"], ",".join(d["desc"]))
            keep = ctx.save_replay(re.sub(r"[^A-Za-z0-9_.-]+", "_", sig)[:80], {"clause": clause, "signature": sig, "flush": d})
            ctx.violation(sig, keep, "BatchProp clause %s broken by %s (case %s %s): %s" % (clause, d["variant"], d["case"], d["label"], ", ".join(d["desc"])))
        if len(details) != len(verdicts):
            raise vlib.MachineryError("the driver saw %d flushes with differences, the monitor condemned %d" % (len(details), len(verdicts)))
    # the relay on a kernel UDP socket (the scripted connection sees one Write per buffer whatever the sender does)
    out = ctx.path("out-udp.json")
    rc, txt, wall = ctx.go_test("c17", run="TestRelayRealUDP", env={"VERIF_OUT": out}, timeout=1500)
    if rc != 0 or not os.path.exists(out):
        sig = vlib.crash_attribution(txt)
        if sig:
            ctx.violation("crash:" + sig[0], ctx.save_replay("crash", {"output": sig[1]}), "the relay crashed while sending a flush: " + sig[0])
            return
        raise vlib.MachineryError("harness c17 (relay over a UDP socket) failed (rc=%d)\n%s" % (rc, txt[-3000:]))
    r = vlib.read_results(out)
    ctx.cov["evaluations"] += r["evaluations"]
    for k, n in r["named"].items():
        named[k] = named.get(k, 0) + n
    seen = set()
    for f in r["failures"]:
        if f["sig"] not in seen:
            seen.add(f["sig"])
            ctx.violation(f["sig"], ctx.save_replay(f["sig"].replace(":", "_").replace("/", "_"), f), f["desc"])
    if named.get("no-udp-socket", 0) > 0:
        ctx.assumptions.append("no loopback UDP socket could be opened: the relay's datagram boundaries on a kernel socket were not observed in this run")
    elif named.get("relay-udp-socket-multi-datagram", 0) == 0 and not ctx.violations:
        raise vlib.MachineryError("vacuity: relay-udp-socket-multi-datagram never reached")
    for h in hostless:
        if named.get("hostless:" + h, 0) > 0:
            ctx.violation("hostless:" + h, "", "the source is not written by " + h)
    need = ["multi-payload", "batch-exactly-full", "relay-datagram-exactly-full", "relay-multi-datagram", "event-relay", "kind:hist", "kind:s", "empty-flush",
            "indistinguishable-series"] + ["variant:" + v for v in
            ("datadog", "influxdb/v1", "influxdb/v2", "newrelic/infra", "newrelic/insights", "newrelic/metrics", "otlp/AsGauge", "otlp/AsHistogram", "cloudwatch",
             "graphite/legacy", "graphite/basic", "graphite/tags", "statsdaemon/udp", "statsdaemon/tcp", "statsdaemon/udp/notags", "stdout")]
    for n in need:
        if named.get(n, 0) == 0 and not ctx.violations:
            raise vlib.MachineryError("vacuity: %s never reached" % n)
    ctx.cov["named_situations"] = named
    ctx.cov["rule"] = ("hand-written core states (batch filled exactly by the last series, only histogram timers after a full batch, every base "
                       "sub-metric disabled, an empty flush, the same series from two hosts, relay datagrams filled to 1471..1474 and 2944/2945 bytes, "
                       "numeric looking and empty tag values) plus seeded random aggregate states of up to MaxSeries series from the pools of "
                       "BatchSched.tla x batch size x disabled sub-metrics x percent thresholds x compression x histogram limit; every state through "
                       "all 17 backend variants; one evaluation = one flush of one variant; plus flushes of 2..600 series through the relay "
                       "on a kernel UDP socket of the loopback interface (datagram boundaries as the kernel delivers them)")


def replay(ctx, path):
    print(open(path).read()[:6000])
    return 0
