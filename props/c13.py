"""C13 -- Kubernetes lookups reflect the current pod holding an IP.
K8sProvider.tla: P-level CurrentPod(ip) vs I-level informer index + memo cache + OnUpdate/OnDelete invalidation by the old version;
R1 NoStale / AnswersCurrent over every history up to the bound; R2 histories ending in a lookup; harness c13 replays them into the
real provider fed by client-go's fake clientset / watcher in a synctest bubble."""
import os
import vlib

LEVEL = "model_checking"
GEN = """SPECIFICATION Spec
CONSTANTS Names <- %s IPs <- %s MaxLen = %d MaxVer = 2
INVARIANTS NoStale AnswersCurrent
CONSTRAINT Emit
CHECK_DEADLOCK FALSE
"""


QUEUE = """SPECIFICATION Spec
CONSTANTS IPs <- %s MaxLookups = %d MaxVer = 3 Coalesce = %s
INVARIANTS OneAnswerPerLookup NoPhantomAnswer ArmedWhenWaiting
CHECK_DEADLOCK FALSE
"""


def run(ctx):
    # the loop between IpSink and InfoSource with a consumer that is behind (design level; bound to the code by the lazy-consumer cases)
    ctx.tlc_check("MCK8sQueue", ctx.write_cfg("K8sAnswerQueue.cfg", QUEUE % ("IP2", 5 if ctx.tier == "quick" else 6, "FALSE")), label="answer queue as coded", timeout=3000)
    bad = ctx.tlc_check("MCK8sQueue", ctx.write_cfg("K8sAnswerQueue.dev.cfg", QUEUE % ("IP2", 4, "TRUE")), label="lookups coalesced per IP (must fail)", must_pass=False)
    if bad.violated != "OneAnswerPerLookup":
        raise vlib.MachineryError("vacuity: coalescing lookups not refuted")
    plans = [("n2x-4", "N2", "IP1", 4, None, 1), ("n2x-5", "N2", "IP1", 5, None, 12), ("sim9", "N3", "IP2", 9, "num=%d" % 2500, 1)]
    if ctx.tier == "thorough":
        plans = [("n2x-5", "N2", "IP1", 5, None, 1), ("n2xy-4", "N2", "IP2", 4, None, 1), ("sim12", "N3", "IP2", 12, "num=60000", 1)]
    fails, named = [], {}
    for label, names, ips, ml, sim, every in plans:
        cfg = ctx.write_cfg("MCK8s.%s.cfg" % label, GEN % (names, ips, ml))
        cases = ctx.path("k8s-%s.ndjson" % label)
        if sim:
            ctx.tlc_generate("MCK8s", cfg, cases, label=label, simulate=sim, depth=ml + 1, workers=1, timeout=3000)
        else:
            ctx.tlc_generate("MCK8s", cfg, cases, label=label, timeout=3000)
        out = ctx.path("out-%s.json" % label)
        rc, txt, wall = ctx.go_test("c13", run="TestCases", env={"VERIF_CASES": cases, "VERIF_OUT": out, "VERIF_EVERY": str(every)}, timeout=3000)
        if rc != 0 or not os.path.exists(out):
            raise vlib.MachineryError("harness c13 failed (rc=%d)\n%s" % (rc, txt[-3000:]))
        os.unlink(cases)
        r = vlib.read_results(out)
        ctx.cov["traces_validated_against_impl"] += r["evaluations"]
        ctx.cov["evaluations"] += r["evaluations"]
        ctx.cov["distinct_nontrivial"] += r["distinct_nontrivial"]
        ctx.cov["samples"] += r["samples"][:2]
        fails += [f for f in r["failures"] if f["prop"] == "C13"]
        for k, v in r["named"].items():
            named[k] = named.get(k, 0) + v
    for need in ("answered-pod", "answered-nothing", "answer-read-later", "several-answers-outstanding"):
        if named.get(need, 0) == 0 and not (ctx.violations or locals().get("fails")):  # no vacuity verdict once something was found
            raise vlib.MachineryError("vacuity: %s never reached" % need)
    ctx.cov["named_situations"] = named
    ctx.cov["exhaustive"] = True
    ctx.cov["rule"] = ("every history up to MaxLen over add / update / delete of 2 pods (versions: pending without IP, running with label "
                       "version 1 | 2, host network, deletion timestamp, succeeded / failed still carrying the IP, pending with IP) and "
                       "lookups by Peek and by IpSink/InfoSource, one IP exhaustively, two IPs and three pods by seeded simulation; three "
                       "regex configurations covering the key classes no-match / named group / empty group / no group; one evaluation "
                       "= one lookup compared")
    ctx.assumptions.append("histories are sequential (each watch event is fully processed before the next step): the race inside "
                           "client-go callbacks is a schedule the property does not quantify over")
    seen = set()
    for f in fails:
        if f["sig"] in seen:
            continue
        seen.add(f["sig"])
        ctx.violation(f["sig"], ctx.save_replay(f["sig"].replace(":", "_"), f), f["desc"])


def replay(ctx, path):
    print(open(path).read()[:3000])
    return 0
