"""C04 -- flushing never crashes for any reachable aggregate, configuration or backend.
R1: TimerStats.tla IndexSafe (Flush's index arithmetic; the unguarded k = n branch must be refuted) and BackendShapes.tla (which
    timer shapes reach the payload builders and what each builder presupposes; the builders as found must be refuted).
R2: MCTimer value bags x rate patterns (summary and histogram modes) and MCAggregator histories.
S1: harness c08 / c09 (aggregator under recover) and harness c04: every flushed map, including the flush of a persisted idle
    series, goes to all 18 backend variants under 5 sub-metric masks and small batch sizes; no panic, one callback each."""
import os
import vlib
import c08
import c09

LEVEL = "model_checking"
SHAPES = """SPECIFICATION Spec
CONSTANTS GuardInfluxEmptyHist = %s GuardOtlpEmptyValues = %s
INVARIANT Safe
"""
GEN = """SPECIFICATION Spec
CONSTANTS MaxN = %d ValSet <- %s Pcts <- PctAll Mode = "%s" GuardKEqualsN = TRUE
INVARIANTS IndexSafe IAgreesWithP
CONSTRAINT Emit
CHECK_DEADLOCK FALSE
"""


def run(ctx):
    ctx.tlc_check("BackendShapes", ctx.write_cfg("BackendShapes.fixed.cfg", SHAPES % ("TRUE", "TRUE")), label="builders with guards")
    for a, b, what in (("FALSE", "TRUE", "influx empty histogram"), ("TRUE", "FALSE", "otlp empty values")):
        r = ctx.tlc_check("BackendShapes", ctx.write_cfg("BackendShapes.found.cfg", SHAPES % (a, b)), label="as found: %s (must fail)" % what, must_pass=False)
        if r.violated != "Safe":
            raise vlib.MachineryError("vacuity: unguarded builder (%s) not refuted" % what)
    r = ctx.tlc_check("MCTimer", ctx.write_cfg("MCTimer.unguarded.cfg", c08.UNGUARDED), label="unguarded k=n (must fail)", must_pass=False)
    if r.violated != "IndexSafe":
        raise vlib.MachineryError("vacuity: IndexSafe does not refute the unguarded index")
    fails, named = [], {}
    # aggregator side: the C08 / C09 replays run under recover and attribute panics to C04
    f1, n1 = c08.execute(ctx, ("C04",))
    f2, n2 = c09.execute(ctx, ("C04",))
    fails += f1 + f2
    # payload builders
    plans = [("sum4", 4, "VS5", "summary", 4), ("hist3", 3, "VS5", "hist", 6)]
    if ctx.tier == "thorough":
        plans = [("sum5", 5, "VS5", "summary", 1), ("hist4", 4, "VS5", "hist", 1)]
    for label, n, vs, mode, every in plans:
        cfg = ctx.write_cfg("MCTimer.c04-%s.cfg" % label, GEN % (n, vs, mode))
        cases = ctx.path("c04-%s.ndjson" % label)
        ncase = ctx.tlc_generate("MCTimer", cfg, cases, label="backends-" + label, timeout=3000)
        out = ctx.path("out-c04-%s.json" % label)
        rc, txt, wall = ctx.go_test("c04", run="TestCases", env={"VERIF_CASES": cases, "VERIF_OUT": out, "VERIF_EVERY": str(every)}, timeout=3000)
        if not os.path.exists(out):
            crash = vlib.crash_attribution(txt)
            if crash:
                fails.append({"prop": "C04", "sig": "process-killed:" + crash[0][:60], "desc": "test process terminated inside gostatsd: " + crash[0], "case": {"stack": crash[1]}})
                continue
            raise vlib.MachineryError("harness c04 failed (rc=%d)\n%s" % (rc, txt[-3000:]))
        r = vlib.read_results(out)
        if rc != 0 and r["n_failures"] == 0:
            raise vlib.MachineryError("harness c04 failed without recording a failure (rc=%d)\n%s" % (rc, txt[-3000:]))
        os.unlink(cases)
        ctx.cov["traces_validated_against_impl"] += r["evaluations"]
        ctx.cov["evaluations"] += r["evaluations"]
        ctx.cov["distinct_nontrivial"] += r["distinct_nontrivial"]
        ctx.cov["samples"] += r["samples"][:2]
        fails += [f for f in r["failures"] if f["prop"] == "C04"]
        for k, v in r["named"].items():
            named[k] = named.get(k, 0) + v
    for need in ("empty-non-nil-histogram", "persisted-idle-timer", "negative-percentile", "mask1", "mask3"):
        if named.get(need, 0) == 0 and not (ctx.violations or locals().get("fails")):  # no vacuity verdict once something was found
            raise vlib.MachineryError("vacuity: %s never reached" % need)
    ctx.cov["named_situations"] = named
    ctx.cov["rule"] = ("value bags x rate patterns x percentile subsets of both signs x histogram tags x limits {0,1,2,1000}; each flushed "
                       "twice (second flush = persisted idle series) and handed to graphite legacy/basic/tags, statsdaemon udp/tcp x tags, "
                       "datadog, influxdb v1/v2, newrelic infra/insights/metrics, otlp AsGauge/AsHistogram, cloudwatch, stdout, null under "
                       "5 sub-metric masks (none, all, pct-only, base-only, seeded) and batch sizes {default,1,2,3}; one evaluation = "
                       "one flushed map through all variants of a group")
    seen = set()
    for f in fails:
        if f["sig"] in seen:
            continue
        seen.add(f["sig"])
        ctx.violation(f["sig"], ctx.save_replay(f["sig"].replace(":", "_").replace("/", "_"), f), f["desc"])


def replay(ctx, path):
    print(open(path).read()[:3000])
    return 0
