"""C03 -- no network input can crash ingestion.
(a) every TLC-enumerated lexer case (incl. header numbers near 2^32 / 2^64) through the real lexer under recover()
(b) the same lines embedded in datagrams through a real DatagramParser goroutine (survives, counts bad lines, parses later lines)
(c) TLC-enumerated request sequences (HttpIngest.tla) x encodings x seeded corruptions through the real ingestion router.
(d) rcvstage: zero-length and other datagrams through the real receiver (clauses Alive / Lost); (b) also pumps the first token of the
    shortest lines systematically (every length x every odd byte x datagram shape x bad-line logging on / off); (c) has a real-time limit per
    request (a wedged endpoint is a violation) and a phase of overlapping requests."""
import os
import vlib
import rcvstage
import c02

LEVEL = "model_checking"

HCFG = """SPECIFICATION Spec
CONSTANT MaxReqs = %d
INVARIANT IAgreesWithP
CONSTRAINT Emit
CHECK_DEADLOCK FALSE
"""


def http_part(ctx, fails, named):
    cfg = ctx.write_cfg("HttpIngest.gen.cfg", HCFG % 2)
    cases = ctx.path("http.ndjson")
    n = ctx.tlc_generate("HttpIngest", cfg, cases, label="http-seq2")
    out = ctx.path("out-http.json")
    rc, txt, wall = ctx.go_test("c03", run="TestCases", env={"VERIF_CASES": cases, "VERIF_OUT": out,
                                                             "VERIF_MUTATIONS": "1" if ctx.tier == "quick" else "6",
                                                             "VERIF_EVERY": "5" if ctx.tier == "quick" else "1"})
    if rc != 0 or not os.path.exists(out):
        crash = vlib.crash_attribution(txt)
        if crash:   # the process died while executing gostatsd's request handling: that is what C03 forbids
            fails.append({"prop": "C03", "sig": "http-process-killed:" + crash[0][:60],
                          "desc": "the test process was terminated inside the ingestion handler: %s" % crash[0], "case": {"stack": crash[1]}})
            return None
        raise vlib.MachineryError("harness c03 failed (rc=%d)\n%s" % (rc, txt[-3000:]))
    r = vlib.read_results(out)
    ctx.cov["traces_validated_against_impl"] += n
    ctx.cov["evaluations"] += r["evaluations"]
    ctx.cov["distinct_nontrivial"] += r["distinct_nontrivial"]
    ctx.cov["samples"] += r["samples"][:2]
    fails += r["failures"]
    for k, v in r["named"].items():
        named["http:" + k] = v
    return r


def robust_part(ctx, fails, named):
    """lexer cases embedded in datagrams through the parser goroutine"""
    plans = [("robust-metric", 8, 2, 1, 1, "metric"), ("robust-event", 10, 2, 1, 1, "event")]
    if ctx.tier == "thorough":
        plans += [("robust-evdeep", 15, 2, 1, 1, "evdeep"), ("robust-wide", 8, 3, 2, 2, "metric")]
    for label, L, nm, vm, fm, mode in plans:
        cfg = ctx.write_cfg("MCLexer.%s.cfg" % label, c02.CFG % (L, nm, vm, fm, mode))
        cases = ctx.path("cases-%s.ndjson" % label)
        n = ctx.tlc_generate("MCLexer", cfg, cases, label=label, timeout=1800)
        out = ctx.path("out-%s.json" % label)
        every = "3" if ctx.tier == "quick" else "1"
        rc, txt, wall = ctx.go_test("c05", run="TestRobust", env={"VERIF_CASES": cases, "VERIF_OUT": out, "VERIF_EVERY": every})
        if rc != 0 or not os.path.exists(out):
            crash = vlib.crash_attribution(txt)
            if crash:
                fails.append({"prop": "C03", "sig": "parser-process-killed:" + crash[0][:60],
                              "desc": "the test process was terminated inside datagram parsing: %s" % crash[0], "case": {"stack": crash[1]}})
                continue
            raise vlib.MachineryError("harness c05/TestRobust failed (rc=%d)\n%s" % (rc, txt[-3000:]))
        r = vlib.read_results(out)
        os.unlink(cases)
        ctx.cov["traces_validated_against_impl"] += r["evaluations"]
        ctx.cov["evaluations"] += r["evaluations"]
        ctx.cov["distinct_nontrivial"] += r["distinct_nontrivial"]
        ctx.cov["samples"] += r["samples"][:2]
        fails += r["failures"]
        named["robust:" + label] = r["evaluations"]


def run(ctx):
    fails, named = [], {}
    rcvstage.run(ctx, clauses=("Alive", "Lost"))   # zero-length and other datagrams through the real receiver: the process goes on
    # R1: the uint32 arithmetic of lexEventBody on a scaled word (SliceSafe); the pre-fix arithmetic must be refuted
    ctx.tlc_check("EventBodyWrap", "EventBodyWrap.fixed.cfg", label="SliceSafe, 64-bit comparison")
    r = ctx.tlc_check("EventBodyWrap", "EventBodyWrap.wrap.cfg", label="SliceSafe, wrapping sum (must fail)", must_pass=False)
    if r.violated != "SliceSafe":
        raise vlib.MachineryError("vacuity: the wrapping arithmetic was not refuted by SliceSafe")
    merged = c02.generate(ctx)                      # (a)
    fails += merged["failures"]
    ctx.cov["evaluations"] += merged["evaluations"]
    ctx.cov["distinct_nontrivial"] += merged["distinct"]
    ctx.cov["traces_validated_against_impl"] += merged["cases"]
    ctx.cov["samples"] += merged["samples"][:2]
    named.update({"lexer:" + k: v for k, v in merged["named"].items() if k.startswith("state:ev_hbody") or k.startswith("expect:")})
    if merged["named"].get("state:ev_hbody", 0) == 0:
        raise vlib.MachineryError("vacuity: no case with boundary header numbers (state ANY) was run")
    robust_part(ctx, fails, named)                  # (b)
    http_part(ctx, fails, named)                    # (c)
    ctx.cov["named_situations"] = named
    ctx.cov["exhaustive"] = True
    ctx.cov["rule"] = ("(a) all lexer token strings up to the C02 bounds incl. symbolic header numbers concretised at 2^32-k, 2^32, "
                       "2^63, 2^64 and beyond; (b) each embedded in three datagram shapes with a valid neighbour line, '!' tokens "
                       "concretised as NUL / high bytes / 3000-byte runs; (c) all sequences of <= 2 requests over endpoint x 6 "
                       "encodings x 11 body classes, each also with seeded bit-flips and truncations. "
                       "distinct_nontrivial counts distinct concrete inputs of >= 2 tokens / requests.")
    seen = set()
    for f in fails:
        if f["prop"] != "C03" or f["sig"] in seen:
            continue
        seen.add(f["sig"])
        ctx.violation(f["sig"], ctx.save_replay(f["sig"].replace(":", "_").replace("/", "_"), f), f["desc"])


def replay(ctx, path):
    print(open(path).read()[:2000])
    return 0
