"""C20 -- the Lambda extension asks for the next invocation only after flushing.
R1: LambdaExtension.tla (heartbeat: Flush, then loop WaitForFlush -> GET /next; telemetry handler flushing on runtime-done records;
    capacity-1 notification channel; consolidator hand-over; forwarder attempts / back-off / give-up, then notify) composed with the
    LambdaProp monitor; three deviations must be refuted (look-alike record types flush too, notify after the first answered attempt,
    no initial flush).  R2: LambdaSched.tla invocation histories.  S2: harness c20 -- the real pkg/lambda extension around a real
    forwarder-mode statsd.Server on loopback sockets, with a fake runtime API and a fake upstream (real time).  R3: LambdaTrace.tla.
Start-up failures no server configuration produces (plain error, context errors in the chain, early return) come from a stand-in server
    behind the real manager (hook verifhooks.NewLambdaManager)."""
import json
import os
import vlib

LEVEL = "model_checking"
R1 = """SPECIFICATION Spec
CONSTANTS MaxInv = %d MaxPoints = %d MaxAttempts = %d MaxOther = %d LenientMatch = %s NotifyEarly = %s NoInitialFlush = %s InitialNotifyOnly = %s StartRace = %s NoopNotifies = %s
INVARIANTS MonitorQuiet NoStall ChanBound
CHECK_DEADLOCK FALSE
"""
SCHED = """SPECIFICATION Spec
CONSTANTS MaxInv = %d
CONSTRAINT Emit
CHECK_DEADLOCK FALSE
"""


def run(ctx):
    quick = ctx.tier == "quick"
    b = (3, 3, 2, 1) if quick else (4, 4, 3, 2)
    ctx.tlc_check("LambdaExtension", ctx.write_cfg("LambdaExtension.r1.cfg", R1 % (b + ("FALSE", "FALSE", "FALSE", "FALSE", "TRUE", "TRUE"))), label="extension as coded", timeout=3000)
    for name, flags, want in (("look-alike record types flush", ("TRUE", "FALSE", "FALSE", "FALSE", "TRUE", "TRUE"), "MonitorQuiet"),
                              ("notify after the first answer", ("FALSE", "TRUE", "FALSE", "FALSE", "TRUE", "TRUE"), "MonitorQuiet"),
                              ("no initial flush", ("FALSE", "FALSE", "TRUE", "FALSE", "TRUE", "TRUE"), "NoStall"),
                              ("initial notification without a flush", ("FALSE", "FALSE", "FALSE", "TRUE", "FALSE", "TRUE"), "MonitorQuiet"),
                              # finding 18, the code as found: a flush of the coordinator's placeholder target is silent
                              ("a flush before the forwarder has registered is not answered", ("FALSE", "FALSE", "FALSE", "FALSE", "TRUE", "FALSE"), "NoStall")):
        bad = ctx.tlc_check("LambdaExtension", ctx.write_cfg("LambdaExtension.dev.cfg", R1 % ((3, 3, 2, 1) + flags)), label=name + " (must fail)", must_pass=False)
        if bad.violated != want:
            raise vlib.MachineryError("vacuity: deviation '%s' not refuted (%s)" % (name, bad.violated))
    plans = [("sim3", 3, "num=25", 4)] if quick else [("sim3", 3, "num=250", 4), ("sim5", 5, "num=120", 6)]
    named = {}
    for label, ml, sim, depth in plans:
        cfg = ctx.write_cfg("LambdaSched.%s.cfg" % label, SCHED % ml)
        cases = ctx.path("lambda-%s.ndjson" % label)
        ctx.tlc_generate("LambdaSched", cfg, cases, label=label, simulate=sim, depth=depth, workers=1, timeout=3000)
        out, tr = ctx.path("out-%s.json" % label), ctx.path("trace-%s.ndjson" % label)
        rc, txt, wall = ctx.go_test("c20", run="TestHistories", env={"VERIF_CASES": cases, "VERIF_OUT": out, "VERIF_TRACE_OUT": tr, "VERIF_PAR": "12"}, timeout=3000)
        if rc != 0 or not os.path.exists(out):
            raise vlib.MachineryError("harness c20 failed (rc=%d)\n%s" % (rc, txt[-3000:]))
        os.unlink(cases)
        r = vlib.read_results(out)
        ctx.cov["evaluations"] += r["evaluations"]
        ctx.cov["distinct_nontrivial"] += r["distinct_nontrivial"]
        ctx.cov["traces_validated_against_impl"] += r["evaluations"]
        ctx.cov["samples"] += r["samples"][:2]
        for k, n in r["named"].items():
            named[k] = named.get(k, 0) + n
        if named.get("machinery-failed"):
            raise vlib.MachineryError("some histories could not be run: %s" % r.get("notes"))
        v = ctx.tlc_validate("LambdaTrace", "LambdaTrace.cfg", tr, r["traces"], label=label, timeout=3000)
        if v.violated:
            lines = open(tr).read().splitlines()
            start = v.line - 1
            while start > 0 and '"ev":"start"' not in lines[start]:
                start -= 1
            keep = ctx.save_replay(v.bad.split("(")[0], {"clause": v.bad, "trace_line": v.line, "history_trace": [json.loads(x) for x in lines[start:v.line]]})
            ctx.violation(v.bad, keep, "LambdaProp clause %s broken at trace line %d: %s" % (v.bad, v.line, lines[v.line - 1][:300]))
            return
    for need in ("init-datapoints", "init-error", "upstream-refused", "upstream-dropped", "other-records", "datapoint", "up:failall", "up:fail1", "up:slow"):
        if named.get(need, 0) == 0 and not (ctx.violations or locals().get("fails")):  # no vacuity verdict once something was found
            raise vlib.MachineryError("vacuity: %s never reached" % need)
    ctx.cov["named_situations"] = named
    ctx.cov["rule"] = ("hand-written core histories (three start-up failures; look-alike telemetry record types; refused, dropped, slow and "
                       "given-up deliveries) plus seeded random histories of up to MaxInv invocations x {0..2 datapoints before and 0..1 after "
                       "the runtime-done signal} x 6 telemetry batch shapes x 5 upstream behaviours; each on a fresh real extension with real "
                       "sockets; one evaluation = one history")


def replay(ctx, path):
    print(open(path).read()[:4000])
    return 0
