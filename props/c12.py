"""C12 -- the instance cache answers every lookup once and never forgets good data on error.
R1 InstanceCache.tla (Run arms, handleInstanceInfo, doRefresh, dispatcher batches) composed with the monitor.
P-level CacheProp.tla (abstract cache from the statement: creation by the first answer, KeepGood, last-use, eviction / re-query at
refresh ticks, gauges).  R2 CacheSched.tla (exhaustive short schedules, Core schedules, seeded long walks) x provider batch limits.
S2 harness c12: real CachedCloudProvider + lookup dispatcher, scripted CloudProvider, virtual time.  R3 CacheTrace.tla.
Recorded run TestPeekRace: reads from several goroutines at the very tick at which the entries have become idle (not judged), then the
    final gauges and reads against the abstract cache (CacheTrace.tla)."""
import json
import os
import vlib

LEVEL = "model_checking"
SCHED = """SPECIFICATION Spec
CONSTANTS MaxLen = %d
CONSTRAINT Emit
CHECK_DEADLOCK FALSE
"""


R1 = """SPECIFICATION Spec
CONSTANTS Srcs = {"a", "b"} Limit = %d Refresh = 3 TTL = 4 NegTTL = 2 Idle = 5 MaxTime = %d MaxSubmits = %d ForgetOnError = %s RecheckUnderLock = %s CoalesceAnswers = %s
INVARIANTS MonitorQuiet GaugesNonNegative
CHECK_DEADLOCK FALSE
"""


def stage(ctx, plans):
    """Runs the cache schedules; returns (named situations, [(clause, replay, description)]). Also used by C19: events wait in the
    cloud stage for exactly these answers."""
    found = []
    named = {}
    for label, ml, sim, depth in plans:
        cfg = ctx.write_cfg("CacheSched.%s.cfg" % label, SCHED % ml)
        cases = ctx.path("cache-%s.ndjson" % label)
        if sim:
            ctx.tlc_generate("CacheSched", cfg, cases, label=label, simulate=sim, depth=depth, workers=1, timeout=3000)
        else:
            ctx.tlc_generate("CacheSched", cfg, cases, label=label, timeout=3000)
        out, tr = ctx.path("out-%s.json" % label), ctx.path("trace-%s.ndjson" % label)
        rc, txt, wall = ctx.go_test("c12", run="TestSchedules", env={"VERIF_CASES": cases, "VERIF_OUT": out, "VERIF_TRACE_OUT": tr}, timeout=3000)
        if rc != 0 or not os.path.exists(out):
            raise vlib.MachineryError("harness c12 failed (rc=%d)\n%s" % (rc, txt[-3000:]))
        os.unlink(cases)
        r = vlib.read_results(out)
        v = ctx.tlc_validate("CacheTrace", "CacheTrace.cfg", tr, r["traces"], label=label, timeout=3000)
        ctx.cov["evaluations"] += r["evaluations"]
        ctx.cov["distinct_nontrivial"] += r["distinct_nontrivial"]
        ctx.cov["traces_validated_against_impl"] += r["evaluations"]
        ctx.cov["samples"] += r["samples"][:2]
        for k, n in r["named"].items():
            named[k] = named.get(k, 0) + n
        if v.violated:
            lines = open(tr).read().splitlines()
            start = v.line - 1
            while start > 0 and '"ev":"start"' not in lines[start]:
                start -= 1
            keep = ctx.save_replay(v.bad.split("(")[0], {"clause": v.bad, "trace_line": v.line, "run_trace": [json.loads(x) for x in lines[start:v.line]]})
            found.append((v.bad, keep, "CacheProp clause %s broken at trace line %d: %s" % (v.bad, v.line, lines[v.line - 1][:300])))
    return named, found


def race(ctx, named):
    """Recorded-trace validation of a run whose interleaving TLC does not choose: clients read their entries from several goroutines at
    the very tick at which the entries have become idle (reads not logged, not judged), then stay away; CacheTrace holds the final
    gauges and reads against the abstract cache, which is empty by then."""
    out, tr = ctx.path("out-race.json"), ctx.path("trace-race.ndjson")
    rounds = 8 if ctx.tier == "quick" else 120
    rc, txt, wall = ctx.go_test("c12", run="TestPeekRace", env={"VERIF_OUT": out, "VERIF_TRACE_OUT": tr, "VERIF_RACE_ROUNDS": str(rounds),
                                                                 "VERIF_RACE_SOURCES": str(400 + 37 * (ctx.seed % 7))}, timeout=3000)
    if rc != 0 or not os.path.exists(out):
        sig = vlib.crash_attribution(txt)
        if sig:
            ctx.violation("crash:" + sig[0], ctx.save_replay("crash", {"output": sig[1]}), "the instance cache crashed under concurrent reads: " + sig[0])
            return
        raise vlib.MachineryError("harness c12 TestPeekRace failed (rc=%d)\n%s" % (rc, txt[-3000:]))
    r = vlib.read_results(out)
    v = ctx.tlc_validate("CacheTrace", "CacheTrace.cfg", tr, r["traces"], label="peek-race", timeout=3000)
    ctx.cov["evaluations"] += r["evaluations"]
    ctx.cov["distinct_nontrivial"] += r["distinct_nontrivial"]
    ctx.cov["traces_validated_against_impl"] += r["evaluations"]
    for k, n in r["named"].items():
        named[k] = named.get(k, 0) + n
    if v.violated:
        lines = open(tr).read().splitlines()
        tail = [json.loads(x) for x in lines[max(0, v.line - 12):v.line]]
        keep = ctx.save_replay(v.bad.split("(")[0] + "-race", {"clause": v.bad, "trace_line": v.line, "last_events": tail,
                                                                "driver": "harness/c12 TestPeekRace (reads racing with the eviction tick)"})
        ctx.violation(v.bad, keep, "CacheProp clause %s broken after reads raced with eviction ticks, trace line %d: %s" % (v.bad, v.line, lines[v.line - 1][:300]))


def run(ctx):
    # R1: the cache + dispatcher model composed with the monitor
    for lim, mt, ms in ([(2, 9, 2), (1, 6, 3)] if ctx.tier == "quick" else [(2, 9, 3), (1, 9, 3), (3, 12, 3)]):
        ctx.tlc_check("InstanceCache", ctx.write_cfg("InstanceCache.%d-%d-%d.cfg" % (lim, mt, ms), R1 % (lim, mt, ms, "FALSE", "FALSE", "FALSE")),
                      label="limit=%d maxtime=%d submits=%d" % (lim, mt, ms), timeout=3000)
    bad = ctx.tlc_check("InstanceCache", ctx.write_cfg("InstanceCache.forget.cfg", R1 % (2, 9, 2, "TRUE", "FALSE", "FALSE")), label="forget on error (must fail)", must_pass=False)
    if not bad.violated:
        raise vlib.MachineryError("vacuity: the forget-on-error variant was not refuted")
    bad = ctx.tlc_check("InstanceCache", ctx.write_cfg("InstanceCache.recheck.cfg", R1 % (2, 9, 2, "FALSE", "TRUE", "FALSE")),
                        label="eviction re-checks the access time after the gauges were booked (must fail)", must_pass=False)
    if not bad.violated:
        raise vlib.MachineryError("vacuity: the re-check-under-lock variant was not refuted")
    bad = ctx.tlc_check("InstanceCache", ctx.write_cfg("InstanceCache.coalesce.cfg", R1 % (2, 9, 3, "FALSE", "FALSE", "TRUE")),
                        label="answers waiting for the consumer are coalesced per source (must fail)", must_pass=False)
    if not bad.violated:
        raise vlib.MachineryError("vacuity: the coalescing variant was not refuted")
    plans = [("bfs3", 3, None, None), ("sim10", 10, "num=%d" % (700 if ctx.tier == "quick" else 20000), 11)]
    if ctx.tier == "thorough":
        plans.insert(1, ("bfs4", 4, None, None))
    named, found = stage(ctx, plans)
    for clause, keep, desc in found:
        ctx.violation(clause, keep, desc)
    race(ctx, named)
    for need in ("peek-race-round", "tick", "emit", "outcome:error", "outcome:partial", "outcome:errpartial", "outcome:empty"):
        if named.get(need, 0) == 0 and not (ctx.violations or locals().get("fails")):  # no vacuity verdict once something was found
            raise vlib.MachineryError("vacuity: %s never reached" % need)
    ctx.cov["named_situations"] = named
    ctx.cov["exhaustive"] = True
    ctx.cov["rule"] = ("every schedule of MaxLen stimuli over {submit a|b|c, peek a|b, advance 1|29|31|60|61|100|151 s, provider outcome "
                       "full|partial|empty|error|error+partial, emit} x batch limits {1,2,10}, the Core schedules (failed refresh after "
                       "success, partial map, duplicate submission, TTL and idle in one tick), and seeded walks of length 10")
    ctx.assumptions.append("times are whole seconds; the 10 ms batch window only shifts answers by a sub-second amount that cannot cross a tick")


def replay(ctx, path):
    print(open(path).read()[:3000])
    return 0
