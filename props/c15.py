"""C15 -- the forwarder delivers every batch exactly once or reports it dropped.
R1: Forwarder.tla (consolidator slots take/merge/put, Drain / hand-over / Fill, request tokens, retry give-up rule) composed with the
    DeliveryProp monitor + a conservation invariant; a Drain that collects one map too few must be refuted.
R2: ForwarderSched.tla (configurations x stimulus schedules, Core schedules).  S2: harness c15 (real forwarder, scripted upstream,
    real flush coordinator or timer, synctest).  R3: DeliveryTrace.tla."""
import json
import os
import vlib

LEVEL = "model_checking"
R1 = """SPECIFICATION Spec
CONSTANTS Slots = %d Clients = {1, 2} MaxBatches = %d MaxReq = %d Win %s MaxTime = %d MaxFlushes = 2 FillBeforeHand = %s DrainShort = %s
INVARIANTS MonitorQuiet TokensOK Conservation
CHECK_DEADLOCK FALSE
"""
SCHED = """SPECIFICATION Spec
CONSTANTS MaxLen = %d
CONSTRAINT Emit
CHECK_DEADLOCK FALSE
"""


def run(ctx):
    insts = [(2, 3, 1, 1, 2, "FALSE"), (1, 3, 1, 1, 2, "FALSE"), (2, 3, 2, -1, 1, "FALSE"), (2, 3, 1, 1, 2, "TRUE")]
    if ctx.tier == "thorough":
        insts += [(2, 4, 2, 1, 3, "FALSE"), (3, 4, 1, 2, 3, "FALSE")]
    for s, mb, mr, w, mt, fbh in insts:
        ctx.tlc_check("Forwarder", ctx.write_cfg("Forwarder.%d-%d-%d-%d-%s.cfg" % (s, mb, mr, mt, fbh), R1 % (s, mb, mr, ("= %d" % w) if w >= 0 else "<- MinusOne", mt, fbh, "FALSE")),
                      label="slots=%d batches=%d reqs=%d W=%d fillfirst=%s" % (s, mb, mr, w, fbh), timeout=3000)
    bad = ctx.tlc_check("Forwarder", ctx.write_cfg("Forwarder.drainshort.cfg", R1 % (2, 3, 1, "= 1", 2, "FALSE", "TRUE")), label="Drain one short (must fail)", must_pass=False)
    if not bad.violated:
        raise vlib.MachineryError("vacuity: the short Drain was not refuted")
    plans = [("bfs2", 2, None, None, 6), ("sim9", 9, "num=%d" % (500 if ctx.tier == "quick" else 15000), 10, 1)]
    if ctx.tier == "thorough":
        plans = [("bfs2", 2, None, None, 1), ("bfs3", 3, None, None, 12), ("sim12", 12, "num=15000", 13, 1)]
    named = {}
    for label, ml, sim, depth, every in plans:
        cfg = ctx.write_cfg("ForwarderSched.%s.cfg" % label, SCHED % ml)
        cases = ctx.path("fwd-%s.ndjson" % label)
        if sim:
            ctx.tlc_generate("ForwarderSched", cfg, cases, label=label, simulate=sim, depth=depth, workers=1, timeout=3000)
        else:
            ctx.tlc_generate("ForwarderSched", cfg, cases, label=label, timeout=3000)
        out, tr = ctx.path("out-%s.json" % label), ctx.path("trace-%s.ndjson" % label)
        rc, txt, wall = ctx.go_test("c15", run="TestSchedules", env={"VERIF_CASES": cases, "VERIF_OUT": out, "VERIF_TRACE_OUT": tr, "VERIF_EVERY": str(every)}, timeout=3000)
        if rc != 0 or not os.path.exists(out):
            raise vlib.MachineryError("harness c15 failed (rc=%d)\n%s" % (rc, txt[-3000:]))
        os.unlink(cases)
        r = vlib.read_results(out)
        v = ctx.tlc_validate("DeliveryTrace", "DeliveryTrace.cfg", tr, r["traces"], label=label, timeout=3000)
        ctx.cov["evaluations"] += r["evaluations"]
        ctx.cov["distinct_nontrivial"] += r["distinct_nontrivial"]
        ctx.cov["traces_validated_against_impl"] += r["evaluations"]
        ctx.cov["samples"] += r["samples"][:2]
        for k, n in r["named"].items():
            named[k] = named.get(k, 0) + n
        for f in r["failures"]:
            if f["prop"] == "C15":
                ctx.violation(f["sig"], ctx.save_replay(f["sig"], f), f["desc"])
        if v.violated:
            lines = open(tr).read().splitlines()
            start = v.line - 1
            while start > 0 and '"ev":"start"' not in lines[start]:
                start -= 1
            keep = ctx.save_replay(v.bad.split("(")[0], {"clause": v.bad, "trace_line": v.line, "run_trace": [json.loads(x) for x in lines[start:v.line]]})
            ctx.violation(v.bad, keep, "DeliveryProp clause %s broken at trace line %d: %s (run: %s)" % (v.bad, v.line, lines[v.line - 1][:300], lines[start][:200]))
    # real-time stress: concurrent dispatchers, continuous manual flushes, slow merges; same monitor
    out, tr = ctx.path("out-stress.json"), ctx.path("trace-stress.ndjson")
    rc, txt, wall = ctx.go_test("c15", run="TestStress", env={"VERIF_OUT": out, "VERIF_TRACE_OUT": tr, "VERIF_ROUNDS": "3" if ctx.tier == "quick" else "20",
                                                              "VERIF_STRESS_MS": "700" if ctx.tier == "quick" else "2000"}, timeout=3000)
    if rc != 0 or not os.path.exists(out):
        crash = vlib.crash_attribution(txt)
        if crash and "concurrent map" in crash[0]:
            # the Go runtime killed the process for unsynchronised access to a map inside gostatsd's merge / dispatch path: two
            # owners of one batch map, i.e. the datapoints in it are not in exactly one place
            keep = ctx.save_replay("stress-concurrent-map", {"fatal": crash[0], "stack": crash[1]})
            ctx.violation("stress:concurrent-map-access", keep, "stress run: %s in gostatsd code (a batch map has two owners)" % crash[0])
            r = {"evaluations": 0, "traces": 0, "named": {"stress-round": 1}}
            out = None
        else:
            raise vlib.MachineryError("harness c15 stress failed (rc=%d)\n%s" % (rc, txt[-3000:]))
    if out is None:
        class _V:  # nothing to validate
            violated = None
        v = _V()
    else:
        r = vlib.read_results(out)
        v = ctx.tlc_validate("DeliveryTrace", "DeliveryTrace.cfg", tr, r["traces"], label="stress", timeout=600)
    ctx.cov["evaluations"] += r["evaluations"]
    ctx.cov["traces_validated_against_impl"] += r["evaluations"]
    named["stress-round"] = r["named"].get("stress-round", 0)
    if v.violated:
        lines = open(tr).read().splitlines()
        keep = ctx.save_replay("stress-" + v.bad.split("(")[0], {"clause": v.bad, "trace_line": v.line, "event": lines[v.line - 1][:2000]})
        ctx.violation("stress:" + v.bad, keep, "stress run: DeliveryProp clause %s broken at trace line %d: %s" % (v.bad, v.line, lines[v.line - 1][:300]))
    for need in ("settle", "dynamic-headers", "dynamic-header-tag-repeated", "retries-disabled", "manual-flush", "invalid-utf8-tag", "outcome:500", "outcome:connerr", "outcome:slow", "outcome:okshort"):
        if named.get(need, 0) == 0 and not (ctx.violations or locals().get("fails")):  # no vacuity verdict once something was found
            raise vlib.MachineryError("vacuity: %s never reached" % need)
    ctx.cov["named_situations"] = named
    ctx.cov["rule"] = ("64 configurations (slots 1|2, concurrent-merge 1|2, max-requests 1|2, window -1|3 s, dynamic headers on|off, manual|"
                       "timer flush) x stimulus sequences over {dispatch by client 1|2, dispatch with a non-UTF-8 tag, flush, next 1|3 "
                       "attempts ok|500|connection error|slow, advance 0.4|1|4 s}; exhaustive to length 2 (sampled), Core schedules, seeded "
                       "walks of length 9; epilogue: healthy upstream, 70 s, final flush")
    ctx.assumptions.append("dispatchers are sequential within a schedule step (each DispatchMetricMap returns before the next stimulus); "
                           "concurrent slot contention is covered by the I-level design check only")


def replay(ctx, path):
    print(open(path).read()[:3000])
    return 0
