"""C09 -- series persist until their type's expiry interval elapses, then disappear.
Aggregator.tla: P-level (T, gone) bookkeeping from the statement vs I-level map entries with timestamps and Reset's isExpired;
every history of datapoint / advance / flush up to MaxLen x expiry assignments; harness c09 replays them under virtual time."""
import os
import vlib

LEVEL = "model_checking"
GEN = """SPECIFICATION Spec
CONSTANTS Series <- %s MaxLen = %d ExpirySets <- %s
INVARIANT IAgreesWithP
CONSTRAINT Emit
CHECK_DEADLOCK FALSE
"""


def plans(tier):
    p = [("A6", "S5", 6, "ExpA")]
    if tier == "thorough":
        p += [("B7", "S4", 7, "ExpB"), ("A7", "S6", 6, "ExpA")]
    return p


def execute(ctx, props):
    fails, named = [], {}
    for label, ser, ml, es in plans(ctx.tier):
        cfg = ctx.write_cfg("MCAggregator.%s.cfg" % label, GEN % (ser, ml, es))
        cases = ctx.path("agg-%s.ndjson" % label)
        n = ctx.tlc_generate("MCAggregator", cfg, cases, label=label, timeout=3000)
        out = ctx.path("out-%s.json" % label)
        rc, txt, wall = ctx.go_test("c09", run="TestCases", env={"VERIF_CASES": cases, "VERIF_OUT": out})
        if rc != 0 or not os.path.exists(out):
            raise vlib.MachineryError("harness c09 failed (rc=%d)\n%s" % (rc, txt[-3000:]))
        r = vlib.read_results(out)
        os.unlink(cases)
        ctx.cov["traces_validated_against_impl"] += n
        ctx.cov["evaluations"] += r["evaluations"]
        ctx.cov["distinct_nontrivial"] += r["distinct_nontrivial"]
        ctx.cov["samples"] += r["samples"][:2]
        fails += [f for f in r["failures"] if f["prop"] in props]
        for k, v in r["named"].items():
            named[k] = named.get(k, 0) + v
    return fails, named


def run(ctx):
    fails, named = execute(ctx, ("C09",))
    if named.get("multi-flush", 0) == 0:
        raise vlib.MachineryError("vacuity: no history with two flushes")
    ctx.cov["named_situations"] = named
    ctx.cov["exhaustive"] = True
    ctx.cov["rule"] = ("every history over {datapoint for c|g|s|t, advance 1 unit, flush} up to MaxLen ending in a flush, under 4 "
                       "expiry assignments mixing negative / zero / positive per type; compared after every flush; "
                       "distinct_nontrivial = histories with >= 2 flushes")
    ctx.assumptions.append("datapoints of one gauge arriving in the same instant: either may win (C07's tie rule)")
    seen = set()
    for f in fails:
        if f["sig"] in seen:
            continue
        seen.add(f["sig"])
        ctx.violation(f["sig"], ctx.save_replay(f["sig"].replace(":", "_"), f), f["desc"])


def replay(ctx, path):
    print(open(path).read()[:3000])
    return 0
