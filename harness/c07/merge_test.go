//go:build verif

// Package c07 runs every ordered merge tree over TLC-enumerated families of maps (spec/MCMerge.tla) through the real
// merge implementations and compares with the canonical aggregate of spec/MetricMap.tla.
package c07

import (
	"context"
	"encoding/json"
	"fmt"
	"os"
	"sort"
	"testing"
	"time"

	"github.com/atlassian/gostatsd"
	"github.com/atlassian/gostatsd/pkg/statsd"

	"verifharness/internal/fakes"
	"verifharness/internal/vh"
)

type datum struct {
	V   int      `json:"v"`
	TS  int      `json:"ts"`
	Bag []int    `json:"bag"`
	Cnt int      `json:"cnt"`
	Mem []string `json:"mem"`
}

type entry struct {
	Ty string `json:"ty"`
	S  string `json:"s"`
	D  datum  `json:"d"`
}

type canon struct {
	Ty      string  `json:"ty"`
	S       string  `json:"s"`
	Allowed []datum `json:"allowed"`
}

type mcase struct {
	Maps  [][]entry `json:"maps"`
	Canon []canon   `json:"canon"`
}

type conc struct {
	name   map[string]string
	tags   map[string]gostatsd.Tags
	source map[string]gostatsd.Source
}

func concretisation(rng *vh.Rng) conc {
	c := conc{map[string]string{}, map[string]gostatsd.Tags{}, map[string]gostatsd.Source{}}
	c.name["x"], c.tags["x"], c.source["x"] = "m.x", gostatsd.Tags{"t:1", "a:b"}, "10.0.0.1"
	switch rng.Intn(4) {
	case 0: // differs in name only
		c.name["y"], c.tags["y"], c.source["y"] = "m.y", gostatsd.Tags{"t:1", "a:b"}, "10.0.0.1"
	case 1: // differs in source only
		c.name["y"], c.tags["y"], c.source["y"] = "m.x", gostatsd.Tags{"t:1", "a:b"}, "10.0.0.2"
	case 2: // differs in tags only
		c.name["y"], c.tags["y"], c.source["y"] = "m.x", gostatsd.Tags{"t:2"}, "10.0.0.1"
	default: // empty everything
		c.name["y"], c.tags["y"], c.source["y"] = "", nil, ""
	}
	return c
}

func (c conc) build(es []entry) *gostatsd.MetricMap {
	mm := gostatsd.NewMetricMap(false)
	for _, e := range es {
		name, tags, src := c.name[e.S], c.tags[e.S].Copy(), c.source[e.S]
		tk := gostatsd.FormatTagsKey(src, tags.Copy())
		ts := gostatsd.Nanotime(1000 * e.D.TS)
		switch e.Ty {
		case "counter":
			if mm.Counters[name] == nil {
				mm.Counters[name] = map[string]gostatsd.Counter{}
			}
			mm.Counters[name][tk] = gostatsd.Counter{Value: int64(e.D.V), Timestamp: ts, Source: src, Tags: tags}
		case "gauge":
			if mm.Gauges[name] == nil {
				mm.Gauges[name] = map[string]gostatsd.Gauge{}
			}
			mm.Gauges[name][tk] = gostatsd.Gauge{Value: float64(e.D.V) * 1.5, Timestamp: ts, Source: src, Tags: tags}
		case "timer":
			var vals []float64
			for i, n := range e.D.Bag {
				for k := 0; k < n; k++ {
					vals = append(vals, float64(i+1))
				}
			}
			if mm.Timers[name] == nil {
				mm.Timers[name] = map[string]gostatsd.Timer{}
			}
			mm.Timers[name][tk] = gostatsd.Timer{Values: vals, SampledCount: float64(e.D.Cnt), Timestamp: ts, Source: src, Tags: tags}
		case "set":
			m := map[string]struct{}{}
			for _, v := range e.D.Mem {
				m[v] = struct{}{}
			}
			if mm.Sets[name] == nil {
				mm.Sets[name] = map[string]gostatsd.Set{}
			}
			mm.Sets[name][tk] = gostatsd.Set{Values: m, Timestamp: ts, Source: src, Tags: tags}
		}
	}
	return mm
}

// datapoints turns a batch into the datapoints a parser would have produced for it (MetricMap.Receive is how they get into a
// consolidator slot); ok = false when the batch's timer sampled count cannot come from sample rates <= 1
func (c conc) datapoints(es []entry, rng *vh.Rng) (ms []*gostatsd.Metric, ok bool) {
	order := append([]entry{}, es...)
	for i := len(order) - 1; i > 0; i-- {
		j := rng.Intn(i + 1)
		order[i], order[j] = order[j], order[i]
	}
	for _, e := range order {
		name, tags, src := c.name[e.S], c.tags[e.S], c.source[e.S]
		ts := gostatsd.Nanotime(1000 * e.D.TS)
		mk := func(t gostatsd.MetricType, v float64, sv string, rate float64) {
			ms = append(ms, &gostatsd.Metric{Name: name, Type: t, Value: v, StringValue: sv, Rate: rate, Tags: tags.Copy(), Source: src, Timestamp: ts})
		}
		switch e.Ty {
		case "counter":
			mk(gostatsd.COUNTER, float64(e.D.V), "", 1)
		case "gauge":
			mk(gostatsd.GAUGE, float64(e.D.V)*1.5, "", 1)
		case "timer":
			var vals []float64
			for i, n := range e.D.Bag {
				for k := 0; k < n; k++ {
					vals = append(vals, float64(i+1))
				}
			}
			if len(vals) == 0 || e.D.Cnt < len(vals) {
				return nil, false
			}
			for i, v := range vals {
				rate := 1.0
				if i == 0 { // the first datapoint of the series carries the whole surplus of the sampled count
					rate = 1 / float64(e.D.Cnt-(len(vals)-1))
				}
				mk(gostatsd.TIMER, v, "", rate)
			}
		case "set":
			if len(e.D.Mem) == 0 {
				return nil, false
			}
			for _, m := range e.D.Mem {
				mk(gostatsd.SET, 0, m, 1)
			}
		}
	}
	return ms, true
}

// check compares a result with the canonical aggregate; returns (sig, desc) or "".
func (c conc) check(got *gostatsd.MetricMap, cn []canon) (string, string) {
	flat := map[string]fakes.Series{}
	for _, s := range fakes.Flatten(got) {
		flat[s.Key()] = s
	}
	for _, w := range cn {
		tags := append([]string{}, c.tags[w.S]...)
		sort.Strings(tags)
		probe := fakes.Series{Type: w.Ty, Name: c.name[w.S], Tags: tags, Source: string(c.source[w.S])}
		g, ok := flat[probe.Key()]
		if !ok {
			return "series-lost:" + w.Ty, fmt.Sprintf("series %s missing from the merged map", probe.Key())
		}
		delete(flat, probe.Key())
		okAny := false
		why := ""
		for _, a := range w.Allowed {
			if g.TS != int64(1000*a.TS) {
				why = fmt.Sprintf("timestamp %d want %d", g.TS, 1000*a.TS)
				continue
			}
			switch w.Ty {
			case "counter":
				if g.Counter != int64(a.V) {
					why = fmt.Sprintf("counter %d want %d", g.Counter, a.V)
					continue
				}
			case "gauge":
				if g.Gauge != float64(a.V)*1.5 {
					why = fmt.Sprintf("gauge %v not a value carrying the newest timestamp", g.Gauge)
					continue
				}
			case "timer":
				var vals []float64
				for i, n := range a.Bag {
					for k := 0; k < n; k++ {
						vals = append(vals, float64(i+1))
					}
				}
				if fmt.Sprint(vals) != fmt.Sprint(g.Values) && !(len(vals) == 0 && len(g.Values) == 0) {
					why = fmt.Sprintf("timer values %v want %v", g.Values, vals)
					continue
				}
				if g.Sampled != float64(a.Cnt) {
					why = fmt.Sprintf("sampled count %v want %d", g.Sampled, a.Cnt)
					continue
				}
			case "set":
				m := append([]string{}, a.Mem...)
				sort.Strings(m)
				if fmt.Sprint(m) != fmt.Sprint(g.Members) && !(len(m) == 0 && len(g.Members) == 0) {
					why = fmt.Sprintf("set members %v want %v", g.Members, m)
					continue
				}
			}
			okAny = true
			break
		}
		if !okAny {
			kind := "value"
			if len(why) > 9 && why[:9] == "timestamp" {
				kind = "timestamp"
			}
			return "wrong-" + kind + ":" + w.Ty, fmt.Sprintf("series %s: %s", probe.Key(), why)
		}
	}
	for k := range flat {
		return "series-phantom", "unexpected series " + k
	}
	return "", ""
}

// hitCache knows every address it is asked about (the cloud stage's fast path)
type hitCache struct {
	byAddr map[gostatsd.Source]*gostatsd.Instance
}

func (h *hitCache) Peek(ip gostatsd.Source) (*gostatsd.Instance, bool) {
	i, ok := h.byAddr[ip]
	return i, ok
}
func (h *hitCache) IpSink() chan<- gostatsd.Source           { return make(chan gostatsd.Source, 64) }
func (h *hitCache) InfoSource() <-chan gostatsd.InstanceInfo { return nil }
func (h *hitCache) EstimatedTags() int                       { return 1 }

// tree is an ordered binary merge tree over leaf indices.
type tree struct {
	leaf        int
	left, right *tree
}

func (t *tree) String() string {
	if t.left == nil {
		return fmt.Sprint(t.leaf)
	}
	return "(" + t.left.String() + " <- " + t.right.String() + ")"
}

func trees(idx []int) []*tree {
	if len(idx) == 1 {
		return []*tree{{leaf: idx[0]}}
	}
	var out []*tree
	n := len(idx)
	for mask := 1; mask < (1<<n)-1; mask++ {
		var a, b []int
		for i, x := range idx {
			if mask&(1<<i) != 0 {
				a = append(a, x)
			} else {
				b = append(b, x)
			}
		}
		for _, l := range trees(a) {
			for _, r := range trees(b) {
				out = append(out, &tree{left: l, right: r})
			}
		}
	}
	return out
}

func perms(n int) [][]int {
	if n == 1 {
		return [][]int{{0}}
	}
	var out [][]int
	for _, p := range perms(n - 1) {
		for i := 0; i <= len(p); i++ {
			q := append(append(append([]int{}, p[:i]...), n-1), p[i:]...)
			out = append(out, q)
		}
	}
	return out
}

func TestCases(t *testing.T) {
	path := os.Getenv("VERIF_CASES")
	if path == "" {
		t.Skip("VERIF_CASES not set")
	}
	res := vh.NewResult()
	defer res.Write()
	seed := vh.Seed()
	treeCache := map[int][]*tree{}
	permCache := map[int][][]int{}
	err := vh.ReadCases(path, func(idx int, raw []byte) error {
		var c mcase
		if err := json.Unmarshal(raw, &c); err != nil {
			return err
		}
		rng := vh.NewRng(seed, idx)
		cc := concretisation(rng)
		n := len(c.Maps)
		if treeCache[n] == nil {
			ids := make([]int, n)
			for i := range ids {
				ids[i] = i
			}
			treeCache[n] = trees(ids)
			permCache[n] = perms(n)
		}
		rec := func(how string) map[string]any {
			return map[string]any{"family": c.Maps, "how": how, "case": idx, "y_is": fmt.Sprint(cc.name["y"], cc.tags["y"], cc.source["y"])}
		}
		report := func(impl, how string, got *gostatsd.MetricMap) {
			res.Eval(n >= 2)
			if sig, d := cc.check(got, c.Canon); sig != "" {
				res.Fail("C07", impl+":"+sig, fmt.Sprintf("%s %s: %s", impl, how, d), rec(how))
			}
		}
		// 1. every ordered merge tree through MetricMap.Merge
		var eval func(t *tree) *gostatsd.MetricMap
		eval = func(t *tree) *gostatsd.MetricMap {
			if t.left == nil {
				return cc.build(c.Maps[t.leaf])
			}
			into := eval(t.left)
			into.Merge(eval(t.right))
			return into
		}
		for _, tr := range treeCache[n] {
			report("Merge", tr.String(), eval(tr))
		}
		res.Hit(fmt.Sprintf("trees:%d", len(treeCache[n])))
		for _, p := range permCache[n] {
			how := fmt.Sprint(p)
			// 2. MergeMaps
			var ms []*gostatsd.MetricMap
			for _, i := range p {
				ms = append(ms, cc.build(c.Maps[i]))
			}
			report("MergeMaps", how, gostatsd.MergeMaps(ms))
			// 3. consolidator with 1..3 slots (sequential receives rotate through the slots)
			for slots := 1; slots <= 3; slots++ {
				sink := make(chan []*gostatsd.MetricMap, 1)
				mc := gostatsd.NewMetricConsolidator(slots, false, time.Hour, sink)
				for _, i := range p {
					mc.ReceiveMetricMap(cc.build(c.Maps[i]))
				}
				report("Consolidator", fmt.Sprintf("%s slots=%d", how, slots), gostatsd.MergeMaps(mc.Drain()))
			}
			// 6. datapoint by datapoint into consolidator slots (MetricMap.Receive), each batch into the next slot
			for slots := 1; slots <= 3; slots++ {
				sink := make(chan []*gostatsd.MetricMap, 1)
				mc := gostatsd.NewMetricConsolidator(slots, false, time.Hour, sink)
				expressible := true
				for _, i := range p {
					ms, ok := cc.datapoints(c.Maps[i], rng)
					if !ok {
						expressible = false
						break
					}
					mc.ReceiveMetrics(ms)
				}
				if expressible {
					report("Datapoints", fmt.Sprintf("%s slots=%d", how, slots), gostatsd.MergeMaps(mc.Drain()))
					res.Hit("datapoint-route")
				}
			}
			// 4. aggregator
			a := statsd.NewMetricAggregator(nil, 0, 0, 0, 0, gostatsd.TimerSubtypes{}, 0)
			for _, i := range p {
				a.ReceiveMap(cc.build(c.Maps[i]))
			}
			a.Process(func(mm *gostatsd.MetricMap) { report("Aggregator", how, mm) })
		}
		// 5. the tag stage's own collision merge: all maps of the family in ONE batch, kept apart by a tag i:<k> that a
		//    drop-tags filter removes (so the series coincide inside TagHandler.DispatchMetricMap); a static tag is added
		{
			big := gostatsd.NewMetricMap(false)
			tagged := conc{cc.name, map[string]gostatsd.Tags{}, cc.source}
			for i, es := range c.Maps {
				for k, v := range cc.tags {
					tagged.tags[k] = append(v.Copy(), fmt.Sprintf("i:%d", i))
				}
				big.Merge(tagged.build(es))
			}
			sink := &fakes.Handler{}
			th := statsd.NewTagHandler(sink, gostatsd.Tags{"st:1"}, []statsd.Filter{{DropTags: gostatsd.StringMatchList{gostatsd.NewStringMatch("i:*")}}})
			th.DispatchMetricMap(context.Background(), big)
			maps, _ := sink.Take()
			after := conc{cc.name, map[string]gostatsd.Tags{}, cc.source}
			for k, v := range cc.tags {
				after.tags[k] = append(v.Copy(), "st:1")
			}
			res.Eval(n >= 2)
			if len(maps) != 1 {
				res.Fail("C07", "TagStage:no-output", "tag stage dispatched nothing", rec("tagstage"))
			} else if sig, d := after.check(maps[0], c.Canon); sig != "" {
				res.Fail("C07", "TagStage:"+sig, "TagStage collapse: "+d, rec("tagstage"))
			}
		}
		// 7. the cloud stage's cache-hit path: all maps of the family in ONE batch, each map from an address of its own; the addresses of
		//    series x all belong to one instance, those of y to another (series without a source pass through unchanged), so the series
		//    coincide when the stage replaces the address by the instance id
		{
			big := gostatsd.NewMetricMap(false)
			cache := &hitCache{byAddr: map[gostatsd.Source]*gostatsd.Instance{}}
			for i, es := range c.Maps {
				from := conc{cc.name, cc.tags, map[string]gostatsd.Source{}}
				for k, src := range cc.source {
					if src == "" {
						from.source[k] = ""
						continue
					}
					addr := gostatsd.Source(fmt.Sprintf("10.9.%d.%d", i, map[string]int{"x": 1, "y": 2}[k]))
					from.source[k] = addr
					cache.byAddr[addr] = &gostatsd.Instance{ID: gostatsd.Source("inst-" + k), Tags: gostatsd.Tags{"cloud:" + k}}
				}
				big.Merge(from.build(es))
			}
			sink := &fakes.Handler{}
			statsd.NewCloudHandler(cache, sink).DispatchMetricMap(context.Background(), big)
			maps, _ := sink.Take()
			after := conc{cc.name, map[string]gostatsd.Tags{}, map[string]gostatsd.Source{}}
			for k, v := range cc.tags {
				if cc.source[k] == "" {
					after.tags[k], after.source[k] = v.Copy(), ""
				} else {
					after.tags[k], after.source[k] = append(v.Copy(), "cloud:"+k), gostatsd.Source("inst-"+k)
				}
			}
			res.Eval(n >= 2)
			res.Hit("cloud-hit-path")
			if len(maps) != 1 {
				res.Fail("C07", "CloudHit:no-output", fmt.Sprintf("cloud stage dispatched %d maps for a batch of known sources", len(maps)), rec("cloudhit"))
			} else if sig, d := after.check(maps[0], c.Canon); sig != "" {
				res.Fail("C07", "CloudHit:"+sig, "cloud stage, addresses of one instance in one batch: "+d, rec("cloudhit"))
			}
		}
		for _, cn := range c.Canon {
			if cn.Ty == "gauge" && len(cn.Allowed) > 1 {
				res.Hit("gauge-tie")
			}
		}
		if idx%1499 == 3 {
			res.Sample(c)
		}
		return nil
	})
	if err != nil {
		t.Fatal(err)
	}
	res.Distinct = res.Evaluations
}
