//go:build verif

package c16

import (
	"strings"
	"context"
	"encoding/json"
	"errors"
	"fmt"
	"net"
	"net/http"
	"os"
	"regexp"
	"sort"
	"strconv"
	"sync"
	"testing"
	"testing/synctest"
	"time"

	"github.com/atlassian/gostatsd"
	"github.com/atlassian/gostatsd/pkg/statsd"

	"verifharness/internal/bk"
	"verifharness/internal/trace"
	"verifharness/internal/vh"
)

type bop struct {
	Op string `json:"op"`
	N  int    `json:"n"`
	O  string `json:"o"`
}

type bcase struct {
	Sched []bop `json:"sched"`
}

var nameRe = regexp.MustCompile(`r(\d+)x(\d+)`)

// plan decides the next transport operations.
type plan struct {
	mu    sync.Mutex
	tw    *trace.Writer
	queue []string
}

func (p *plan) next() string {
	p.mu.Lock()
	defer p.mu.Unlock()
	if len(p.queue) == 0 {
		return "ok"
	}
	o := p.queue[0]
	p.queue = p.queue[1:]
	return o
}

// note records which batches of which request a transport operation carried.
func (p *plan) note(payload []byte, ok bool) {
	// newrelic compresses the already compressed body again on every retry: peel until the names are readable
	for i := 0; i < 4 && len(payload) > 2 && payload[0] == 0x1f && payload[1] == 0x8b; i++ {
		d, err := bk.Decode("gzip", payload)
		if err != nil {
			break
		}
		payload = d
	}
	seen := map[string]bool{}
	for _, m := range nameRe.FindAllSubmatch(payload, -1) {
		k := string(m[1]) + "/" + string(m[2])
		if seen[k] {
			continue
		}
		seen[k] = true
		id, _ := strconv.Atoi(string(m[1]))
		b, _ := strconv.Atoi(string(m[2]))
		p.tw.Emit(map[string]any{"ev": "attempt", "id": id, "b": b, "ok": ok})
	}
}

type pconn struct{ p *plan }

func (c *pconn) Write(b []byte) (int, error) {
	o := c.p.next()
	c.p.note(b, o == "ok")
	if o != "ok" {
		return 0, errors.New("write: broken pipe")
	}
	return len(b), nil
}
func (c *pconn) Read([]byte) (int, error)         { select {} }
func (c *pconn) Close() error                     { return nil }
func (c *pconn) LocalAddr() net.Addr              { return nil }
func (c *pconn) RemoteAddr() net.Addr             { return nil }
func (c *pconn) SetDeadline(time.Time) error      { return nil }
func (c *pconn) SetReadDeadline(time.Time) error  { return nil }
func (c *pconn) SetWriteDeadline(time.Time) error { return nil }

func mapFor(id, batches int) *gostatsd.MetricMap {
	agg := statsd.NewMetricAggregator([]float64{90}, 0, 0, 0, 0, gostatsd.TimerSubtypes{}, 0)
	in := gostatsd.NewMetricMap(false)
	for i := 0; i < batches*2; i++ { // two series per batch with MetricsPerBatch tuned by the driver
		in.Receive(&gostatsd.Metric{Name: fmt.Sprintf("r%dx%d", id, i/2), Type: gostatsd.GAUGE, Value: float64(i), Rate: 1, Tags: gostatsd.Tags{"k:v"}, Source: "h", Timestamp: 1})
		if i%2 == 0 {
			in.Receive(&gostatsd.Metric{Name: fmt.Sprintf("r%dx%d", id, i/2), Type: gostatsd.COUNTER, Value: 1, Rate: 1, Tags: gostatsd.Tags{"k:v"}, Source: "h", Timestamp: 1})
		}
	}
	agg.ReceiveMap(in)
	agg.Flush(time.Second)
	var out *gostatsd.MetricMap
	agg.Process(func(mm *gostatsd.MetricMap) { out = mm })
	return out
}

var variants = []string{"graphite/tags", "statsdaemon/tcp", "statsdaemon/udp", "datadog", "influxdb/v2", "newrelic/metrics", "newrelic/infra", "otlp/AsGauge", "otlp/AsHistogram", "cloudwatch", "stdout", "null",
	// otlp with max_request_elapsed_time 0 ("never stop until reaches MaxRetries"): the retry budget alone ends a delivery
	"otlp/AsGauge#retries"}

func runBackend(t *testing.T, tw *trace.Writer, vname string, c *bcase, idx int, res *vh.Result) {
	base, opt, _ := strings.Cut(vname, "#")
	v, ok := bk.ByName(base)
	if !ok {
		t.Fatalf("no variant %s", vname)
	}
	defer func() {
		// goroutines of the backend that stay blocked for ever after shutdown make the bubble panic on exit; the trace written so
		// far is still judged (a request they should have answered shows up there as never answered)
		if x := recover(); x != nil {
			res.Note("%s case %d: %v", vname, idx, x)
			res.Hit("goroutines-left-blocked")
		}
	}()
	synctest.Test(t, func(t *testing.T) {
		p := &plan{tw: tw}
		env := bk.NewEnv()
		env.MetricsPerBatch = 3
		env.MaxRequests = 2
		env.MaxRequestElapsedTime = 3 * time.Second
		if opt == "retries" {
			// two retries with back-offs of at most 0.75 s and 1.125 s and answers that take at most 2 s: within the 8 s per round
			// of batches the driver allows before it says "expired"
			env.Set("otlp.max_request_elapsed_time", "0s").Set("otlp.max_retries", 2)
		}
		env.HTTP.Respond = func(a bk.Attempt) bk.Outcome {
			o := p.next()
			p.note(a.Decoded, o == "ok")
			switch o {
			case "500":
				return bk.Status(500)
			case "connerr":
				return bk.Fail(bk.ErrRefused)
			case "429ra":
				return bk.StatusRetryAfter(http.StatusTooManyRequests, 1)
			case "slow":
				return bk.Slow(2*time.Second, bk.Status(500))
			}
			return bk.OK()
		}
		env.Conn.Dial = func(int) (net.Conn, error) {
			if o := p.next(); o != "ok" {
				return nil, bk.ErrRefused
			}
			return &pconn{p}, nil
		}
		env.CW.Respond = func(call bk.CWCall) bk.Outcome {
			o := p.next()
			var payload []byte
			for _, d := range call.Data {
				if d.MetricName != nil {
					payload = append(payload, []byte(*d.MetricName+" ")...)
				}
			}
			p.note(payload, o == "ok")
			if o == "slow" {
				return bk.Slow(2*time.Second, bk.Fail(errors.New("cloudwatch: throttled")))
			}
			if o != "ok" {
				return bk.Fail(errors.New("cloudwatch: throttled"))
			}
			return bk.OK()
		}
		b, err := v.New(env)
		if err != nil {
			t.Fatal(err)
		}
		ctx, cancel := context.WithCancel(context.Background())
		tw.Emit(map[string]any{"ev": "reset", "case": idx, "what": vname})
		stop := env.Start(ctx, b)
		synctest.Wait()
		nreq := 0
		var lastCancel context.CancelFunc
		lastID, justCancelled := 0, 0
		issued := map[int]time.Time{}
		waves := map[int]int{} // how many rounds of max_requests (2) concurrent batches a request needs
		var send func(batches int, fresh bool)
		precancel := false
		send = func(batches int, fresh bool) {
			nreq++
			id := nreq
			issued[id] = time.Now()
			waves[id] = (batches + 1) / 2
			if waves[id] == 0 {
				waves[id] = 1
			}
			rctx, rc := context.WithCancel(env.Context(ctx))
			if !fresh {
				lastCancel, lastID = rc, id
			}
			mm := mapFor(id, batches)
			tw.Emit(map[string]any{"ev": "req", "id": id, "batches": batches})
			if precancel {
				rc()
			}
			go func() {
				defer func() {
					if x := recover(); x != nil {
						tw.Emit(map[string]any{"ev": "panic", "what": fmt.Sprint(x)})
					}
				}()
				b.SendMetricsAsync(rctx, mm, func(errs []error) {
					has := false
					for _, e := range errs {
						has = has || e != nil
					}
					tw.Emit(map[string]any{"ev": "cb", "id": id, "err": has})
				})
				tw.Emit(map[string]any{"ev": "ret", "id": id}) // the flusher has its goroutine back
			}()
		}
		for _, o := range c.Sched {
			switch o.Op {
			case "send":
				send(o.N, false)
				res.Hit(fmt.Sprintf("batches:%d", o.N))
			case "sendc":
				precancel = true
				for k := 0; k < 12; k++ {
					send(o.N, false)
					synctest.Wait()
				}
				precancel = false
				res.Hit("request-with-cancelled-context")
			case "sendm": // a dozen requests, each with a context of its own that nobody cancels: more than a sender's queue holds
				for k := 0; k < 12; k++ {
					send(o.N, true)
					synctest.Wait()
				}
				res.Hit("more-requests-than-the-queue-holds")
			case "fail":
				p.mu.Lock()
				for k := 0; k < o.N; k++ {
					p.queue = append(p.queue, o.O)
				}
				p.mu.Unlock()
				res.Hit("fail:" + o.O)
			case "adv":
				time.Sleep(time.Duration(o.N) * time.Second)
			case "cancel":
				if lastCancel != nil {
					lastCancel()
					res.Hit("cancel")
					justCancelled, lastCancel = lastID, nil
				}
			}
			synctest.Wait()
			if justCancelled != 0 && v.Kind == bk.KindConn {
				// a socket backend answers a request when the connection recovers or the request is cancelled: this one was, and the
				// backend has come to rest since
				tw.Emit(map[string]any{"ev": "cancelled", "id": justCancelled})
				res.Hit("socket-request-cancelled")
			}
			justCancelled = 0
			if v.Kind == bk.KindHTTP {
				// an HTTP backend answers when delivery succeeds or the retry window (3 s) of each batch ends; batches go out at most
				// two at a time, a slow answer takes 2 s, Retry-After is 1 s: 8 s per round of batches is a safe bound
				var old []int
				for id, at := range issued {
					if time.Since(at) >= time.Duration(8*waves[id])*time.Second {
						old = append(old, id)
					}
				}
				if len(old) > 0 {
					sort.Ints(old)
					tw.Emit(map[string]any{"ev": "expired", "ids": old})
					res.Hit("window-expired-check")
				}
			}
			if pp := env.RunPanic(); pp != nil {
				tw.Emit(map[string]any{"ev": "panic", "what": fmt.Sprint(pp)})
			}
		}
		// epilogue: healthy transport, past every retry window, then one more flush with a fresh context
		p.mu.Lock()
		p.queue = nil
		p.mu.Unlock()
		time.Sleep(12 * time.Second)
		synctest.Wait()
		send(1, true)
		time.Sleep(2 * time.Second)
		synctest.Wait()
		tw.Emit(map[string]any{"ev": "final"})
		res.Eval(nreq >= 2)
		cancel()
		stop()
		env.Close()
		synctest.Wait()
	})
}

func TestBackends(t *testing.T) {
	path := os.Getenv("VERIF_CASES")
	if path == "" {
		t.Skip("VERIF_CASES not set")
	}
	res := vh.NewResult()
	defer res.Write()
	tw, err := trace.New(os.Getenv("VERIF_TRACE_OUT"))
	if err != nil {
		t.Fatal(err)
	}
	defer tw.Close()
	every := vh.EnvInt("VERIF_EVERY", 1)
	seed := vh.Seed()
	seen := map[string]bool{}
	err = vh.ReadCases(path, func(idx int, raw []byte) error {
		if seen[string(raw)] {
			return nil
		}
		seen[string(raw)] = true
		var c bcase
		if err := json.Unmarshal(raw, &c); err != nil {
			return err
		}
		for vi, vn := range variants {
			if len(c.Sched) < 4 && (idx+vi+int(seed))%every != 0 { // the Core schedules always run everywhere
				continue
			}
			runBackend(t, tw, vn, &c, idx, res)
			res.Hit("variant:" + vn)
		}
		if idx%701 == 2 {
			res.Sample(c)
		}
		return nil
	})
	if err != nil {
		t.Fatal(err)
	}
	res.Traces = tw.N
	res.Distinct = res.Evaluations
}
