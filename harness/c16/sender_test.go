//go:build verif

// Package c16 drives the real sender.Sender, and the real backends through internal/bk, with TLC-generated fault schedules inside
// a synctest bubble and records traces judged by spec/CompletionTrace.tla (C16).
package c16

import (
	"bytes"
	"context"
	"encoding/json"
	"errors"
	"fmt"
	"net"
	"os"
	"strings"
	"sync"
	"testing"
	"testing/synctest"
	"time"

	"github.com/sirupsen/logrus"

	"github.com/atlassian/gostatsd/pkg/backends/sender"

	"verifharness/internal/trace"
	"verifharness/internal/vh"
)

type op struct {
	Op string `json:"op"`
	N  int    `json:"n"`
}

type scase struct {
	Sched []op `json:"sched"`
}

// conn is an in-memory net.Conn whose writes are recorded as attempt events.
type conn struct {
	env *senv
}

type senv struct {
	mu       sync.Mutex
	tw       *trace.Writer
	dialPlan []bool // true = fail
	failNext int    // number of next writes to fail
}

func (c *conn) Write(b []byte) (int, error) {
	c.env.mu.Lock()
	defer c.env.mu.Unlock()
	ok := true
	if c.env.failNext > 0 {
		c.env.failNext--
		ok = false
	}
	// the payload names its request and buffer: "s<id>b<k>\n"
	var id, k int
	fmt.Sscanf(string(b), "s%db%d", &id, &k)
	c.env.tw.Emit(map[string]any{"ev": "attempt", "id": id, "b": k, "ok": ok})
	if !ok {
		return 0, errors.New("write: broken pipe")
	}
	return len(b), nil
}
func (c *conn) Read([]byte) (int, error)         { select {} }
func (c *conn) Close() error                     { return nil }
func (c *conn) LocalAddr() net.Addr              { return nil }
func (c *conn) RemoteAddr() net.Addr             { return nil }
func (c *conn) SetDeadline(time.Time) error      { return nil }
func (c *conn) SetReadDeadline(time.Time) error  { return nil }
func (c *conn) SetWriteDeadline(time.Time) error { return nil }

func (e *senv) dial() (net.Conn, error) {
	e.mu.Lock()
	defer e.mu.Unlock()
	fail := false
	if len(e.dialPlan) > 0 {
		fail, e.dialPlan = e.dialPlan[0], e.dialPlan[1:]
	}
	e.tw.Emit(map[string]any{"ev": "dial", "ok": !fail})
	if fail {
		return nil, errors.New("dial: connection refused")
	}
	return &conn{e}, nil
}

func runSender(t *testing.T, tw *trace.Writer, c *scase, idx int, res *vh.Result) {
	synctest.Test(t, func(t *testing.T) {
		logger := logrus.New()
		logger.SetLevel(logrus.PanicLevel)
		env := &senv{tw: tw}
		s := &sender.Sender{Logger: logger, ConnFactory: env.dial, Sink: make(chan sender.Stream, 10),
			BufPool: sync.Pool{New: func() interface{} { return &bytes.Buffer{} }}, WriteTimeout: time.Second}
		ctx, cancel := context.WithCancel(context.Background())
		done := make(chan struct{})
		tw.Emit(map[string]any{"ev": "reset", "case": idx, "what": "sender"})
		started := false
		start := func() {
			if started {
				return
			}
			started = true
			go func() {
				defer close(done)
				defer func() {
					if x := recover(); x != nil {
						tw.Emit(map[string]any{"ev": "panic", "what": fmt.Sprint(x)})
					}
				}()
				s.Run(ctx)
			}()
			synctest.Wait()
		}
		nreq := 0
		var cancels []context.CancelFunc
		send := func(bufs int) {
			nreq++
			id := nreq
			sctx, sc := context.WithCancel(context.Background())
			cancels = append(cancels, sc)
			ch := make(chan *bytes.Buffer, bufs)
			for k := bufs; k >= 1; k-- {
				b := s.GetBuffer()
				fmt.Fprintf(b, "s%db%d\n", id, k)
				ch <- b
			}
			close(ch)
			tw.Emit(map[string]any{"ev": "req", "id": id})
			tw.Emit(map[string]any{"ev": "ret", "id": id}) // this driver starts at the sender's queue: there is no caller to hold
			st := sender.Stream{Ctx: sctx, Buf: ch, Cb: func(errs []error) {
				has := false
				for _, e := range errs {
					has = has || e != nil
				}
				tw.Emit(map[string]any{"ev": "cb", "id": id, "err": has})
			}}
			go func() { // what graphite / statsdaemon do in SendMetricsAsync
				defer func() { recover() }() // send on the closed Sink after shutdown
				select {
				case <-sctx.Done():
					st.Cb([]error{sctx.Err()})
				case s.Sink <- st:
				}
			}()
		}
		for _, o := range c.Sched {
			if o.Op != "dialok" && o.Op != "dialfail" {
				start() // dial outcomes queued before anything else also decide the very first dial
			}
			switch o.Op {
			case "send":
				send(o.N)
			case "send100":
				for i := 0; i < 99; i++ { // together with one earlier request: the code's 100 streams per connection
					send(1)
					if i%10 == 9 {
						synctest.Wait()
					}
				}
				res.Hit("hundred-streams")
			case "dialok":
				env.mu.Lock()
				env.dialPlan = append(env.dialPlan, false)
				env.mu.Unlock()
			case "dialfail":
				env.mu.Lock()
				env.dialPlan = append(env.dialPlan, true)
				env.mu.Unlock()
				res.Hit("dial-fails")
			case "wfail":
				env.mu.Lock()
				env.failNext++
				env.mu.Unlock()
				res.Hit("write-fails")
			case "adv":
				time.Sleep(time.Second)
			case "cancel":
				if o.N >= 1 && o.N <= len(cancels) {
					cancels[o.N-1]()
					res.Hit("request-cancelled")
				}
			}
			synctest.Wait()
			select {
			case <-done: // the sender goroutine is gone (panic): nothing more can happen
			default:
			}
		}
		start()
		// epilogue: the transport recovers, then the backend is shut down
		env.mu.Lock()
		env.dialPlan, env.failNext = nil, 0
		env.mu.Unlock()
		time.Sleep(3 * time.Second)
		synctest.Wait()
		cancel()
		synctest.Wait()
		for _, sc := range cancels {
			sc()
		}
		synctest.Wait()
		tw.Emit(map[string]any{"ev": "final"})
		res.Eval(nreq >= 2)
		<-done
	})
}

func TestSender(t *testing.T) {
	path := os.Getenv("VERIF_CASES")
	if path == "" {
		t.Skip("VERIF_CASES not set")
	}
	res := vh.NewResult()
	defer res.Write()
	tw, err := trace.New(os.Getenv("VERIF_TRACE_OUT"))
	if err != nil {
		t.Fatal(err)
	}
	defer tw.Close()
	seen := map[string]bool{}
	err = vh.ReadCases(path, func(idx int, raw []byte) error {
		if seen[string(raw)] {
			return nil
		}
		seen[string(raw)] = true
		var c scase
		if err := json.Unmarshal(raw, &c); err != nil {
			return err
		}
		runSender(t, tw, &c, idx, res)
		if idx%1501 == 2 {
			res.Sample(c)
		}
		return nil
	})
	if err != nil {
		t.Fatal(err)
	}
	res.Traces = tw.N
	res.Distinct = res.Evaluations
	_ = strings.TrimSpace
}
