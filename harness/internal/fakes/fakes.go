// Package fakes holds recording doubles for the seams gostatsd already has.
package fakes

import (
	"context"
	"fmt"
	"math"
	"sort"
	"strings"
	"sync"
	"sync/atomic"
	"time"

	"github.com/atlassian/gostatsd"
	"github.com/atlassian/gostatsd/pkg/stats"
)

// ---------------------------------------------------------------- Statser

// Statser records gauges (last value), counts (sum) and reports (sum, source zeroed like the real one).
type Statser struct {
	stats.NullStatser
	mu     sync.Mutex
	Gauges map[string]float64
	Counts map[string]float64
	tags   gostatsd.Tags
	parent *Statser
}

func NewStatser() *Statser {
	return &Statser{Gauges: map[string]float64{}, Counts: map[string]float64{}}
}

func key(name string, tags gostatsd.Tags) string {
	if len(tags) == 0 {
		return name
	}
	t := append([]string(nil), tags...)
	sort.Strings(t)
	return name + "|" + strings.Join(t, ",")
}

func (s *Statser) root() *Statser {
	if s.parent != nil {
		return s.parent.root()
	}
	return s
}

func (s *Statser) Gauge(name string, value float64, tags gostatsd.Tags) {
	r := s.root()
	r.mu.Lock()
	r.Gauges[key(name, append(append(gostatsd.Tags(nil), s.tags...), tags...))] = value
	r.mu.Unlock()
}

func (s *Statser) Count(name string, amount float64, tags gostatsd.Tags) {
	r := s.root()
	r.mu.Lock()
	r.Counts[key(name, append(append(gostatsd.Tags(nil), s.tags...), tags...))] += amount
	r.mu.Unlock()
}

func (s *Statser) Increment(name string, tags gostatsd.Tags) { s.Count(name, 1, tags) }

func (s *Statser) Report(name string, value *uint64, tags gostatsd.Tags) {
	s.Count(name, float64(atomic.SwapUint64(value, 0)), tags)
}

func (s *Statser) WithTags(tags gostatsd.Tags) stats.Statser {
	return &Statser{parent: s, tags: append(append(gostatsd.Tags(nil), s.tags...), tags...)}
}

func (s *Statser) GetGauge(k string) (float64, bool) {
	r := s.root()
	r.mu.Lock()
	defer r.mu.Unlock()
	v, ok := r.Gauges[k]
	return v, ok
}

func (s *Statser) GetCount(k string) float64 {
	r := s.root()
	r.mu.Lock()
	defer r.mu.Unlock()
	return r.Counts[k]
}

// Flush notifies registered flush listeners (the real flusher does this once per flush interval).
func (s *Statser) Flush(ctx context.Context) { s.root().NotifyFlush(ctx, time.Second) }

func (s *Statser) NotifyFlush(ctx context.Context, d time.Duration) {
	s.root().NullStatser.NotifyFlush(ctx, d)
}

func (s *Statser) RegisterFlush() (<-chan time.Duration, func()) {
	return s.root().NullStatser.RegisterFlush()
}

// ---------------------------------------------------------------- PipelineHandler

// Handler captures what a pipeline stage dispatches downstream.
type Handler struct {
	mu     sync.Mutex
	Maps   []*gostatsd.MetricMap
	Events []*gostatsd.Event
	OnMap  func(*gostatsd.MetricMap)
	OnEv   func(*gostatsd.Event)
	Tags   int
}

func (h *Handler) EstimatedTags() int { return h.Tags }
func (h *Handler) DispatchMetricMap(ctx context.Context, mm *gostatsd.MetricMap) {
	h.mu.Lock()
	h.Maps = append(h.Maps, mm)
	f := h.OnMap
	h.mu.Unlock()
	if f != nil {
		f(mm)
	}
}
func (h *Handler) DispatchEvent(ctx context.Context, e *gostatsd.Event) {
	h.mu.Lock()
	h.Events = append(h.Events, e)
	f := h.OnEv
	h.mu.Unlock()
	if f != nil {
		f(e)
	}
}
func (h *Handler) WaitForEvents() {}
func (h *Handler) Take() ([]*gostatsd.MetricMap, []*gostatsd.Event) {
	h.mu.Lock()
	defer h.mu.Unlock()
	m, e := h.Maps, h.Events
	h.Maps, h.Events = nil, nil
	return m, e
}

// ---------------------------------------------------------------- canonical rendering of maps and events

func fnum(f float64) string {
	if math.IsNaN(f) {
		return "NaN"
	}
	return fmt.Sprintf("%v", f)
}

func sortedTags(t gostatsd.Tags) string {
	c := append([]string(nil), t...)
	sort.Strings(c)
	return strings.Join(c, ",")
}

// Series is a type-tagged flat view of one aggregated series.
type Series struct {
	Type    string    `json:"type"`
	Name    string    `json:"name"`
	Tags    []string  `json:"tags"` // sorted
	Source  string    `json:"source"`
	TagsKey string    `json:"tagskey"`
	Counter int64     `json:"counter,omitempty"`
	Gauge   float64   `json:"-"`
	GaugeS  string    `json:"gauge,omitempty"`
	Values  []float64 `json:"values,omitempty"` // sorted
	Sampled float64   `json:"sampled,omitempty"`
	Members []string  `json:"members,omitempty"` // sorted
	TS      int64     `json:"ts"`
}

func (s Series) Key() string {
	return s.Type + "|" + s.Name + "|" + strings.Join(s.Tags, ",") + "|" + s.Source
}

// Flatten renders a MetricMap as a sorted list of series (timer values and set members sorted).
func Flatten(mm *gostatsd.MetricMap) []Series {
	var out []Series
	st := func(t gostatsd.Tags) []string {
		c := append([]string{}, t...)
		sort.Strings(c)
		return c
	}
	mm.Counters.Each(func(n, tk string, c gostatsd.Counter) {
		out = append(out, Series{Type: "counter", Name: n, Tags: st(c.Tags), Source: string(c.Source), TagsKey: tk, Counter: c.Value, TS: int64(c.Timestamp)})
	})
	mm.Gauges.Each(func(n, tk string, g gostatsd.Gauge) {
		out = append(out, Series{Type: "gauge", Name: n, Tags: st(g.Tags), Source: string(g.Source), TagsKey: tk, Gauge: g.Value, GaugeS: fnum(g.Value), TS: int64(g.Timestamp)})
	})
	mm.Timers.Each(func(n, tk string, t gostatsd.Timer) {
		v := append([]float64{}, t.Values...)
		sort.Float64s(v)
		out = append(out, Series{Type: "timer", Name: n, Tags: st(t.Tags), Source: string(t.Source), TagsKey: tk, Values: v, Sampled: t.SampledCount, TS: int64(t.Timestamp)})
	})
	mm.Sets.Each(func(n, tk string, s gostatsd.Set) {
		var m []string
		for k := range s.Values {
			m = append(m, k)
		}
		sort.Strings(m)
		out = append(out, Series{Type: "set", Name: n, Tags: st(s.Tags), Source: string(s.Source), TagsKey: tk, Members: m, TS: int64(s.Timestamp)})
	})
	sort.Slice(out, func(i, j int) bool { return out[i].Key() < out[j].Key() })
	return out
}

// Render is a canonical string of a map (used to detect any later change, e.g. through buffer aliasing).
func Render(mm *gostatsd.MetricMap) string {
	var sb strings.Builder
	for _, s := range Flatten(mm) {
		fmt.Fprintf(&sb, "%s tk=%q c=%d g=%s v=%v n=%v m=%q ts=%d\n", s.Key(), s.TagsKey, s.Counter, s.GaugeS, s.Values, s.Sampled, s.Members, s.TS)
	}
	return sb.String()
}

func RenderEvent(e *gostatsd.Event) string {
	return fmt.Sprintf("title=%q text=%q date=%d agg=%q st=%q tags=%q src=%q pri=%s alert=%s", e.Title, e.Text, e.DateHappened,
		e.AggregationKey, e.SourceTypeName, sortedTags(e.Tags), e.Source, e.Priority, e.AlertType)
}
