// Package vh holds what every harness package shares: case input, result output, seeds.
package vh

import (
	"bufio"
	"encoding/json"
	"fmt"
	"os"
	"strconv"
	"sync"
)

// Failure is one observed disagreement between the real code and the P-level expectation.
type Failure struct {
	Prop string `json:"prop"`
	Sig  string `json:"sig"`  // stable signature: which clause failed on which kind of input
	Desc string `json:"desc"` // human readable
	Case any    `json:"case"` // enough to replay
}

// Result is what a harness test writes to $VERIF_OUT.
type Result struct {
	mu          sync.Mutex
	Evaluations int            `json:"evaluations"`
	Distinct    int            `json:"distinct_nontrivial"`
	Failures    []Failure      `json:"failures"`
	NFailures   int            `json:"n_failures"`
	Samples     []any          `json:"samples"`
	Named       map[string]int `json:"named"`
	Notes       []string       `json:"notes"`
	Traces      int            `json:"traces"`
}

func NewResult() *Result {
	return &Result{Named: map[string]int{}, Failures: []Failure{}, Samples: []any{}, Notes: []string{}}
}

func (r *Result) Hit(name string) {
	r.mu.Lock()
	r.Named[name]++
	r.mu.Unlock()
}

func (r *Result) Eval(nontrivial bool) {
	r.mu.Lock()
	r.Evaluations++
	if nontrivial {
		r.Distinct++
	}
	r.mu.Unlock()
}

func (r *Result) Fail(prop, sig, desc string, c any) {
	r.mu.Lock()
	r.NFailures++
	// keep at most 3 per signature, 60 overall
	n := 0
	for _, f := range r.Failures {
		if f.Sig == sig && f.Prop == prop {
			n++
		}
	}
	if n < 3 && len(r.Failures) < 60 {
		r.Failures = append(r.Failures, Failure{prop, sig, desc, c})
	}
	r.mu.Unlock()
}

func (r *Result) Sample(c any) {
	r.mu.Lock()
	if len(r.Samples) < 5 {
		r.Samples = append(r.Samples, c)
	}
	r.mu.Unlock()
}

func (r *Result) Note(f string, a ...any) {
	r.mu.Lock()
	if len(r.Notes) < 50 {
		r.Notes = append(r.Notes, fmt.Sprintf(f, a...))
	}
	r.mu.Unlock()
}

func (r *Result) Write() error {
	p := os.Getenv("VERIF_OUT")
	if p == "" {
		return nil
	}
	b, err := json.MarshalIndent(r, "", " ")
	if err != nil {
		return err
	}
	return os.WriteFile(p, b, 0o644)
}

func Seed() int64 {
	n, err := strconv.ParseInt(os.Getenv("VERIF_SEED"), 10, 64)
	if err != nil {
		return 1
	}
	return n
}

func Tier() string {
	if os.Getenv("VERIF_TIER") == "thorough" {
		return "thorough"
	}
	return "quick"
}

func Env(name, def string) string {
	if v := os.Getenv(name); v != "" {
		return v
	}
	return def
}

func EnvInt(name string, def int) int {
	if v, err := strconv.Atoi(os.Getenv(name)); err == nil {
		return v
	}
	return def
}

// ReadCases streams an NDJSON file.
func ReadCases(path string, fn func(idx int, raw []byte) error) error {
	f, err := os.Open(path)
	if err != nil {
		return err
	}
	defer f.Close()
	sc := bufio.NewScanner(f)
	sc.Buffer(make([]byte, 1<<20), 64<<20)
	i := 0
	for sc.Scan() {
		b := sc.Bytes()
		if len(b) == 0 {
			continue
		}
		if err := fn(i, b); err != nil {
			return err
		}
		i++
	}
	return sc.Err()
}

// SplitMix64 is the deterministic per-case PRNG (seed ^ case index).
type Rng struct{ s uint64 }

func NewRng(seed int64, idx int) *Rng { return &Rng{uint64(seed)*0x9E3779B97F4A7C15 + uint64(idx)*0xBF58476D1CE4E5B9 + 1} }
func (r *Rng) Next() uint64 {
	r.s += 0x9E3779B97F4A7C15
	z := r.s
	z = (z ^ (z >> 30)) * 0xBF58476D1CE4E5B9
	z = (z ^ (z >> 27)) * 0x94D049BB133111EB
	return z ^ (z >> 31)
}
func (r *Rng) Intn(n int) int { return int(r.Next() % uint64(n)) }

// HugeTokens concretises the symbolic event-header numbers of spec/Grammar.tla (token class Huge) for one token
// string. "H32m" is aimed at the uint32 boundary of titleLen+1+textLen: given the other declared length n (when it is
// written with plain digits) it becomes 2^32-1-n+k for a small k in 0..n, so that the sum reaches or crosses 2^32.
func HugeTokens(toks []string, rng *Rng) map[string]string {
	const maxU32 = uint64(1<<32 - 1)
	other := uint64(0)
	// declared lengths written with digits
	num := func(from, to int) (uint64, bool) {
		var v uint64
		if from >= to {
			return 0, false
		}
		for _, t := range toks[from:to] {
			if len(t) != 1 || t[0] < '0' || t[0] > '9' {
				return 0, false
			}
			v = v*10 + uint64(t[0]-'0')
		}
		return v, true
	}
	open, comma, cl := -1, -1, -1
	for i, t := range toks {
		switch {
		case t == "{" && open < 0:
			open = i
		case t == "," && open >= 0 && comma < 0:
			comma = i
		case t == "}" && comma >= 0 && cl < 0:
			cl = i
		}
	}
	if open >= 0 && comma >= 0 {
		if v, ok := num(open+1, comma); ok {
			other = v
		} else if cl >= 0 {
			if v, ok := num(comma+1, cl); ok {
				other = v
			}
		}
	}
	k := uint64(0)
	if other > 0 {
		k = uint64(rng.Intn(int(other) + 1))
	}
	if rng.Intn(4) == 0 { // sometimes just below the boundary
		k = 0
		other += uint64(1 + rng.Intn(3))
	}
	return map[string]string{
		"H32m": strconv.FormatUint(maxU32-other+k, 10),
		"H32":  []string{"4294967295", "4294967296", "4294967297"}[rng.Intn(3)],
		"H63":  []string{"9223372036854775807", "9223372036854775808"}[rng.Intn(2)],
		"H64":  []string{"18446744073709551615", "18446744073709551616", "99999999999999999999999"}[rng.Intn(3)],
	}
}
