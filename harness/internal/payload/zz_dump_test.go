//go:build verif

package payload

import (
	"context"
	"fmt"
	"testing"
	"testing/synctest"
	"time"

	"github.com/atlassian/gostatsd"
	"github.com/atlassian/gostatsd/pkg/statsd"

	"verifharness/internal/bk"
)

func dumpMap() *gostatsd.MetricMap {
	agg := statsd.NewMetricAggregator([]float64{90, -90}, 5*time.Minute, 5*time.Minute, 5*time.Minute, 5*time.Minute, gostatsd.TimerSubtypes{}, 10)
	in := gostatsd.NewMetricMap(false)
	ts := gostatsd.Nanotime(time.Now().UnixNano())
	for _, m := range []*gostatsd.Metric{
		{Name: "a.b.count", Type: gostatsd.COUNTER, Value: 7, Rate: 1, Source: "h1", Timestamp: ts},
		{Name: "c1", Type: gostatsd.COUNTER, Value: 5, Rate: 1, Tags: gostatsd.Tags{"env:pr/od-1.x_y:z", "solo"}, Source: "", Timestamp: ts},
		{Name: "g1", Type: gostatsd.GAUGE, Value: 2.5, Rate: 1, Tags: gostatsd.Tags{"env:test"}, Source: "h1", Timestamp: ts},
		{Name: "s1", Type: gostatsd.SET, StringValue: "x", Rate: 1, Tags: gostatsd.Tags{"env:test"}, Source: "h1", Timestamp: ts},
		{Name: "s1", Type: gostatsd.SET, StringValue: "y", Rate: 1, Tags: gostatsd.Tags{"env:test"}, Source: "h1", Timestamp: ts},
		{Name: "s1", Type: gostatsd.SET, StringValue: "z", Rate: 1, Tags: gostatsd.Tags{"env:test"}, Source: "h1", Timestamp: ts},
		{Name: "t1", Type: gostatsd.TIMER, Value: 60, Rate: 1, Tags: gostatsd.Tags{"env:test"}, Source: "h1", Timestamp: ts},
		{Name: "t1", Type: gostatsd.TIMER, Value: 10, Rate: 1, Tags: gostatsd.Tags{"env:test"}, Source: "h1", Timestamp: ts},
		{Name: "t1", Type: gostatsd.TIMER, Value: 20, Rate: 1, Tags: gostatsd.Tags{"env:test"}, Source: "h1", Timestamp: ts},
		{Name: "th", Type: gostatsd.TIMER, Value: 25, Rate: 1, Tags: gostatsd.Tags{"gsd_histogram:10_20"}, Source: "", Timestamp: ts},
		{Name: "th", Type: gostatsd.TIMER, Value: 5, Rate: 1, Tags: gostatsd.Tags{"gsd_histogram:10_20"}, Source: "", Timestamp: ts},
		{Name: "th", Type: gostatsd.TIMER, Value: 15, Rate: 1, Tags: gostatsd.Tags{"gsd_histogram:10_20"}, Source: "", Timestamp: ts},
	} {
		in.Receive(m)
	}
	agg.ReceiveMap(in)
	agg.Flush(2 * time.Second)
	var out *gostatsd.MetricMap
	agg.Process(func(mm *gostatsd.MetricMap) { out = mm })
	return out
}

func TestZZDump(t *testing.T) {
	for _, name := range []string{"datadog", "newrelic/infra", "newrelic/insights", "newrelic/metrics", "otlp/AsGauge", "otlp/AsHistogram", "cloudwatch"} {
		synctest.Test(t, func(t *testing.T) {
			v, _ := bk.ByName(name)
			env := bk.NewEnv()
			env.NoCompress = true
			defer env.Close()
			b, err := v.New(env)
			if err != nil {
				t.Fatal(err)
			}
			ctx, cancel := context.WithCancel(context.Background())
			defer cancel()
			stop := env.Start(ctx, b)
			defer stop()
			mm := dumpMap()
			mm.Timers.Each(func(k, tk string, tm gostatsd.Timer) {
				t.Logf("timer %s %q: %+v", k, tk, tm)
			})
			go b.SendMetricsAsync(env.Context(ctx), mm, func(errs []error) { t.Logf("cb %v", errs) })
			synctest.Wait()
			for _, a := range env.HTTP.Attempts() {
				body := string(a.Decoded)
				if name[:4] == "otlp" {
					body = fmt.Sprintf("%x", a.Decoded)
				}
				t.Logf("%s %s %v\n%s", name, a.URL, a.Header, body)
			}
			for _, c := range env.CW.Calls() {
				for _, d := range c.Data {
					s := ""
					for _, dm := range d.Dimensions {
						s += *dm.Name + "=" + *dm.Value + ","
					}
					t.Logf("cw %s %s %v %s [%s]", c.Namespace, *d.MetricName, *d.Value, d.Unit, s)
				}
			}
		})
	}
}
