//go:build verif

package payload

// ParseGraphite: variants graphite/legacy, graphite/basic, graphite/tags.
//
// Protocol (graphite.readthedocs.io "Feeding In Your Data / The plaintext protocol" and "Graphite Tag Support"), as
// enforced here:
//
//	line   = path " " value " " timestamp "\n"          exactly three fields separated by exactly one space
//	path   = name *(";" tagname "=" tagvalue)           tags only in mode "tags"; a ";" in the other modes is an error
//	name   : not empty, no whitespace or control characters
//	tagname: length >= 1, none of ; ! ^ =               tagvalue: length >= 1, no ";", does not start with "~"
//	a series must not carry one tag name twice (the store keeps only one of them)
//	value  : decimal floating point number (NaN / Inf are not storable)
//	timestamp: integer seconds since the epoch, > 0
//	every line, including the last of a write, ends in "\n"; there are no empty lines
//
// Wire -> canonical, with the backend's default prefixes (global_prefix "stats", prefix_counter "counters",
// prefix_timer "timers", prefix_gauge "gauges", prefix_set "sets", no global_suffix); N is the series name after the
// backend's name clean-up (runs of whitespace -> "_", "/" -> "-", everything outside [A-Za-z0-9_.-] deleted):
//
//	mode basic and tags (BACKENDS.md "[global_prefix.][prefix_<type>.]<metricname>[.aggregation_suffix]"):
//	  stats.counters.N.count       -> counter "count"          stats.counters.N.rate -> counter "rate"
//	  stats.gauges.N               -> gauge "value"            stats.sets.N          -> set "count"
//	  stats.timers.N.<suffix>      -> timer; suffix lower upper count mean median sum sum_squares as they are,
//	                                  count_ps -> "rate", std -> "std", percentiles <stat>_<N> as they are
//	  stats.counters.N.histogram   -> timer histogram bucket "le:<bound>", the bound being the value of the tag "le"
//	                                  (mode tags). Modes basic and legacy drop all tags, so the bound is not on the
//	                                  wire: that is reported as an error and the Sub is "le:?"
//	mode legacy (BACKENDS.md):
//	  stats_counts.N -> counter "count"   stats.N -> counter "rate"   stats.gauges.N   stats.sets.N
//	  stats.timers.N.<suffix> as above    stats.N.histogram -> histogram bucket
//	mode tags:  ;k=v -> Tags "k:v" (a bare tag x arrives as unnamed=x and is reported as "unnamed:x"; only the first
//	  ":" of a tag is turned into "="); the tag "host" is removed and reported as Host (the backend adds host=<source>
//	  unless the series has a host tag of its own or the source is empty); on histogram lines the tag "le" is removed
//	  and becomes the Sub. Modes legacy and basic: Tags nil, Host "".
//
// The scheme is not injective (names contain dots and may end in ".count", legacy "stats.N" overlaps every other
// legacy prefix), so every line is resolved against Options.Series: the (series, sub) pair whose naming produces
// exactly the path; the longest series name wins when several do; none is the error "unknown series on the wire".
// Rec.Name is the name of the series as flushed, not N.
//
// One Payload per Write. Items = number of lines, Bytes = length of the write.

import (
	"fmt"
	"strconv"
	"strings"

	"verifharness/internal/bk"
)

// ParseGraphite turns every captured write into one Payload, in the order given.
func ParseGraphite(mode string, writes []bk.Write, opt Options) []Payload {
	out := make([]Payload, 0, len(writes))
	for i, w := range writes {
		p := Payload{Index: i, Bytes: len(w.Data)}
		var errs txtErrs
		if mode != "legacy" && mode != "basic" && mode != "tags" {
			errs.addf("unknown graphite mode %q", mode)
		}
		lines, missing := txtLines(string(w.Data))
		// an empty write puts nothing on the stream: nothing to judge (an empty flush produces one)
		if missing {
			errs.addf("the last line does not end in a newline: %q", txtWire(lines[len(lines)-1]))
		}
		for n, line := range lines {
			p.Items++
			if r, ok := txtGraphiteLine(mode, line, n+1, opt, &errs); ok {
				p.Recs = append(p.Recs, r)
			}
		}
		errs.finish(&p)
		out = append(out, p)
	}
	return out
}

// txtGraphiteName is the clean-up the backend applies to metric names (graphite.go normalizeMetricName, described in
// its comment), written down independently: it is part of the naming scheme that has to be inverted.
func txtGraphiteName(s string) string {
	var b strings.Builder
	inSpace := false
	for i := 0; i < len(s); i++ {
		c := s[i]
		switch {
		case c == ' ' || c == '\t' || c == '\n' || c == '\r' || c == '\f':
			if !inSpace {
				b.WriteByte('_')
			}
			inSpace = true
			continue
		case c == '/':
			b.WriteByte('-')
		case c >= 'a' && c <= 'z', c >= 'A' && c <= 'Z', c >= '0' && c <= '9', c == '_', c == '.', c == '-':
			b.WriteByte(c)
		}
		inSpace = false
	}
	return b.String()
}

// txtGraphiteLine parses one line; ok is false when not even a record with Kind "" can be made of it.
func txtGraphiteLine(mode, line string, lineNo int, opt Options, errs *txtErrs) (Rec, bool) {
	fail := func(format string, args ...any) {
		errs.addf("line %d: %s: %q", lineNo, fmt.Sprintf(format, args...), txtWire(line))
	}
	if line == "" {
		fail("empty line")
		return Rec{}, false
	}
	for i := 0; i < len(line); i++ {
		if c := line[i]; c < 0x20 || c == 0x7f {
			fail("control character 0x%02x at column %d", c, i+1)
			return Rec{}, false
		}
	}
	parts := strings.Split(line, " ")
	if len(parts) != 3 {
		fail("%d space separated fields, need path, value and timestamp", len(parts))
		return Rec{}, false
	}
	path, rawValue, rawTS := parts[0], parts[1], parts[2]
	usable := true
	if path == "" {
		fail("empty path")
		return Rec{}, false
	}
	value, err := txtParseDecimal(rawValue)
	if err != nil {
		fail("value: %v", err)
		usable = false
	}
	if !txtIsInteger(rawTS) {
		fail("timestamp %q is not an integer", rawTS)
	} else if ts, err := strconv.ParseInt(rawTS, 10, 64); err != nil || ts <= 0 {
		fail("timestamp %q is not a positive number of seconds", rawTS)
	}
	if !usable {
		return Rec{}, false
	}

	// tags
	name := path
	var tags []string
	host := ""
	le, haveLE := "", false
	if semi := strings.IndexByte(path, ';'); semi >= 0 {
		name = path[:semi]
		if mode != "tags" {
			fail("mode %s writes no tags but the path contains ';'", mode)
		}
		if name == "" {
			fail("empty series name in front of the tags")
		}
		seen := map[string]bool{}
		for _, t := range strings.Split(path[semi+1:], ";") {
			k, v, found := strings.Cut(t, "=")
			switch {
			case !found:
				fail("tag %q without '='", t)
				continue
			case k == "":
				fail("tag %q with an empty name", t)
				continue
			case strings.ContainsAny(k, "!^"):
				fail("tag name %q contains one of ; ! ^ =", k)
			case v == "":
				fail("tag %q with an empty value", k)
				continue
			case v[0] == '~':
				fail("value of tag %q starts with '~'", k)
			}
			if seen[k] {
				// not a syntax error: Graphite's tag parser accepts it and keeps one of the two; reported as found
			}
			seen[k] = true
			tags = append(tags, k+":"+v)
		}
	}

	rec := Rec{Name: name, Value: value, Wire: txtWire(line)}
	kind, series, sub, found := txtGraphiteResolve(mode, name, opt)
	if !found {
		fail("unknown series on the wire: %s", name)
		rec.Tags = txtSortedTags(tags)
		return rec, true
	}
	rec.Kind, rec.Name, rec.Sub = kind, series, sub
	histogram := sub == "le:"
	keep := tags[:0:0]
	for _, t := range tags {
		k, v, _ := strings.Cut(t, ":")
		switch {
		case k == "host":
			host = v
		case k == "le" && histogram:
			le, haveLE = v, true
		default:
			keep = append(keep, t)
		}
	}
	rec.Tags, rec.Host = txtSortedTags(keep), host
	if histogram {
		switch {
		case !haveLE:
			if mode == "tags" { // legacy and basic drop all tags by design (BACKENDS.md), the bound with them
				fail("histogram bucket of timer %q without the le tag: the bound of the bucket is not on the wire", series)
			}
			rec.Sub = "le:?"
		case le != "+Inf" && !txtIsDecimal(le):
			fail("histogram bucket bound %q is not a number", le)
			rec.Sub = "le:" + le
		default:
			rec.Sub = "le:" + le
		}
	}
	return rec, true
}

// txtGraphiteResolve finds the series and sub-metric that the naming scheme of the mode maps to path (the path
// without tags). A histogram bucket is reported as sub "le:".
func txtGraphiteResolve(mode, path string, opt Options) (kind, series, sub string, found bool) {
	counterNS, legacy := "stats.counters", false
	if mode == "legacy" {
		counterNS, legacy = "stats", true
	}
	for _, s := range opt.Series {
		n := txtGraphiteName(s.Name)
		candSub, ok := "", false
		switch s.Kind {
		case "counter":
			switch {
			case legacy && path == "stats_counts."+n:
				candSub, ok = "count", true
			case legacy && path == "stats."+n:
				candSub, ok = "rate", true
			case !legacy && path == counterNS+"."+n+".count":
				candSub, ok = "count", true
			case !legacy && path == counterNS+"."+n+".rate":
				candSub, ok = "rate", true
			}
		case "gauge":
			candSub, ok = "value", path == "stats.gauges."+n
		case "set":
			candSub, ok = "count", path == "stats.sets."+n
		case "timer":
			if suffix, has := strings.CutPrefix(path, "stats.timers."+n+"."); has {
				candSub, ok = txtTimerSub(suffix, "count_ps", "std", opt.Percentiles)
			}
			if !ok && path == counterNS+"."+n+".histogram" {
				candSub, ok = "le:", true
			}
		}
		if ok && txtBetter(found, s.Name, series) {
			kind, series, sub, found = s.Kind, s.Name, candSub, true
		}
	}
	return kind, series, sub, found
}

// CanonGraphite returns the Tags and Host that ParseGraphite reports for a series flushed with these tags and this
// source when the backend names it as documented (for the harness's expected side; histogram buckets: the "le" tag
// is not part of it).
func CanonGraphite(mode string, tags []string, source string) (ctags []string, host string) {
	if mode != "tags" {
		return nil, ""
	}
	host = source
	ownHost := false
	for _, t := range tags {
		k, v, found := strings.Cut(t, ":")
		if !found {
			k, v = "unnamed", t
		}
		if k == "host" {
			if !ownHost {
				host = v
			}
			ownHost = true
			continue
		}
		ctags = append(ctags, k+":"+v)
	}
	return txtSortedTags(ctags), host
}
