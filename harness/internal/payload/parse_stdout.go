//go:build verif

package payload

// ParseStdout: variant stdout. The backend prints one line per value through the standard logger, in the graphite
// plaintext shape; there is no documentation besides the source (BACKENDS.md: "please refer to the source code").
//
// Format, as enforced here:
//
//	line = path " " value " " timestamp            exactly three fields separated by exactly one space
//	path : not empty, no whitespace or control characters
//	value: decimal floating point number; timestamp: integer seconds since the epoch, > 0
//	lines starting with "event: " are what the backend prints for events; they are skipped (not counted, no error)
//	(line terminators cannot be checked: bk's LogCapture.Lines() hands over lines already split)
//
// Wire -> canonical. K is the series name followed by one ".<tag>" per tag, the tags sorted, every ":" of a tag
// replaced by ".", followed by ".s.<source>" when the source is not empty (the backend prints the map's tagsKey, and
// gostatsd.FormatTagsKey appends the source as the pseudo tag s:<source>):
//
//	stats.counter.K.count        -> counter "count"       stats.counter.K.per_second -> counter "rate"
//	stats.gauge.K                -> gauge "value"         stats.set.K                -> set "count"
//	stats.timers.K.<suffix>      -> timer; suffix lower upper count mean median sum sum_squares as they are,
//	                                count_ps -> "rate", std -> "std", percentiles <stat>_<N> as they are
//	stats.timers.K.histogram.le:<bound> -> timer histogram bucket "le:<bound>"
//
// K does not say where the name ends and cannot be split back into tags (names, tags and sources all contain dots).
// The name is resolved against Options.Series: a series of the kind the prefix names whose name is K or a prefix of
// K at a dot; the longest wins; none is the error "unknown series on the wire". What follows the name is reported
// like this (see CanonStdout, which applies the same rule to the tags and source of a flushed series):
//
//	the part after the last ".s." (or after a leading "s.") -> Host
//	the rest in front of it, dots and all, as the single element of Tags (nil when empty)
//
// Ambiguities that cannot be resolved from the wire: a source containing ".s." or a last tag "s:<x>" with an empty
// source shift the border between Tags and Host; CanonStdout shifts it the same way, so a comparison through it
// still is exact on the concatenation of both.
//
// One Payload holds all lines. Items = number of metric lines, Bytes = their lengths plus one newline each.

import (
	"fmt"
	"sort"
	"strconv"
	"strings"
)

// ParseStdout turns the lines the stdout backend printed for one flush into one Payload.
func ParseStdout(lines []string, opt Options) []Payload {
	p := Payload{Index: 0}
	var errs txtErrs
	for n, line := range lines {
		if strings.HasPrefix(line, "event: ") {
			continue
		}
		p.Items++
		p.Bytes += len(line) + 1
		if r, ok := txtStdoutLine(line, n+1, opt, &errs); ok {
			p.Recs = append(p.Recs, r)
		}
	}
	errs.finish(&p)
	return []Payload{p}
}

func txtStdoutLine(line string, lineNo int, opt Options, errs *txtErrs) (Rec, bool) {
	fail := func(format string, args ...any) {
		errs.addf("line %d: %s: %q", lineNo, fmt.Sprintf(format, args...), txtWire(line))
	}
	if line == "" {
		fail("empty line")
		return Rec{}, false
	}
	for i := 0; i < len(line); i++ {
		if c := line[i]; c < 0x20 || c == 0x7f {
			fail("control character 0x%02x at column %d", c, i+1)
			return Rec{}, false
		}
	}
	parts := strings.Split(line, " ")
	if len(parts) != 3 {
		fail("%d space separated fields, need name, value and timestamp", len(parts))
		return Rec{}, false
	}
	path, rawValue, rawTS := parts[0], parts[1], parts[2]
	if path == "" {
		fail("empty name")
		return Rec{}, false
	}
	value, err := txtParseDecimal(rawValue)
	if err != nil {
		fail("value: %v", err)
		return Rec{}, false
	}
	if !txtIsInteger(rawTS) {
		fail("timestamp %q is not an integer", rawTS)
	} else if ts, err := strconv.ParseInt(rawTS, 10, 64); err != nil || ts <= 0 {
		fail("timestamp %q is not a positive number of seconds", rawTS)
	}

	rec := Rec{Name: path, Value: value, Wire: txtWire(line)}
	kind, key, sub := "", "", ""
	switch {
	case strings.HasPrefix(path, "stats.counter."):
		rest := path[len("stats.counter."):]
		if k, ok := strings.CutSuffix(rest, ".count"); ok {
			kind, key, sub = "counter", k, "count"
		} else if k, ok := strings.CutSuffix(rest, ".per_second"); ok {
			kind, key, sub = "counter", k, "rate"
		} else {
			fail("counter line that ends in neither .count nor .per_second")
			return rec, true
		}
	case strings.HasPrefix(path, "stats.gauge."):
		kind, key, sub = "gauge", path[len("stats.gauge."):], "value"
	case strings.HasPrefix(path, "stats.set."):
		kind, key, sub = "set", path[len("stats.set."):], "count"
	case strings.HasPrefix(path, "stats.timers."):
		rest := path[len("stats.timers."):]
		if i := strings.LastIndex(rest, ".histogram.le:"); i >= 0 {
			bound := rest[i+len(".histogram.le:"):]
			if bound != "+Inf" && !txtIsDecimal(bound) {
				fail("histogram bucket bound %q is not a number", bound)
			}
			kind, key, sub = "timer", rest[:i], "le:"+bound
		} else {
			i := strings.LastIndexByte(rest, '.')
			if i < 0 {
				fail("timer line without a sub-metric suffix")
				return rec, true
			}
			s, ok := txtTimerSub(rest[i+1:], "count_ps", "std", opt.Percentiles)
			if !ok {
				fail("unknown timer sub-metric %q", rest[i+1:])
				return rec, true
			}
			kind, key, sub = "timer", rest[:i], s
		}
	default:
		fail("unknown series on the wire: %s (none of the prefixes stats.counter. stats.gauge. stats.set. stats.timers.)", path)
		return rec, true
	}

	name, found := "", false
	for _, s := range opt.Series {
		if s.Kind != kind {
			continue
		}
		if (key == s.Name || strings.HasPrefix(key, s.Name+".")) && txtBetter(found, s.Name, name) {
			name, found = s.Name, true
		}
	}
	if !found {
		fail("unknown series on the wire: %s (no flushed %s is named like a prefix of %q)", path, kind, key)
		return rec, true
	}
	rec.Kind, rec.Name, rec.Sub = kind, name, sub
	rec.Tags, rec.Host = txtStdoutSplit(strings.TrimPrefix(strings.TrimPrefix(key, name), "."))
	return rec, true
}

// txtStdoutSplit divides what follows the series name into the flattened tags and the source.
func txtStdoutSplit(rest string) (tags []string, host string) {
	switch i := strings.LastIndex(rest, ".s."); {
	case i >= 0:
		rest, host = rest[:i], rest[i+len(".s."):]
	case strings.HasPrefix(rest, "s."):
		rest, host = "", rest[len("s."):]
	}
	if rest != "" {
		tags = []string{rest}
	}
	return tags, host
}

// CanonStdout returns the Tags and Host that ParseStdout reports for a series flushed with these tags and this
// source (for the harness's expected side).
func CanonStdout(tags []string, source string) (ctags []string, host string) {
	sorted := append([]string(nil), tags...)
	sort.Strings(sorted)
	var parts []string
	for _, t := range sorted {
		if t != "" {
			parts = append(parts, strings.ReplaceAll(t, ":", "."))
		}
	}
	if source != "" {
		parts = append(parts, "s."+source)
	}
	return txtStdoutSplit(strings.Join(parts, "."))
}
