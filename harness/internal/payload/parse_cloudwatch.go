//go:build verif

package payload

// CloudWatch: one Payload per PutMetricData call (Namespace + []types.MetricDatum), read straight from the AWS SDK
// structs the backend handed to the API client.
//
// Checked as protocol (API reference of PutMetricData / MetricDatum / Dimension, SDK v1.42): a non-empty Namespace
// that does not start with "AWS/"; 1..1000 data per call; every datum has a MetricName of 1..255 characters without
// control characters, a Value (or StatisticValues / Values) that is finite and within +-2^360, a Unit that is one of
// the StandardUnit values (or none), at most 30 dimensions, each with a Name (1..255 ASCII characters, no control
// characters, at least one non-blank, not starting with ':') and a Value (1..1024 ASCII characters, no control
// characters, at least one non-blank). The limit of 20 data per call that the backend promises is left to the
// caller: Items = len(MetricData).
//
// Wire -> canonical (pkg/backends/cloudwatch), resolved against Options.Series:
//
//	MetricName                                   kind     sub
//	stats.counter.<n>.count                      counter  count
//	stats.counter.<n>.per_second                 counter  rate
//	stats.gauge.<n>                              gauge    value
//	stats.set.<n>                                set      count
//	stats.timers.<n>.lower|upper|count|mean|median|std|sum|sum_squares   timer  same word
//	stats.timers.<n>.count_ps                    timer    rate
//	stats.timers.<n>.<pct>                       timer    <pct>  (upper_90, lower_-90, ...)
//	stats.timers.<n>.histogram + dimension le    timer    le:<value of the last dimension named "le"> ("+Inf" last)
//
// Dimensions -> tags: {Name k, Value v} -> "k:v", except Value "set", which is how the backend writes a bare tag:
// -> "k" (a tag "k:set" is not distinguishable). The backend keeps only the first 10 tags, and the format carries
// no source: Rec.Host is always "". Units are not interpreted. Bytes is 0 (there is no body at this seam).

import (
	"fmt"
	"math"
	"strings"

	"github.com/aws/aws-sdk-go-v2/service/cloudwatch/types"

	"verifharness/internal/bk"
)

const (
	cwMaxDimensions = 30
	cwMaxData       = 1000
)

var cwPrefixes = []struct{ prefix, kind string }{
	{"stats.counter.", "counter"},
	{"stats.timers.", "timer"},
	{"stats.gauge.", "gauge"},
	{"stats.set.", "set"},
}

func cwSubs(pcts []float64) jsSubsFunc {
	return func(kind, suffix, wireType string) []jsSub {
		if kind != wireType {
			return nil
		}
		switch kind {
		case "counter":
			switch suffix {
			case ".count":
				return []jsSub{{sub: "count"}}
			case ".per_second":
				return []jsSub{{sub: "rate"}}
			}
		case "gauge":
			if suffix == "" {
				return []jsSub{{sub: "value"}}
			}
		case "set":
			if suffix == "" {
				return []jsSub{{sub: "count"}}
			}
		case "timer":
			if suffix == "" {
				return nil
			}
			if suffix == ".histogram" {
				return []jsSub{{sub: "le"}}
			}
			if sub, ok := jsPlainTimerSub(suffix[1:], pcts); ok {
				return []jsSub{{sub: sub}}
			}
		}
		return nil
	}
}

func cwText(s string, max int, asciiOnly bool) error {
	if s == "" {
		return fmt.Errorf("is empty")
	}
	if len(s) > max {
		return fmt.Errorf("is %d characters long, limit %d", len(s), max)
	}
	blank := true
	for _, r := range s {
		if r < 0x20 || r == 0x7f {
			return fmt.Errorf("contains the control character %#x", r)
		}
		if asciiOnly && r > 0x7e {
			return fmt.Errorf("contains the non-ASCII character %q", r)
		}
		if r != ' ' {
			blank = false
		}
	}
	if blank {
		return fmt.Errorf("is blank")
	}
	return nil
}

func cwNumber(v float64) error {
	if math.IsNaN(v) || math.IsInf(v, 0) {
		return fmt.Errorf("value %v is not supported", v)
	}
	if lim := math.Ldexp(1, 360); v > lim || v < -lim {
		return fmt.Errorf("value %v is outside +-2^360", v)
	}
	return nil
}

func cwUnitOK(u types.StandardUnit) bool {
	if u == "" {
		return true
	}
	for _, x := range u.Values() {
		if x == u {
			return true
		}
	}
	return false
}

// ParseCloudWatch parses the PutMetricData calls of the "cloudwatch" variant.
func ParseCloudWatch(calls []bk.CWCall, opt Options) []Payload {
	res := jsNewResolver(opt)
	subs := cwSubs(opt.Percentiles)
	var out []Payload
	for _, c := range calls {
		p := Payload{Index: len(out), Items: len(c.Data)}
		var e jsErrs
		switch {
		case c.Namespace == "":
			e.addf("no Namespace")
		case len(c.Namespace) > 255:
			e.addf("Namespace of %d characters, limit 255", len(c.Namespace))
		case strings.HasPrefix(c.Namespace, "AWS/"):
			e.addf("Namespace %q is reserved", c.Namespace)
		}
		if len(c.Data) == 0 {
			e.addf("no MetricData")
		} else if len(c.Data) > cwMaxData {
			e.addf("%d MetricData in one call, the API takes %d", len(c.Data), cwMaxData)
		}
		for i := range c.Data {
			cwDatum(i, &c.Data[i], &p, &e, res, subs)
		}
		jsFinish(&p, &e)
		out = append(out, p)
	}
	return out
}

func cwDatum(i int, d *types.MetricDatum, p *Payload, e *jsErrs, res *jsResolver, subs jsSubsFunc) {
	if d.MetricName == nil || *d.MetricName == "" {
		e.addf("MetricData[%d]: no MetricName", i)
		return
	}
	name := *d.MetricName
	if err := cwText(name, 255, false); err != nil {
		e.addf("MetricData[%d]: MetricName %q %v", i, jsTrunc(name), err)
	}
	if !cwUnitOK(d.Unit) {
		e.addf("MetricData[%d] %s: Unit %q is not a StandardUnit", i, name, d.Unit)
	}
	if len(d.Dimensions) > cwMaxDimensions {
		e.addf("MetricData[%d] %s: %d dimensions, the API takes %d", i, name, len(d.Dimensions), cwMaxDimensions)
	}
	var tags []string
	var dims []string
	leIdx, le := -1, ""
	for j, dm := range d.Dimensions {
		if dm.Name == nil || dm.Value == nil {
			e.addf("MetricData[%d] %s: Dimensions[%d] without Name or Value", i, name, j)
			continue
		}
		k, v := *dm.Name, *dm.Value
		dims = append(dims, k+"="+v)
		if err := cwText(k, 255, true); err != nil {
			e.addf("MetricData[%d] %s: dimension name %q %v", i, name, jsTrunc(k), err)
		} else if strings.HasPrefix(k, ":") {
			e.addf("MetricData[%d] %s: dimension name %q starts with a colon", i, name, jsTrunc(k))
		}
		if err := cwText(v, 1024, true); err != nil {
			e.addf("MetricData[%d] %s: value of dimension %q %v", i, name, jsTrunc(k), err)
		}
		if k == "le" {
			leIdx, le = len(tags), v
		}
		if v == "set" {
			tags = append(tags, k)
		} else {
			tags = append(tags, k+":"+v)
		}
	}

	var value float64
	switch {
	case d.Value != nil:
		value = *d.Value
		if err := cwNumber(value); err != nil {
			e.addf("MetricData[%d] %s: %v", i, name, err)
		}
	case d.StatisticValues != nil || len(d.Values) > 0:
		e.addf("MetricData[%d] %s: StatisticValues / Values are not something gostatsd writes", i, name)
		return
	default:
		e.addf("MetricData[%d] %s: no Value", i, name)
		return
	}

	unit := string(d.Unit)
	wire := jsTrunc(fmt.Sprintf("MetricName=%s Value=%v Unit=%s Dimensions=[%s]", name, value, unit, strings.Join(dims, ",")))
	rec := Rec{Name: name, Tags: jsSorted(tags), Value: value, Wire: wire}

	kind, rest := "", ""
	for _, pf := range cwPrefixes {
		if strings.HasPrefix(name, pf.prefix) {
			kind, rest = pf.kind, name[len(pf.prefix):]
			break
		}
	}
	if kind == "" {
		e.addf("unknown series on the wire: %s", name)
		p.Recs = append(p.Recs, rec)
		return
	}
	m, ok := res.resolve(rest, kind, "", strings.Join(rec.Tags, ","), subs)
	if !ok {
		e.addf("unknown series on the wire: %s", name)
		p.Recs = append(p.Recs, rec)
		return
	}
	rec.Kind, rec.Name, rec.Sub = m.s.Kind, m.s.Name, m.sub.sub
	if m.sub.sub == "le" {
		if leIdx < 0 {
			e.addf("MetricData[%d] %s: histogram bucket without an le dimension", i, name)
			return
		}
		rec.Sub = "le:" + le
		rec.Tags = jsSorted(append(append([]string{}, tags[:leIdx]...), tags[leIdx+1:]...))
	}
	p.Recs = append(p.Recs, rec)
}

// CanonCloudWatch returns the Tags and Host that ParseCloudWatch reports for a series flushed with these tags and
// this source when the backend is faithful to its own rules: only the first 10 tags become dimensions (the backend
// logs "too many dimensions, truncated"), "k:set" is the bare tag "k", and there is never a host.
func CanonCloudWatch(tags []string, source string) (ctags []string, host string) {
	for i, t := range tags {
		if i == 10 {
			break
		}
		if k, v, found := strings.Cut(t, ":"); found && v == "set" {
			t = k
		}
		ctags = append(ctags, t)
	}
	return jsSorted(ctags), ""
}
