//go:build verif

package payload

import (
	"context"
	"fmt"
	"math"
	"sort"
	"strings"
	"testing"
	"testing/synctest"
	"time"

	"github.com/aws/aws-sdk-go-v2/service/cloudwatch/types"
	collectorpb "go.opentelemetry.io/proto/otlp/collector/metrics/v1"
	commonpb "go.opentelemetry.io/proto/otlp/common/v1"
	metricspb "go.opentelemetry.io/proto/otlp/metrics/v1"
	"google.golang.org/protobuf/proto"

	"github.com/atlassian/gostatsd"
	"github.com/atlassian/gostatsd/pkg/statsd"

	"verifharness/internal/bk"
)

// ---------------------------------------------------------------- the flushed map

const jtTagValue = "pr/od-1.x_y:z" // characters from [A-Za-z0-9_.:/-]

var jtPcts = []float64{90, -90}

func jtMetrics() []*gostatsd.Metric {
	c1 := gostatsd.Tags{"env:" + jtTagValue, "solo"}
	et := gostatsd.Tags{"env:test"}
	hi := gostatsd.Tags{"gsd_histogram:10_20"}
	return []*gostatsd.Metric{
		{Name: "a.b.count", Type: gostatsd.COUNTER, Value: 7, Rate: 1, Source: "h1"},
		{Name: "c1", Type: gostatsd.COUNTER, Value: 5, Rate: 1, Tags: c1, Source: ""},
		{Name: "g1", Type: gostatsd.GAUGE, Value: 2.5, Rate: 1, Tags: et, Source: "h1"},
		{Name: "s1", Type: gostatsd.SET, StringValue: "x", Rate: 1, Tags: et, Source: "h1"},
		{Name: "s1", Type: gostatsd.SET, StringValue: "y", Rate: 1, Tags: et, Source: "h1"},
		{Name: "s1", Type: gostatsd.SET, StringValue: "z", Rate: 1, Tags: et, Source: "h1"},
		{Name: "s1", Type: gostatsd.SET, StringValue: "x", Rate: 1, Tags: et, Source: "h1"},
		{Name: "t1", Type: gostatsd.TIMER, Value: 60, Rate: 1, Tags: et, Source: "h1"},
		{Name: "t1", Type: gostatsd.TIMER, Value: 10, Rate: 1, Tags: et, Source: "h1"},
		{Name: "t1", Type: gostatsd.TIMER, Value: 20, Rate: 1, Tags: et, Source: "h1"},
		// a histogram timer, values deliberately not in ascending order, no source
		{Name: "th", Type: gostatsd.TIMER, Value: 25, Rate: 1, Tags: hi, Source: ""},
		{Name: "th", Type: gostatsd.TIMER, Value: 5, Rate: 1, Tags: hi, Source: ""},
		{Name: "th", Type: gostatsd.TIMER, Value: 15, Rate: 1, Tags: hi, Source: ""},
	}
}

func jtSeries() []Series {
	return []Series{{"counter", "a.b.count"}, {"counter", "c1"}, {"gauge", "g1"}, {"set", "s1"}, {"timer", "t1"}, {"timer", "th"}}
}

func jtOptions() Options { return Options{Series: jtSeries(), Percentiles: jtPcts} }

// jtFlush runs the metrics through the real aggregator: ten second interval, percentiles 90 and -90, histogram limit 10.
func jtFlush(ms []*gostatsd.Metric, disabled gostatsd.TimerSubtypes) *gostatsd.MetricMap {
	agg := statsd.NewMetricAggregator(jtPcts, 5*time.Minute, 5*time.Minute, 5*time.Minute, 5*time.Minute, disabled, 10)
	in := gostatsd.NewMetricMap(false)
	ts := gostatsd.Nanotime(time.Now().UnixNano())
	for _, m := range ms {
		c := *m
		c.Tags = append(gostatsd.Tags{}, m.Tags...)
		c.Timestamp = ts
		in.Receive(&c)
	}
	agg.ReceiveMap(in)
	agg.Flush(10 * time.Second)
	var out *gostatsd.MetricMap
	agg.Process(func(mm *gostatsd.MetricMap) { out = mm })
	return out
}

type jtCapture struct {
	attempts []bk.Attempt
	calls    []bk.CWCall
}

// jtSend builds the variant in a bubble, flushes the map through it and returns what arrived on its seam.
func jtSend(t *testing.T, variant string, ms []*gostatsd.Metric, disabled gostatsd.TimerSubtypes, conf func(*bk.Env)) jtCapture {
	t.Helper()
	var capt jtCapture
	synctest.Test(t, func(t *testing.T) {
		v, ok := bk.ByName(variant)
		if !ok {
			t.Fatalf("no variant %s", variant)
		}
		env := bk.NewEnv()
		defer env.Close()
		if conf != nil {
			conf(env)
		}
		b, err := v.New(env)
		if err != nil {
			t.Fatalf("%s: New: %v", variant, err)
		}
		ctx, cancel := context.WithCancel(context.Background())
		defer cancel()
		stop := env.Start(ctx, b)
		defer stop()
		mm := jtFlush(ms, disabled)
		calls, cbErrs := 0, []error(nil)
		go b.SendMetricsAsync(env.Context(ctx), mm, func(errs []error) { // otlp calls back synchronously
			calls++
			for _, e := range errs {
				if e != nil {
					cbErrs = append(cbErrs, e)
				}
			}
		})
		synctest.Wait()
		if calls != 1 || len(cbErrs) != 0 {
			t.Fatalf("%s: callback calls = %d, errors = %v", variant, calls, cbErrs)
		}
		capt.attempts = env.HTTP.Attempts()
		capt.calls = env.CW.Calls()
	})
	return capt
}

// ---------------------------------------------------------------- expectations, written by hand

type jtWant struct {
	kind, name, sub string
	tags            []string
	host            string
	v               float64
}

var (
	jtC1Tags = []string{"env:" + jtTagValue, "solo"}
	jtEnv    = []string{"env:test"}
	jtHist   = []string{"gsd_histogram:10_20"}
)

// jtWantScalars: both counters, the gauge and the set, as every backend but cloudwatch (no host) must report them.
func jtWantScalars() []jtWant {
	return []jtWant{
		{"counter", "a.b.count", "count", nil, "h1", 7},
		{"counter", "a.b.count", "rate", nil, "h1", 0.7},
		{"counter", "c1", "count", jtC1Tags, "", 5},
		{"counter", "c1", "rate", jtC1Tags, "", 0.5},
		{"gauge", "g1", "value", jtEnv, "h1", 2.5},
		{"set", "s1", "count", jtEnv, "h1", 3},
	}
}

// jtWantTimerBase: count, sum, lower, upper of t1 = {10, 20, 60}.
func jtWantTimerBase() []jtWant {
	return []jtWant{
		{"timer", "t1", "lower", jtEnv, "h1", 10},
		{"timer", "t1", "upper", jtEnv, "h1", 60},
		{"timer", "t1", "count", jtEnv, "h1", 3},
		{"timer", "t1", "sum", jtEnv, "h1", 90},
	}
}

// jtWantTimerRest: the other sub-metrics of t1. With three values both thresholds cover round(0.9*3) = 3 values.
func jtWantTimerRest() []jtWant {
	return []jtWant{
		{"timer", "t1", "rate", jtEnv, "h1", 0.3},
		{"timer", "t1", "mean", jtEnv, "h1", 30},
		{"timer", "t1", "median", jtEnv, "h1", 20},
		{"timer", "t1", "std", jtEnv, "h1", math.Sqrt((400 + 100 + 900) / 3.0)},
		{"timer", "t1", "sum_squares", jtEnv, "h1", 4100},
		{"timer", "t1", "count_90", jtEnv, "h1", 3},
		{"timer", "t1", "mean_90", jtEnv, "h1", 30},
		{"timer", "t1", "sum_90", jtEnv, "h1", 90},
		{"timer", "t1", "sum_squares_90", jtEnv, "h1", 4100},
		{"timer", "t1", "upper_90", jtEnv, "h1", 60},
		{"timer", "t1", "count_-90", jtEnv, "h1", 3},
		{"timer", "t1", "mean_-90", jtEnv, "h1", 30},
		{"timer", "t1", "sum_-90", jtEnv, "h1", 90},
		{"timer", "t1", "sum_squares_-90", jtEnv, "h1", 4100},
		{"timer", "t1", "lower_-90", jtEnv, "h1", 10},
	}
}

// jtWantBuckets: th = {25, 5, 15} against the bounds 10, 20: cumulative counts.
func jtWantBuckets() []jtWant {
	return []jtWant{
		{"timer", "th", "le:10", jtHist, "", 1},
		{"timer", "th", "le:20", jtHist, "", 2},
		{"timer", "th", "le:+Inf", jtHist, "", 3},
	}
}

func jtWantFull() []jtWant {
	var w []jtWant
	w = append(w, jtWantScalars()...)
	w = append(w, jtWantTimerBase()...)
	w = append(w, jtWantTimerRest()...)
	w = append(w, jtWantBuckets()...)
	return w
}

func jtNoHost(ws []jtWant) []jtWant {
	out := append([]jtWant{}, ws...)
	for i := range out {
		out[i].host = ""
	}
	return out
}

func jtKey(kind, name, sub string, tags []string, host string, v float64) string {
	s := append([]string{}, tags...)
	sort.Strings(s)
	return fmt.Sprintf("%s|%s|%s|%s|%s|%.9g", kind, name, sub, strings.Join(s, ","), host, v)
}

// jtKnown describes a deviation of the real backend that is reported as a FINDING instead of failing the test.
type jtKnown struct {
	desc    string
	missing func(key string) bool // an expected record that is absent
	extra   func(key string) bool // a record that is not expected
	err     string                // substring of a Payload.Err that belongs to it
}

func jtHas(sub string) func(string) bool {
	return func(k string) bool { return strings.Contains(k, sub) }
}

// jtCompare checks (a) no Err, (b) the records are exactly the wanted ones, each once.
func jtCompare(t *testing.T, label string, ps []Payload, want []jtWant, known []jtKnown) {
	t.Helper()
	logged := map[string]bool{}
	finding := func(k jtKnown, detail string) {
		if !logged[k.desc] {
			logged[k.desc] = true
			t.Logf("FINDING: %s: %s (%s)", label, k.desc, detail)
		}
	}
	got := map[string]int{}
	n := 0
	for _, p := range ps {
		if (p.Err == nil) != (p.ErrText == "") {
			t.Errorf("%s: payload %d: Err %v but ErrText %q", label, p.Index, p.Err, p.ErrText)
		}
		if p.Err != nil {
			ok := false
			for _, k := range known {
				if k.err != "" && strings.Contains(p.ErrText, k.err) {
					finding(k, p.ErrText)
					ok = true
				}
			}
			if !ok {
				t.Errorf("%s: payload %d: unexpected Err: %v", label, p.Index, p.Err)
			}
		}
		for _, r := range p.Recs {
			if !sort.StringsAreSorted(r.Tags) {
				t.Errorf("%s: tags not sorted: %+v", label, r)
			}
			got[jtKey(r.Kind, r.Name, r.Sub, r.Tags, r.Host, r.Value)]++
			n++
		}
	}
	for _, w := range want {
		k := jtKey(w.kind, w.name, w.sub, w.tags, w.host, w.v)
		if got[k] > 0 {
			got[k]--
			continue
		}
		ok := false
		for _, kn := range known {
			if kn.missing != nil && kn.missing(k) {
				finding(kn, "missing "+k)
				ok = true
				break
			}
		}
		if !ok {
			t.Errorf("%s: missing record %s", label, k)
		}
	}
	var extra []string
	for k, c := range got {
		for ; c > 0; c-- {
			extra = append(extra, k)
		}
	}
	sort.Strings(extra)
	for _, k := range extra {
		ok := false
		for _, kn := range known {
			if kn.extra != nil && kn.extra(k) {
				finding(kn, "got "+k)
				ok = true
				break
			}
		}
		if !ok {
			t.Errorf("%s: unexpected record %s", label, k)
		}
	}
	if t.Failed() {
		for _, p := range ps {
			t.Logf("%s: payload %d items=%d bytes=%d err=%q", label, p.Index, p.Items, p.Bytes, p.ErrText)
			for _, r := range p.Recs {
				t.Logf("    %s   <- %s", jtKey(r.Kind, r.Name, r.Sub, r.Tags, r.Host, r.Value), r.Wire)
			}
		}
	}
}

func jtItems(ps []Payload) (items []int, total int) {
	for _, p := range ps {
		items = append(items, p.Items)
		total += p.Items
	}
	return
}

// ---------------------------------------------------------------- datadog

func TestJSONDatadog(t *testing.T) {
	for _, batch := range []int{1, 3, 0} {
		for _, noCompress := range []bool{false, true} {
			label := fmt.Sprintf("datadog batch=%d compress=%v", batch, !noCompress)
			capt := jtSend(t, "datadog", jtMetrics(), gostatsd.TimerSubtypes{}, func(e *bk.Env) {
				e.MetricsPerBatch, e.NoCompress = batch, noCompress
			})
			for _, a := range capt.attempts {
				if enc := a.Header.Get("Content-Encoding"); (enc == "") != noCompress {
					t.Errorf("%s: Content-Encoding %q", label, enc)
				}
			}
			ps := ParseDatadog(capt.attempts, jtOptions())
			jtCompare(t, label, ps, jtWantFull(), nil)
			items, total := jtItems(ps)
			if total != len(jtWantFull()) {
				t.Errorf("%s: %d series objects, want %d", label, total, len(jtWantFull()))
			}
			for i, p := range ps {
				if p.Bytes != len(capt.attempts[i].Decoded) || p.Bytes == 0 {
					t.Errorf("%s: Bytes %d", label, p.Bytes)
				}
				if batch > 0 && p.Items > batch {
					t.Logf("NOTE: %s: a request carries %d series although datadog.metrics_per_batch is %d (the backend only flushes after a whole series key, once len+20 >= limit)", label, p.Items, batch)
					break
				}
			}
			t.Logf("%s: %d requests, series per request %v", label, len(ps), items)
		}
	}
}

func jtAttempt(url, ctype string, body string) bk.Attempt {
	h := map[string][]string{}
	if ctype != "" {
		h["Content-Type"] = []string{ctype}
	}
	return bk.Attempt{Method: "POST", URL: url, Header: h, Body: []byte(body), Decoded: []byte(body)}
}

func jtEncoded(url, ctype, encoding string, raw []byte) bk.Attempt {
	a := jtAttempt(url, ctype, "")
	a.Header["Content-Encoding"] = []string{encoding}
	a.Body = raw
	a.Decoded, a.DecodeErr = bk.Decode(encoding, raw)
	return a
}

type jtBad struct {
	name    string
	attempt bk.Attempt
	errHas  string
	recs    int // records that must still come out
}

func jtCheckBad(t *testing.T, proto string, bad []jtBad, parse func(bk.Attempt) []Payload) {
	t.Helper()
	if len(bad) < 3 {
		t.Fatalf("%s: only %d malformed payloads", proto, len(bad))
	}
	for _, b := range bad {
		ps := parse(b.attempt)
		if len(ps) != 1 {
			t.Errorf("%s/%s: %d payloads", proto, b.name, len(ps))
			continue
		}
		p := ps[0]
		if p.Err == nil || p.ErrText == "" || !strings.Contains(p.ErrText, b.errHas) {
			t.Errorf("%s/%s: Err = %v, want one containing %q", proto, b.name, p.Err, b.errHas)
		}
		if len(p.Recs) != b.recs {
			t.Errorf("%s/%s: %d records, want %d: %+v", proto, b.name, len(p.Recs), b.recs, p.Recs)
		}
	}
}

func TestJSONDatadogMalformed(t *testing.T) {
	const u = "http://datadog.test/api/v1/series?api_key=k"
	const j = "application/json"
	good := `{"metric":"g1","points":[[946684800,2.5]],"type":"gauge","host":"h1","tags":["env:test"],"interval":1}`
	bad := []jtBad{
		{"truncated", jtAttempt(u, j, `{"series":[`+good), "malformed JSON", 0},
		{"trailing data", jtAttempt(u, j, `{"series":[`+good+`]} {"series":[]}`), "trailing data", 0},
		{"no series member", jtAttempt(u, j, `{}`), `no "series"`, 0},
		{"unknown top-level member", jtAttempt(u, j, `{"series":[],"sketches":[]}`), "unknown field", 0},
		{"missing metric", jtAttempt(u, j, `{"series":[{"points":[[1,2.5]],"type":"gauge"},`+good+`]}`), `no "metric"`, 1},
		{"missing points", jtAttempt(u, j, `{"series":[`+good+`,{"metric":"g1","type":"gauge"}]}`), `no "points"`, 1},
		{"NaN", jtAttempt(u, j, `{"series":[{"metric":"g1","points":[[1,NaN]],"type":"gauge"}]}`), "malformed JSON", 0},
		{"overflow", jtAttempt(u, j, `{"series":[{"metric":"g1","points":[[1,1e999]],"type":"gauge"}]}`), "does not fit", 0},
		{"quoted number", jtAttempt(u, j, `{"series":[{"metric":"g1","points":[[1,"2.5"]],"type":"gauge"}]}`), "not a JSON number", 0},
		{"three element point", jtAttempt(u, j, `{"series":[{"metric":"g1","points":[[1,2.5,3]],"type":"gauge"}]}`), "want [timestamp, value]", 0},
		{"unknown series member", jtAttempt(u, j, `{"series":[{"metric":"g1","points":[[1,2.5]],"device":"x"}]}`), "unknown field", 0},
		{"bad type", jtAttempt(u, j, `{"series":[{"metric":"g1","points":[[1,2.5]],"type":"histogram"}]}`), "is not one of gauge, rate, count", 1},
		{"tags not strings", jtAttempt(u, j, `{"series":[{"metric":"g1","points":[[1,2.5]],"tags":{"env":"test"}}]}`), "cannot unmarshal", 0},
		{"wrong content type", jtAttempt(u, "text/plain", `{"series":[`+good+`]}`), "Content-Type", 1},
		{"no content type", jtAttempt(u, "", `{"series":[`+good+`]}`), "Content-Type", 1},
		{"deflate announced, plain sent", jtEncoded(u, j, "deflate", []byte(`{"series":[`+good+`]}`)), "Content-Encoding", 0},
		{"unknown encoding", jtEncoded(u, j, "br", []byte(`{"series":[`+good+`]}`)), "Content-Encoding", 0},
		{"unknown series", jtAttempt(u, j, `{"series":[{"metric":"nope.count","points":[[1,2.5]],"type":"gauge"}]}`), "unknown series on the wire: nope.count", 1},
		{"known name, wrong type", jtAttempt(u, j, `{"series":[{"metric":"t1.count_ps","points":[[1,2.5]],"type":"gauge"}]}`), "unknown series on the wire", 1},
		{"bucket without le", jtAttempt(u, j, `{"series":[{"metric":"th.histogram","points":[[1,2]],"type":"count","tags":["gsd_histogram:10_20"]}]}`), "without an le: tag", 0},
	}
	jtCheckBad(t, "datadog", bad, func(a bk.Attempt) []Payload { return ParseDatadog([]bk.Attempt{a}, jtOptions()) })

	// the one well-formed series of a broken request is still reported, canonically
	ps := ParseDatadog([]bk.Attempt{bad[4].attempt}, jtOptions())
	jtCompare(t, "datadog partly broken", []Payload{{Recs: ps[0].Recs}}, []jtWant{{"gauge", "g1", "value", jtEnv, "h1", 2.5}}, nil)
	// an unknown series keeps its wire name and has no kind
	ps = ParseDatadog([]bk.Attempt{bad[17].attempt}, jtOptions())
	if r := ps[0].Recs[0]; r.Kind != "" || r.Name != "nope.count" || r.Value != 2.5 {
		t.Errorf("unknown series: %+v", r)
	}
	// requests to other paths are not metric payloads
	if ps := ParseDatadog([]bk.Attempt{jtAttempt("http://datadog.test/api/v1/events?api_key=k", j, `{"title":"x"}`)}, jtOptions()); len(ps) != 0 {
		t.Errorf("event request parsed as metrics: %+v", ps)
	}
}

// TestJSONDatadogResolution: names that only Options.Series can tell apart.
func TestJSONDatadogResolution(t *testing.T) {
	const u = "http://datadog.test/api/v1/series"
	body := `{"series":[
	 {"metric":"x.count","points":[[1,1]],"type":"gauge"},
	 {"metric":"x.count.count","points":[[1,2]],"type":"gauge"},
	 {"metric":"x.count","points":[[1,3]],"type":"rate"},
	 {"metric":"y.count","points":[[1,4]],"type":"gauge"},
	 {"metric":"z","points":[[1,5]],"type":"gauge"},
	 {"metric":"z","points":[[1,6]],"type":"gauge"}]}`
	opt := Options{Series: []Series{{"timer", "x"}, {"gauge", "x.count"}, {"counter", "x.count"}, {"timer", "y"}, {"gauge", "z"}, {"set", "z"}}}
	ps := ParseDatadog([]bk.Attempt{jtAttempt(u, "application/json", body)}, opt)
	jtCompare(t, "datadog resolution", ps, []jtWant{
		{"gauge", "x.count", "value", nil, "", 1}, // the longest series name wins over timer x / count
		{"counter", "x.count", "count", nil, "", 2},
		{"counter", "x.count", "rate", nil, "", 3},
		{"timer", "y", "count", nil, "", 4},
		{"gauge", "z", "value", nil, "", 5}, // gauge z and set z look the same: assigned in turn
		{"set", "z", "count", nil, "", 6},
	}, nil)
}

// ---------------------------------------------------------------- new relic

var jtNRNumericTag = jtKnown{
	desc:    `newrelic setTags sends every tag value that strconv.ParseFloat accepts as a JSON number, which changes it: tag "gsd_histogram:10_20" arrives as the attribute gsd_histogram = 1020 (ParseFloat allows "_" between digits)`,
	missing: jtHas("gsd_histogram:10_20"),
	extra:   jtHas("gsd_histogram:1020"),
}

func TestJSONNewRelicEvents(t *testing.T) {
	for _, ft := range []string{"infra", "insights"} {
		for _, batch := range []int{1, 0} {
			label := fmt.Sprintf("newrelic/%s batch=%d", ft, batch)
			capt := jtSend(t, "newrelic/"+ft, jtMetrics(), gostatsd.TimerSubtypes{}, func(e *bk.Env) { e.MetricsPerBatch = batch })
			for _, a := range capt.attempts {
				if enc := a.Header.Get("Content-Encoding"); (enc == "gzip") != (ft == "insights") {
					t.Errorf("%s: Content-Encoding %q", label, enc)
				}
			}
			ps := ParseNewRelic(ft, capt.attempts, jtOptions())
			jtCompare(t, label, ps, jtWantFull(), []jtKnown{jtNRNumericTag})
			items, total := jtItems(ps)
			if total != 8 { // one event per series and one per bucket
				t.Errorf("%s: %d events, want 8", label, total)
			}
			t.Logf("%s: %d requests, events per request %v", label, len(ps), items)
		}
	}
}

func TestJSONNewRelicMetrics(t *testing.T) {
	setLost := jtKnown{
		desc:    `newrelic flush-type metrics writes a set as {"name","timestamp","attributes"} without "value" and "type" (newDimensionalMetricSet has no case for "set"): the Metric API requires a value, the set's count is lost`,
		missing: jtHas("set|s1|count"),
		err:     `s1: no "value"`,
	}
	for _, batch := range []int{1, 0} {
		label := fmt.Sprintf("newrelic/metrics batch=%d", batch)
		capt := jtSend(t, "newrelic/metrics", jtMetrics(), gostatsd.TimerSubtypes{}, func(e *bk.Env) { e.MetricsPerBatch = batch })
		for _, a := range capt.attempts {
			if a.Header.Get("Content-Encoding") != "gzip" || !strings.Contains(a.URL, "newrelic-metrics.test") {
				t.Errorf("%s: %s Content-Encoding %q", label, a.URL, a.Header.Get("Content-Encoding"))
			}
		}
		ps := ParseNewRelic("metrics", capt.attempts, jtOptions())
		jtCompare(t, label, ps, jtWantFull(), []jtKnown{jtNRNumericTag, setLost})
		items, total := jtItems(ps)
		// 1 gauge, 2x2 counter, 1 set, t1: summary + 4 gauges + rate + 10 percentiles, th: 3 x (count + per_second)
		if total != 1+4+1+16+6 {
			t.Errorf("%s: %d metrics, want 28", label, total)
		}
		t.Logf("%s: %d requests, metrics per request %v", label, len(ps), items)
	}
}

func TestJSONNewRelicMalformed(t *testing.T) {
	const u = "http://newrelic.test/v1/data"
	const j = "application/json"
	ev := func(typeKey string) string {
		return `{"` + typeKey + `":"GoStatsD","integration_version":"2.4.0","interval":1,"timestamp":946684800,"name":"g1","type":"gauge","value":2.5,"env":"test","statsdSource":"h1"}`
	}
	infra := func(events string) string {
		return `{"name":"com.newrelic.gostatsd","protocol_version":"2","integration_version":"2.4.0","data":[{"metrics":[` + events + `]}]}`
	}
	g1 := []jtWant{{"gauge", "g1", "value", jtEnv, "h1", 2.5}}

	// the hand-made good payloads parse cleanly
	jtCompare(t, "infra hand-made", ParseNewRelic("infra", []bk.Attempt{jtAttempt(u, j, infra(ev("event_type")))}, jtOptions()), g1, nil)
	jtCompare(t, "insights hand-made", ParseNewRelic("insights", []bk.Attempt{jtAttempt(u, j, "["+ev("eventType")+"]")}, jtOptions()), g1, nil)

	e := ev("event_type")
	bad := []jtBad{
		{"truncated", jtAttempt(u, j, infra(e)[:60]), "malformed JSON", 0},
		{"no data", jtAttempt(u, j, `{"name":"x","protocol_version":"2","integration_version":"1"}`), `no "data"`, 0},
		{"no protocol_version", jtAttempt(u, j, `{"name":"x","integration_version":"1","data":[{"metrics":[`+e+`]}]}`), "protocol_version", 1},
		{"unknown envelope member", jtAttempt(u, j, `{"name":"x","protocol_version":"2","integration_version":"1","metrics":[],"data":[]}`), "unknown field", 0},
		{"insights event in infra", jtAttempt(u, j, infra(ev("eventType"))), `no "event_type"`, 0},
		{"no value", jtAttempt(u, j, infra(strings.Replace(e, `"value":2.5,`, ``, 1))), `no "value"`, 0},
		{"value is a string", jtAttempt(u, j, infra(strings.Replace(e, `"value":2.5`, `"value":"2.5"`, 1))), "not a JSON number", 0},
		{"nested attribute", jtAttempt(u, j, infra(strings.Replace(e, `"env":"test"`, `"env":{"a":1}`, 1))), "neither a string nor a finite number", 1},
		{"null attribute", jtAttempt(u, j, infra(strings.Replace(e, `"env":"test"`, `"env":null`, 1))), "neither a string nor a finite number", 1},
		{"bad type", jtAttempt(u, j, infra(strings.Replace(e, `"type":"gauge"`, `"type":"histogram"`, 1))), "is not one of gauge, counter, set, timer", 0},
		{"unknown series", jtAttempt(u, j, infra(strings.Replace(e, `"name":"g1"`, `"name":"nope"`, 1))), "unknown series on the wire: gauge nope", 1},
		{"good and bad", jtAttempt(u, j, infra(e+`,{"event_type":"GoStatsD"}`)), `no "name"`, 1},
		{"wrong content type", jtAttempt(u, "application/x-protobuf", infra(e)), "Content-Type", 1},
	}
	jtCheckBad(t, "newrelic/infra", bad, func(a bk.Attempt) []Payload { return ParseNewRelic("infra", []bk.Attempt{a}, jtOptions()) })

	e = ev("eventType")
	bad = []jtBad{
		{"object instead of array", jtAttempt(u, j, e), "malformed JSON", 0},
		{"infra event in insights", jtAttempt(u, j, "["+ev("event_type")+"]"), `no "eventType"`, 0},
		{"trailing data", jtAttempt(u, j, "["+e+"]]"), "trailing data", 0},
		{"gzip announced, plain sent", jtEncoded(u, j, "gzip", []byte("["+e+"]")), "Content-Encoding", 0},
		{"element is not an object", jtAttempt(u, j, "["+e+",7]"), "not a JSON object", 1},
		{"NaN", jtAttempt(u, j, "["+strings.Replace(e, "2.5", "NaN", 1)+"]"), "malformed JSON", 0},
	}
	jtCheckBad(t, "newrelic/insights", bad, func(a bk.Attempt) []Payload { return ParseNewRelic("insights", []bk.Attempt{a}, jtOptions()) })

	const um = "http://newrelic-metrics.test/metric/v1"
	env := func(common, metrics string) string {
		return `[{"common":{` + common + `},"metrics":[` + metrics + `]}]`
	}
	const ci = `"interval.ms":1000,"attributes":{"integration.name":"GoStatsD"}`
	gm := `{"name":"g1","value":2.5,"type":"gauge","timestamp":946684800,"attributes":{"env":"test","statsdSource":"h1","statsdType":"gauge"}}`
	cm := `{"name":"c1","value":5,"type":"count","timestamp":946684800,"attributes":{"statsdType":"counter"}}`
	sm := `{"name":"t1.summary","value":{"count":3,"sum":90,"min":10,"max":60},"type":"summary","timestamp":946684800,"attributes":{"env":"test","statsdSource":"h1","statsdType":"timer"}}`
	jtCompare(t, "metrics hand-made", ParseNewRelic("metrics", []bk.Attempt{jtAttempt(um, j, env(ci, gm+","+cm+","+sm))}, jtOptions()),
		append([]jtWant{{"gauge", "g1", "value", jtEnv, "h1", 2.5}, {"counter", "c1", "count", nil, "", 5}}, jtWantTimerBase()...), nil)
	bad = []jtBad{
		{"truncated", jtAttempt(um, j, env(ci, gm)[:80]), "malformed JSON", 0},
		{"bare object", jtAttempt(um, j, `{"metrics":[`+gm+`]}`), "malformed JSON", 0},
		{"no metrics member", jtAttempt(um, j, `[{"common":{}}]`), `no "metrics"`, 0},
		{"no value", jtAttempt(um, j, env(ci, gm+`,{"name":"s1","timestamp":946684800,"attributes":{"statsdType":"set"}}`)), `s1: no "value"`, 1},
		{"no name", jtAttempt(um, j, env(ci, `{"value":1,"type":"gauge"}`)), `no "name"`, 0},
		{"count without interval", jtAttempt(um, j, env(`"attributes":{}`, cm)), "needs interval.ms", 1},
		{"bad type", jtAttempt(um, j, env(ci, strings.Replace(gm, `"type":"gauge"`, `"type":"rate"`, 1))), "is not one of gauge, count, summary", 0},
		{"summary without count", jtAttempt(um, j, env(ci, strings.Replace(sm, `"count":3,`, ``, 1))), "without count or sum", 0},
		{"summary with a scalar", jtAttempt(um, j, env(ci, strings.Replace(sm, `{"count":3,"sum":90,"min":10,"max":60}`, `3`, 1))), "summary value", 0},
		{"unknown metric member", jtAttempt(um, j, env(ci, strings.Replace(gm, `"type":"gauge"`, `"type":"gauge","unit":"ms"`, 1))), "unknown field", 0},
		{"array attribute", jtAttempt(um, j, env(ci, strings.Replace(gm, `"env":"test"`, `"env":["test"]`, 1))), "neither a string nor a finite number", 1},
		{"unknown series", jtAttempt(um, j, env(ci, strings.Replace(gm, `"name":"g1"`, `"name":"g1.per_second"`, 1))), "unknown series on the wire: g1.per_second", 1},
	}
	jtCheckBad(t, "newrelic/metrics", bad, func(a bk.Attempt) []Payload { return ParseNewRelic("metrics", []bk.Attempt{a}, jtOptions()) })
}

// TestJSONNewRelicTagClobbersMember: in the flat event formats the tags are written into the same object as the
// backend's own members, after them.
func TestJSONNewRelicTagClobbersMember(t *testing.T) {
	ms := []*gostatsd.Metric{{Name: "g2", Type: gostatsd.GAUGE, Value: 4, Rate: 1, Tags: gostatsd.Tags{"name:zzz", "env:test"}, Source: "h1"}}
	want := []jtWant{{"gauge", "g2", "value", []string{"env:test", "name:zzz"}, "h1", 4}}
	clobber := jtKnown{
		desc:    `newrelic (infra, insights) writes the tags into the event object after "name", "type", "value": a tag "name:zzz" on gauge g2 replaces the series name, the series arrives as "zzz" without that tag (newrelic.tag-prefix is empty by default)`,
		missing: jtHas("gauge|g2|value"),
		extra:   jtHas("|zzz|"),
		err:     "unknown series on the wire: gauge zzz",
	}
	for _, ft := range []string{"infra", "insights"} {
		capt := jtSend(t, "newrelic/"+ft, ms, gostatsd.TimerSubtypes{}, nil)
		ps := ParseNewRelic(ft, capt.attempts, Options{Series: []Series{{"gauge", "g2"}}})
		jtCompare(t, "newrelic/"+ft+" tag named name", ps, want, []jtKnown{clobber})
	}
	capt := jtSend(t, "newrelic/metrics", ms, gostatsd.TimerSubtypes{}, nil)
	jtCompare(t, "newrelic/metrics tag named name", ParseNewRelic("metrics", capt.attempts, Options{Series: []Series{{"gauge", "g2"}}}), want, nil)
}

// ---------------------------------------------------------------- otlp

func TestJSONOTLP(t *testing.T) {
	// AsHistogram: one histogram data point per timer instead of the sub-metrics.
	histWant := append(jtWantScalars(), jtWantTimerBase()...)
	histWant = append(histWant,
		jtWant{"timer", "th", "count", jtHist, "", 3},
		jtWant{"timer", "th", "sum", jtHist, "", 45},
		jtWant{"timer", "th", "lower", jtHist, "", 5},
		jtWant{"timer", "th", "upper", jtHist, "", 25},
	)
	histWant = append(histWant, jtWantBuckets()...)
	sumWrong := jtKnown{
		desc:    `otlp AsHistogram: WithHistogramDataPointStatistics points Min / Max at values[0] / values[len-1] and updates them while ranging over the same slice; a histogram timer's values are not sorted (Flush returns early for gsd_histogram timers), so for th = {25, 5, 15} the last element is overwritten with 25 before it is added: sum 55 on the wire instead of 45 (and the flushed map's Values are modified)`,
		missing: jtHas("timer|th|sum|gsd_histogram:10_20||45"),
		extra:   jtHas("timer|th|sum|gsd_histogram:10_20||55"),
	}
	for _, conv := range []string{otAsGauge, otAsHistogram} {
		want, known, metrics := jtWantFull(), []jtKnown(nil), len(jtWantFull())
		if conv == otAsHistogram {
			want, known, metrics = histWant, []jtKnown{sumWrong}, 6+2
		}
		for _, batch := range []int{1, 2, 0} {
			for _, noCompress := range []bool{false, true} {
				if noCompress && batch != 0 {
					continue
				}
				label := fmt.Sprintf("otlp/%s batch=%d compress=%v", conv, batch, !noCompress)
				capt := jtSend(t, "otlp/"+conv, jtMetrics(), gostatsd.TimerSubtypes{}, func(e *bk.Env) {
					e.MetricsPerBatch, e.NoCompress = batch, noCompress
				})
				ps := ParseOTLP(conv, capt.attempts, jtOptions())
				jtCompare(t, label, ps, want, known)
				items, total := jtItems(ps)
				if total != metrics {
					t.Errorf("%s: %d Metric messages, want %d", label, total, metrics)
				}
				empty := 0
				for _, p := range ps {
					if batch > 0 && p.Items > batch {
						t.Logf("FINDING: %s: a request carries %d metrics, otlp.metrics_per_batch is %d", label, p.Items, batch)
					}
					if p.Items == 0 {
						empty++
					}
				}
				if empty > 0 {
					t.Logf("NOTE: %s: %d of %d requests carry no metric at all (groups.insert opens a new batch as soon as the current one is full, the last one stays empty and is posted anyway)", label, empty, len(ps))
				}
				t.Logf("%s: %d requests, metrics per request %v", label, len(ps), items)
			}
		}
	}
}

// TestJSONOTLPResourceKeys: tags moved to the resource by otlp.resource_keys are still the series' tags, and the
// host may travel there too.
func TestJSONOTLPResourceKeys(t *testing.T) {
	capt := jtSend(t, "otlp/AsGauge", jtMetrics(), gostatsd.TimerSubtypes{}, func(e *bk.Env) {
		e.Set("otlp.resource_keys", []string{"env", "host"})
	})
	jtCompare(t, "otlp resource_keys", ParseOTLP(otAsGauge, capt.attempts, jtOptions()), jtWantFull(), nil)
}

func jtKV(k, v string) *commonpb.KeyValue {
	return &commonpb.KeyValue{Key: k, Value: &commonpb.AnyValue{Value: &commonpb.AnyValue_StringValue{StringValue: v}}}
}

func jtGaugeMetric(name string, dps ...*metricspb.NumberDataPoint) *metricspb.Metric {
	return &metricspb.Metric{Name: name, Data: &metricspb.Metric_Gauge{Gauge: &metricspb.Gauge{DataPoints: dps}}}
}

func jtHistMetric(name string, temp metricspb.AggregationTemporality, dps ...*metricspb.HistogramDataPoint) *metricspb.Metric {
	return &metricspb.Metric{Name: name, Data: &metricspb.Metric_Histogram{Histogram: &metricspb.Histogram{AggregationTemporality: temp, DataPoints: dps}}}
}

func jtOTLPBody(t *testing.T, ms ...*metricspb.Metric) string {
	t.Helper()
	req := &collectorpb.ExportMetricsServiceRequest{ResourceMetrics: []*metricspb.ResourceMetrics{{
		ScopeMetrics: []*metricspb.ScopeMetrics{{Scope: &commonpb.InstrumentationScope{Name: "hand"}, Metrics: ms}},
	}}}
	b, err := proto.Marshal(req)
	if err != nil {
		t.Fatal(err)
	}
	return string(b)
}

func TestJSONOTLPMalformed(t *testing.T) {
	const u = "http://otlp.test/v1/metrics"
	const pb = "application/x-protobuf"
	const delta = metricspb.AggregationTemporality_AGGREGATION_TEMPORALITY_DELTA
	f := func(v float64) *float64 { return &v }
	now := uint64(946684800e9)
	g1 := jtGaugeMetric("g1", &metricspb.NumberDataPoint{TimeUnixNano: now, Attributes: []*commonpb.KeyValue{jtKV("env", "test"), jtKV("host", "h1")},
		Value: &metricspb.NumberDataPoint_AsDouble{AsDouble: 2.5}})
	hdp := func(count uint64, counts []uint64, bounds []float64) *metricspb.HistogramDataPoint {
		return &metricspb.HistogramDataPoint{TimeUnixNano: now, Count: count, Sum: f(45), Min: f(5), Max: f(25), BucketCounts: counts, ExplicitBounds: bounds,
			Attributes: []*commonpb.KeyValue{jtKV("gsd_histogram", "10_20")}}
	}
	wantG1 := []jtWant{{"gauge", "g1", "value", jtEnv, "h1", 2.5}}

	// hand-made good payloads
	good := jtOTLPBody(t, g1, jtHistMetric("th", delta, hdp(3, []uint64{1, 1, 1}, []float64{10, 20})))
	jtCompare(t, "otlp hand-made", ParseOTLP(otAsHistogram, []bk.Attempt{jtAttempt(u, pb, good)}, jtOptions()), append(append(wantG1,
		jtWant{"timer", "th", "count", jtHist, "", 3}, jtWant{"timer", "th", "sum", jtHist, "", 45},
		jtWant{"timer", "th", "lower", jtHist, "", 5}, jtWant{"timer", "th", "upper", jtHist, "", 25}), jtWantBuckets()...), nil)
	if ps := ParseOTLP(otAsGauge, []bk.Attempt{jtAttempt("http://otlp.test/v1/logs", pb, "\xff\xff")}, jtOptions()); len(ps) != 0 {
		t.Errorf("a logs request was parsed as metrics")
	}
	if ps := ParseOTLP(otAsGauge, []bk.Attempt{jtAttempt(u, pb, "")}, jtOptions()); len(ps) != 1 || ps[0].Err != nil || ps[0].Items != 0 {
		t.Errorf("empty request: %+v", ps)
	}

	noData := &metricspb.Metric{Name: "g1"}
	noValue := jtGaugeMetric("g1", &metricspb.NumberDataPoint{TimeUnixNano: now})
	noTime := jtGaugeMetric("g1", &metricspb.NumberDataPoint{Value: &metricspb.NumberDataPoint_AsDouble{AsDouble: 2.5}, Attributes: g1.GetGauge().DataPoints[0].Attributes})
	dupKey := jtGaugeMetric("g1", &metricspb.NumberDataPoint{TimeUnixNano: now, Value: &metricspb.NumberDataPoint_AsDouble{AsDouble: 2.5},
		Attributes: []*commonpb.KeyValue{jtKV("env", "test"), jtKV("env", "prod")}})
	noTemp := &metricspb.Metric{Name: "c1.count", Data: &metricspb.Metric_Sum{Sum: &metricspb.Sum{DataPoints: []*metricspb.NumberDataPoint{
		{TimeUnixNano: now, Value: &metricspb.NumberDataPoint_AsInt{AsInt: 5}}}}}}
	summary := &metricspb.Metric{Name: "t1", Data: &metricspb.Metric_Summary{Summary: &metricspb.Summary{DataPoints: []*metricspb.SummaryDataPoint{{TimeUnixNano: now, Count: 3, Sum: 90}}}}}
	bad := []jtBad{
		{"garbage", jtAttempt(u, pb, "\x0a\xff\xff\xff"), "malformed protobuf", 0},
		{"truncated", jtAttempt(u, pb, good[:len(good)-3]), "malformed protobuf", 0},
		{"JSON body", jtAttempt(u, pb, `{"resourceMetrics":[]}`), "malformed protobuf", 0},
		{"unknown field", jtAttempt(u, pb, good+"\xf8\x06\x01"), "unknown protobuf fields", 8},
		{"wrong content type", jtAttempt(u, "application/json", good), "Content-Type", 8},
		{"gzip announced, plain sent", jtEncoded(u, pb, "gzip", []byte(good)), "Content-Encoding", 0},
		{"deflate", jtEncoded(u, pb, "deflate", []byte(good)), "Content-Encoding", 0},
		{"bucket_counts vs explicit_bounds", jtAttempt(u, pb, jtOTLPBody(t, g1, jtHistMetric("th", delta, hdp(3, []uint64{1, 2}, []float64{10, 20})))), "2 bucket_counts for 2 explicit_bounds", 5},
		{"bounds without counts", jtAttempt(u, pb, jtOTLPBody(t, jtHistMetric("th", delta, hdp(3, nil, []float64{10, 20})))), "explicit_bounds without bucket_counts", 4},
		{"bucket counts do not add up", jtAttempt(u, pb, jtOTLPBody(t, jtHistMetric("th", delta, hdp(4, []uint64{1, 1, 1}, []float64{10, 20})))), "add up to 3, count is 4", 7},
		{"bounds not increasing", jtAttempt(u, pb, jtOTLPBody(t, jtHistMetric("th", delta, hdp(3, []uint64{1, 1, 1}, []float64{20, 10})))), "strictly increasing", 4},
		{"histogram without temporality", jtAttempt(u, pb, jtOTLPBody(t, jtHistMetric("th", 0, hdp(3, []uint64{1, 1, 1}, []float64{10, 20})))), "aggregation temporality", 7},
		{"sum without temporality", jtAttempt(u, pb, jtOTLPBody(t, noTemp)), "aggregation temporality", 1},
		{"metric without data", jtAttempt(u, pb, jtOTLPBody(t, g1, noData)), "no data", 1},
		{"point without value", jtAttempt(u, pb, jtOTLPBody(t, noValue, g1)), "no value", 1},
		{"point without time", jtAttempt(u, pb, jtOTLPBody(t, noTime)), "no time_unix_nano", 1},
		{"duplicate attribute key", jtAttempt(u, pb, jtOTLPBody(t, dupKey)), "occurs twice", 1},
		{"metric without name", jtAttempt(u, pb, jtOTLPBody(t, jtGaugeMetric("", g1.GetGauge().DataPoints...))), "without a name", 1},
		{"unknown series", jtAttempt(u, pb, jtOTLPBody(t, jtGaugeMetric("nope", g1.GetGauge().DataPoints...))), "unknown series on the wire: nope", 1},
		{"summary", jtAttempt(u, pb, jtOTLPBody(t, summary)), "unknown series on the wire: t1", 1},
		{"histogram in AsGauge naming", jtAttempt(u, pb, jtOTLPBody(t, jtGaugeMetric("t1.histogram", g1.GetGauge().DataPoints...))), "without an le attribute", 0},
	}
	jtCheckBad(t, "otlp", bad, func(a bk.Attempt) []Payload { return ParseOTLP("", []bk.Attempt{a}, jtOptions()) })
}

// ---------------------------------------------------------------- cloudwatch

func TestJSONCloudWatch(t *testing.T) {
	capt := jtSend(t, "cloudwatch", jtMetrics(), gostatsd.TimerSubtypes{}, nil)
	ps := ParseCloudWatch(capt.calls, jtOptions())
	// the format has no place for the source: every record comes without a host
	jtCompare(t, "cloudwatch", ps, jtNoHost(jtWantFull()), nil)
	t.Logf("NOTE: cloudwatch: the backend sends no source at all (series of h1 and of no host are indistinguishable), Rec.Host is always empty")
	items, total := jtItems(ps)
	if total != len(jtWantFull()) || len(ps) != 2 || items[0] != 20 {
		t.Errorf("cloudwatch: data per call %v", items)
	}
	for i, p := range ps {
		if p.Items != len(capt.calls[i].Data) || p.Items > 20 {
			t.Errorf("cloudwatch: call %d has %d data", i, p.Items)
		}
	}
	t.Logf("cloudwatch: %d calls, data per call %v", len(ps), items)

	// a tag with an empty value becomes a dimension with an empty value, which PutMetricData rejects
	capt = jtSend(t, "cloudwatch", []*gostatsd.Metric{{Name: "g2", Type: gostatsd.GAUGE, Value: 4, Rate: 1, Tags: gostatsd.Tags{"empty:", "env:test"}}}, gostatsd.TimerSubtypes{}, nil)
	ps = ParseCloudWatch(capt.calls, Options{Series: []Series{{"gauge", "g2"}}})
	jtCompare(t, "cloudwatch empty tag value", ps, []jtWant{{"gauge", "g2", "value", []string{"empty:", "env:test"}, "", 4}}, []jtKnown{{
		desc: `cloudwatch turns the tag "empty:" into a dimension with Value "" (the API wants 1..1024 characters and rejects the whole call)`,
		err:  `value of dimension "empty" is empty`,
	}})
}

func TestJSONCloudWatchMalformed(t *testing.T) {
	s := func(x string) *string { return &x }
	f := func(x float64) *float64 { return &x }
	dims := func(n int) []types.Dimension {
		var out []types.Dimension
		for i := 0; i < n; i++ {
			out = append(out, types.Dimension{Name: s(fmt.Sprintf("d%02d", i)), Value: s("v")})
		}
		return out
	}
	good := types.MetricDatum{MetricName: s("stats.gauge.g1"), Value: f(2.5), Unit: types.StandardUnitNone,
		Dimensions: []types.Dimension{{Name: s("env"), Value: s("test")}, {Name: s("solo"), Value: s("set")}}}
	call := func(ns string, data ...types.MetricDatum) bk.CWCall { return bk.CWCall{Namespace: ns, Data: data} }
	with := func(mod func(*types.MetricDatum)) types.MetricDatum {
		d := good
		mod(&d)
		return d
	}
	jtCompare(t, "cloudwatch hand-made", ParseCloudWatch([]bk.CWCall{call("StatsD", good)}, jtOptions()),
		[]jtWant{{"gauge", "g1", "value", []string{"env:test", "solo"}, "", 2.5}}, nil)

	many := make([]types.MetricDatum, 1001)
	for i := range many {
		many[i] = good
	}
	bad := []struct {
		name   string
		call   bk.CWCall
		errHas string
		recs   int
	}{
		{"no namespace", call("", good), "no Namespace", 1},
		{"reserved namespace", call("AWS/EC2", good), "reserved", 1},
		{"no data", call("StatsD"), "no MetricData", 0},
		{"too many data", call("StatsD", many...), "the API takes 1000", 1001},
		{"no metric name", call("StatsD", good, with(func(d *types.MetricDatum) { d.MetricName = nil })), "no MetricName", 1},
		{"empty metric name", call("StatsD", with(func(d *types.MetricDatum) { d.MetricName = s("") })), "no MetricName", 0},
		{"long metric name", call("StatsD", with(func(d *types.MetricDatum) { d.MetricName = s("stats.gauge." + strings.Repeat("x", 300)) })), "limit 255", 1},
		{"no value", call("StatsD", with(func(d *types.MetricDatum) { d.Value = nil })), "no Value", 0},
		{"NaN", call("StatsD", with(func(d *types.MetricDatum) { d.Value = f(math.NaN()) })), "not supported", 1},
		{"+Inf", call("StatsD", with(func(d *types.MetricDatum) { d.Value = f(math.Inf(1)) })), "not supported", 1},
		{"too large", call("StatsD", with(func(d *types.MetricDatum) { d.Value = f(1e200) })), "outside +-2^360", 1},
		{"31 dimensions", call("StatsD", with(func(d *types.MetricDatum) { d.Dimensions = dims(31) })), "31 dimensions", 1},
		{"empty dimension value", call("StatsD", with(func(d *types.MetricDatum) { d.Dimensions = []types.Dimension{{Name: s("env"), Value: s("")}} })), "is empty", 1},
		{"dimension without name", call("StatsD", with(func(d *types.MetricDatum) { d.Dimensions = []types.Dimension{{Value: s("x")}} })), "without Name or Value", 1},
		{"non-ASCII dimension", call("StatsD", with(func(d *types.MetricDatum) { d.Dimensions = []types.Dimension{{Name: s("env"), Value: s("tëst")}} })), "non-ASCII", 1},
		{"dimension name with a colon", call("StatsD", with(func(d *types.MetricDatum) { d.Dimensions = []types.Dimension{{Name: s(":env"), Value: s("x")}} })), "starts with a colon", 1},
		{"bad unit", call("StatsD", with(func(d *types.MetricDatum) { d.Unit = "Furlongs" })), "not a StandardUnit", 1},
		{"unknown prefix", call("StatsD", with(func(d *types.MetricDatum) { d.MetricName = s("g1") })), "unknown series on the wire: g1", 1},
		{"unknown series", call("StatsD", with(func(d *types.MetricDatum) { d.MetricName = s("stats.timers.g1.lower") })), "unknown series on the wire", 1},
		{"unknown sub-metric", call("StatsD", with(func(d *types.MetricDatum) { d.MetricName = s("stats.timers.t1.upper_75") })), "unknown series on the wire", 1},
		{"bucket without le", call("StatsD", with(func(d *types.MetricDatum) { d.MetricName = s("stats.timers.th.histogram") })), "without an le dimension", 0},
	}
	for _, b := range bad {
		ps := ParseCloudWatch([]bk.CWCall{b.call}, jtOptions())
		if len(ps) != 1 || ps[0].Err == nil || !strings.Contains(ps[0].ErrText, b.errHas) {
			t.Errorf("cloudwatch/%s: %+v, want an Err containing %q", b.name, ps[0].Err, b.errHas)
			continue
		}
		if len(ps[0].Recs) != b.recs || ps[0].Items != len(b.call.Data) {
			t.Errorf("cloudwatch/%s: %d records (want %d), Items %d", b.name, len(ps[0].Recs), b.recs, ps[0].Items)
		}
	}
}

// ---------------------------------------------------------------- disabled sub-metrics

// TestJSONDisabled: with every sub-metric switched off (percentiles in the aggregator, the others in the backend) the
// scalars and the buckets stay, and of t1 only what a backend writes unconditionally.
func TestJSONDisabled(t *testing.T) {
	all := gostatsd.TimerSubtypes{Lower: true, LowerPct: true, Upper: true, UpperPct: true, Count: true, CountPct: true,
		CountPerSecond: true, Mean: true, MeanPct: true, Median: true, StdDev: true, Sum: true, SumPct: true,
		SumSquares: true, SumSquaresPct: true}
	conf := func(e *bk.Env) { e.Disabled = all }
	rest := append(jtWantScalars(), jtWantBuckets()...)
	nr := []jtKnown{jtNRNumericTag}

	jtCompare(t, "datadog disabled", ParseDatadog(jtSend(t, "datadog", jtMetrics(), all, conf).attempts, jtOptions()), rest, nil)
	jtCompare(t, "newrelic/infra disabled", ParseNewRelic("infra", jtSend(t, "newrelic/infra", jtMetrics(), all, conf).attempts, jtOptions()), rest, nr)
	jtCompare(t, "newrelic/insights disabled", ParseNewRelic("insights", jtSend(t, "newrelic/insights", jtMetrics(), all, conf).attempts, jtOptions()), rest, nr)
	jtCompare(t, "otlp/AsGauge disabled", ParseOTLP(otAsGauge, jtSend(t, "otlp/AsGauge", jtMetrics(), all, conf).attempts, jtOptions()), rest, nil)
	jtCompare(t, "cloudwatch disabled", ParseCloudWatch(jtSend(t, "cloudwatch", jtMetrics(), all, conf).calls, jtOptions()), jtNoHost(rest), nil)

	// newrelic/metrics always writes the summary (count, sum, min, max); lower / upper / count / sum cannot be disabled
	ps := ParseNewRelic("metrics", jtSend(t, "newrelic/metrics", jtMetrics(), all, conf).attempts, jtOptions())
	var got []string
	for _, p := range ps {
		for _, r := range p.Recs {
			if r.Name == "t1" {
				got = append(got, r.Sub)
			}
		}
	}
	sort.Strings(got)
	if strings.Join(got, " ") != "count lower sum upper" {
		t.Errorf("newrelic/metrics disabled: t1 has %v", got)
	}
	// otlp AsHistogram ignores the switches
	ps = ParseOTLP(otAsHistogram, jtSend(t, "otlp/AsHistogram", jtMetrics(), all, conf).attempts, jtOptions())
	got = nil
	for _, p := range ps {
		for _, r := range p.Recs {
			if r.Name == "t1" {
				got = append(got, r.Sub)
			}
		}
	}
	sort.Strings(got)
	if strings.Join(got, " ") != "count lower sum upper" {
		t.Errorf("otlp/AsHistogram disabled: t1 has %v", got)
	}
}

// TestJSONCanon: the Canon helpers describe what the parsers report for a faithful backend.
func TestJSONCanon(t *testing.T) {
	eq := func(label string, tags []string, host string, wantTags []string, wantHost string) {
		t.Helper()
		if strings.Join(tags, " ") != strings.Join(wantTags, " ") || host != wantHost {
			t.Errorf("%s: %v %q, want %v %q", label, tags, host, wantTags, wantHost)
		}
	}
	in := []string{"solo", "env:" + jtTagValue, "b:true", "c:set", "d:", "e:1", "e:2"}
	tags, host := CanonDatadog(in, "h1")
	eq("datadog", tags, host, []string{"b:true", "c:set", "d:", "e:1", "e:2", "env:" + jtTagValue, "solo"}, "h1")
	tags, host = CanonNewRelic(in, "h1")
	eq("newrelic", tags, host, []string{"b", "c:set", "d:", "e:2", "env:" + jtTagValue, "solo"}, "h1")
	tags, host = CanonNewRelic([]string{"statsdSource:other"}, "h1")
	eq("newrelic own source", tags, host, nil, "other")
	tags, host = CanonOTLP(in, "h1")
	eq("otlp", tags, host, []string{"b:true", "c:set", "d", "e:1", "e:2", "env:" + jtTagValue, "solo"}, "h1")
	tags, host = CanonOTLP([]string{"host:other", "a:b"}, "h1")
	eq("otlp own host", tags, host, []string{"a:b"}, "other")
	tags, host = CanonCloudWatch(in, "h1")
	eq("cloudwatch", tags, host, []string{"b:true", "c", "d:", "e:1", "e:2", "env:" + jtTagValue, "solo"}, "")

	// and the parsers agree with them on the real backends
	ms := []*gostatsd.Metric{{Name: "g2", Type: gostatsd.GAUGE, Value: 4, Rate: 1, Tags: gostatsd.Tags{"solo", "env:" + jtTagValue, "b:true", "c:set", "e:1", "e:2"}, Source: "h1"}}
	opt := Options{Series: []Series{{"gauge", "g2"}}}
	mtags := []string(ms[0].Tags)
	check := func(label string, ps []Payload, tags []string, host string) {
		t.Helper()
		jtCompare(t, label, ps, []jtWant{{"gauge", "g2", "value", tags, host, 4}}, nil)
	}
	tags, host = CanonDatadog(mtags, "h1")
	check("canon datadog", ParseDatadog(jtSend(t, "datadog", ms, gostatsd.TimerSubtypes{}, nil).attempts, opt), tags, host)
	tags, host = CanonNewRelic(mtags, "h1")
	for _, ft := range []string{"infra", "insights", "metrics"} {
		check("canon newrelic/"+ft, ParseNewRelic(ft, jtSend(t, "newrelic/"+ft, ms, gostatsd.TimerSubtypes{}, nil).attempts, opt), tags, host)
	}
	tags, host = CanonOTLP(mtags, "h1")
	check("canon otlp", ParseOTLP(otAsGauge, jtSend(t, "otlp/AsGauge", ms, gostatsd.TimerSubtypes{}, nil).attempts, opt), tags, host)
	tags, host = CanonCloudWatch(mtags, "h1")
	check("canon cloudwatch", ParseCloudWatch(jtSend(t, "cloudwatch", ms, gostatsd.TimerSubtypes{}, nil).calls, opt), tags, host)
}

// TestJSONOTLPSampledTimer: a timer received with a sample rate. The aggregator scales the count (Timer.Count =
// round(SampledCount)); the AsHistogram conversion builds count from the number of values instead.
func TestJSONOTLPSampledTimer(t *testing.T) {
	ms := []*gostatsd.Metric{
		{Name: "ts", Type: gostatsd.TIMER, Value: 10, Rate: 0.1, Source: "h1"},
		{Name: "ts", Type: gostatsd.TIMER, Value: 30, Rate: 0.1, Source: "h1"},
	}
	opt := Options{Series: []Series{{"timer", "ts"}}, Percentiles: jtPcts}
	count := func(ps []Payload) float64 {
		for _, p := range ps {
			if p.Err != nil {
				t.Errorf("Err: %v", p.Err)
			}
			for _, r := range p.Recs {
				if r.Kind == "timer" && r.Name == "ts" && r.Sub == "count" && r.Host == "h1" {
					return r.Value
				}
			}
		}
		t.Errorf("no count record")
		return -1
	}
	if c := count(ParseOTLP(otAsGauge, jtSend(t, "otlp/AsGauge", ms, gostatsd.TimerSubtypes{}, nil).attempts, opt)); c != 20 {
		t.Errorf("AsGauge: count %v, want 20", c)
	}
	if c := count(ParseOTLP(otAsHistogram, jtSend(t, "otlp/AsHistogram", ms, gostatsd.TimerSubtypes{}, nil).attempts, opt)); c != 20 {
		t.Logf("FINDING: otlp/AsHistogram: two timer values received with sample rate 0.1 (ts:10|ms|@0.1, ts:30|ms|@0.1) have count 20 in every other backend and in AsGauge mode, the histogram data point says count %v (len(Values), the sample rate is ignored)", c)
	}
}
