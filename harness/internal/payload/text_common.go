//go:build verif

package payload

// Helpers shared by the text protocol parsers (parse_influxdb.go, parse_graphite.go, parse_stdout.go). Everything
// unexported here carries the prefix "txt" so that it cannot clash with the helpers of the JSON / protobuf parsers
// living in the same package.

import (
	"errors"
	"fmt"
	"sort"
	"strconv"
	"strings"
)

// txtMaxWire is the length Rec.Wire is cut to.
const txtMaxWire = 200

// txtMaxErrs is the number of individual problems spelled out in Payload.ErrText; the rest is only counted.
const txtMaxErrs = 8

func txtWire(s string) string {
	if len(s) <= txtMaxWire {
		return s
	}
	return s[:txtMaxWire] + "..."
}

// txtErrs collects the problems of one payload.
type txtErrs struct {
	msgs []string
	n    int
}

func (e *txtErrs) addf(format string, args ...any) {
	e.n++
	if len(e.msgs) < txtMaxErrs {
		e.msgs = append(e.msgs, fmt.Sprintf(format, args...))
	}
}

// finish stores the collected problems in p.Err / p.ErrText.
func (e *txtErrs) finish(p *Payload) {
	if e.n == 0 {
		return
	}
	s := strings.Join(e.msgs, "; ")
	if e.n > len(e.msgs) {
		s += fmt.Sprintf("; and %d more", e.n-len(e.msgs))
	}
	p.Err = errors.New(s)
	p.ErrText = s
}

// txtIsDecimal reports whether s is a plain decimal floating point literal: [-]digits[.digits][e[+-]digits] or
// [-].digits[...]. NaN, Inf, hexadecimal floats, digit separators and a leading '+' are not (none of the three text
// protocols defines a meaning for them that a store could keep).
func txtIsDecimal(s string) bool {
	i := 0
	if i < len(s) && s[i] == '-' {
		i++
	}
	intDigits := 0
	for i < len(s) && s[i] >= '0' && s[i] <= '9' {
		i++
		intDigits++
	}
	fracDigits := 0
	if i < len(s) && s[i] == '.' {
		i++
		for i < len(s) && s[i] >= '0' && s[i] <= '9' {
			i++
			fracDigits++
		}
	}
	if intDigits == 0 && fracDigits == 0 {
		return false
	}
	if i < len(s) && (s[i] == 'e' || s[i] == 'E') {
		i++
		if i < len(s) && (s[i] == '+' || s[i] == '-') {
			i++
		}
		expDigits := 0
		for i < len(s) && s[i] >= '0' && s[i] <= '9' {
			i++
			expDigits++
		}
		if expDigits == 0 {
			return false
		}
	}
	return i == len(s)
}

// txtIsInteger reports whether s is [-]digits.
func txtIsInteger(s string) bool {
	i := 0
	if i < len(s) && s[i] == '-' {
		i++
	}
	if i == len(s) {
		return false
	}
	for ; i < len(s); i++ {
		if s[i] < '0' || s[i] > '9' {
			return false
		}
	}
	return true
}

// txtParseDecimal parses a value that txtIsDecimal accepts.
func txtParseDecimal(s string) (float64, error) {
	if !txtIsDecimal(s) {
		return 0, fmt.Errorf("%q is not a decimal number", s)
	}
	f, err := strconv.ParseFloat(s, 64)
	if err != nil {
		return 0, fmt.Errorf("%q is not a representable number: %v", s, err)
	}
	return f, nil
}

// txtTimerSub maps the name a backend gives a timer sub-metric to the canonical Sub. rateName and stdName are the
// spellings the backend uses for the per second count and for the standard deviation. Percentile sub-metrics are
// named by the aggregator (pkg/statsd/aggregator.go): <count|mean|sum|sum_squares|upper|lower>_<int(threshold)>, where
// upper_ only exists for positive thresholds and lower_ only for the others; when pcts is not empty the threshold
// also has to be one of them.
func txtTimerSub(wire, rateName, stdName string, pcts []float64) (string, bool) {
	switch wire {
	case "lower", "upper", "count", "mean", "median", "sum", "sum_squares":
		return wire, true
	case rateName:
		return "rate", true
	case stdName:
		return "std", true
	}
	i := strings.LastIndexByte(wire, '_')
	if i <= 0 {
		return "", false
	}
	stat, num := wire[:i], wire[i+1:]
	if !txtIsInteger(num) || (len(num) > 1 && num[0] == '0') || strings.HasPrefix(num, "-0") {
		return "", false
	}
	negative := num[0] == '-' || num == "0"
	switch stat {
	case "count", "mean", "sum", "sum_squares":
	case "upper":
		if negative {
			return "", false
		}
	case "lower":
		if !negative {
			return "", false
		}
	default:
		return "", false
	}
	if len(pcts) > 0 {
		found := false
		for _, p := range pcts {
			if strconv.Itoa(int(p)) == num {
				found = true
				break
			}
		}
		if !found {
			return "", false
		}
	}
	return wire, true
}

// txtBetter reports whether candidate series name a is to be preferred over the current best b (found says whether
// there is a current best): the longest series name wins, the first one in Options.Series on a tie.
func txtBetter(found bool, a, b string) bool {
	return !found || len(a) > len(b)
}

// txtSortedTags returns a sorted copy, nil for none.
func txtSortedTags(tags []string) []string {
	if len(tags) == 0 {
		return nil
	}
	out := append([]string(nil), tags...)
	sort.Strings(out)
	return out
}

// txtLines splits a text payload into its lines. needFinalNewline says whether the protocol terminates every line
// with \n (graphite) or merely separates lines by it (InfluxDB); missing reports a last line without terminator.
func txtLines(data string) (lines []string, missingFinalNewline bool) {
	if data == "" {
		return nil, false
	}
	lines = strings.Split(data, "\n")
	if lines[len(lines)-1] == "" {
		return lines[:len(lines)-1], false
	}
	return lines, true
}
