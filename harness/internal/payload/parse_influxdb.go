//go:build verif

package payload

// ParseInfluxDB: variants influxdb/v1 and influxdb/v2 (the request body is the same InfluxDB line protocol).
//
// Protocol (docs.influxdata.com "Line protocol reference"), as enforced here:
//
//	line        = measurement *("," tagkey "=" tagvalue) " " field *("," field) " " timestamp
//	field       = fieldkey "=" ( float | integer "i" | unsigned "u" | `"` string `"` | boolean )
//	lines are separated by "\n" (a final "\n" is optional, empty lines are ignored, "#..." is a comment)
//	measurement : "," and " " must be escaped with "\"
//	tag key, tag value, field key : ",", "=" and " " must be escaped with "\"; none of them may be empty
//	string value: `"` and `\` are escaped with "\"
//	a backslash in front of a character that needs no escaping in that position is a literal backslash
//	exactly one space between the three sections; at least one field; no trailing comma
//	duplicate tag keys are rejected by the server, duplicate field keys silently lose a value: both are errors here
//	NaN and +-Inf are not valid field values
//	the timestamp is mandatory here (the backend promises "precision is always seconds" and stamps every line) and
//	the request must carry precision=s in its query; the path must end in /write (v1: /write, v2: /api/v2/write)
//	Content-Encoding must match the body (bk.Attempt.DecodeErr)
//
// Wire -> canonical (BACKENDS.md "InfluxDB Backend / Metrics": the measurement is the metric name, the fields carry the data):
//
//	measurement                       -> Name (unescaped, unchanged)
//	tag k=v                           -> Tags "k:v" (BACKENDS.md "Tag normalization": a bare tag x arrives as unnamed=x and is
//	                                     reported as "unnamed:x"; several values of one key arrive as one tag with the sorted
//	                                     values joined by "__" and are reported that way; see CanonInfluxDB)
//	(the backend writes no host or source anywhere) -> Host "" always; a "host" tag stays in Tags
//	fields {value}                    -> gauge   Sub "value"
//	fields {count, rate}              -> counter Sub "count", "rate"        (when a counter of that name was flushed)
//	fields {count}                    -> set     Sub "count"                (when a set of that name was flushed)
//	fields subset of lower upper count rate mean median stddev sum sum_squares
//	       <count|mean|sum|sum_squares|upper|lower>_<N>
//	                                  -> timer   Sub = field key, except rate -> "rate" (gostatsd count_ps) and stddev -> "std"
//	fields all "le.<bound>"           -> timer   Sub "le:<bound>" (bound as printed, "+Inf" for the last bucket)
//
// The kind is not on the wire: it is resolved against Options.Series by measurement name and field set. A measurement
// no flushed series is named like, or a field set that fits none of the kinds flushed under that name, is an error
// ("unknown series on the wire"); the fields are still reported with Kind "".
// Lines that carry no numeric field at all (the "events" measurement has only string fields) are checked for syntax
// and counted but produce no records.
//
// Items is the number of lines (points) in the request: BACKENDS.md documents metrics-per-batch as "the number of
// metrics to send per request" and one metric (series) is one point whose fields are its sub-metrics.
// Bytes is the length of the body after Content-Encoding is undone.

import (
	"fmt"
	"net/url"
	"sort"
	"strconv"
	"strings"

	"verifharness/internal/bk"
)

// ParseInfluxDB turns every captured request into one Payload, in the order given.
func ParseInfluxDB(attempts []bk.Attempt, opt Options) []Payload {
	out := make([]Payload, 0, len(attempts))
	for i, a := range attempts {
		p := Payload{Index: i}
		var errs txtErrs
		txtInfluxRequest(a, &errs)
		body := a.Decoded
		if a.DecodeErr != nil {
			errs.addf("body does not decode as Content-Encoding %q: %v", a.Header.Get("Content-Encoding"), a.DecodeErr)
			body = nil
		} else if enc := strings.TrimSpace(a.Header.Get("Content-Encoding")); (enc == "" || strings.EqualFold(enc, "identity")) &&
			len(body) >= 2 && body[0] == 0x1f && body[1] == 0x8b {
			errs.addf("body is gzip data but the request has no Content-Encoding")
			body = nil
		}
		p.Bytes = len(body)
		lines, _ := txtLines(string(body))
		for n, line := range lines {
			if line == "" {
				continue
			}
			if line[0] == '#' {
				errs.addf("line %d: comment line in a metric payload: %q", n+1, txtWire(line))
				continue
			}
			p.Items++
			pt, err := txtInfluxParseLine(line)
			if err != nil {
				errs.addf("line %d: %v: %q", n+1, err, txtWire(line))
			}
			p.Recs = append(p.Recs, txtInfluxRecs(pt, line, n+1, opt, &errs)...)
		}
		if p.Items == 0 && a.DecodeErr == nil {
			errs.addf("request without any line")
		}
		errs.finish(&p)
		out = append(out, p)
	}
	return out
}

// txtInfluxRequest checks the parts of the request outside the body that the write API needs.
func txtInfluxRequest(a bk.Attempt, errs *txtErrs) {
	if a.Method != "POST" {
		errs.addf("method %q, the write API needs POST", a.Method)
	}
	u, err := url.Parse(a.URL)
	if err != nil {
		errs.addf("URL %q: %v", a.URL, err)
		return
	}
	if !strings.HasSuffix(u.Path, "/write") {
		errs.addf("URL path %q is not a write endpoint", u.Path)
	}
	q := u.Query()
	if got := q["precision"]; len(got) != 1 || got[0] != "s" {
		errs.addf("query precision=%q, timestamps are in seconds and need precision=s", got)
	}
	if strings.HasSuffix(u.Path, "/api/v2/write") {
		if q.Get("bucket") == "" {
			errs.addf("v2 write without bucket")
		}
		if _, ok := q["org"]; !ok && q.Get("orgID") == "" {
			errs.addf("v2 write without org")
		}
	}
	// v1: gostatsd sends the database as "database=", InfluxDB 1.x documents "db=". A matter of the request's address, not
	// of the payload's syntax, so it is not judged here (noted in DESIGN.md).
}

type txtInfluxField struct {
	key     string
	raw     string
	numeric bool
	value   float64
}

type txtInfluxPoint struct {
	measurement string
	tags        [][2]string
	fields      []txtInfluxField
	timestamp   string
}

// txtInfluxScan reads one element of a line starting at s[i]: up to the first unescaped byte that is in stops (or
// the end of the line). A backslash escapes the next byte when that byte is in escapable, otherwise it is literal.
// It returns the unescaped element, the index of the stop byte (len(s) at the end of the line).
func txtInfluxScan(s string, i int, stops, escapable string) (string, int) {
	var b strings.Builder
	for i < len(s) {
		c := s[i]
		if c == '\\' && i+1 < len(s) && strings.IndexByte(escapable, s[i+1]) >= 0 {
			b.WriteByte(s[i+1])
			i += 2
			continue
		}
		if strings.IndexByte(stops, c) >= 0 {
			break
		}
		b.WriteByte(c)
		i++
	}
	return b.String(), i
}

// txtInfluxParseLine parses one line strictly. On an error it returns what was parsed up to there.
func txtInfluxParseLine(s string) (txtInfluxPoint, error) {
	var pt txtInfluxPoint
	for i := 0; i < len(s); i++ {
		if s[i] < 0x20 || s[i] == 0x7f {
			return pt, fmt.Errorf("control character 0x%02x at column %d", s[i], i+1)
		}
	}
	var i int
	pt.measurement, i = txtInfluxScan(s, 0, ", ", ", ")
	if pt.measurement == "" {
		return pt, fmt.Errorf("empty measurement")
	}
	seenTag := map[string]bool{}
	for i < len(s) && s[i] == ',' {
		var k, v string
		k, i = txtInfluxScan(s, i+1, ",= ", ",= ")
		if i >= len(s) || s[i] != '=' {
			return pt, fmt.Errorf("tag %q without '=' at column %d", k, i+1)
		}
		if k == "" {
			return pt, fmt.Errorf("empty tag key at column %d", i+1)
		}
		v, i = txtInfluxScan(s, i+1, ",= ", ",= ")
		if i < len(s) && s[i] == '=' {
			return pt, fmt.Errorf("unescaped '=' in the value of tag %q at column %d", k, i+1)
		}
		if v == "" {
			return pt, fmt.Errorf("empty value for tag %q at column %d", k, i+1)
		}
		if seenTag[k] {
			return pt, fmt.Errorf("duplicate tag key %q", k)
		}
		seenTag[k] = true
		pt.tags = append(pt.tags, [2]string{k, v})
	}
	if i >= len(s) {
		return pt, fmt.Errorf("no field set")
	}
	// s[i] == ' '
	i++
	if i >= len(s) || s[i] == ' ' {
		return pt, fmt.Errorf("empty field set at column %d", i+1)
	}
	seenField := map[string]bool{}
	for {
		var k string
		k, i = txtInfluxScan(s, i, ",= ", ",= ")
		if i >= len(s) || s[i] != '=' {
			if k == "" {
				return pt, fmt.Errorf("empty field (trailing or doubled comma) at column %d", i+1)
			}
			return pt, fmt.Errorf("field %q without '=' at column %d (unescaped space or comma before it?)", k, i+1)
		}
		if k == "" {
			return pt, fmt.Errorf("empty field key at column %d", i+1)
		}
		i++
		f := txtInfluxField{key: k}
		if i < len(s) && s[i] == '"' {
			start := i
			i++
			closed := false
			for i < len(s) {
				if s[i] == '\\' && i+1 < len(s) && (s[i+1] == '"' || s[i+1] == '\\') {
					i += 2
					continue
				}
				if s[i] == '"' {
					closed = true
					i++
					break
				}
				i++
			}
			if !closed {
				return pt, fmt.Errorf("unterminated string value of field %q", k)
			}
			f.raw = s[start:i]
		} else {
			start := i
			for i < len(s) && s[i] != ',' && s[i] != ' ' {
				i++
			}
			f.raw = s[start:i]
			var err error
			if f.numeric, f.value, err = txtInfluxValue(f.raw); err != nil {
				return pt, fmt.Errorf("field %q: %v", k, err)
			}
		}
		if seenField[k] {
			return pt, fmt.Errorf("duplicate field key %q", k)
		}
		seenField[k] = true
		pt.fields = append(pt.fields, f)
		if i >= len(s) {
			return pt, fmt.Errorf("missing timestamp")
		}
		if s[i] == ',' {
			i++
			if i >= len(s) || s[i] == ' ' {
				return pt, fmt.Errorf("trailing comma after field %q", k)
			}
			continue
		}
		if s[i] != ' ' {
			return pt, fmt.Errorf("unexpected %q after the value of field %q at column %d", s[i], k, i+1)
		}
		break
	}
	pt.timestamp = s[i+1:]
	if pt.timestamp == "" {
		return pt, fmt.Errorf("missing timestamp")
	}
	if !txtIsInteger(pt.timestamp) {
		return pt, fmt.Errorf("timestamp %q is not an integer", pt.timestamp)
	}
	if _, err := strconv.ParseInt(pt.timestamp, 10, 64); err != nil {
		return pt, fmt.Errorf("timestamp %q: %v", pt.timestamp, err)
	}
	return pt, nil
}

// txtInfluxValue classifies an unquoted field value.
func txtInfluxValue(raw string) (numeric bool, v float64, err error) {
	switch raw {
	case "":
		return false, 0, fmt.Errorf("empty value")
	case "t", "T", "true", "True", "TRUE", "f", "F", "false", "False", "FALSE":
		return false, 0, nil
	}
	last := raw[len(raw)-1]
	if last == 'i' || last == 'u' {
		digits := raw[:len(raw)-1]
		if !txtIsInteger(digits) || (last == 'u' && digits[0] == '-') {
			return false, 0, fmt.Errorf("value %q is not an integer", raw)
		}
		if last == 'i' {
			n, err := strconv.ParseInt(digits, 10, 64)
			if err != nil {
				return false, 0, fmt.Errorf("value %q: %v", raw, err)
			}
			return true, float64(n), nil
		}
		n, err := strconv.ParseUint(digits, 10, 64)
		if err != nil {
			return false, 0, fmt.Errorf("value %q: %v", raw, err)
		}
		return true, float64(n), nil
	}
	f, err := txtParseDecimal(raw)
	if err != nil {
		return false, 0, fmt.Errorf("value %q is neither float, integer, string nor boolean", raw)
	}
	return true, f, nil
}

// txtInfluxRecs names the numeric fields of one point canonically.
func txtInfluxRecs(pt txtInfluxPoint, line string, lineNo int, opt Options, errs *txtErrs) []Rec {
	var numeric []txtInfluxField
	for _, f := range pt.fields {
		if f.numeric {
			numeric = append(numeric, f)
		}
	}
	if len(numeric) == 0 {
		return nil
	}
	var tags []string
	for _, kv := range pt.tags {
		tags = append(tags, kv[0]+":"+kv[1])
	}
	tags = txtSortedTags(tags)

	kind, subs := txtInfluxKind(pt.measurement, numeric, opt)
	if kind == "" {
		errs.addf("line %d: unknown series on the wire: measurement %q with fields %s", lineNo, pt.measurement, txtInfluxKeys(numeric))
	}
	recs := make([]Rec, 0, len(numeric))
	for i, f := range numeric {
		r := Rec{Kind: kind, Name: pt.measurement, Sub: f.key, Tags: tags, Value: f.value, Wire: txtWire(line)}
		if kind != "" {
			r.Sub = subs[i]
		}
		recs = append(recs, r)
	}
	return recs
}

func txtInfluxKeys(fs []txtInfluxField) string {
	keys := make([]string, len(fs))
	for i, f := range fs {
		keys[i] = f.key
	}
	return "{" + strings.Join(keys, ",") + "}"
}

// txtInfluxKind decides which of the flushed series named like the measurement wrote this field set, and returns
// the canonical Sub of every field. kind is "" when there is none.
func txtInfluxKind(measurement string, fields []txtInfluxField, opt Options) (kind string, subs []string) {
	has := map[string]bool{}
	for _, s := range opt.Series {
		if s.Name == measurement {
			has[s.Kind] = true
		}
	}
	keys := map[string]bool{}
	for _, f := range fields {
		keys[f.key] = true
	}
	same := func(k ...string) []string {
		if len(keys) != len(k) {
			return nil
		}
		for _, x := range k {
			if !keys[x] {
				return nil
			}
		}
		out := make([]string, len(fields))
		for i, f := range fields {
			out[i] = f.key
		}
		return out
	}
	if has["gauge"] {
		if subs := same("value"); subs != nil {
			return "gauge", subs
		}
	}
	if has["counter"] {
		if subs := same("count", "rate"); subs != nil {
			return "counter", subs
		}
	}
	if has["set"] {
		if subs := same("count"); subs != nil {
			return "set", subs
		}
	}
	if has["timer"] {
		if subs := txtInfluxTimerSubs(fields, opt.Percentiles); subs != nil {
			return "timer", subs
		}
	}
	return "", nil
}

// txtInfluxTimerSubs returns the canonical subs when the fields are those of a regular timer or all of them are
// histogram buckets, nil otherwise.
func txtInfluxTimerSubs(fields []txtInfluxField, pcts []float64) []string {
	subs := make([]string, len(fields))
	buckets := 0
	for i, f := range fields {
		if bound, ok := strings.CutPrefix(f.key, "le."); ok {
			if bound != "+Inf" && !txtIsDecimal(bound) {
				return nil
			}
			subs[i] = "le:" + bound
			buckets++
			continue
		}
		sub, ok := txtTimerSub(f.key, "rate", "stddev", pcts)
		if !ok {
			return nil
		}
		subs[i] = sub
	}
	if buckets != 0 && buckets != len(fields) {
		return nil
	}
	return subs
}

// CanonInfluxDB returns the Tags and Host that ParseInfluxDB reports for a series flushed with these tags and this
// source when the backend applies the tag normalisation BACKENDS.md documents (bare tags become unnamed:<tag>, the
// values of one key are sorted and joined with "__", keys are sorted). For the harness's expected side. The backend
// writes no host, so host is always "".
func CanonInfluxDB(tags []string, source string) (ctags []string, host string) {
	values := map[string][]string{}
	for _, t := range tags {
		k, v, found := strings.Cut(t, ":")
		if !found {
			k, v = "unnamed", t
		}
		values[k] = append(values[k], v)
	}
	for k, vs := range values {
		sort.Strings(vs)
		ctags = append(ctags, k+":"+strings.Join(vs, "__"))
	}
	return txtSortedTags(ctags), ""
}
