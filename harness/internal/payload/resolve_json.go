//go:build verif

package payload

// Helpers shared by the JSON / protobuf / API-struct parsers (parse_datadog.go, parse_newrelic.go, parse_otlp.go,
// parse_cloudwatch.go). Every identifier here starts with "js" so that it cannot clash with the text-protocol parsers
// that live in the same package. In all four parsers Payload.Index counts the payloads that are returned (requests
// that are not metric payloads, e.g. events, are skipped and do not get an index) and the output keeps the order of
// the input.

import (
	"bytes"
	"encoding/json"
	"errors"
	"fmt"
	"io"
	"math"
	"mime"
	"net/http"
	"regexp"
	"sort"
	"strconv"
	"strings"
)

// ---------------------------------------------------------------- errors

// jsErrs collects the protocol violations of one payload. The Payload gets all of them joined (capped).
type jsErrs struct {
	list []error
	more int
}

func (e *jsErrs) addf(format string, args ...any) {
	if len(e.list) >= 8 {
		e.more++
		return
	}
	e.list = append(e.list, fmt.Errorf(format, args...))
}

func (e *jsErrs) err() error {
	if len(e.list) == 0 {
		return nil
	}
	l := e.list
	if e.more > 0 {
		l = append(append([]error(nil), l...), fmt.Errorf("... and %d more", e.more))
	}
	if len(l) == 1 {
		return l[0]
	}
	parts := make([]string, len(l))
	for i, x := range l {
		parts[i] = x.Error()
	}
	return errors.New(strings.Join(parts, "; "))
}

// jsFinish stores the collected errors in p.
func jsFinish(p *Payload, e *jsErrs) {
	p.Err = e.err()
	if p.Err != nil {
		p.ErrText = p.Err.Error()
	}
}

// ---------------------------------------------------------------- small utilities

func jsTrunc(s string) string {
	if len(s) > 200 {
		return s[:200]
	}
	return s
}

func jsCompact(raw []byte) string {
	var b bytes.Buffer
	if err := json.Compact(&b, raw); err != nil {
		return jsTrunc(string(raw))
	}
	return jsTrunc(b.String())
}

func jsSorted(tags []string) []string {
	out := append([]string{}, tags...)
	sort.Strings(out)
	return out
}

// jsNum prints a float the way the backends print bucket bounds: strconv 'f' with the shortest precision.
func jsNum(f float64) string {
	if math.IsInf(f, 1) {
		return "+Inf"
	}
	return strconv.FormatFloat(f, 'f', -1, 64)
}

// jsStrictJSON decodes exactly one JSON value from data into v: unknown object fields are rejected (for struct
// targets), and so is anything but white space after the value.
func jsStrictJSON(data []byte, v any) error {
	dec := json.NewDecoder(bytes.NewReader(data))
	dec.DisallowUnknownFields()
	dec.UseNumber()
	if err := dec.Decode(v); err != nil {
		if err == io.EOF {
			return errors.New("empty body")
		}
		return err
	}
	var extra json.RawMessage
	if err := dec.Decode(&extra); err != io.EOF {
		if err == nil {
			return fmt.Errorf("trailing data after the JSON value: %s", jsTrunc(string(extra)))
		}
		return fmt.Errorf("trailing data after the JSON value: %v", err)
	}
	return nil
}

// jsFloat converts one raw JSON value to a finite float64. Only a JSON number is accepted (encoding/json would also
// take a quoted number for a json.Number target, and null for anything).
func jsFloat(raw json.RawMessage) (float64, error) {
	t := bytes.TrimSpace(raw)
	if len(t) == 0 || !(t[0] == '-' || (t[0] >= '0' && t[0] <= '9')) {
		return 0, fmt.Errorf("%s is not a JSON number", jsTrunc(string(t)))
	}
	f, err := strconv.ParseFloat(string(t), 64)
	if err != nil {
		return 0, fmt.Errorf("number %s does not fit a float64", jsTrunc(string(t)))
	}
	if math.IsNaN(f) || math.IsInf(f, 0) {
		return 0, fmt.Errorf("number %s is not finite", jsTrunc(string(t)))
	}
	return f, nil
}

// jsString converts one raw JSON value to a string; only a JSON string is accepted.
func jsString(raw json.RawMessage) (string, error) {
	t := bytes.TrimSpace(raw)
	if len(t) == 0 || t[0] != '"' {
		return "", fmt.Errorf("%s is not a JSON string", jsTrunc(string(t)))
	}
	var s string
	if err := json.Unmarshal(t, &s); err != nil {
		return "", err
	}
	return s, nil
}

// jsCheckHTTP checks what is common to the HTTP protocols: method POST, the media type of Content-Type, and that the
// body could be decoded according to Content-Encoding. It returns the decoded body (nil when it cannot be had).
func jsCheckHTTP(method string, header http.Header, decoded []byte, decodeErr error, wantType string, e *jsErrs) []byte {
	if method != "" && method != http.MethodPost {
		e.addf("method %s, want POST", method)
	}
	ct := header.Get("Content-Type")
	if ct == "" {
		e.addf("no Content-Type header, want %s", wantType)
	} else if mt, _, err := mime.ParseMediaType(ct); err != nil || !strings.EqualFold(mt, wantType) {
		e.addf("Content-Type %q, want %s", ct, wantType)
	}
	if decodeErr != nil {
		e.addf("body does not match Content-Encoding %q: %v", header.Get("Content-Encoding"), decodeErr)
		return nil
	}
	return decoded
}

// ---------------------------------------------------------------- sub-metric names

var jsPctRe = regexp.MustCompile(`^(count|mean|sum|sum_squares|upper|lower)_(-?[0-9]+)$`)

// jsIsPct reports whether s is a percentile sub-metric name as pkg/statsd/aggregator.go builds it:
// "<count|mean|sum|sum_squares|upper|lower>_<strconv.Itoa(int(threshold))>". When thresholds are known the number
// must belong to one of them (the sign is accepted both kept, as the aggregator does today, and dropped).
func jsIsPct(s string, pcts []float64) bool {
	m := jsPctRe.FindStringSubmatch(s)
	if m == nil {
		return false
	}
	if len(pcts) == 0 {
		return true
	}
	for _, p := range pcts {
		n := int(p)
		if m[2] == strconv.Itoa(n) {
			return true
		}
		if n < 0 && m[2] == strconv.Itoa(-n) {
			return true
		}
	}
	return false
}

// jsPlainTimerSub maps the timer suffixes used by datadog, otlp (AsGauge) and cloudwatch (without the leading dot)
// to canonical sub-metric names.
func jsPlainTimerSub(suffix string, pcts []float64) (string, bool) {
	switch suffix {
	case "lower", "upper", "count", "mean", "median", "std", "sum", "sum_squares":
		return suffix, true
	case "count_ps":
		return "rate", true
	}
	if jsIsPct(suffix, pcts) {
		return suffix, true
	}
	return "", false
}

// ---------------------------------------------------------------- resolution against the flushed series

// jsSub is one way a series can produce a given wire name.
type jsSub struct {
	sub  string // canonical sub-metric; "le" = histogram bucket (the bound comes from a tag / attribute)
	num  string // "int" | "double" | "" : the number type the backend uses for it, where the protocol has one (soft hint)
	skip bool   // a wire item that is an artefact of the backend and has no canonical counterpart
}

// jsSubsFunc lists the ways a series of the given kind emits an item whose wire name is the series name followed by
// suffix ("" or ".something") with the given wire type.
type jsSubsFunc func(kind, suffix, wireType string) []jsSub

type jsResolver struct {
	series []Series
	used   map[string]int
}

func jsNewResolver(opt Options) *jsResolver {
	return &jsResolver{series: opt.Series, used: map[string]int{}}
}

type jsMatch struct {
	s   Series
	sub jsSub
	idx int
}

// resolve finds the (series, sub) pair whose naming produces the wire name (and wire type). Of several it prefers the
// longest series name, then the one whose number type equals numType, then the one used least often so far for the
// same identity (tags and host of the wire item; this spreads e.g. a gauge "x" and a set "x", which datadog and otlp
// both write as a gauge named "x", over the two wire items instead of reporting one of them twice), then the order
// of Options.Series.
func (r *jsResolver) resolve(wire, wireType, numType, identity string, subs jsSubsFunc) (jsMatch, bool) {
	var ms []jsMatch
	for i, s := range r.series {
		var suffix string
		switch {
		case wire == s.Name:
		case strings.HasPrefix(wire, s.Name+"."):
			suffix = wire[len(s.Name):]
		default:
			continue
		}
		for _, sub := range subs(s.Kind, suffix, wireType) {
			ms = append(ms, jsMatch{s: s, sub: sub, idx: i})
		}
	}
	if len(ms) == 0 {
		return jsMatch{}, false
	}
	key := func(m jsMatch) string {
		return m.s.Kind + "\x00" + m.s.Name + "\x00" + m.sub.sub + "\x00" + identity
	}
	numOK := func(m jsMatch) bool { return numType != "" && m.sub.num != "" && m.sub.num == numType }
	sort.SliceStable(ms, func(a, b int) bool {
		x, y := ms[a], ms[b]
		if len(x.s.Name) != len(y.s.Name) {
			return len(x.s.Name) > len(y.s.Name)
		}
		if numOK(x) != numOK(y) {
			return numOK(x)
		}
		if ux, uy := r.used[key(x)], r.used[key(y)]; ux != uy {
			return ux < uy
		}
		return x.idx < y.idx
	})
	r.used[key(ms[0])]++
	return ms[0], true
}

// has reports whether a series of that kind and name was flushed. With no series given everything is accepted.
func (r *jsResolver) has(kind, name string) bool {
	if len(r.series) == 0 {
		return true
	}
	for _, s := range r.series {
		if s.Kind == kind && s.Name == name {
			return true
		}
	}
	return false
}

// jsSplitLe removes the last "le:<bound>" element of tags (the backends append the bucket tag after the series'
// own tags) and returns the bound.
func jsSplitLe(tags []string) (rest []string, bound string, ok bool) {
	for i := len(tags) - 1; i >= 0; i-- {
		if strings.HasPrefix(tags[i], "le:") {
			rest = append(append([]string{}, tags[:i]...), tags[i+1:]...)
			return rest, tags[i][len("le:"):], true
		}
	}
	return tags, "", false
}
