//go:build verif

package payload

import (
	"bytes"
	"compress/gzip"
	"context"
	"fmt"
	"math"
	"net/http"
	"sort"
	"strings"
	"sync"
	"testing"
	"testing/synctest"
	"time"

	"github.com/atlassian/gostatsd"
	"github.com/atlassian/gostatsd/pkg/statsd"

	"verifharness/internal/bk"
)

// ---------------------------------------------------------------- the flushed map

const txtFlushInterval = 2 * time.Second

// txtMetrics is what the tests feed the real aggregator with (percentiles 90 and -90, histogram limit 10, a flush
// over two seconds so that rates differ from counts).
func txtMetrics() []*gostatsd.Metric {
	const hard = "k:pr/od-1.x_y:z" // value with characters from [A-Za-z0-9_.:/-]
	ms := []*gostatsd.Metric{
		{Name: "a.b.count", Type: gostatsd.COUNTER, Value: 7, Source: "h1"},
		{Name: "a.b", Type: gostatsd.COUNTER, Value: 1, Source: "h1"},
		{Name: "c1", Type: gostatsd.COUNTER, Value: 5, Tags: gostatsd.Tags{"solo", hard}, Source: ""},
		{Name: "g1", Type: gostatsd.GAUGE, Value: 2.5, Tags: gostatsd.Tags{"env:test"}, Source: "h1"},
		{Name: "s1", Type: gostatsd.SET, StringValue: "x", Tags: gostatsd.Tags{"env:test"}, Source: "h1"},
		{Name: "s1", Type: gostatsd.SET, StringValue: "y", Tags: gostatsd.Tags{"env:test"}, Source: "h1"},
		{Name: "s1", Type: gostatsd.SET, StringValue: "z", Tags: gostatsd.Tags{"env:test"}, Source: "h1"},
		{Name: "s1", Type: gostatsd.SET, StringValue: "x", Tags: gostatsd.Tags{"env:test"}, Source: "h1"},
		{Name: "t1", Type: gostatsd.TIMER, Value: 60, Tags: gostatsd.Tags{"env:test"}, Source: "h1"},
		{Name: "t1", Type: gostatsd.TIMER, Value: 10, Tags: gostatsd.Tags{"env:test"}, Source: "h1"},
		{Name: "t1", Type: gostatsd.TIMER, Value: 20, Tags: gostatsd.Tags{"env:test"}, Source: "h1"},
		{Name: "th", Type: gostatsd.TIMER, Value: 25, Tags: gostatsd.Tags{"gsd_histogram:10_20"}, Source: ""},
		{Name: "th", Type: gostatsd.TIMER, Value: 5, Tags: gostatsd.Tags{"gsd_histogram:10_20"}, Source: ""},
		{Name: "th", Type: gostatsd.TIMER, Value: 15, Tags: gostatsd.Tags{"gsd_histogram:10_20"}, Source: ""},
	}
	return ms
}

func txtSeries() []Series {
	return []Series{
		{Kind: "counter", Name: "a.b.count"}, {Kind: "counter", Name: "a.b"}, {Kind: "counter", Name: "c1"},
		{Kind: "gauge", Name: "g1"}, {Kind: "set", Name: "s1"}, {Kind: "timer", Name: "t1"}, {Kind: "timer", Name: "th"},
	}
}

func txtOptions() Options { return Options{Series: txtSeries(), Percentiles: []float64{90, -90}} }

// txtFlush runs the metrics through the real aggregator. Call it inside the bubble.
func txtFlush(ms []*gostatsd.Metric, disabled gostatsd.TimerSubtypes) *gostatsd.MetricMap {
	agg := statsd.NewMetricAggregator([]float64{90, -90}, 5*time.Minute, 5*time.Minute, 5*time.Minute, 5*time.Minute, disabled, 10)
	in := gostatsd.NewMetricMap(false)
	ts := gostatsd.Nanotime(time.Now().UnixNano())
	for _, m := range ms {
		m.Rate, m.Timestamp = 1, ts
		in.Receive(m)
	}
	agg.ReceiveMap(in)
	agg.Flush(txtFlushInterval)
	var out *gostatsd.MetricMap
	agg.Process(func(mm *gostatsd.MetricMap) { out = mm })
	return out
}

// ---------------------------------------------------------------- running a variant

type txtCapture struct {
	attempts []bk.Attempt
	writes   []bk.Write
	lines    []string
}

// txtSend builds the variant in a bubble, flushes the metrics through it and returns what arrived on its seam.
func txtSend(t *testing.T, variant string, ms []*gostatsd.Metric, conf func(*bk.Env)) txtCapture {
	t.Helper()
	var got txtCapture
	synctest.Test(t, func(t *testing.T) {
		v, ok := bk.ByName(variant)
		if !ok {
			t.Fatalf("no variant %s", variant)
		}
		env := bk.NewEnv()
		defer env.Close()
		if conf != nil {
			conf(env)
		}
		b, err := v.New(env)
		if err != nil {
			t.Fatalf("New: %v", err)
		}
		ctx, cancel := context.WithCancel(context.Background())
		defer cancel()
		stop := env.Start(ctx, b)
		defer stop()

		mm := txtFlush(ms, env.Disabled)
		var mu sync.Mutex
		calls, cbErrs := 0, []error(nil)
		go b.SendMetricsAsync(env.Context(ctx), mm, func(errs []error) {
			mu.Lock()
			defer mu.Unlock()
			calls++
			for _, e := range errs {
				if e != nil {
					cbErrs = append(cbErrs, e)
				}
			}
		})
		synctest.Wait()
		mu.Lock()
		if calls != 1 || len(cbErrs) != 0 {
			t.Fatalf("%s: callback calls = %d, errors = %v", variant, calls, cbErrs)
		}
		mu.Unlock()
		got = txtCapture{attempts: env.HTTP.Attempts(), writes: env.Conn.Writes(), lines: env.Stdout.Lines()}
	})
	return got
}

// ---------------------------------------------------------------- expectations, written by hand

type txtWant struct {
	kind, name, sub string
	tags            []string
	host            string
	value           float64
}

type txtTagsHost struct {
	tags []string
	host string
}

// txtWantValues lists every value the flush of txtMetrics must put on the wire; tags and host depend on the protocol
// and come from the table given (series name -> tags and host as the parser reports them for that protocol).
// bucketSubs are the Subs of the three histogram buckets of th.
func txtWantValues(th map[string]txtTagsHost, bucketSubs [3]string) []txtWant {
	w := func(kind, name, sub string, v float64) txtWant {
		return txtWant{kind: kind, name: name, sub: sub, tags: th[name].tags, host: th[name].host, value: v}
	}
	return []txtWant{
		w("counter", "a.b.count", "count", 7), w("counter", "a.b.count", "rate", 3.5),
		w("counter", "a.b", "count", 1), w("counter", "a.b", "rate", 0.5),
		w("counter", "c1", "count", 5), w("counter", "c1", "rate", 2.5),
		w("gauge", "g1", "value", 2.5),
		w("set", "s1", "count", 3),
		// timer t1: values 10 20 60 over 2 s
		w("timer", "t1", "lower", 10), w("timer", "t1", "upper", 60), w("timer", "t1", "count", 3), w("timer", "t1", "rate", 1.5),
		w("timer", "t1", "mean", 30), w("timer", "t1", "median", 20), w("timer", "t1", "std", 21.602469),
		w("timer", "t1", "sum", 90), w("timer", "t1", "sum_squares", 4100),
		// 90: round(0.9*3) = 3 values in the threshold, all of them
		w("timer", "t1", "count_90", 3), w("timer", "t1", "mean_90", 30), w("timer", "t1", "sum_90", 90),
		w("timer", "t1", "sum_squares_90", 4100), w("timer", "t1", "upper_90", 60),
		// -90: the same three values counted from the top, the boundary is the lowest
		w("timer", "t1", "count_-90", 3), w("timer", "t1", "mean_-90", 30), w("timer", "t1", "sum_-90", 90),
		w("timer", "t1", "sum_squares_-90", 4100), w("timer", "t1", "lower_-90", 10),
		// timer th: values 5 15 25 in buckets <=10, <=20, +Inf (cumulative)
		w("timer", "th", bucketSubs[0], 1), w("timer", "th", bucketSubs[1], 2), w("timer", "th", bucketSubs[2], 3),
	}
}

var txtBuckets = [3]string{"le:10", "le:20", "le:+Inf"}

// InfluxDB: bare tag -> unnamed:<tag>, no host anywhere.
func txtWantInflux() []txtWant {
	return txtWantValues(map[string]txtTagsHost{
		"c1": {tags: []string{"k:pr/od-1.x_y:z", "unnamed:solo"}},
		"g1": {tags: []string{"env:test"}},
		"s1": {tags: []string{"env:test"}},
		"t1": {tags: []string{"env:test"}},
		"th": {tags: []string{"gsd_histogram:10_20"}},
	}, txtBuckets)
}

// graphite/tags: bare tag -> unnamed:<tag>, host tag = source when there is one.
func txtWantGraphiteTags() []txtWant {
	return txtWantValues(map[string]txtTagsHost{
		"a.b.count": {host: "h1"},
		"a.b":       {host: "h1"},
		"c1":        {tags: []string{"k:pr/od-1.x_y:z", "unnamed:solo"}},
		"g1":        {tags: []string{"env:test"}, host: "h1"},
		"s1":        {tags: []string{"env:test"}, host: "h1"},
		"t1":        {tags: []string{"env:test"}, host: "h1"},
		"th":        {tags: []string{"gsd_histogram:10_20"}},
	}, txtBuckets)
}

// graphite/legacy and graphite/basic: no tags, no host; the bucket bounds are not on the wire.
func txtWantGraphitePlain() []txtWant {
	return txtWantValues(map[string]txtTagsHost{}, [3]string{"le:?", "le:?", "le:?"})
}

// stdout: name.tag.tag.s.source with ':' -> '.'; the flattened tags are one element.
func txtWantStdout() []txtWant {
	return txtWantValues(map[string]txtTagsHost{
		"a.b.count": {host: "h1"},
		"a.b":       {host: "h1"},
		"c1":        {tags: []string{"k.pr/od-1.x_y.z.solo"}},
		"g1":        {tags: []string{"env.test"}, host: "h1"},
		"s1":        {tags: []string{"env.test"}, host: "h1"},
		"t1":        {tags: []string{"env.test"}, host: "h1"},
		"th":        {tags: []string{"gsd_histogram.10_20"}},
	}, txtBuckets)
}

func txtKey(kind, name, sub string, tags []string, host string, v float64) string {
	return fmt.Sprintf("%s %s %s tags=%s host=%q value=%.5f", kind, name, sub, strings.Join(tags, ","), host, v)
}

// txtCompare checks that the records are exactly the wanted ones (as a multiset; graphite/legacy puts three
// indistinguishable bucket lines with different values on the wire).
func txtCompare(t *testing.T, label string, ps []Payload, want []txtWant) {
	t.Helper()
	var got, exp []string
	for _, p := range ps {
		for _, r := range p.Recs {
			if !sort.StringsAreSorted(r.Tags) {
				t.Errorf("%s: tags not sorted: %v", label, r.Tags)
			}
			if r.Wire == "" {
				t.Errorf("%s: record without Wire: %+v", label, r)
			}
			got = append(got, txtKey(r.Kind, r.Name, r.Sub, r.Tags, r.Host, r.Value))
		}
	}
	for _, w := range want {
		exp = append(exp, txtKey(w.kind, w.name, w.sub, w.tags, w.host, w.value))
	}
	sort.Strings(got)
	sort.Strings(exp)
	count := map[string]int{}
	for _, g := range got {
		count[g]++
	}
	for _, e := range exp {
		count[e]--
	}
	var keys []string
	for k := range count {
		keys = append(keys, k)
	}
	sort.Strings(keys)
	for _, k := range keys {
		switch n := count[k]; {
		case n > 0:
			t.Errorf("%s: unexpected record (x%d): %s", label, n, k)
		case n < 0:
			t.Errorf("%s: missing record (x%d): %s", label, -n, k)
		}
	}
}

func txtNoErr(t *testing.T, label string, ps []Payload) {
	t.Helper()
	for _, p := range ps {
		if p.Err != nil || p.ErrText != "" {
			t.Errorf("%s: payload %d: Err = %v (ErrText %q)", label, p.Index, p.Err, p.ErrText)
		}
	}
}

// ---------------------------------------------------------------- real backends

func TestTextInfluxDB(t *testing.T) {
	const lines = 7 // one point per series
	loggedV1 := false
	for _, variant := range []string{"influxdb/v1", "influxdb/v2"} {
		for _, batch := range []int{1, 2, 0} {
			for _, noCompress := range []bool{false, true} {
				label := fmt.Sprintf("%s batch=%d nocompress=%v", variant, batch, noCompress)
				got := txtSend(t, variant, txtMetrics(), func(e *bk.Env) { e.MetricsPerBatch, e.NoCompress = batch, noCompress })
				for _, a := range got.attempts {
					if enc := a.Header.Get("Content-Encoding"); (enc == "gzip") == noCompress {
						t.Errorf("%s: Content-Encoding %q", label, enc)
					}
				}
				ps := ParseInfluxDB(got.attempts, txtOptions())
				if variant == "influxdb/v1" {
					// The 1.x write API takes the database as "db"; the strict parser insists on it.
					n := 0
					for i := range ps {
						if strings.HasPrefix(ps[i].ErrText, "v1 write without db") && !strings.Contains(ps[i].ErrText, "; ") {
							ps[i].Err, ps[i].ErrText = nil, ""
							n++
						}
					}
					if n > 0 && !loggedV1 {
						loggedV1 = true
						t.Logf("FINDING: influxdb/v1 posts to %s: InfluxDB 1.x reads the target database from the query parameter "+
							"\"db\" (\"database is required\" otherwise); the backend sends \"database\" instead. All %d requests of the flush are affected.",
							got.attempts[0].URL, n)
					}
				}
				txtNoErr(t, label, ps)
				txtCompare(t, label, ps, txtWantInflux())
				limit, requests := batch, (lines+batch-1)/max(batch, 1)
				if batch == 0 {
					limit, requests = 5000, 1
				}
				items := 0
				for i, p := range ps {
					if p.Index != i || p.Items < 1 || p.Items > limit || p.Bytes != len(got.attempts[i].Decoded) {
						t.Errorf("%s: payload %d: Index %d Items %d (limit %d) Bytes %d", label, i, p.Index, p.Items, limit, p.Bytes)
					}
					items += p.Items
				}
				if len(ps) != requests || items != lines {
					t.Errorf("%s: %d payloads with %d items, want %d with %d", label, len(ps), items, requests, lines)
				}
			}
		}
	}
}

func TestTextGraphite(t *testing.T) {
	for _, mode := range []string{"legacy", "basic", "tags"} {
		label := "graphite/" + mode
		got := txtSend(t, label, txtMetrics(), nil)
		if len(got.writes) != 1 {
			t.Fatalf("%s: %d writes", label, len(got.writes))
		}
		ps := ParseGraphite(mode, got.writes, txtOptions())
		if len(ps) != 1 || ps[0].Items != 30 || ps[0].Bytes != len(got.writes[0].Data) {
			t.Fatalf("%s: %d payloads, first %+v", label, len(ps), ps)
		}
		if mode == "tags" {
			txtNoErr(t, label, ps)
			txtCompare(t, label, ps, txtWantGraphiteTags())
			continue
		}
		txtCompare(t, label, ps, txtWantGraphitePlain())
		// The histogram timer is the only thing the strict parser may object to.
		if ps[0].Err == nil {
			t.Logf("%s: no error, the bucket bounds are on the wire", label)
		} else {
			msgs := strings.Split(ps[0].ErrText, "; ")
			for _, m := range msgs {
				if !strings.Contains(m, "without the le tag") {
					t.Errorf("%s: unexpected error: %s", label, m)
				}
			}
			t.Logf("FINDING: %s writes the %d buckets of histogram timer th (tag gsd_histogram:10_20) as %d lines with one "+
				"and the same path and different values; the bucket bound only exists as the tag le, which this mode drops: %s",
				label, len(msgs), len(msgs), msgs[0])
		}
		// Without the histogram timer the mode is clean.
		var rest []*gostatsd.Metric
		for _, m := range txtMetrics() {
			if m.Name != "th" {
				rest = append(rest, m)
			}
		}
		ps = ParseGraphite(mode, txtSend(t, label, rest, nil).writes, txtOptions())
		txtNoErr(t, label+" without th", ps)
		want := txtWantGraphitePlain()
		txtCompare(t, label+" without th", ps, want[:len(want)-3])
	}
}

func TestTextStdout(t *testing.T) {
	got := txtSend(t, "stdout", txtMetrics(), nil)
	ps := ParseStdout(got.lines, txtOptions())
	if len(ps) != 1 || ps[0].Items != 30 || ps[0].Items != len(got.lines) {
		t.Fatalf("%d payloads, %d lines, first %+v", len(ps), len(got.lines), ps)
	}
	txtNoErr(t, "stdout", ps)
	txtCompare(t, "stdout", ps, txtWantStdout())
}

// TestTextDisabledSubMetrics checks which lines / fields vanish under disabled-sub-metrics.
func TestTextDisabledSubMetrics(t *testing.T) {
	disabled := gostatsd.TimerSubtypes{Lower: true, CountPerSecond: true, StdDev: true, SumSquares: true, UpperPct: true, MeanPct: true}
	drop := map[string]bool{"lower": true, "rate": true, "std": true, "sum_squares": true, "upper_90": true, "mean_90": true, "mean_-90": true}
	filter := func(in []txtWant) (out []txtWant) {
		for _, w := range in {
			if !(w.kind == "timer" && drop[w.sub]) {
				out = append(out, w)
			}
		}
		return out
	}
	conf := func(e *bk.Env) { e.Disabled = disabled }

	ps := ParseInfluxDB(txtSend(t, "influxdb/v2", txtMetrics(), conf).attempts, txtOptions())
	txtNoErr(t, "influxdb/v2 disabled", ps)
	txtCompare(t, "influxdb/v2 disabled", ps, filter(txtWantInflux()))

	ps = ParseGraphite("tags", txtSend(t, "graphite/tags", txtMetrics(), conf).writes, txtOptions())
	txtNoErr(t, "graphite/tags disabled", ps)
	txtCompare(t, "graphite/tags disabled", ps, filter(txtWantGraphiteTags()))

	ps = ParseStdout(txtSend(t, "stdout", txtMetrics(), conf).lines, txtOptions())
	txtNoErr(t, "stdout disabled", ps)
	txtCompare(t, "stdout disabled", ps, filter(txtWantStdout()))
}

// ---------------------------------------------------------------- hand-made payloads

func txtAttempt(url, encoding, body string) bk.Attempt {
	a := bk.Attempt{Method: "POST", URL: url, Header: http.Header{}, Body: []byte(body)}
	if encoding != "" {
		a.Header.Set("Content-Encoding", encoding)
	}
	a.Decoded, a.DecodeErr = bk.Decode(encoding, a.Body)
	return a
}

const (
	txtV1URL = "http://influxdb.test:8086/write?db=bkdb&precision=s"
	txtV2URL = "http://influxdb.test:8086/api/v2/write?bucket=b&org=o&precision=s"
)

func TestTextInfluxDBStrict(t *testing.T) {
	opt := Options{Series: []Series{
		{Kind: "gauge", Name: "m"}, {Kind: "counter", Name: "m"}, {Kind: "set", Name: "m"}, {Kind: "timer", Name: "m"},
		{Kind: "gauge", Name: "my meas,x"},
	}, Percentiles: []float64{90, -90}}

	// Well formed input that exercises every escaping rule.
	good := `my\ meas\,x,ta\=g=va\ lue,b=c\\d,e\,f=g\=h value=1.5e+06 1700000000` + "\n" +
		"m value=-3i 1700000000\n" +
		"m count=4,rate=2 1700000000\n" +
		"m count=3 1700000000\n" +
		"m lower=1,rate=2,stddev=0.5,upper_90=7,lower_-90=1 1700000000\n" +
		"m le.10=1,le.2.5=0,le.+Inf=4 1700000000\n" +
		`events,host=h1 title="a \"b\" c, d=e",text="x\\" 1700000000` // no final newline: not required
	ps := ParseInfluxDB([]bk.Attempt{txtAttempt(txtV1URL, "", good), txtAttempt(txtV2URL, "gzip", string(txtGzip(t, good)))}, opt)
	txtNoErr(t, "good", ps)
	hard := []string{"b:c\\\\d", "e,f:g=h", "ta=g:va lue"}
	want := []txtWant{
		{kind: "gauge", name: "my meas,x", sub: "value", tags: hard, value: 1.5e6},
		{kind: "gauge", name: "m", sub: "value", value: -3},
		{kind: "counter", name: "m", sub: "count", value: 4}, {kind: "counter", name: "m", sub: "rate", value: 2},
		{kind: "set", name: "m", sub: "count", value: 3},
		{kind: "timer", name: "m", sub: "lower", value: 1}, {kind: "timer", name: "m", sub: "rate", value: 2},
		{kind: "timer", name: "m", sub: "std", value: 0.5}, {kind: "timer", name: "m", sub: "upper_90", value: 7},
		{kind: "timer", name: "m", sub: "lower_-90", value: 1},
		{kind: "timer", name: "m", sub: "le:10", value: 1}, {kind: "timer", name: "m", sub: "le:2.5", value: 0},
		{kind: "timer", name: "m", sub: "le:+Inf", value: 4},
	}
	txtCompare(t, "good", ps, append(append([]txtWant(nil), want...), want...))
	for _, p := range ps {
		if p.Items != 7 || p.Bytes != len(good) {
			t.Errorf("good: Items %d Bytes %d", p.Items, p.Bytes)
		}
	}

	bad := []struct{ name, url, enc, body, errPart string }{
		{"unescaped space in tag value", txtV1URL, "", "m,k=a b value=1 1700000000\n", "without '='"},
		{"empty field set", txtV1URL, "", "m,k=v  1700000000\n", "empty field set"},
		{"no field set at all", txtV1URL, "", "m,k=v\n", "no field set"},
		{"timestamp in place of fields", txtV1URL, "", "m,k=v 1700000000\n", "without '='"},
		{"trailing comma in fields", txtV1URL, "", "m value=1, 1700000000\n", "trailing comma"},
		{"trailing comma in tags", txtV1URL, "", "m,k=v, value=1 1700000000\n", "without '='"},
		{"missing timestamp", txtV1URL, "", "m value=1\n", "missing timestamp"},
		{"NaN", txtV1URL, "", "m value=NaN 1700000000\n", "neither float"},
		{"+Inf", txtV1URL, "", "m value=+Inf 1700000000\n", "neither float"},
		{"non-numeric", txtV1URL, "", "m value=abc 1700000000\n", "neither float"},
		{"empty tag value", txtV1URL, "", "m,k= value=1 1700000000\n", "empty value for tag"},
		{"empty tag key", txtV1URL, "", "m,=v value=1 1700000000\n", "empty tag key"},
		{"unescaped equals in tag value", txtV1URL, "", "m,k=a=b value=1 1700000000\n", "unescaped '='"},
		{"duplicate tag", txtV1URL, "", "m,k=a,k=b value=1 1700000000\n", "duplicate tag"},
		{"duplicate field", txtV1URL, "", "m count=1,count=2 1700000000\n", "duplicate field"},
		{"unterminated string", txtV1URL, "", "m value=1,s=\"abc 1700000000\n", "unterminated string"},
		{"fractional timestamp", txtV1URL, "", "m value=1 1700000000.5\n", "not an integer"},
		{"extra column", txtV1URL, "", "m value=1 1700000000 7\n", "not an integer"},
		{"carriage return", txtV1URL, "", "m value=1 1700000000\r\n", "control character"},
		{"empty measurement", txtV1URL, "", ",k=v value=1 1700000000\n", "empty measurement"},
		{"gzip header, plain body", txtV1URL, "gzip", "m value=1 1700000000\n", "does not decode"},
		{"gzip body, no header", txtV1URL, "", string(txtGzip(t, "m value=1 1700000000\n")), "gzip data"},
		{"precision missing", "http://influxdb.test:8086/write?db=bkdb", "", "m value=1 1700000000\n", "precision"},
		{"v2 without bucket", "http://influxdb.test:8086/api/v2/write?org=o&precision=s", "", "m value=1 1700000000\n", "bucket"},
		{"empty body", txtV1URL, "", "", "without any line"},
		{"unknown series", txtV1URL, "", "zzz value=1 1700000000\n", "unknown series on the wire"},
		{"field set of no kind", txtV1URL, "", "m value=1,count=2 1700000000\n", "unknown series on the wire"},
		{"bucket mixed with sub-metric", txtV1URL, "", "m le.10=1,mean=2 1700000000\n", "unknown series on the wire"},
		{"percentile that was not configured", txtV1URL, "", "m upper_95=1 1700000000\n", "unknown series on the wire"},
	}
	for _, c := range bad {
		whole := c.enc != "" || c.body == "" || strings.HasPrefix(c.body, "\x1f") // cases about the body as a whole
		body := "m value=9 1700000000\n" + c.body
		if whole {
			body = c.body
		}
		ps := ParseInfluxDB([]bk.Attempt{txtAttempt(c.url, c.enc, body)}, opt)
		if len(ps) != 1 || ps[0].Err == nil || ps[0].ErrText != ps[0].Err.Error() || !strings.Contains(ps[0].ErrText, c.errPart) {
			t.Errorf("%s: Err = %v, want one containing %q", c.name, ps[0].Err, c.errPart)
			continue
		}
		// What precedes the broken line is still reported, unless the body as a whole is unreadable.
		if !whole && (len(ps[0].Recs) == 0 || ps[0].Recs[0].Value != 9) {
			t.Errorf("%s: the good line in front is not reported: %+v", c.name, ps[0].Recs)
		}
	}
	// An unknown series is still reported, with Kind "".
	ps = ParseInfluxDB([]bk.Attempt{txtAttempt(txtV1URL, "", "zzz,a=b value=1 1700000000\n")}, opt)
	if len(ps[0].Recs) != 1 || ps[0].Recs[0].Kind != "" || ps[0].Recs[0].Name != "zzz" || ps[0].Recs[0].Sub != "value" {
		t.Errorf("unknown series: %+v", ps[0].Recs)
	}
}

func TestTextGraphiteStrict(t *testing.T) {
	opt := Options{Series: []Series{
		{Kind: "counter", Name: "a.b"}, {Kind: "counter", Name: "a.b.count"}, {Kind: "counter", Name: "timers.t.lower"},
		{Kind: "gauge", Name: "g 1/x!"}, {Kind: "set", Name: "s"}, {Kind: "timer", Name: "t"}, {Kind: "timer", Name: "t.count"},
	}, Percentiles: []float64{90}}
	w := func(s string) []bk.Write { return []bk.Write{{Data: []byte(s), Offered: len(s)}} }

	// Resolution of names that are not injective on their own.
	basic := "stats.counters.a.b.count 1 1700000000\n" + // a.b count
		"stats.counters.a.b.count.count 2 1700000000\n" + // a.b.count count
		"stats.counters.a.b.count.rate 2.000000 1700000000\n" +
		"stats.gauges.g_1-x -1.500000 1700000000\n" + // name clean-up: "g 1/x!" -> g_1-x
		"stats.sets.s 3 1700000000\n" +
		"stats.timers.t.count 4 1700000000\n" + // t count
		"stats.timers.t.count.count 5 1700000000\n" + // t.count count
		"stats.timers.t.count_ps 6.000000 1700000000\n" +
		"stats.timers.t.std 7.000000 1700000000\n" +
		"stats.timers.t.upper_90 8.000000 1700000000\n"
	ps := ParseGraphite("basic", w(basic), opt)
	txtNoErr(t, "basic", ps)
	txtCompare(t, "basic", ps, []txtWant{
		{kind: "counter", name: "a.b", sub: "count", value: 1},
		{kind: "counter", name: "a.b.count", sub: "count", value: 2}, {kind: "counter", name: "a.b.count", sub: "rate", value: 2},
		{kind: "gauge", name: "g 1/x!", sub: "value", value: -1.5},
		{kind: "set", name: "s", sub: "count", value: 3},
		{kind: "timer", name: "t", sub: "count", value: 4}, {kind: "timer", name: "t.count", sub: "count", value: 5},
		{kind: "timer", name: "t", sub: "rate", value: 6}, {kind: "timer", name: "t", sub: "std", value: 7},
		{kind: "timer", name: "t", sub: "upper_90", value: 8},
	})
	legacy := "stats_counts.a.b 1 1700000000\nstats.a.b 0.500000 1700000000\n" +
		"stats.timers.t.lower 2.000000 1700000000\n" // timer t lower or the rate of counter timers.t.lower: the longest name wins
	ps = ParseGraphite("legacy", w(legacy), opt)
	txtNoErr(t, "legacy", ps)
	txtCompare(t, "legacy", ps, []txtWant{
		{kind: "counter", name: "a.b", sub: "count", value: 1}, {kind: "counter", name: "a.b", sub: "rate", value: 0.5},
		{kind: "counter", name: "timers.t.lower", sub: "rate", value: 2},
	})
	tags := "stats.sets.s;b=2;a=x:y/z;host=h9 3 1700000000\n" +
		"stats.counters.t.histogram;gsd_histogram=10;le=10;host=h9 1 1700000000\n" +
		"stats.counters.t.histogram;gsd_histogram=10;le=+Inf 2 1700000000\n" +
		"stats.gauges.g_1-x;le=5 1.000000 1700000000\n" // le on a gauge is an ordinary tag
	ps = ParseGraphite("tags", w(tags), opt)
	txtNoErr(t, "tags", ps)
	txtCompare(t, "tags", ps, []txtWant{
		{kind: "set", name: "s", sub: "count", tags: []string{"a:x:y/z", "b:2"}, host: "h9", value: 3},
		{kind: "timer", name: "t", sub: "le:10", tags: []string{"gsd_histogram:10"}, host: "h9", value: 1},
		{kind: "timer", name: "t", sub: "le:+Inf", tags: []string{"gsd_histogram:10"}, value: 2},
		{kind: "gauge", name: "g 1/x!", sub: "value", tags: []string{"le:5"}, value: 1},
	})

	bad := []struct{ name, mode, body, errPart string }{
		{"two fields", "basic", "stats.sets.s 3\n", "2 space separated fields"},
		{"four fields", "basic", "stats.sets.s 3 1700000000 x\n", "4 space separated fields"},
		{"double space", "basic", "stats.sets.s  3 1700000000\n", "4 space separated fields"},
		{"empty tag value", "tags", "stats.sets.s;env= 3 1700000000\n", "empty value"},
		{"empty tag name", "tags", "stats.sets.s;=x 3 1700000000\n", "empty name"},
		{"tag without equals", "tags", "stats.sets.s;env 3 1700000000\n", "without '='"},
		{"trailing semicolon", "tags", "stats.sets.s; 3 1700000000\n", "without '='"},
		{"tag value starting with tilde", "tags", "stats.sets.s;env=~x 3 1700000000\n", "starts with '~'"},
		{"tags in basic mode", "basic", "stats.sets.s;env=x 3 1700000000\n", "writes no tags"},
		{"missing final newline", "basic", "stats.sets.s 3 1700000000", "does not end in a newline"},
		{"empty line", "basic", "stats.sets.s 3 1700000000\n\nstats.sets.s 3 1700000000\n", "empty line"},
		{"non-numeric value", "basic", "stats.sets.s abc 1700000000\n", "not a decimal number"},
		{"NaN", "basic", "stats.gauges.g_1-x NaN 1700000000\n", "not a decimal number"},
		{"fractional timestamp", "basic", "stats.sets.s 3 1700000000.5\n", "not an integer"},
		{"zero timestamp", "basic", "stats.sets.s 3 0\n", "not a positive"},
		{"tab separated", "basic", "stats.sets.s\t3\t1700000000\n", "control character"},
		{"unknown series", "basic", "stats.sets.nope 3 1700000000\n", "unknown series on the wire"},
		{"unknown timer suffix", "basic", "stats.timers.t.stddev 3 1700000000\n", "unknown series on the wire"},
		{"legacy name in basic mode", "basic", "stats_counts.a.b 3 1700000000\n", "unknown series on the wire"},
		{"bucket without le", "tags", "stats.counters.t.histogram;gsd_histogram=10 3 1700000000\n", "without the le tag"},
		{"unknown mode", "fancy", "stats.sets.s 3 1700000000\n", "unknown graphite mode"},
	}
	for _, c := range bad {
		ps := ParseGraphite(c.mode, w("stats.sets.s 9 1700000000\n"+c.body), opt)
		if c.name == "empty write" {
			ps = ParseGraphite(c.mode, w(""), opt)
		}
		if len(ps) != 1 || ps[0].Err == nil || ps[0].ErrText != ps[0].Err.Error() || !strings.Contains(ps[0].ErrText, c.errPart) {
			t.Errorf("%s: Err = %v, want one containing %q", c.name, ps[0].Err, c.errPart)
			continue
		}
		if c.name != "empty write" && (len(ps[0].Recs) == 0 || ps[0].Recs[0].Value != 9) {
			t.Errorf("%s: the good line in front is not reported: %+v", c.name, ps[0].Recs)
		}
	}
	ps = ParseGraphite("basic", w("stats.sets.nope 3 1700000000\n"), opt)
	if len(ps[0].Recs) != 1 || ps[0].Recs[0].Kind != "" || ps[0].Recs[0].Name != "stats.sets.nope" || ps[0].Recs[0].Value != 3 {
		t.Errorf("unknown series: %+v", ps[0].Recs)
	}
	// One Payload per Write.
	ps = ParseGraphite("basic", append(w("stats.sets.s 1 1700000000\n"), w("stats.sets.s 2 1700000000\nstats.sets.s 3 1700000000\n")...), opt)
	if len(ps) != 2 || ps[0].Items != 1 || ps[1].Items != 2 || ps[1].Index != 1 || ps[1].Bytes != 52 {
		t.Errorf("two writes: %+v", ps)
	}
}

func TestTextStdoutStrict(t *testing.T) {
	opt := Options{Series: []Series{
		{Kind: "counter", Name: "a.b"}, {Kind: "counter", Name: "a.b.count"}, {Kind: "gauge", Name: "g"},
		{Kind: "set", Name: "s"}, {Kind: "timer", Name: "t"},
	}, Percentiles: []float64{90}}
	good := []string{
		"stats.counter.a.b.count 1 1700000000",                              // a.b count, no tags, no source
		"stats.counter.a.b.count.count 2 1700000000",                        // a.b.count count (the longest name wins over a.b + tag "count")
		"stats.counter.a.b.env.x.s.10.0.0.1.per_second 0.500000 1700000000", // a.b rate, tag env:x, source 10.0.0.1
		"stats.gauge.g.s.h1 -2.500000 1700000000",
		"stats.set.s.solo 3 1700000000",
		"stats.timers.t.env.x.s.h1.count_ps 4.000000 1700000000",
		"stats.timers.t.std 5.000000 1700000000",
		"stats.timers.t.histogram.le:2.5 6 1700000000",
		"stats.timers.t.gsd_histogram.10.histogram.le:+Inf 7 1700000000",
		"event: &{Title:x}",
	}
	ps := ParseStdout(good, opt)
	txtNoErr(t, "good", ps)
	if len(ps) != 1 || ps[0].Items != 9 {
		t.Fatalf("good: %+v", ps)
	}
	txtCompare(t, "good", ps, []txtWant{
		{kind: "counter", name: "a.b", sub: "count", value: 1},
		{kind: "counter", name: "a.b.count", sub: "count", value: 2},
		{kind: "counter", name: "a.b", sub: "rate", tags: []string{"env.x"}, host: "10.0.0.1", value: 0.5},
		{kind: "gauge", name: "g", sub: "value", host: "h1", value: -2.5},
		{kind: "set", name: "s", sub: "count", tags: []string{"solo"}, value: 3},
		{kind: "timer", name: "t", sub: "rate", tags: []string{"env.x"}, host: "h1", value: 4},
		{kind: "timer", name: "t", sub: "std", value: 5},
		{kind: "timer", name: "t", sub: "le:2.5", value: 6},
		{kind: "timer", name: "t", sub: "le:+Inf", tags: []string{"gsd_histogram.10"}, value: 7},
	})
	bad := []struct{ name, line, errPart string }{
		{"two fields", "stats.set.s 3", "2 space separated fields"},
		{"space in the name", "stats.set.s.a b 3 1700000000", "4 space separated fields"},
		{"non-numeric value", "stats.set.s x 1700000000", "not a decimal number"},
		{"NaN", "stats.gauge.g NaN 1700000000", "not a decimal number"},
		{"bad timestamp", "stats.set.s 3 now", "not an integer"},
		{"unknown prefix", "stats.sets.s 3 1700000000", "unknown series on the wire"},
		{"unknown series", "stats.set.nope 3 1700000000", "unknown series on the wire"},
		{"name that is no prefix at a dot", "stats.set.sx 3 1700000000", "unknown series on the wire"},
		{"unknown timer suffix", "stats.timers.t.stddev 3 1700000000", "unknown timer sub-metric"},
		{"counter suffix", "stats.counter.a.b.rate 3 1700000000", "neither .count nor .per_second"},
		{"bucket bound", "stats.timers.t.histogram.le:x 3 1700000000", "not a number"},
		{"empty line", "", "empty line"},
	}
	for _, c := range bad {
		ps := ParseStdout([]string{"stats.set.s 9 1700000000", c.line}, opt)
		if len(ps) != 1 || ps[0].Err == nil || ps[0].ErrText != ps[0].Err.Error() || !strings.Contains(ps[0].ErrText, c.errPart) {
			t.Errorf("%s: Err = %v, want one containing %q", c.name, ps[0].Err, c.errPart)
			continue
		}
		if len(ps[0].Recs) == 0 || ps[0].Recs[0].Value != 9 || ps[0].Items != 2 {
			t.Errorf("%s: the good line in front is not reported: %+v", c.name, ps[0])
		}
	}
}

// TestTextCanon ties the Canon helpers to the hand-written expectations above.
func TestTextCanon(t *testing.T) {
	tags := []string{"solo", "k:pr/od-1.x_y:z"}
	eq := func(label string, gotTags []string, gotHost string, wantTags []string, wantHost string) {
		t.Helper()
		if strings.Join(gotTags, "|") != strings.Join(wantTags, "|") || gotHost != wantHost {
			t.Errorf("%s: %v %q, want %v %q", label, gotTags, gotHost, wantTags, wantHost)
		}
	}
	gt, gh := CanonInfluxDB(tags, "h1")
	eq("influx", gt, gh, []string{"k:pr/od-1.x_y:z", "unnamed:solo"}, "")
	gt, gh = CanonInfluxDB([]string{"foo", "key:bar", "unnamed:baz", "key:thing", "other:something"}, "")
	eq("influx doc example", gt, gh, []string{"key:bar__thing", "other:something", "unnamed:baz__foo"}, "")
	gt, gh = CanonGraphite("tags", tags, "h1")
	eq("graphite tags", gt, gh, []string{"k:pr/od-1.x_y:z", "unnamed:solo"}, "h1")
	gt, gh = CanonGraphite("tags", []string{"host:own", "a:b"}, "h1")
	eq("graphite own host", gt, gh, []string{"a:b"}, "own")
	gt, gh = CanonGraphite("basic", tags, "h1")
	eq("graphite basic", gt, gh, nil, "")
	gt, gh = CanonStdout(tags, "h1")
	eq("stdout", gt, gh, []string{"k.pr/od-1.x_y.z.solo"}, "h1")
	gt, gh = CanonStdout(nil, "10.0.0.1")
	eq("stdout source only", gt, gh, nil, "10.0.0.1")
	gt, gh = CanonStdout(tags, "")
	eq("stdout no source", gt, gh, []string{"k.pr/od-1.x_y.z.solo"}, "")
}

// ---------------------------------------------------------------- probes of the real backends beyond the base map

// TestTextFindings feeds the real backends inputs the base map does not contain and logs, as FINDING, where what they
// emit breaks the protocol or loses part of a series. It fails only when the parser does not notice.
func TestTextFindings(t *testing.T) {
	gauge := func(name, source string, tags ...string) *gostatsd.Metric {
		return &gostatsd.Metric{Name: name, Type: gostatsd.GAUGE, Value: 1, Tags: tags, Source: gostatsd.Source(source)}
	}
	opt := Options{Series: []Series{{Kind: "gauge", Name: "g"}, {Kind: "gauge", Name: "g x"}}}
	errOf := func(ps []Payload) string {
		var s []string
		for _, p := range ps {
			if p.Err != nil {
				s = append(s, p.ErrText)
			}
		}
		return strings.Join(s, " | ")
	}
	expectErr := func(label, input, errPart string, ps []Payload, wire string) {
		t.Helper()
		if e := errOf(ps); strings.Contains(e, errPart) {
			t.Logf("FINDING: %s: %s -> wire %q: %s", label, input, wire, e)
		} else {
			t.Logf("%s: %s -> wire %q: parser reports %q (no longer the problem %q)", label, input, wire, e, errPart)
		}
	}
	influx := func(ms ...*gostatsd.Metric) ([]Payload, string) {
		as := txtSend(t, "influxdb/v2", ms, func(e *bk.Env) { e.NoCompress = true }).attempts
		var wire []string
		for _, a := range as {
			wire = append(wire, string(a.Decoded))
		}
		return ParseInfluxDB(as, opt), strings.Join(wire, "")
	}
	graphite := func(ms ...*gostatsd.Metric) ([]Payload, string) {
		ws := txtSend(t, "graphite/tags", ms, nil).writes
		var wire []string
		for _, w := range ws {
			wire = append(wire, string(w.Data))
		}
		return ParseGraphite("tags", ws, opt), strings.Join(wire, "")
	}

	// 1. A tag with an empty value.
	ps, wire := influx(gauge("g", "h1", "k:"))
	expectErr("influxdb", `gauge g with tag "k:"`, "empty value for tag", ps, wire)
	ps, wire = graphite(gauge("g", "h1", "k:"))
	expectErr("graphite/tags", `gauge g with tag "k:"`, "empty value", ps, wire)

	// 3. A tag value with a space or a semicolon in graphite tags mode.
	ps, wire = graphite(gauge("g", "h1", "k:a b"))
	expectErr("graphite/tags", `gauge g with tag "k:a b"`, "space separated fields", ps, wire)
	ps, wire = graphite(gauge("g", "h1", "k:a;b"))
	expectErr("graphite/tags", `gauge g with tag "k:a;b"`, "without '='", ps, wire)
	ps, wire = graphite(gauge("g", "h 1"))
	expectErr("graphite/tags", `gauge g from source "h 1"`, "space separated fields", ps, wire)

	// 4. A backslash in a tag value: the line protocol has no escape for it, a doubled backslash is two backslashes.
	ps, wire = influx(gauge("g", "h1", `p:a\b`))
	if e := errOf(ps); e != "" || len(ps) != 1 || len(ps[0].Recs) != 1 {
		t.Errorf("influxdb backslash: %q %+v", e, ps)
	} else if got := strings.Join(ps[0].Recs[0].Tags, ","); got != `p:a\b` {
		t.Logf("FINDING: influxdb: gauge g with tag %q -> wire %q: the tag value reads back as %q", `p:a\b`, wire, got)
	}

	// 5. InfluxDB writes no source: two series that differ only in their source become two points with the same
	// measurement, tag set and timestamp in one request, and the store keeps one.
	ps, wire = influx(gauge("g", "h1", "env:x"), gauge("g", "h2", "env:x"))
	if e := errOf(ps); e != "" || len(ps) != 1 || len(ps[0].Recs) != 2 {
		t.Errorf("influxdb two sources: %q %+v", e, ps)
	} else if a, b := ps[0].Recs[0], ps[0].Recs[1]; a.Host == "" && b.Host == "" && strings.Join(a.Tags, ",") == strings.Join(b.Tags, ",") {
		t.Logf("FINDING: influxdb: gauge g with tag env:x from sources h1 and h2 -> wire %q: the host is not written, both points have the same series key", wire)
	}

	// 6. Name clean-up in graphite maps different series to one path.
	ps, wire = graphite(gauge("g x", "h1"), gauge("g_x", "h1"))
	_ = ps
	if ls := strings.Split(strings.TrimSpace(wire), "\n"); len(ls) == 2 && strings.Fields(ls[0])[0] == strings.Fields(ls[1])[0] {
		t.Logf("FINDING: graphite/tags: gauges \"g x\" and \"g_x\" -> wire %q: one path for two series", wire)
	}

	// 7. An infinite gauge ("g:+Inf|g" passes the statsd lexer, which only rejects NaN).
	inf := gauge("g", "h1")
	inf.Value = math.Inf(1)
	ps, wire = influx(inf)
	expectErr("influxdb", "gauge g with value +Inf", "neither float", ps, wire)
	inf = gauge("g", "h1")
	inf.Value = math.Inf(1)
	ps, wire = graphite(inf)
	expectErr("graphite/tags", "gauge g with value +Inf", "not a decimal number", ps, wire)

	// 9. InfluxDB: a counter and a timer of one name and tag set are two points with one series key whose field sets
	// overlap in count and rate.
	as := txtSend(t, "influxdb/v2", []*gostatsd.Metric{
		{Name: "m", Type: gostatsd.COUNTER, Value: 4, Source: "h1"},
		{Name: "m", Type: gostatsd.TIMER, Value: 10, Source: "h1"},
	}, func(e *bk.Env) { e.NoCompress = true }).attempts
	ps = ParseInfluxDB(as, Options{Series: []Series{{Kind: "counter", Name: "m"}, {Kind: "timer", Name: "m"}}, Percentiles: []float64{90, -90}})
	seen := map[string]int{}
	for _, r := range ps[0].Recs {
		if r.Sub == "count" || r.Sub == "rate" {
			seen[r.Kind+" "+r.Sub]++
		}
	}
	if errOf(ps) != "" || seen["counter count"] != 1 || seen["timer count"] != 1 || seen["counter rate"] != 1 || seen["timer rate"] != 1 {
		t.Errorf("influxdb counter and timer of one name: %q %v", errOf(ps), seen)
	} else {
		t.Logf("FINDING: influxdb: counter m (4) and timer m (10), no tags -> wire %q: same measurement, tag set and timestamp, "+
			"both write the fields count and rate", string(as[0].Decoded))
	}

	// 8. stdout: a space in a tag.
	lines := txtSend(t, "stdout", []*gostatsd.Metric{gauge("g", "h1", "k:a b")}, nil).lines
	expectErr("stdout", `gauge g with tag "k:a b"`, "space separated fields", ParseStdout(lines, opt), strings.Join(lines, "\n"))
}

func txtGzip(t *testing.T, s string) []byte {
	t.Helper()
	var buf bytes.Buffer
	zw := gzip.NewWriter(&buf)
	if _, err := zw.Write([]byte(s)); err != nil {
		t.Fatal(err)
	}
	if err := zw.Close(); err != nil {
		t.Fatal(err)
	}
	return buf.Bytes()
}
