//go:build verif

package payload

// New Relic. Three flush types, all POST with Content-Type application/json; "insights" and "metrics" gzip the body
// (Content-Encoding gzip), "infra" sends it plain. The envelopes, decoded into structs written from the public
// formats (closed schemas, nothing may follow the top-level value):
//
//	infra     Infrastructure agent SDK v2:
//	          {"name":"...","protocol_version":"2","integration_version":"...","data":[{"metrics":[<event>, ...]}]}
//	insights  Event API: [<event>, ...]
//	metrics   Metric API: [{"common":{"attributes":{...},"interval.ms":N,"timestamp":T},"metrics":[<metric>, ...]}]
//
// <event> (infra, insights) is one flat JSON object per series whose members are strings or numbers only:
//
//	"event_type" (infra) / "eventType" (insights)   mandatory string
//	"name"   the series name; "<n>.histogram" for a histogram bucket
//	"type"   "gauge" | "counter" | "set" | "timer"  -> Rec.Kind (a bucket has type "counter")
//	"value"  number, mandatory
//	"timestamp", "interval", "integration_version"  envelope data, dropped
//	"statsdSource"  -> Rec.Host
//	every other member is a tag: string "true" -> bare tag <key>; other string -> "<key>:<string>";
//	                             number -> "<key>:<number printed with strconv 'f', -1>"
//
//	kind     member                         sub
//	gauge    value                          value
//	counter  value                          count
//	counter  per_second                     rate
//	set      value                          count
//	timer    min, max                       lower, upper
//	timer    count, sum, mean, median, sum_squares   same word
//	timer    per_second                     rate
//	timer    std_dev                        std
//	timer    <pct> (count_90, upper_90, lower_-90, ...)   <pct>
//	timer    value                          (duplicate of count, dropped)
//	bucket   type counter, name <n>.histogram, member "le" (number, or the string "infinity"), value
//	                                        timer <n>, sub le:<bound> ("+Inf" for infinity); its per_second (always 0) is dropped
//
// <metric> (metrics) is {"name","value","type","timestamp","interval.ms","attributes":{...}}: name and value are
// mandatory, type is "gauge" (default when absent), "count" or "summary"; a summary's value is
// {"count","sum","min","max"}; count and summary need an interval.ms (own or common). Attribute values are strings,
// numbers or booleans. Resolved against Options.Series:
//
//	wire name                       wire type  kind     sub
//	<n>                             gauge      gauge    value
//	<n>                             count      counter  count
//	<n>.per_second                  gauge      counter  rate
//	<n>                             gauge      set      count
//	<n>.summary                     summary    timer    count, sum, lower (min), upper (max): four Recs
//	<n>.per_second                  gauge      timer    rate
//	<n>.mean|median|sum_squares     gauge      timer    same word
//	<n>.std_dev                     gauge      timer    std
//	<n>.<agg>.percentiles           gauge      timer    <agg>_<attribute "percentile">, e.g. upper_90, lower_-90
//	<n>.histogram                   count      timer    le:<attribute "le"> ("infinity" -> "+Inf")
//	<n>.histogram.per_second        gauge      timer    (artefact, always 0, dropped)
//
// Attributes "statsdType" (dropped), "statsdSource" (-> Host), "percentile" and "le" (see above) are the backend's
// own; the others are tags as for events. common.attributes (integration.name / .version) are not tags.
//
// Items = number of event / metric objects in the request; Bytes = decoded body length.
//
// Lossy on the wire, hence not invertible: a bare tag "k" and a tag "k:true" are the same attribute; a tag value
// that strconv.ParseFloat accepts is sent as a number ("1.0" -> 1, "1e3" -> 1000, "10_20" -> 1020); of two tags
// with one key only one survives; in the flat event formats a tag named like a member (name, type, value, min, ...)
// overwrites that member. An event whose "name" is "event" and that has "Title" and "Text" is a gostatsd event,
// not a metric, and is skipped.

import (
	"encoding/json"
	"sort"
	"strings"

	"verifharness/internal/bk"
)

type nrInfra struct {
	Name               *string            `json:"name"`
	ProtocolVersion    *string            `json:"protocol_version"`
	IntegrationVersion *string            `json:"integration_version"`
	Data               *[]json.RawMessage `json:"data"`
}

type nrInfraData struct {
	Entity    *json.RawMessage   `json:"entity"`
	Metrics   *[]json.RawMessage `json:"metrics"`
	Inventory *json.RawMessage   `json:"inventory"`
	Events    *json.RawMessage   `json:"events"`
}

type nrMetricsEnvelope struct {
	Common  *nrCommon          `json:"common"`
	Metrics *[]json.RawMessage `json:"metrics"`
}

type nrCommon struct {
	Attributes *map[string]json.RawMessage `json:"attributes"`
	IntervalMs *json.RawMessage            `json:"interval.ms"`
	Timestamp  *json.RawMessage            `json:"timestamp"`
}

type nrMetric struct {
	Name       *string                     `json:"name"`
	Value      *json.RawMessage            `json:"value"`
	Type       *string                     `json:"type"`
	Timestamp  *json.RawMessage            `json:"timestamp"`
	IntervalMs *json.RawMessage            `json:"interval.ms"`
	Attributes *map[string]json.RawMessage `json:"attributes"`
}

type nrSummary struct {
	Count *json.RawMessage `json:"count"`
	Sum   *json.RawMessage `json:"sum"`
	Min   *json.RawMessage `json:"min"`
	Max   *json.RawMessage `json:"max"`
}

// ParseNewRelic parses the requests of the "newrelic/<flushType>" variants.
func ParseNewRelic(flushType string, attempts []bk.Attempt, opt Options) []Payload {
	res := jsNewResolver(opt)
	var out []Payload
	for _, a := range attempts {
		p := Payload{Index: len(out), Bytes: len(a.Decoded)}
		var e jsErrs
		body := jsCheckHTTP(a.Method, a.Header, a.Decoded, a.DecodeErr, "application/json", &e)
		if body != nil {
			switch flushType {
			case "infra":
				nrParseInfra(body, &p, &e, res, opt)
			case "insights":
				nrParseInsights(body, &p, &e, res, opt)
			case "metrics":
				nrParseMetrics(body, &p, &e, res, opt)
			default:
				e.addf("unknown New Relic flush type %q", flushType)
			}
		}
		jsFinish(&p, &e)
		out = append(out, p)
	}
	return out
}

func nrParseInfra(body []byte, p *Payload, e *jsErrs, res *jsResolver, opt Options) {
	var top nrInfra
	if err := jsStrictJSON(body, &top); err != nil {
		e.addf("malformed JSON: %v", err)
		return
	}
	if top.Name == nil || *top.Name == "" {
		e.addf(`no "name"`)
	}
	if top.ProtocolVersion == nil || *top.ProtocolVersion == "" {
		e.addf(`no "protocol_version"`)
	}
	if top.IntegrationVersion == nil || *top.IntegrationVersion == "" {
		e.addf(`no "integration_version"`)
	}
	if top.Data == nil {
		e.addf(`no "data"`)
		return
	}
	for i, raw := range *top.Data {
		var d nrInfraData
		if err := jsStrictJSON(raw, &d); err != nil {
			e.addf("data[%d]: %v", i, err)
			continue
		}
		if d.Metrics == nil {
			e.addf(`data[%d]: no "metrics"`, i)
			continue
		}
		for j, ev := range *d.Metrics {
			nrParseEvent(ev, "event_type", j, p, e, res, opt)
		}
	}
}

func nrParseInsights(body []byte, p *Payload, e *jsErrs, res *jsResolver, opt Options) {
	var top []json.RawMessage
	if err := jsStrictJSON(body, &top); err != nil {
		e.addf("malformed JSON: %v", err)
		return
	}
	if top == nil {
		e.addf("body is null, want an array of events")
		return
	}
	for j, ev := range top {
		nrParseEvent(ev, "eventType", j, p, e, res, opt)
	}
}

var nrEnvelopeKeys = map[string]bool{
	"event_type": true, "eventType": true, "name": true, "type": true, "value": true,
	"timestamp": true, "interval": true, "integration_version": true, "statsdSource": true,
}

var nrTimerFields = []struct{ key, sub string }{
	{"min", "lower"}, {"max", "upper"}, {"count", "count"}, {"per_second", "rate"}, {"mean", "mean"},
	{"median", "median"}, {"std_dev", "std"}, {"sum", "sum"}, {"sum_squares", "sum_squares"},
}

// nrAttr turns one attribute into a tag. Strings and numbers only, unless allowBool.
func nrAttr(key string, raw json.RawMessage, allowBool bool) (string, error) {
	if f, err := jsFloat(raw); err == nil {
		return key + ":" + jsNum(f), nil
	}
	if s, err := jsString(raw); err == nil {
		if s == "true" {
			return key, nil
		}
		return key + ":" + s, nil
	}
	t := strings.TrimSpace(string(raw))
	if allowBool && (t == "true" || t == "false") {
		return key + ":" + t, nil
	}
	return "", &nrAttrError{key: key, raw: jsTrunc(t)}
}

type nrAttrError struct{ key, raw string }

func (x *nrAttrError) Error() string {
	return "attribute " + x.key + " = " + x.raw + " is neither a string nor a finite number"
}

// nrHost reads the statsdSource attribute, which setTags may have turned into a number.
func nrHost(raw json.RawMessage) (string, error) {
	if s, err := jsString(raw); err == nil {
		return s, nil
	}
	f, err := jsFloat(raw)
	if err != nil {
		return "", err
	}
	return jsNum(f), nil
}

func nrParseEvent(raw json.RawMessage, typeKey string, idx int, p *Payload, e *jsErrs, res *jsResolver, opt Options) {
	wire := jsCompact(raw)
	var obj map[string]json.RawMessage
	if err := jsStrictJSON(raw, &obj); err != nil || obj == nil {
		p.Items++
		e.addf("event[%d]: not a JSON object: %v", idx, err)
		return
	}
	if n, err := jsString(obj["name"]); err == nil && n == "event" && obj["Title"] != nil && obj["Text"] != nil {
		return // a gostatsd event
	}
	p.Items++
	bad := false
	str := func(key string) string {
		r, ok := obj[key]
		if !ok {
			e.addf("event[%d]: no %q: %s", idx, key, wire)
			bad = true
			return ""
		}
		s, err := jsString(r)
		if err != nil || s == "" {
			e.addf("event[%d]: %q: %s is not a non-empty string", idx, key, jsTrunc(string(r)))
			bad = true
		}
		return s
	}
	str(typeKey)
	name, kind := str("name"), str("type")
	value, verr := jsFloat(obj["value"])
	if _, ok := obj["value"]; !ok {
		e.addf("event[%d] %s: no \"value\"", idx, name)
		bad = true
	} else if verr != nil {
		e.addf("event[%d] %s: value: %v", idx, name, verr)
		bad = true
	}
	if r, ok := obj["timestamp"]; ok {
		if _, err := jsFloat(r); err != nil {
			e.addf("event[%d] %s: timestamp: %v", idx, name, err)
		}
	}
	if bad {
		return
	}
	switch kind {
	case "gauge", "counter", "set", "timer":
	default:
		e.addf("event[%d] %s: type %q is not one of gauge, counter, set, timer", idx, name, kind)
		return
	}

	// which members are fields of this kind, the rest are tags
	fields := map[string]string{} // member -> sub
	bucketOf := ""
	switch kind {
	case "counter":
		fields["per_second"] = "rate"
		if strings.HasSuffix(name, ".histogram") && obj["le"] != nil {
			base := strings.TrimSuffix(name, ".histogram")
			// prefer the longest series name: a counter literally named "<n>.histogram" wins over timer "<n>"
			if !(len(res.series) > 0 && res.has("counter", name)) && (len(res.series) == 0 || res.has("timer", base)) {
				bucketOf = base
			}
		}
	case "timer":
		for _, f := range nrTimerFields {
			fields[f.key] = f.sub
		}
		for k := range obj {
			if jsIsPct(k, opt.Percentiles) {
				fields[k] = k
			}
		}
	}

	host := ""
	var tags []string
	keys := make([]string, 0, len(obj))
	for k := range obj {
		keys = append(keys, k)
	}
	sort.Strings(keys)
	for _, k := range keys {
		if k == "statsdSource" {
			h, err := nrHost(obj[k])
			if err != nil {
				e.addf("event[%d] %s: statsdSource: %v", idx, name, err)
			}
			host = h
			continue
		}
		if nrEnvelopeKeys[k] {
			if k == "integration_version" || k == "event_type" || k == "eventType" {
				if _, err := jsString(obj[k]); err != nil {
					e.addf("event[%d] %s: %s: %v", idx, name, k, err)
				}
			} else if k == "interval" {
				if _, err := jsFloat(obj[k]); err != nil {
					e.addf("event[%d] %s: interval: %v", idx, name, err)
				}
			}
			continue
		}
		if _, isField := fields[k]; isField {
			continue
		}
		if bucketOf != "" && k == "le" {
			continue
		}
		t, err := nrAttr(k, obj[k], false)
		if err != nil {
			e.addf("event[%d] %s: %v", idx, name, err)
			continue
		}
		tags = append(tags, t)
	}
	tags = jsSorted(tags)

	emit := func(kind, name, sub string, v float64) {
		p.Recs = append(p.Recs, Rec{Kind: kind, Name: name, Sub: sub, Tags: tags, Host: host, Value: v, Wire: wire})
	}
	field := func(k string) (float64, bool) {
		r, ok := obj[k]
		if !ok {
			return 0, false
		}
		f, err := jsFloat(r)
		if err != nil {
			e.addf("event[%d] %s: %s: %v", idx, name, k, err)
			return 0, false
		}
		return f, true
	}

	if bucketOf != "" {
		bound, err := nrBound(obj["le"])
		if err != nil {
			e.addf("event[%d] %s: le: %v", idx, name, err)
			return
		}
		field("per_second") // validated, dropped
		emit("timer", bucketOf, "le:"+bound, value)
		return
	}
	if !res.has(kind, name) {
		e.addf("unknown series on the wire: %s %s", kind, name)
		p.Recs = append(p.Recs, Rec{Name: name, Tags: tags, Host: host, Value: value, Wire: wire})
		return
	}
	switch kind {
	case "gauge":
		emit(kind, name, "value", value)
	case "set":
		emit(kind, name, "count", value)
	case "counter":
		emit(kind, name, "count", value)
		if f, ok := field("per_second"); ok {
			emit(kind, name, "rate", f)
		}
	case "timer":
		for _, f := range nrTimerFields {
			if v, ok := field(f.key); ok {
				emit(kind, name, f.sub, v)
			}
		}
		for _, k := range keys {
			if fields[k] == k && jsIsPct(k, opt.Percentiles) {
				if v, ok := field(k); ok {
					emit(kind, name, k, v)
				}
			}
		}
	}
}

// nrBound reads a bucket bound: a number, or the string "infinity" for the last bucket.
func nrBound(raw json.RawMessage) (string, error) {
	if f, err := jsFloat(raw); err == nil {
		return jsNum(f), nil
	}
	s, err := jsString(raw)
	if err != nil {
		return "", err
	}
	if s == "infinity" {
		return "+Inf", nil
	}
	return "", &nrAttrError{key: "le", raw: s}
}

func nrMetricSubs(pcts []float64) jsSubsFunc {
	return func(kind, suffix, wireType string) []jsSub {
		switch kind {
		case "gauge":
			if suffix == "" && wireType == "gauge" {
				return []jsSub{{sub: "value"}}
			}
		case "set":
			if suffix == "" && wireType == "gauge" {
				return []jsSub{{sub: "count"}}
			}
		case "counter":
			if suffix == "" && wireType == "count" {
				return []jsSub{{sub: "count"}}
			}
			if suffix == ".per_second" && wireType == "gauge" {
				return []jsSub{{sub: "rate"}}
			}
		case "timer":
			switch {
			case suffix == ".summary" && wireType == "summary":
				return []jsSub{{sub: "summary"}}
			case suffix == ".histogram" && wireType == "count":
				return []jsSub{{sub: "le"}}
			case wireType != "gauge":
				return nil
			case suffix == ".histogram.per_second":
				return []jsSub{{skip: true}}
			case suffix == ".per_second":
				return []jsSub{{sub: "rate"}}
			case suffix == ".mean", suffix == ".median", suffix == ".sum_squares":
				return []jsSub{{sub: suffix[1:]}}
			case suffix == ".std_dev":
				return []jsSub{{sub: "std"}}
			case strings.HasSuffix(suffix, ".percentiles"):
				agg := strings.TrimSuffix(suffix[1:], ".percentiles")
				switch agg {
				case "count", "mean", "sum", "sum_squares", "upper", "lower":
					return []jsSub{{sub: "pct:" + agg}}
				}
			}
		}
		return nil
	}
}

func nrParseMetrics(body []byte, p *Payload, e *jsErrs, res *jsResolver, opt Options) {
	var top []json.RawMessage
	if err := jsStrictJSON(body, &top); err != nil {
		e.addf("malformed JSON: %v", err)
		return
	}
	if top == nil {
		e.addf("body is null, want an array")
		return
	}
	subs := nrMetricSubs(opt.Percentiles)
	for i, rawEnv := range top {
		var env nrMetricsEnvelope
		if err := jsStrictJSON(rawEnv, &env); err != nil {
			e.addf("[%d]: %v", i, err)
			continue
		}
		commonInterval := false
		if env.Common != nil {
			if env.Common.IntervalMs != nil {
				if f, err := jsFloat(*env.Common.IntervalMs); err != nil || f < 0 {
					e.addf("[%d].common: bad interval.ms %s", i, jsTrunc(string(*env.Common.IntervalMs)))
				} else {
					commonInterval = f > 0
				}
			}
			if env.Common.Timestamp != nil {
				if _, err := jsFloat(*env.Common.Timestamp); err != nil {
					e.addf("[%d].common.timestamp: %v", i, err)
				}
			}
			if env.Common.Attributes != nil {
				for k, r := range *env.Common.Attributes {
					if _, err := nrAttr(k, r, true); err != nil {
						e.addf("[%d].common: %v", i, err)
					}
				}
			}
		}
		if env.Metrics == nil {
			e.addf(`[%d]: no "metrics"`, i)
			continue
		}
		for j, raw := range *env.Metrics {
			p.Items++
			nrParseMetric(raw, j, commonInterval, p, e, res, subs, opt)
		}
	}
}

func nrParseMetric(raw json.RawMessage, idx int, commonInterval bool, p *Payload, e *jsErrs, res *jsResolver, subs jsSubsFunc, opt Options) {
	wire := jsCompact(raw)
	var m nrMetric
	if err := jsStrictJSON(raw, &m); err != nil {
		e.addf("metric[%d]: %v", idx, err)
		return
	}
	if m.Name == nil || *m.Name == "" {
		e.addf(`metric[%d]: no "name": %s`, idx, wire)
		return
	}
	name := *m.Name
	typ := "gauge"
	if m.Type != nil {
		typ = *m.Type
		if typ != "gauge" && typ != "count" && typ != "summary" {
			e.addf("metric[%d] %s: type %q is not one of gauge, count, summary", idx, name, typ)
			return
		}
	}
	if m.Timestamp != nil {
		if _, err := jsFloat(*m.Timestamp); err != nil {
			e.addf("metric[%d] %s: timestamp: %v", idx, name, err)
		}
	}
	ownInterval := false
	if m.IntervalMs != nil {
		if f, err := jsFloat(*m.IntervalMs); err != nil || f < 0 {
			e.addf("metric[%d] %s: bad interval.ms", idx, name)
		} else {
			ownInterval = f > 0
		}
	}
	if (typ == "count" || typ == "summary") && !ownInterval && !commonInterval {
		e.addf("metric[%d] %s: a %s metric needs interval.ms", idx, name, typ)
	}

	// attributes
	host := ""
	var tags []string
	var pctAttr, leAttr json.RawMessage
	if m.Attributes != nil {
		keys := make([]string, 0, len(*m.Attributes))
		for k := range *m.Attributes {
			keys = append(keys, k)
		}
		sort.Strings(keys)
		for _, k := range keys {
			r := (*m.Attributes)[k]
			switch k {
			case "statsdType":
				if _, err := jsString(r); err != nil {
					e.addf("metric[%d] %s: statsdType: %v", idx, name, err)
				}
				continue
			case "statsdSource":
				h, err := nrHost(r)
				if err != nil {
					e.addf("metric[%d] %s: statsdSource: %v", idx, name, err)
				}
				host = h
				continue
			case "percentile":
				pctAttr = r
			case "le":
				leAttr = r
			}
			t, err := nrAttr(k, r, true)
			if err != nil {
				e.addf("metric[%d] %s: %v", idx, name, err)
				continue
			}
			tags = append(tags, t)
		}
	}
	drop := func(key string) []string {
		var out []string
		for _, t := range tags {
			if t != key && !strings.HasPrefix(t, key+":") {
				out = append(out, t)
			}
		}
		return out
	}

	// value
	if m.Value == nil {
		e.addf("metric[%d] %s: no \"value\": %s", idx, name, wire)
		return
	}
	var value float64
	var sum nrSummary
	if typ == "summary" {
		if err := jsStrictJSON(*m.Value, &sum); err != nil {
			e.addf("metric[%d] %s: summary value: %v", idx, name, err)
			return
		}
		if sum.Count == nil || sum.Sum == nil {
			e.addf("metric[%d] %s: summary value without count or sum", idx, name)
			return
		}
	} else {
		v, err := jsFloat(*m.Value)
		if err != nil {
			e.addf("metric[%d] %s: value: %v", idx, name, err)
			return
		}
		value = v
	}

	tags = jsSorted(tags)
	match, ok := res.resolve(name, typ, "", strings.Join(tags, ",")+"\x00"+host, subs)
	if !ok {
		e.addf("unknown series on the wire: %s (type %s)", name, typ)
		p.Recs = append(p.Recs, Rec{Name: name, Tags: tags, Host: host, Value: value, Wire: wire})
		return
	}
	if match.sub.skip {
		return
	}
	emit := func(sub string, tags []string, v float64) {
		p.Recs = append(p.Recs, Rec{Kind: match.s.Kind, Name: match.s.Name, Sub: sub, Tags: jsSorted(tags), Host: host, Value: v, Wire: wire})
	}
	switch {
	case match.sub.sub == "summary":
		for _, f := range []struct {
			sub string
			raw *json.RawMessage
		}{{"count", sum.Count}, {"sum", sum.Sum}, {"lower", sum.Min}, {"upper", sum.Max}} {
			if f.raw == nil || strings.TrimSpace(string(*f.raw)) == "null" {
				continue
			}
			v, err := jsFloat(*f.raw)
			if err != nil {
				e.addf("metric[%d] %s: summary %s: %v", idx, name, f.sub, err)
				continue
			}
			emit(f.sub, tags, v)
		}
	case match.sub.sub == "le":
		if leAttr == nil {
			e.addf("metric[%d] %s: histogram bucket without an le attribute", idx, name)
			return
		}
		bound, err := nrBound(leAttr)
		if err != nil {
			e.addf("metric[%d] %s: le: %v", idx, name, err)
			return
		}
		emit("le:"+bound, drop("le"), value)
	case strings.HasPrefix(match.sub.sub, "pct:"):
		if pctAttr == nil {
			e.addf("metric[%d] %s: no percentile attribute", idx, name)
			return
		}
		pv, err := jsFloat(pctAttr)
		if err != nil {
			e.addf("metric[%d] %s: percentile: %v", idx, name, err)
			return
		}
		sub := strings.TrimPrefix(match.sub.sub, "pct:") + "_" + jsNum(pv)
		if !jsIsPct(sub, opt.Percentiles) {
			e.addf("metric[%d] %s: percentile %s is not one of the configured thresholds", idx, name, jsNum(pv))
		}
		emit(sub, drop("percentile"), value)
	default:
		emit(match.sub.sub, tags, value)
	}
}

// CanonNewRelic returns the Tags and Host that ParseNewRelic reports for a series flushed with these tags and this
// source when the backend is faithful, as far as the attribute model allows: one value per key (the last tag of a key
// wins), a bare tag "k" and "k:true" are the same thing (reported bare), the source travels as statsdSource unless
// the series has a statsdSource: tag of its own (then that tag's value is reported as host). Tag values are NOT
// normalised here although the backend sends numeric looking ones as numbers: "5" and "2.5" survive that, "1.0",
// "1e3", "10_20", "+5", ".5", "007" come back as "1", "1000", "1020", "5", "0.5", "7" and show up as a difference.
func CanonNewRelic(tags []string, source string) (ctags []string, host string) {
	host = source
	values := map[string]string{}
	var order []string
	for _, t := range tags {
		k, v, found := strings.Cut(t, ":")
		if !found {
			v = "true"
		}
		if _, seen := values[k]; !seen {
			order = append(order, k)
		}
		values[k] = v
	}
	for _, k := range order {
		v := values[k]
		switch {
		case k == "statsdSource":
			host = v
		case v == "true":
			ctags = append(ctags, k)
		default:
			ctags = append(ctags, k+":"+v)
		}
	}
	return jsSorted(ctags), host
}
