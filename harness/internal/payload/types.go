//go:build verif

// Package payload parses what each gostatsd backend variant (package bk) put on its transport for one flush back into
// canonical records, with parsers that are strict about the wire protocol and independent of the serialisers under test.
// The C17 harness compares the records with what the property statement says a flush must contain.
package payload

// Rec is one value found in a payload, named canonically (not as the backend names it on the wire).
type Rec struct {
	// Kind is the gostatsd series type the value belongs to: "counter" | "gauge" | "set" | "timer".
	Kind string `json:"kind"`
	// Name is the series name as the user sent it (backend prefixes such as graphite's "stats.counters." and
	// sub-metric suffixes / field names removed).
	Name string `json:"name"`
	// Sub is the sub-metric:
	//   counter: "count" (the total of the interval) | "rate" (per second)
	//   gauge:   "value"
	//   set:     "count" (number of distinct members)
	//   timer:   "lower" "upper" "count" "rate" (count per second) "mean" "median" "std" "sum" "sum_squares",
	//            a percentile exactly as gostatsd.Percentile.Str names it (e.g. "upper_90", "mean_90", "count_90", "sum_90",
	//            "sum_squares_90", "lower_90" for negative thresholds), or a histogram bucket "le:<bound>" with the bound
	//            as the backend prints it ("+Inf" for the last)
	Sub string `json:"sub"`
	// Tags are the series' tags as "key:value" or bare "value", sorted; tags the backend adds on its own account
	// (e.g. a host / source tag, "le" for buckets, "percentile" dimensions) are removed and reported through Host / Sub.
	Tags []string `json:"tags"`
	// Host is the source / hostname the backend attached ("" when the format carries none or it is empty).
	Host string `json:"host"`
	// Value as a float64 parsed from the wire.
	Value float64 `json:"value"`
	// Wire is the piece of the payload this came from (a line, a JSON object rendered compactly, ...), truncated to ~200
	// bytes, for diagnostics only.
	Wire string `json:"wire"`
}

// Payload is one unit the backend emitted on its transport: one HTTP request (after Content-Encoding is undone), one
// PutMetricData call, one socket write of the graphite / statsdaemon stream (for statsdaemon over UDP: one datagram).
type Payload struct {
	Index int `json:"index"`
	// Bytes is the size of the unit on the wire as far as the protocol has a limit on it (statsdaemon: len of the
	// write; others: decoded body length).
	Bytes int `json:"bytes"`
	// Items is the number of units the backend's batch-size setting counts in this payload (InfluxDB: see the backend's
	// documentation of metrics-per-batch; OTLP: metrics per request (metrics_per_batch); CloudWatch: MetricDatum
	// per call; Datadog: series per request; New Relic: metrics per request; graphite / statsdaemon / stdout: lines).
	Items int `json:"items"`
	// Err is non-nil when the payload is not syntactically valid for its protocol (malformed JSON / line protocol /
	// protobuf, bad escaping, missing mandatory fields, wrong Content-Type or Content-Encoding for the body, ...).
	Err error `json:"-"`
	// ErrText is Err.Error() or "".
	ErrText string `json:"err"`
	Recs    []Rec `json:"recs"`
}

// Series describes one series of the flushed map, for parsers that have to invert a naming scheme that is not
// injective on its own (e.g. Datadog's "<name>.count" exists for counters and timers): parsers resolve a wire name
// against the series that were flushed and report an error when a wire name matches none of them.
type Series struct {
	Kind string // "counter" | "gauge" | "set" | "timer"
	Name string
}

// Options carries what a parser must know about the configuration that produced the payloads.
type Options struct {
	Series []Series
	// Percentiles are the percent thresholds the aggregator was configured with (e.g. 90, -90, 99.5).
	Percentiles []float64
}
