//go:build verif

package payload

// OTLP/HTTP metrics: POST <metrics_endpoint>, Content-Type application/x-protobuf, optional Content-Encoding gzip,
// body = opentelemetry.proto.collector.metrics.v1.ExportMetricsServiceRequest, decoded here with the generated
// go.opentelemetry.io/proto/otlp types and google.golang.org/protobuf (not with gostatsd's internal/data wrappers).
// Requests whose path ends in /v1/logs (events) are ignored.
//
// Checked as protocol: the protobuf decodes and carries no unknown fields anywhere; every Metric has a name and a
// data oneof; Sum and Histogram have a DELTA or CUMULATIVE aggregation temporality; every data point has a
// time_unix_nano; a number data point has a value unless flagged NO_RECORDED_VALUE; attribute keys are non-empty and
// unique within one attribute list; a histogram data point has either no buckets and no bounds or
// len(bucket_counts) == len(explicit_bounds)+1, strictly increasing finite bounds, bucket counts adding up to count,
// and min <= max.
//
// Attributes -> tags (pkg/backends/otlp/internal/data/map.go): data point attributes and resource attributes (tags
// moved there by otlp.resource_keys) are merged; {k: "v"} -> "k:v", {k: ""} or an unset value -> bare "k",
// {k: ["a","b"]} (a key that had several values) -> "k:a","k:b". The attribute "host" with a single string value is
// the source the backend appended as tag "host:<source>" -> Rec.Host (a series that carries its own host: tag gets
// no source on the wire, its tag value is reported as Host too: not distinguishable).
//
// Wire -> canonical, resolved against Options.Series:
//
//	conversion   wire name   data        value      kind     sub
//	both         <n>         Gauge       double     counter  rate
//	both         <n>.count   Sum (delta) int        counter  count
//	both         <n>         Gauge       double     gauge    value
//	both         <n>         Gauge       int        set      count
//	AsGauge      <n>.lower|upper|mean|median|std|sum|sum_squares   Gauge double   timer  same word
//	AsGauge      <n>.count   Gauge       int        timer    count
//	AsGauge      <n>.count_ps Gauge      double     timer    rate
//	AsGauge      <n>.<pct>   Gauge       double     timer    <pct>  (upper_90, lower_-90, ...)
//	AsGauge      <n>.histogram Gauge     double     timer    le:<attribute "le"> ("+Inf" last); "le" removed from the tags
//	AsHistogram  <n>         Histogram (delta), one data point per timer -> Recs
//	                           count (count), sum (sum, when set), lower (min, when set), upper (max, when set) and,
//	                           when there are buckets, le:<bound> per explicit bound plus le:+Inf.
//
// On the wire the bucket counts are NOT cumulative (OTLP wants the count per bucket; the backend undoes the
// aggregator's accumulation). The le:<bound> Recs carry the CUMULATIVE count (sum of the wire counts up to and
// including that bucket), so that they mean the same as with every other backend; bounds are printed with strconv
// 'f', -1. The int / double distinction is used only to break ties (a gauge "x" and a set "x" are both Gauge "x").
// In AsHistogram mode mean, median, std, sum_squares, rate and the percentiles do not exist on the wire.
//
// Items = number of Metric messages in the request (what otlp.metrics_per_batch bounds); Bytes = decoded body length.

import (
	"fmt"
	"math"
	"net/url"
	"strings"

	collectorpb "go.opentelemetry.io/proto/otlp/collector/metrics/v1"
	commonpb "go.opentelemetry.io/proto/otlp/common/v1"
	metricspb "go.opentelemetry.io/proto/otlp/metrics/v1"
	"google.golang.org/protobuf/proto"
	"google.golang.org/protobuf/reflect/protoreflect"

	"verifharness/internal/bk"
)

const (
	otAsGauge     = "AsGauge"
	otAsHistogram = "AsHistogram"
)

func otSubs(conversion string, pcts []float64) jsSubsFunc {
	return func(kind, suffix, wireType string) []jsSub {
		switch kind {
		case "counter":
			if suffix == "" && wireType == "gauge" {
				return []jsSub{{sub: "rate", num: "double"}}
			}
			if suffix == ".count" && wireType == "sum" {
				return []jsSub{{sub: "count", num: "int"}}
			}
		case "gauge":
			if suffix == "" && wireType == "gauge" {
				return []jsSub{{sub: "value", num: "double"}}
			}
		case "set":
			if suffix == "" && wireType == "gauge" {
				return []jsSub{{sub: "count", num: "int"}}
			}
		case "timer":
			if suffix == "" {
				if wireType == "histogram" && conversion != otAsGauge {
					return []jsSub{{sub: "histogram"}}
				}
				return nil
			}
			if wireType != "gauge" || conversion == otAsHistogram {
				return nil
			}
			sfx := suffix[1:]
			if sfx == "histogram" {
				return []jsSub{{sub: "le", num: "double"}}
			}
			if sub, ok := jsPlainTimerSub(sfx, pcts); ok {
				num := "double"
				if sfx == "count" {
					num = "int"
				}
				return []jsSub{{sub: sub, num: num}}
			}
		}
		return nil
	}
}

// ParseOTLP parses the metric requests of the "otlp/<conversion>" variants.
func ParseOTLP(conversion string, attempts []bk.Attempt, opt Options) []Payload {
	res := jsNewResolver(opt)
	subs := otSubs(conversion, opt.Percentiles)
	var out []Payload
	for _, a := range attempts {
		if u, err := url.Parse(a.URL); err == nil && strings.HasSuffix(u.Path, "/v1/logs") {
			continue
		}
		p := Payload{Index: len(out), Bytes: len(a.Decoded)}
		var e jsErrs
		if ce := strings.ToLower(strings.TrimSpace(a.Header.Get("Content-Encoding"))); ce != "" && ce != "gzip" && ce != "identity" {
			e.addf("Content-Encoding %q, OTLP/HTTP knows gzip only", ce)
		}
		if body := jsCheckHTTP(a.Method, a.Header, a.Decoded, a.DecodeErr, "application/x-protobuf", &e); body != nil || (a.DecodeErr == nil && a.Decoded == nil) {
			otParseBody(body, &p, &e, res, subs)
		}
		jsFinish(&p, &e)
		out = append(out, p)
	}
	return out
}

func otParseBody(body []byte, p *Payload, e *jsErrs, res *jsResolver, subs jsSubsFunc) {
	var req collectorpb.ExportMetricsServiceRequest
	if err := proto.Unmarshal(body, &req); err != nil {
		e.addf("malformed protobuf: %v", err)
		return
	}
	if where := otUnknown(req.ProtoReflect(), "ExportMetricsServiceRequest"); where != "" {
		e.addf("unknown protobuf fields in %s", where)
	}
	for ri, rm := range req.GetResourceMetrics() {
		resAttrs := otAttrs(rm.GetResource().GetAttributes(), fmt.Sprintf("resource_metrics[%d].resource", ri), e)
		for _, sm := range rm.GetScopeMetrics() {
			for _, m := range sm.GetMetrics() {
				p.Items++
				otMetric(m, resAttrs, p, e, res, subs)
			}
		}
	}
}

// otUnknown returns the path of the first message that carries fields the schema does not know.
func otUnknown(m protoreflect.Message, path string) string {
	if len(m.GetUnknown()) > 0 {
		return path
	}
	found := ""
	m.Range(func(fd protoreflect.FieldDescriptor, v protoreflect.Value) bool {
		if fd.Message() == nil || fd.IsMap() {
			return true
		}
		if fd.IsList() {
			l := v.List()
			for i := 0; i < l.Len(); i++ {
				if s := otUnknown(l.Get(i).Message(), fmt.Sprintf("%s.%s[%d]", path, fd.Name(), i)); s != "" {
					found = s
					return false
				}
			}
			return true
		}
		if s := otUnknown(v.Message(), path+"."+string(fd.Name())); s != "" {
			found = s
			return false
		}
		return true
	})
	return found
}

type otAttr struct {
	key  string
	vals []string // "" = bare
}

func otScalar(v *commonpb.AnyValue) string {
	switch x := v.GetValue().(type) {
	case nil:
		return ""
	case *commonpb.AnyValue_StringValue:
		return x.StringValue
	case *commonpb.AnyValue_IntValue:
		return fmt.Sprint(x.IntValue)
	case *commonpb.AnyValue_DoubleValue:
		return jsNum(x.DoubleValue)
	case *commonpb.AnyValue_BoolValue:
		return fmt.Sprint(x.BoolValue)
	case *commonpb.AnyValue_BytesValue:
		return fmt.Sprintf("%x", x.BytesValue)
	default:
		return fmt.Sprintf("%T", x)
	}
}

func otAttrs(kvs []*commonpb.KeyValue, where string, e *jsErrs) []otAttr {
	var out []otAttr
	seen := map[string]bool{}
	for _, kv := range kvs {
		k := kv.GetKey()
		if k == "" {
			e.addf("%s: attribute with an empty key", where)
			continue
		}
		if seen[k] {
			e.addf("%s: attribute key %q occurs twice", where, k)
		}
		seen[k] = true
		a := otAttr{key: k}
		if arr, ok := kv.GetValue().GetValue().(*commonpb.AnyValue_ArrayValue); ok {
			for _, v := range arr.ArrayValue.GetValues() {
				a.vals = append(a.vals, otScalar(v))
			}
		} else {
			a.vals = []string{otScalar(kv.GetValue())}
		}
		out = append(out, a)
	}
	return out
}

// otTags renders attributes as tags, taking out the host and (when wanted) the le attribute.
func otTags(attrs []otAttr, takeLe bool) (tags []string, host, le string, leOK bool, leAmbiguous bool) {
	for _, a := range attrs {
		if a.key == "host" && len(a.vals) == 1 && a.vals[0] != "" && host == "" {
			host = a.vals[0]
			continue
		}
		if takeLe && a.key == "le" {
			if len(a.vals) == 1 {
				le, leOK = a.vals[0], true
			} else {
				leAmbiguous = true
			}
			continue
		}
		for _, v := range a.vals {
			if v == "" {
				tags = append(tags, a.key)
			} else {
				tags = append(tags, a.key+":"+v)
			}
		}
	}
	return jsSorted(tags), host, le, leOK, leAmbiguous
}

func otTemporality(t metricspb.AggregationTemporality, name string, e *jsErrs) {
	if t != metricspb.AggregationTemporality_AGGREGATION_TEMPORALITY_DELTA &&
		t != metricspb.AggregationTemporality_AGGREGATION_TEMPORALITY_CUMULATIVE {
		e.addf("metric %s: aggregation temporality %v", name, t)
	}
}

func otMetric(m *metricspb.Metric, resAttrs []otAttr, p *Payload, e *jsErrs, res *jsResolver, subs jsSubsFunc) {
	name := m.GetName()
	if name == "" {
		e.addf("metric without a name")
	}
	switch d := m.GetData().(type) {
	case nil:
		e.addf("metric %s: no data", name)
	case *metricspb.Metric_Gauge:
		for i, dp := range d.Gauge.GetDataPoints() {
			otNumber(name, "gauge", i, dp, resAttrs, p, e, res, subs)
		}
	case *metricspb.Metric_Sum:
		otTemporality(d.Sum.GetAggregationTemporality(), name, e)
		for i, dp := range d.Sum.GetDataPoints() {
			otNumber(name, "sum", i, dp, resAttrs, p, e, res, subs)
		}
	case *metricspb.Metric_Histogram:
		otTemporality(d.Histogram.GetAggregationTemporality(), name, e)
		for i, dp := range d.Histogram.GetDataPoints() {
			otHistogram(name, i, dp, resAttrs, p, e, res, subs)
		}
	default:
		e.addf("unknown series on the wire: %s (%T)", name, d)
		p.Recs = append(p.Recs, Rec{Name: name, Wire: jsTrunc(fmt.Sprintf("%s %T", name, d))})
	}
}

func otNumber(name, typ string, i int, dp *metricspb.NumberDataPoint, resAttrs []otAttr, p *Payload, e *jsErrs, res *jsResolver, subs jsSubsFunc) {
	where := fmt.Sprintf("metric %s %s point[%d]", name, typ, i)
	attrs := append(append([]otAttr{}, resAttrs...), otAttrs(dp.GetAttributes(), where, e)...)
	if dp.GetTimeUnixNano() == 0 {
		e.addf("%s: no time_unix_nano", where)
	}
	var value float64
	num := ""
	switch v := dp.GetValue().(type) {
	case *metricspb.NumberDataPoint_AsInt:
		value, num = float64(v.AsInt), "int"
	case *metricspb.NumberDataPoint_AsDouble:
		value, num = v.AsDouble, "double"
	default:
		if dp.GetFlags()&uint32(metricspb.DataPointFlags_DATA_POINT_FLAGS_NO_RECORDED_VALUE_MASK) == 0 {
			e.addf("%s: no value", where)
		}
		return
	}
	tags, host, _, _, _ := otTags(attrs, false)
	wire := jsTrunc(fmt.Sprintf("%s %s{%s} host=%q %s=%v", name, typ, strings.Join(tags, ","), host, num, value))
	m, ok := res.resolve(name, typ, num, strings.Join(tags, ",")+"\x00"+host, subs)
	if !ok {
		e.addf("unknown series on the wire: %s (%s)", name, typ)
		p.Recs = append(p.Recs, Rec{Name: name, Tags: tags, Host: host, Value: value, Wire: wire})
		return
	}
	sub := m.sub.sub
	if sub == "le" {
		var le string
		var leOK, amb bool
		tags, host, le, leOK, amb = otTags(attrs, true)
		if amb {
			e.addf("%s: the le attribute has several values", where)
			return
		}
		if !leOK {
			e.addf("%s: histogram bucket without an le attribute", where)
			return
		}
		sub = "le:" + le
	}
	p.Recs = append(p.Recs, Rec{Kind: m.s.Kind, Name: m.s.Name, Sub: sub, Tags: tags, Host: host, Value: value, Wire: wire})
}

func otHistogram(name string, i int, dp *metricspb.HistogramDataPoint, resAttrs []otAttr, p *Payload, e *jsErrs, res *jsResolver, subs jsSubsFunc) {
	where := fmt.Sprintf("metric %s histogram point[%d]", name, i)
	attrs := append(append([]otAttr{}, resAttrs...), otAttrs(dp.GetAttributes(), where, e)...)
	if dp.GetTimeUnixNano() == 0 {
		e.addf("%s: no time_unix_nano", where)
	}
	counts, bounds := dp.GetBucketCounts(), dp.GetExplicitBounds()
	bucketsOK := true
	if len(counts) == 0 {
		if len(bounds) != 0 {
			e.addf("%s: %d explicit_bounds without bucket_counts", where, len(bounds))
		}
		bucketsOK = false
	} else {
		if len(counts) != len(bounds)+1 {
			e.addf("%s: %d bucket_counts for %d explicit_bounds, want %d", where, len(counts), len(bounds), len(bounds)+1)
			bucketsOK = false
		}
		var total uint64
		for _, c := range counts {
			total += c
		}
		if total != dp.GetCount() {
			e.addf("%s: bucket_counts add up to %d, count is %d", where, total, dp.GetCount())
		}
		for j, b := range bounds {
			if math.IsNaN(b) || math.IsInf(b, 0) || (j > 0 && !(bounds[j-1] < b)) {
				e.addf("%s: explicit_bounds %v are not finite and strictly increasing", where, bounds)
				bucketsOK = false
				break
			}
		}
	}
	if dp.Min != nil && dp.Max != nil && dp.GetMin() > dp.GetMax() {
		e.addf("%s: min %v > max %v", where, dp.GetMin(), dp.GetMax())
	}

	tags, host, _, _, _ := otTags(attrs, false)
	wire := jsTrunc(fmt.Sprintf("%s histogram{%s} host=%q count=%d sum=%v min=%v max=%v bounds=%v counts=%v", name,
		strings.Join(tags, ","), host, dp.GetCount(), otOpt(dp.Sum), otOpt(dp.Min), otOpt(dp.Max), bounds, counts))
	m, ok := res.resolve(name, "histogram", "", strings.Join(tags, ",")+"\x00"+host, subs)
	rec := Rec{Name: name, Tags: tags, Host: host, Wire: wire}
	if !ok {
		e.addf("unknown series on the wire: %s (histogram)", name)
	} else {
		rec.Kind, rec.Name = m.s.Kind, m.s.Name
	}
	emit := func(sub string, v float64) {
		r := rec
		if ok {
			r.Sub = sub
		}
		r.Value = v
		p.Recs = append(p.Recs, r)
	}
	if !ok {
		emit("", float64(dp.GetCount()))
		return
	}
	emit("count", float64(dp.GetCount()))
	if dp.Sum != nil {
		emit("sum", dp.GetSum())
	}
	if dp.Min != nil {
		emit("lower", dp.GetMin())
	}
	if dp.Max != nil {
		emit("upper", dp.GetMax())
	}
	if bucketsOK {
		var cum uint64
		for j, c := range counts {
			cum += c
			bound := "+Inf"
			if j < len(bounds) {
				bound = jsNum(bounds[j])
			}
			emit("le:"+bound, float64(cum))
		}
	}
}

func otOpt(f *float64) string {
	if f == nil {
		return "-"
	}
	return fmt.Sprint(*f)
}

// CanonOTLP returns the Tags and Host that ParseOTLP reports for a series flushed with these tags and this source
// when the backend is faithful: equal tags collapse into one, "k:" is the bare tag "k", the source is the host unless
// the series has a tag with the key "host" (then no source is sent; a single host:<v> tag is reported as the host).
func CanonOTLP(tags []string, source string) (ctags []string, host string) {
	seen := map[string]bool{}
	var hostVals []string
	for _, t := range tags {
		k, v, _ := strings.Cut(t, ":")
		c := k
		if v != "" {
			c = k + ":" + v
		}
		if seen[c] {
			continue
		}
		seen[c] = true
		if k == "host" {
			hostVals = append(hostVals, v)
		}
		ctags = append(ctags, c)
	}
	switch {
	case len(hostVals) == 0:
		host = source
	case len(hostVals) == 1 && hostVals[0] != "":
		host = hostVals[0]
		var rest []string
		for _, c := range ctags {
			if c != "host:"+host {
				rest = append(rest, c)
			}
		}
		ctags = rest
	}
	return jsSorted(ctags), host
}
