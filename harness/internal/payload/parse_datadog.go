//go:build verif

package payload

// Datadog: POST <api_endpoint>/api/v1/series?api_key=..., Content-Type application/json, optional
// Content-Encoding deflate (zlib). Body, decoded here into structs written from the public v1 API:
//
//	{"series":[{"metric":"<name>","points":[[<unix seconds>,<value>], ...],"type":"gauge"|"rate"|"count",
//	            "interval":<seconds>,"host":"<host>","tags":["k:v","bare", ...]}, ...]}
//
// metric and points are mandatory, a point is an array of exactly two numbers, type (when present) is one of the
// three above, no other member is allowed in a series object, nothing may follow the top-level object. Requests to
// other paths (/api/v1/events) are ignored.
//
// Wire -> canonical, as pkg/backends/datadog names things (resolved against Options.Series because the scheme is not
// injective: "<n>.count" is a counter's total and a timer's count, and a gauge may itself be named "x.count"):
//
//	wire metric          wire type   kind     sub
//	<n>                  rate        counter  rate
//	<n>.count            gauge       counter  count
//	<n>                  gauge       gauge    value
//	<n>                  gauge       set      count
//	<n>.lower|upper|count|mean|median|std|sum|sum_squares
//	                     gauge       timer    same word
//	<n>.count_ps         rate        timer    rate
//	<n>.<pct>            gauge       timer    <pct>  (count_90, mean_90, sum_90, sum_squares_90, upper_90, lower_-90 ...)
//	<n>.histogram        count       timer    le:<bound>, the bound taken from the last tag "le:<bound>" ("+Inf" last)
//
// host -> Rec.Host (absent = ""), tags -> Rec.Tags unchanged (minus the bucket tag), one Rec per point.
// A series type that is absent counts as "gauge" (the API default).
// Items = number of series objects in the request; Bytes = length of the decoded body.
//
// Not resolvable from the wire: a gauge and a set of the same name (and tags) are both "<n>" / gauge; the parser
// assigns the wire items alternately (see jsResolver.resolve), so values may be swapped between the two.

import (
	"encoding/json"
	"net/url"
	"strings"

	"verifharness/internal/bk"
)

type ddBody struct {
	Series *[]json.RawMessage `json:"series"`
}

type ddSeries struct {
	Metric   *string            `json:"metric"`
	Points   *[]json.RawMessage `json:"points"`
	Type     *string            `json:"type"`
	Interval *json.RawMessage   `json:"interval"`
	Host     *string            `json:"host"`
	Tags     *[]string          `json:"tags"`
}

func ddSubs(pcts []float64) jsSubsFunc {
	return func(kind, suffix, wireType string) []jsSub {
		switch kind {
		case "counter":
			if suffix == "" && wireType == "rate" {
				return []jsSub{{sub: "rate"}}
			}
			if suffix == ".count" && wireType == "gauge" {
				return []jsSub{{sub: "count"}}
			}
		case "gauge":
			if suffix == "" && wireType == "gauge" {
				return []jsSub{{sub: "value"}}
			}
		case "set":
			if suffix == "" && wireType == "gauge" {
				return []jsSub{{sub: "count"}}
			}
		case "timer":
			if suffix == "" {
				return nil
			}
			sfx := suffix[1:]
			if sfx == "histogram" {
				if wireType == "count" {
					return []jsSub{{sub: "le"}}
				}
				return nil
			}
			sub, ok := jsPlainTimerSub(sfx, pcts)
			if !ok {
				return nil
			}
			want := "gauge"
			if sfx == "count_ps" {
				want = "rate"
			}
			if wireType == want {
				return []jsSub{{sub: sub}}
			}
		}
		return nil
	}
}

// ParseDatadog parses the requests of the "datadog" variant.
func ParseDatadog(attempts []bk.Attempt, opt Options) []Payload {
	res := jsNewResolver(opt)
	subs := ddSubs(opt.Percentiles)
	var out []Payload
	for _, a := range attempts {
		if u, err := url.Parse(a.URL); err == nil && !strings.HasSuffix(u.Path, "/api/v1/series") {
			continue // events and anything else
		}
		p := Payload{Index: len(out), Bytes: len(a.Decoded)}
		var e jsErrs
		if body := jsCheckHTTP(a.Method, a.Header, a.Decoded, a.DecodeErr, "application/json", &e); body != nil {
			ddParseBody(body, &p, &e, res, subs)
		}
		jsFinish(&p, &e)
		out = append(out, p)
	}
	return out
}

func ddParseBody(body []byte, p *Payload, e *jsErrs, res *jsResolver, subs jsSubsFunc) {
	var top ddBody
	if err := jsStrictJSON(body, &top); err != nil {
		e.addf("malformed JSON: %v", err)
		return
	}
	if top.Series == nil {
		e.addf(`no "series" member`)
		return
	}
	p.Items = len(*top.Series)
	for i, raw := range *top.Series {
		wire := jsCompact(raw)
		var s ddSeries
		if err := jsStrictJSON(raw, &s); err != nil {
			e.addf("series[%d]: %v", i, err)
			continue
		}
		if s.Metric == nil || *s.Metric == "" {
			e.addf(`series[%d]: no "metric"`, i)
			continue
		}
		typ := "gauge"
		if s.Type != nil {
			typ = *s.Type
			if typ != "gauge" && typ != "rate" && typ != "count" {
				e.addf("series[%d] %s: type %q is not one of gauge, rate, count", i, *s.Metric, typ)
			}
		}
		if s.Interval != nil {
			if f, err := jsFloat(*s.Interval); err != nil || f < 0 {
				e.addf("series[%d] %s: bad interval %s", i, *s.Metric, string(*s.Interval))
			}
		}
		if s.Points == nil || len(*s.Points) == 0 {
			e.addf(`series[%d] %s: no "points"`, i, *s.Metric)
			continue
		}
		var values []float64
		for j, rp := range *s.Points {
			var pt []json.RawMessage
			if err := jsStrictJSON(rp, &pt); err != nil {
				e.addf("series[%d] %s: points[%d]: %v", i, *s.Metric, j, err)
				continue
			}
			if len(pt) != 2 {
				e.addf("series[%d] %s: points[%d] has %d elements, want [timestamp, value]", i, *s.Metric, j, len(pt))
				continue
			}
			if _, err := jsFloat(pt[0]); err != nil {
				e.addf("series[%d] %s: points[%d] timestamp: %v", i, *s.Metric, j, err)
				continue
			}
			v, err := jsFloat(pt[1])
			if err != nil {
				e.addf("series[%d] %s: points[%d] value: %v", i, *s.Metric, j, err)
				continue
			}
			values = append(values, v)
		}
		var tags []string
		if s.Tags != nil {
			tags = *s.Tags
		}
		host := ""
		if s.Host != nil {
			host = *s.Host
		}

		rec := Rec{Name: *s.Metric, Tags: jsSorted(tags), Host: host, Wire: wire}
		m, ok := res.resolve(*s.Metric, typ, "", strings.Join(rec.Tags, ",")+"\x00"+host, subs)
		switch {
		case !ok:
			e.addf("unknown series on the wire: %s (type %s)", *s.Metric, typ)
		case m.sub.sub == "le":
			rest, bound, found := jsSplitLe(tags)
			if !found {
				e.addf("series[%d] %s: histogram bucket without an le: tag", i, *s.Metric)
				continue
			}
			rec.Kind, rec.Name, rec.Sub, rec.Tags = m.s.Kind, m.s.Name, "le:"+bound, jsSorted(rest)
		default:
			rec.Kind, rec.Name, rec.Sub = m.s.Kind, m.s.Name, m.sub.sub
		}
		for _, v := range values {
			r := rec
			r.Value = v
			p.Recs = append(p.Recs, r)
		}
	}
}

// CanonDatadog returns the Tags and Host that ParseDatadog reports for a series flushed with these tags and this
// source: the tags as they are (sorted), the source as host. For the harness's expected side.
func CanonDatadog(tags []string, source string) (ctags []string, host string) {
	return jsSorted(tags), source
}
