//go:build verif

package bk

import (
	"context"
	"sync"
	"time"

	awscw "github.com/aws/aws-sdk-go-v2/service/cloudwatch"
	"github.com/aws/aws-sdk-go-v2/service/cloudwatch/types"

	"github.com/atlassian/gostatsd/pkg/backends/cloudwatch"
)

// CWCall is one PutMetricData call made by the cloudwatch backend.
type CWCall struct {
	Seq       int
	Namespace string
	Data      []types.MetricDatum // the slice the backend passed (it aliases the backend's full metric list)
	At        time.Time
}

// CWScript implements the cloudwatch backend's CloudwatchClient interface in memory.
// Respond uses the same Outcome as HTTPScript: Err, Delay, Gate and Hang are honoured, Status / Header / Body are not
// (the AWS SDK would have turned a bad status into an error already). The zero value accepts every call.
type CWScript struct {
	Respond func(c CWCall) Outcome

	mu    sync.Mutex
	calls []CWCall
}

var _ cloudwatch.CloudwatchClient = (*CWScript)(nil)

// PutMetricData implements cloudwatch.CloudwatchClient.
func (s *CWScript) PutMetricData(ctx context.Context, in *awscw.PutMetricDataInput, _ ...func(*awscw.Options)) (*awscw.PutMetricDataOutput, error) {
	c := CWCall{Data: in.MetricData, At: time.Now()}
	if in.Namespace != nil {
		c.Namespace = *in.Namespace
	}
	s.mu.Lock()
	c.Seq = len(s.calls)
	s.calls = append(s.calls, c)
	respond := s.Respond
	s.mu.Unlock()

	var o Outcome
	if respond != nil {
		o = respond(c)
	}
	if err := o.wait(ctx); err != nil {
		return nil, err
	}
	if o.Err != nil {
		return nil, o.Err
	}
	return &awscw.PutMetricDataOutput{}, nil
}

// Calls returns a copy of the calls recorded so far.
func (s *CWScript) Calls() []CWCall {
	s.mu.Lock()
	defer s.mu.Unlock()
	return append([]CWCall(nil), s.calls...)
}
