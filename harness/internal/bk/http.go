//go:build verif

package bk

import (
	"bytes"
	"compress/flate"
	"compress/gzip"
	"compress/zlib"
	"context"
	"fmt"
	"io"
	"net/http"
	"strings"
	"sync"
	"time"
)

// Attempt is one HTTP request as it arrived at the transport (one element of a retry sequence is one Attempt).
type Attempt struct {
	Backend string      // Name of the script (Variant.New sets it to the variant name)
	Seq     int         // 0-based arrival order at this script, over all requests
	Method  string      //
	URL     string      // full URL including the query
	Header  http.Header // copy of the request headers
	Body    []byte      // raw bytes read from the request body, as sent
	Decoded []byte      // Body after undoing Content-Encoding gzip / deflate (zlib or raw); Body itself when identity
	// DecodeErr is set when Content-Encoding names a compression and Body does not decode (Decoded is then nil).
	DecodeErr error
	// ContentLength is what the request declared. Short reports that the body as handed to the transport was shorter
	// than that, which is what happens when an *http.Request whose body was already consumed is sent a second time
	// (otlp re-sends one request object on every retry). Rewound reports that Body was then obtained from
	// Request.GetBody, as net/http does on a reused connection; see DrainedPolicy.
	ContentLength int64
	Short         bool
	Rewound       bool
	At            time.Time // time.Now() on arrival (the bubble's clock inside synctest)
}

// Outcome says how the transport answers one Attempt. The zero value means "the script's default status, at once".
//
// Order of evaluation: wait for Gate (if any), then for Delay (if any), then answer with Err, or with Status.
// Both waits end early with the request context's error when that context is done.
type Outcome struct {
	Status int           // HTTP status; 0 = HTTPScript.DefaultStatus (200 when that is 0 too)
	Header http.Header   // response headers, e.g. Retry-After
	Body   []byte        // response body; empty by default (an empty body is a valid empty OTLP protobuf response)
	Err    error         // when set RoundTrip returns this error instead of a response
	Delay  time.Duration // slow response: answer after this long
	Gate   *Gate         // held response: answer once the gate is released
	Hang   bool          // never answer; only the request context ends the call
}

// OK answers with the default status.
func OK() Outcome { return Outcome{} }

// Status answers with the given status code and an empty body.
func Status(code int) Outcome { return Outcome{Status: code} }

// StatusRetryAfter answers with the code and a Retry-After header in seconds (newrelic honours it on 429).
func StatusRetryAfter(code, seconds int) Outcome {
	return Outcome{Status: code, Header: http.Header{"Retry-After": []string{fmt.Sprint(seconds)}}}
}

// Fail makes RoundTrip return err, as a refused / reset connection would.
func Fail(err error) Outcome { return Outcome{Err: err} }

// Hang blocks until the request context is done.
func Hang() Outcome { return Outcome{Hang: true} }

// Slow applies o after d.
func Slow(d time.Duration, o Outcome) Outcome { o.Delay = d; return o }

// Hold applies o once g is released.
func Hold(g *Gate, o Outcome) Outcome { o.Gate = g; return o }

// ErrClientTimeout is what RoundTrip returns when HTTPScript.Timeout expires. It reads like net/http's error for
// Client.Timeout, is a context.DeadlineExceeded for errors.Is and reports Timeout() == true.
var ErrClientTimeout error = clientTimeout{}

type clientTimeout struct{}

func (clientTimeout) Error() string {
	return "context deadline exceeded (Client.Timeout exceeded while awaiting headers)"
}
func (clientTimeout) Timeout() bool   { return true }
func (clientTimeout) Temporary() bool { return true }
func (clientTimeout) Unwrap() error   { return context.DeadlineExceeded }

// ErrRefused is a ready made connection error.
var ErrRefused = fmt.Errorf("dial tcp 192.0.2.1:443: connect: connection refused")

// Gate is a one-shot latch. The zero value is ready to use; its channel is made on first use, so a Gate that lives
// in a struct built outside a synctest bubble still gets a channel that belongs to the bubble using it.
type Gate struct {
	mu   sync.Mutex
	ch   chan struct{}
	done bool
}

// NewGate returns a closed-on-Release gate; the same as new(Gate).
func NewGate() *Gate { return &Gate{} }

// C returns the channel that is closed by Release.
func (g *Gate) C() <-chan struct{} {
	g.mu.Lock()
	defer g.mu.Unlock()
	if g.ch == nil {
		g.ch = make(chan struct{})
	}
	return g.ch
}

// Release opens the gate; every holder proceeds. Calling it again is a no-op.
func (g *Gate) Release() {
	g.mu.Lock()
	defer g.mu.Unlock()
	if g.ch == nil {
		g.ch = make(chan struct{})
	}
	if !g.done {
		g.done = true
		close(g.ch)
	}
}

// wait implements the blocking part of an Outcome. It returns ctx.Err() when ctx ends first.
func (o Outcome) wait(ctx context.Context) error {
	if o.Hang {
		<-ctx.Done()
		return ctx.Err()
	}
	if o.Gate != nil {
		select {
		case <-ctx.Done():
			return ctx.Err()
		case <-o.Gate.C():
		}
	}
	if o.Delay > 0 {
		t := time.NewTimer(o.Delay)
		defer t.Stop()
		select {
		case <-ctx.Done():
			return ctx.Err()
		case <-t.C:
		}
	}
	return ctx.Err() // a context that is already done loses, as with net/http
}

// DrainedPolicy selects which of net/http's two behaviours HTTPScript imitates for a request that declares a
// Content-Length but whose Body yields fewer bytes, because an earlier attempt consumed it.
//
// The real http.Transport fails to write such a request: "http: ContentLength=N with Body length M", before a single
// byte reaches the server. What happens next depends on the connection it had picked. On a reused keep-alive
// connection (the usual case when the previous attempt got an HTTP answer) the transport treats the failure as "nothing
// written", calls Request.GetBody and transparently retries on another connection: the server receives the full body.
// On a fresh connection (after a connection level failure, or with keep-alives off) there is no such retry and the
// error is returned to the caller; the server sees nothing. Both were confirmed against net/http of go1.26.
type DrainedPolicy int

const (
	// DrainedRewind: reused-connection behaviour. The body is taken from GetBody, the Attempt is recorded with the
	// full body, Short and Rewound set, and Respond is consulted. Without GetBody: as DrainedFail.
	DrainedRewind DrainedPolicy = iota
	// DrainedFail: fresh-connection behaviour. The Attempt is recorded with what was read and Short set, Respond is
	// not consulted, RoundTrip returns the ContentLength error.
	DrainedFail
	// DrainedPass: no imitation. The Attempt is recorded with what was read and Short set, Respond decides.
	DrainedPass
)

// HTTPScript is an in-memory http.RoundTripper that records every request and answers as scripted.
// The zero value answers 200 to everything. It creates no goroutines and no channels of its own.
type HTTPScript struct {
	// Name is copied into Attempt.Backend.
	Name string
	// Respond is consulted once per request, after the Attempt has been recorded. nil = always OK().
	// It is called without any lock held and may call back into the script (Attempts, InFlight).
	Respond func(a Attempt) Outcome
	// DefaultStatus is used for Outcome.Status == 0. 0 = 200.
	DefaultStatus int
	// Drained says what happens to a request whose body was consumed by an earlier attempt (Attempt.Short); see
	// DrainedPolicy. The default is DrainedRewind.
	Drained DrainedPolicy
	// Timeout, when positive, is a per request time limit enforced by RoundTrip itself: an Outcome that has not
	// answered by then ends with ErrClientTimeout. Variant.New sets it from Env.ClientTimeout; see there for why the
	// limit lives here and not in http.Client.Timeout.
	Timeout time.Duration

	mu       sync.Mutex
	attempts []Attempt
	seq      int
	inflight int
}

var _ http.RoundTripper = (*HTTPScript)(nil)

// RoundTrip implements http.RoundTripper.
func (s *HTTPScript) RoundTrip(req *http.Request) (*http.Response, error) {
	var body []byte
	if req.Body != nil {
		body, _ = io.ReadAll(req.Body)
		_ = req.Body.Close()
	}
	a := Attempt{
		Backend:       s.Name,
		Method:        req.Method,
		URL:           req.URL.String(),
		Header:        req.Header.Clone(),
		Body:          body,
		ContentLength: req.ContentLength,
		At:            time.Now(),
	}
	a.Short = req.ContentLength > 0 && int64(len(body)) < req.ContentLength
	if a.Short && s.Drained == DrainedRewind && req.GetBody != nil {
		if rc, err := req.GetBody(); err == nil {
			if b, err := io.ReadAll(rc); err == nil && int64(len(b)) == req.ContentLength {
				a.Body, a.Rewound = b, true
			}
			_ = rc.Close()
		}
	}
	body = a.Body
	a.Decoded, a.DecodeErr = Decode(req.Header.Get("Content-Encoding"), body)

	s.mu.Lock()
	a.Seq = s.seq
	s.seq++
	s.attempts = append(s.attempts, a)
	s.inflight++
	respond := s.Respond
	s.mu.Unlock()
	defer func() {
		s.mu.Lock()
		s.inflight--
		s.mu.Unlock()
	}()

	if a.Short && !a.Rewound && s.Drained != DrainedPass {
		return nil, fmt.Errorf("http: ContentLength=%d with Body length %d", req.ContentLength, len(body))
	}

	var o Outcome
	if respond != nil {
		o = respond(a)
	}
	ctx := req.Context()
	if s.Timeout > 0 {
		var cancel context.CancelFunc
		ctx, cancel = context.WithTimeout(ctx, s.Timeout)
		defer cancel()
	}
	if err := o.wait(ctx); err != nil {
		if req.Context().Err() == nil {
			return nil, ErrClientTimeout
		}
		return nil, err
	}
	if o.Err != nil {
		return nil, o.Err
	}
	code := o.Status
	if code == 0 {
		code = s.DefaultStatus
	}
	if code == 0 {
		code = http.StatusOK
	}
	h := o.Header.Clone()
	if h == nil {
		h = http.Header{}
	}
	return &http.Response{
		Status:        fmt.Sprintf("%d %s", code, http.StatusText(code)),
		StatusCode:    code,
		Proto:         "HTTP/1.1",
		ProtoMajor:    1,
		ProtoMinor:    1,
		Header:        h,
		Body:          io.NopCloser(bytes.NewReader(o.Body)),
		ContentLength: int64(len(o.Body)),
		Request:       req,
	}, nil
}

// Attempts returns a copy of everything recorded so far, in arrival order.
func (s *HTTPScript) Attempts() []Attempt {
	s.mu.Lock()
	defer s.mu.Unlock()
	return append([]Attempt(nil), s.attempts...)
}

// Take returns the recorded attempts and forgets them. Seq keeps counting.
func (s *HTTPScript) Take() []Attempt {
	s.mu.Lock()
	defer s.mu.Unlock()
	a := s.attempts
	s.attempts = nil
	return a
}

// Len is the number of attempts that have arrived so far (not reduced by Take).
func (s *HTTPScript) Len() int {
	s.mu.Lock()
	defer s.mu.Unlock()
	return s.seq
}

// InFlight is the number of requests that have arrived and not been answered yet.
func (s *HTTPScript) InFlight() int {
	s.mu.Lock()
	defer s.mu.Unlock()
	return s.inflight
}

// Decode undoes a Content-Encoding. "", "identity" return body itself; "gzip" and "deflate" (zlib framed, falling
// back to a raw deflate stream) are inflated; anything else is an error.
func Decode(encoding string, body []byte) ([]byte, error) {
	switch strings.ToLower(strings.TrimSpace(encoding)) {
	case "", "identity":
		return body, nil
	case "gzip", "x-gzip":
		r, err := gzip.NewReader(bytes.NewReader(body))
		if err != nil {
			return nil, err
		}
		return io.ReadAll(r)
	case "deflate", "zlib":
		if r, err := zlib.NewReader(bytes.NewReader(body)); err == nil {
			if b, err := io.ReadAll(r); err == nil {
				return b, nil
			}
		}
		b, err := io.ReadAll(flate.NewReader(bytes.NewReader(body)))
		if err != nil {
			return nil, err
		}
		return b, nil
	default:
		return nil, fmt.Errorf("bk: unknown Content-Encoding %q", encoding)
	}
}
