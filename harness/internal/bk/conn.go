//go:build verif

package bk

import (
	"net"
	"os"
	"sync"
	"time"
)

// Write is one call of Conn.Write.
type Write struct {
	Conn     int       // Conn.ID: the dial number that produced the connection
	Seq      int       // order over all connections of the ConnScript (per connection for an unattached Conn)
	Index    int       // 0-based number of this Write call on its connection
	Data     []byte    // copy of the bytes accepted, i.e. the first N bytes offered
	Offered  int       // len(p) of the call
	Err      error     // what Write returned
	Deadline time.Time // write deadline in force at the call (zero = none)
	At       time.Time // time.Now() when the call returned
}

// DialRecord is one call of the connection factory.
type DialRecord struct {
	Dial int       // 0-based
	Conn *Conn     // nil when the dial failed or returned a foreign net.Conn
	Err  error     //
	At   time.Time //
}

// ConnOption configures a Conn.
type ConnOption func(*Conn)

// FailNthWrite makes the n-th Write call (0-based) accept nothing and return err. Later writes succeed again unless
// configured otherwise (the sender drops the connection after the first error anyway).
func FailNthWrite(n int, err error) ConnOption {
	return func(c *Conn) {
		if c.failNth == nil {
			c.failNth = map[int]error{}
		}
		c.failNth[n] = err
	}
}

// FailAfterBytes lets the connection accept k bytes in total; the Write that crosses k is cut short (it reports the
// bytes that still fitted) and returns err, and so does every later Write.
func FailAfterBytes(k int, err error) ConnOption {
	return func(c *Conn) { c.failAfter, c.failAfterErr = k, err }
}

// StallNthWrite makes the n-th Write call (0-based) block until g is released (then it proceeds normally), the write
// deadline passes (os.ErrDeadlineExceeded, nothing accepted) or the connection is closed (net.ErrClosed).
// g may be nil: then only the deadline or Close end the call.
func StallNthWrite(n int, g *Gate) ConnOption {
	return func(c *Conn) {
		if c.stall == nil {
			c.stall = map[int]*Gate{}
		}
		if g == nil {
			g = &Gate{}
		}
		c.stall[n] = g
	}
}

// OnWrite installs a function that has the last word on every Write: it gets the call number, the bytes offered and
// what the options above decided, and returns the final result. n is clamped to 0..len(p).
func OnWrite(f func(i int, p []byte, n int, err error) (int, error)) ConnOption {
	return func(c *Conn) { c.onWrite = f }
}

// CloseError makes Close return err (the connection still counts as closed).
func CloseError(err error) ConnOption { return func(c *Conn) { c.closeErr = err } }

// Conn is an in-memory net.Conn that records what is written to it. Nothing is ever readable: Read blocks until the
// connection is closed. It owns no goroutines; its only channel is made lazily by the goroutine that first needs it.
type Conn struct {
	ID      int    // dial number, set when a ConnScript hands the connection out
	Network string // "tcp" or "udp"; informative (LocalAddr/RemoteAddr report it)

	failNth      map[int]error
	failAfter    int
	failAfterErr error
	stall        map[int]*Gate
	onWrite      func(i int, p []byte, n int, err error) (int, error)
	closeErr     error

	script *ConnScript
	closed Gate

	mu        sync.Mutex
	writes    []Write
	calls     int
	accepted  int
	wdeadline time.Time
	rdeadline time.Time
	isClosed  bool
	closedAt  time.Time
	nClose    int
}

var _ net.Conn = (*Conn)(nil)

// NewConn returns a healthy connection modified by opts.
func NewConn(opts ...ConnOption) *Conn {
	c := &Conn{failAfter: -1, Network: "tcp"}
	for _, o := range opts {
		o(c)
	}
	return c
}

type addr struct{ network, s string }

func (a addr) Network() string { return a.network }
func (a addr) String() string  { return a.s }

func (c *Conn) LocalAddr() net.Addr  { return addr{c.Network, "bk-local"} }
func (c *Conn) RemoteAddr() net.Addr { return addr{c.Network, "bk-remote"} }

// Read blocks until the connection is closed and then returns net.ErrClosed.
func (c *Conn) Read(p []byte) (int, error) {
	<-c.closed.C()
	return 0, net.ErrClosed
}

// Write implements net.Conn; see the ConnOptions for how it can be made to fail.
func (c *Conn) Write(p []byte) (int, error) {
	c.mu.Lock()
	i := c.calls
	c.calls++
	deadline := c.wdeadline
	wasClosed := c.isClosed
	gate := c.stall[i]
	c.mu.Unlock()

	n, err := 0, error(nil)
	switch {
	case wasClosed:
		err = net.ErrClosed
	case gate != nil:
		err = c.stallOn(gate, deadline)
	}
	if err == nil && !deadline.IsZero() && !time.Now().Before(deadline) {
		err = os.ErrDeadlineExceeded
	}

	c.mu.Lock()
	if err == nil {
		n = len(p)
		if e, ok := c.failNth[i]; ok {
			n, err = 0, e
		} else if c.failAfter >= 0 && c.accepted+len(p) > c.failAfter {
			n, err = max(c.failAfter-c.accepted, 0), c.failAfterErr
		}
	}
	c.mu.Unlock()
	if c.onWrite != nil && !wasClosed { // called without the lock: the hook may inspect the connection
		n, err = c.onWrite(i, p, n, err)
		n = min(max(n, 0), len(p))
	}
	c.mu.Lock()
	c.accepted += n
	w := Write{Conn: c.ID, Index: i, Data: append([]byte(nil), p[:n]...), Offered: len(p), Err: err, Deadline: deadline, At: time.Now()}
	if c.script == nil {
		w.Seq = len(c.writes)
	} else {
		w.Seq = c.script.record(w)
	}
	c.writes = append(c.writes, w)
	c.mu.Unlock()
	return n, err
}

func (c *Conn) stallOn(g *Gate, deadline time.Time) error {
	var expired <-chan time.Time
	if !deadline.IsZero() {
		t := time.NewTimer(time.Until(deadline))
		defer t.Stop()
		expired = t.C
	}
	select {
	case <-g.C():
		return nil
	case <-expired:
		return os.ErrDeadlineExceeded
	case <-c.closed.C():
		return net.ErrClosed
	}
}

// Close implements net.Conn. A second Close returns net.ErrClosed.
func (c *Conn) Close() error {
	c.mu.Lock()
	c.nClose++
	again := c.isClosed
	if !again {
		c.isClosed = true
		c.closedAt = time.Now()
	}
	c.mu.Unlock()
	if again {
		return net.ErrClosed
	}
	c.closed.Release()
	return c.closeErr
}

func (c *Conn) SetDeadline(t time.Time) error {
	c.mu.Lock()
	defer c.mu.Unlock()
	if c.isClosed {
		return net.ErrClosed
	}
	c.rdeadline, c.wdeadline = t, t
	return nil
}

func (c *Conn) SetReadDeadline(t time.Time) error {
	c.mu.Lock()
	defer c.mu.Unlock()
	if c.isClosed {
		return net.ErrClosed
	}
	c.rdeadline = t
	return nil
}

// SetWriteDeadline records the deadline; a Write that starts at or after it, or that is stalled when it passes,
// fails with os.ErrDeadlineExceeded.
func (c *Conn) SetWriteDeadline(t time.Time) error {
	c.mu.Lock()
	defer c.mu.Unlock()
	if c.isClosed {
		return net.ErrClosed
	}
	c.wdeadline = t
	return nil
}

// Writes returns a copy of the Write calls seen by this connection.
func (c *Conn) Writes() []Write {
	c.mu.Lock()
	defer c.mu.Unlock()
	return append([]Write(nil), c.writes...)
}

// Data is the concatenation of all bytes this connection accepted.
func (c *Conn) Data() []byte { return joinWrites(c.Writes()) }

// Closed reports whether Close has been called, and how many times.
func (c *Conn) Closed() (bool, int) {
	c.mu.Lock()
	defer c.mu.Unlock()
	return c.isClosed, c.nClose
}

func joinWrites(ws []Write) []byte {
	var b []byte
	for _, w := range ws {
		b = append(b, w.Data...)
	}
	return b
}

// ConnScript stands in for the function a sender.Sender dials with (sender.ConnFactory): use its Connect method.
// The zero value hands out a fresh healthy Conn on every dial.
type ConnScript struct {
	// Name is informative.
	Name string
	// Network ("tcp" / "udp") is copied into the connections the script makes itself.
	Network string
	// Dial decides each dial (0-based). It may return NewConn(...) values (their writes are then collected by the
	// script too), any other net.Conn, or an error such as ErrRefused. nil = NewConn() every time.
	// It is called without any lock held.
	Dial func(dial int) (net.Conn, error)

	mu     sync.Mutex
	dials  []DialRecord
	writes []Write
	seq    int
}

// Connect has the signature of sender.ConnFactory.
func (s *ConnScript) Connect() (net.Conn, error) {
	s.mu.Lock()
	n := len(s.dials)
	s.dials = append(s.dials, DialRecord{Dial: n, At: time.Now()})
	dial := s.Dial
	s.mu.Unlock()

	var (
		nc  net.Conn
		err error
	)
	if dial != nil {
		nc, err = dial(n)
	} else {
		nc = NewConn()
	}
	c, _ := nc.(*Conn)
	if c != nil && err == nil {
		c.mu.Lock()
		if c.script == nil {
			c.script, c.ID = s, n
			if s.Network != "" {
				c.Network = s.Network
			}
		}
		c.mu.Unlock()
	}
	s.mu.Lock()
	s.dials[n].Conn, s.dials[n].Err = c, err
	s.mu.Unlock()
	if err != nil {
		return nil, err
	}
	return nc, nil
}

func (s *ConnScript) record(w Write) int {
	s.mu.Lock()
	defer s.mu.Unlock()
	w.Seq = s.seq
	s.seq++
	s.writes = append(s.writes, w)
	return w.Seq
}

// FailDials is a ready made Dial: the listed dials fail with err, all others get a healthy connection.
func FailDials(err error, dials ...int) func(int) (net.Conn, error) {
	return func(d int) (net.Conn, error) {
		for _, x := range dials {
			if x == d {
				return nil, err
			}
		}
		return NewConn(), nil
	}
}

// Dials returns a copy of the dial log.
func (s *ConnScript) Dials() []DialRecord {
	s.mu.Lock()
	defer s.mu.Unlock()
	return append([]DialRecord(nil), s.dials...)
}

// Conns returns the connections handed out so far, in dial order.
func (s *ConnScript) Conns() []*Conn {
	var out []*Conn
	for _, d := range s.Dials() {
		if d.Conn != nil {
			out = append(out, d.Conn)
		}
	}
	return out
}

// Writes returns a copy of every Write call on every connection of this script, in the order they completed.
func (s *ConnScript) Writes() []Write {
	s.mu.Lock()
	defer s.mu.Unlock()
	return append([]Write(nil), s.writes...)
}

// Take returns the writes recorded so far and forgets them (the connections keep their own copies; Seq keeps counting).
func (s *ConnScript) Take() []Write {
	s.mu.Lock()
	defer s.mu.Unlock()
	w := s.writes
	s.writes = nil
	return w
}

// Data is the concatenation of all accepted bytes over all connections, in write order.
func (s *ConnScript) Data() []byte { return joinWrites(s.Writes()) }
