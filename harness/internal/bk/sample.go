//go:build verif

package bk

import (
	"time"

	"github.com/atlassian/gostatsd"
	"github.com/atlassian/gostatsd/pkg/statsd"
)

// SampleMap returns a small aggregated map as a flush would hand it to a backend: one counter, one gauge and one
// timer (three values, 90th percentile), all from source "h1" with tags, run through the real MetricAggregator
// (ReceiveMap, Flush over one second, Process).
func SampleMap() *gostatsd.MetricMap {
	agg := statsd.NewMetricAggregator([]float64{90}, 5*time.Minute, 5*time.Minute, 5*time.Minute, 5*time.Minute, gostatsd.TimerSubtypes{}, 0)
	in := gostatsd.NewMetricMap(false)
	ts := gostatsd.Nanotime(time.Now().UnixNano())
	for _, m := range []*gostatsd.Metric{
		{Name: "bk.counter", Type: gostatsd.COUNTER, Value: 5, Rate: 1, Tags: gostatsd.Tags{"env:test", "solo"}, Source: "h1", Timestamp: ts},
		{Name: "bk.gauge", Type: gostatsd.GAUGE, Value: 2.5, Rate: 1, Tags: gostatsd.Tags{"env:test"}, Source: "h1", Timestamp: ts},
		{Name: "bk.timer", Type: gostatsd.TIMER, Value: 10, Rate: 1, Tags: gostatsd.Tags{"env:test"}, Source: "h1", Timestamp: ts},
		{Name: "bk.timer", Type: gostatsd.TIMER, Value: 20, Rate: 1, Tags: gostatsd.Tags{"env:test"}, Source: "h1", Timestamp: ts},
		{Name: "bk.timer", Type: gostatsd.TIMER, Value: 60, Rate: 1, Tags: gostatsd.Tags{"env:test"}, Source: "h1", Timestamp: ts},
	} {
		in.Receive(m)
	}
	agg.ReceiveMap(in)
	agg.Flush(time.Second)
	var out *gostatsd.MetricMap
	agg.Process(func(mm *gostatsd.MetricMap) { out = mm })
	return out
}

// SampleEvent returns an event with every field set.
func SampleEvent() *gostatsd.Event {
	return &gostatsd.Event{
		Title:          "bk title",
		Text:           "line one\nline two",
		DateHappened:   time.Now().Unix(),
		AggregationKey: "agg",
		SourceTypeName: "src",
		Tags:           gostatsd.Tags{"env:test", "solo"},
		Source:         "h1",
		Priority:       gostatsd.PriLow,
		AlertType:      gostatsd.AlertWarning,
	}
}
