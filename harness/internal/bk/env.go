//go:build verif

// Package bk builds every backend bundled with gostatsd through its real NewClientFromViper constructor, wired to
// in-memory scriptable transports, so that tests can capture exactly what a backend writes and decide the result of
// every transport attempt.
//
//	env := bk.NewEnv()
//	env.HTTP.Respond = func(a bk.Attempt) bk.Outcome { if a.Seq == 0 { return bk.Status(503) }; return bk.OK() }
//	b, err := variant.New(env)
//	stop := env.Start(ctx, b)           // runs b.Run when the backend has one
//	b.SendMetricsAsync(env.Context(ctx), mm, cb)
//	synctest.Wait()
//	env.HTTP.Attempts() / env.Conn.Writes() / env.CW.Calls() / env.Stdout.Lines()
//	stop(); env.Close()
//
// Everything is meant to be used inside a testing/synctest bubble: nothing here listens, dials, or starts a
// goroutine on its own (only Env.Start does, on request), and every channel is made lazily by the goroutine that
// first needs it. Build Env, scripts and backends inside the bubble.
//
// The package needs the "verif" build tag, which also compiles the verif_hooks.go files of
// pkg/backends/{graphite,statsdaemon,cloudwatch} in the gostatsd tree.
package bk

import (
	"bytes"
	"context"
	"fmt"
	"io"
	"strings"
	"sync"
	"time"

	"github.com/sirupsen/logrus"
	"github.com/spf13/viper"

	"github.com/atlassian/gostatsd"
	"github.com/atlassian/gostatsd/pkg/backends/cloudwatch"
	"github.com/atlassian/gostatsd/pkg/backends/datadog"
	"github.com/atlassian/gostatsd/pkg/backends/graphite"
	"github.com/atlassian/gostatsd/pkg/backends/influxdb"
	"github.com/atlassian/gostatsd/pkg/backends/newrelic"
	"github.com/atlassian/gostatsd/pkg/backends/null"
	"github.com/atlassian/gostatsd/pkg/backends/otlp"
	"github.com/atlassian/gostatsd/pkg/backends/statsdaemon"
	"github.com/atlassian/gostatsd/pkg/backends/stdout"
	"github.com/atlassian/gostatsd/pkg/stats"
	"github.com/atlassian/gostatsd/pkg/transport"

	"verifharness/internal/fakes"
)

// Harness defaults (the backends' own defaults are 15 s, 2..10 x NumCPU and 10 s / 0).
const (
	DefaultMaxRequestElapsedTime = 3 * time.Second
	DefaultMaxRequests           = 4
	DefaultFlushInterval         = time.Second
	DefaultClientTimeout         = 10 * time.Second
)

// Env is what a Variant is built from and where its output ends up. The zero value is usable: nil fields are filled
// in by Variant.New. One Env serves one backend instance.
type Env struct {
	// Name is set by Variant.New to the variant name and copied into the scripts.
	Name string

	HTTP *HTTPScript // transport of datadog, influxdb, newrelic, otlp
	Conn *ConnScript // connection factory of graphite and statsdaemon
	CW   *CWScript   // API client of cloudwatch

	// Logger is handed to the backend. nil = a Debug level logrus logger writing into Logs.
	Logger logrus.FieldLogger
	Logs   *LogCapture
	// Stdout receives what the stdout backend prints. That backend writes through logrus.StandardLogger(), a process
	// global: the "stdout" variant redirects it (output, formatter, level) until Env.Close, so two such Envs must not
	// be alive at the same time.
	Stdout *LogCapture
	// Statser is attached to the contexts made by Context and Start (backends publish internal gauges through it).
	// nil = a fresh fakes.Statser. Without one the backends' Run would register with a process global null statser.
	Statser stats.Statser

	// Disabled becomes disabled-sub-metrics.* (all backends but otlp) and otlp.disabled_timer_aggregations.* (otlp
	// reads nothing else).
	Disabled gostatsd.TimerSubtypes
	// MetricsPerBatch becomes datadog.metrics_per_batch, influxdb.metrics-per-batch, newrelic.metrics-per-batch,
	// otlp.metrics_per_batch. 0 = the backend's default (1000 / 5000 / 1000 / 1000).
	MetricsPerBatch int
	// NoCompress becomes datadog.compress_payload / influxdb.compress-payload / otlp.compress_payload = false.
	// newrelic has no switch: insights and metrics always gzip, infra never does.
	NoCompress bool
	// MaxRequestElapsedTime is the retry window: datadog.max_request_elapsed_time, influxdb.max-request-elapsed-time,
	// newrelic.max-request-elapsed-time, otlp.max_request_elapsed_time. 0 = DefaultMaxRequestElapsedTime.
	// The backoff itself (500 ms x1.5, +-50 %, cenkalti/backoff) is not configurable.
	MaxRequestElapsedTime time.Duration
	// MaxRequests is the number of concurrent requests: datadog.max_requests, influxdb.max-requests,
	// newrelic.max-requests, otlp.max_requests. 0 = DefaultMaxRequests.
	MaxRequests int
	// FlushInterval is the top level flush-interval (datadog and newrelic put it into their payloads).
	// 0 = DefaultFlushInterval.
	FlushInterval time.Duration
	// ClientTimeout is the per request time limit that transport.default.client-timeout (http.Client.Timeout) imposes
	// in production. 0 = DefaultClientTimeout, the pool's default of 10 s; negative = none.
	// It is enforced by HTTPScript (HTTPScript.Timeout) while the pool is configured with client-timeout 0, because
	// for a RoundTripper that is not *http.Transport net/http implements Client.Timeout with one goroutine per request
	// that lives until resp.Body.Close() or the deadline. otlp never closes response bodies, so each of its requests
	// would leave a goroutine behind for 10 s, and a synctest bubble does not end while one is left (time stops
	// advancing once the bubble's main function has returned: "deadlock: main bubble goroutine has exited").
	ClientTimeout time.Duration
	// NativeClientTimeout hands ClientTimeout to the pool instead (http.Client.Timeout for real). A bubble using it
	// with otlp has to sleep ClientTimeout before it returns.
	NativeClientTimeout bool
	// WriteTimeout becomes graphite.write_timeout / statsdaemon.write_timeout. 0 = the backends' default, 30 s.
	WriteTimeout time.Duration
	// Overrides are raw viper keys applied last, for everything without a field above,
	// e.g. "otlp.max_retries": 0, "otlp.resource_keys": []string{"service"}, "influxdb.credentials": "tok",
	// "graphite.global_prefix": "x", "cloudwatch.namespace": "NS", "newrelic.tag-prefix": "t_".
	Overrides map[string]any

	mu       sync.Mutex
	cleanup  []func()
	runPanic any
}

// NewEnv returns an Env with empty scripts, so that they can be configured before a Variant is built from it.
func NewEnv() *Env {
	e := &Env{}
	e.fill()
	return e
}

// Set adds a raw viper override and returns e.
func (e *Env) Set(key string, value any) *Env {
	if e.Overrides == nil {
		e.Overrides = map[string]any{}
	}
	e.Overrides[key] = value
	return e
}

func (e *Env) fill() {
	if e.HTTP == nil {
		e.HTTP = &HTTPScript{}
	}
	if e.Conn == nil {
		e.Conn = &ConnScript{}
	}
	if e.CW == nil {
		e.CW = &CWScript{}
	}
	if e.Logs == nil {
		e.Logs = &LogCapture{}
	}
	if e.Stdout == nil {
		e.Stdout = &LogCapture{}
	}
	if e.Logger == nil {
		l := logrus.New()
		l.Out = e.Logs
		l.Level = logrus.DebugLevel
		l.Formatter = &logrus.TextFormatter{DisableTimestamp: true, DisableColors: true}
		e.Logger = l
	}
	if e.Statser == nil {
		e.Statser = fakes.NewStatser()
	}
}

// Context returns ctx with the Env's statser attached. Use it for SendMetricsAsync / SendEvent.
func (e *Env) Context(ctx context.Context) context.Context {
	e.fill()
	return stats.NewContext(ctx, e.Statser)
}

// Start runs b.Run(Context(ctx)) in a new goroutine when b is a gostatsd.Runner (graphite, statsdaemon, datadog,
// influxdb, newrelic) and does nothing otherwise. stop cancels that context and waits for Run to return; call it
// before the bubble ends. A panic in Run is caught and kept for RunPanic (the goroutine still ends).
func (e *Env) Start(ctx context.Context, b gostatsd.Backend) (stop func()) {
	r, ok := b.(gostatsd.Runner)
	if !ok {
		return func() {}
	}
	ctx, cancel := context.WithCancel(e.Context(ctx))
	done := make(chan struct{})
	go func() {
		defer close(done)
		defer func() {
			if p := recover(); p != nil {
				e.mu.Lock()
				e.runPanic = p
				e.mu.Unlock()
			}
		}()
		r.Run(ctx)
	}()
	return func() {
		cancel()
		<-done
	}
}

// RunPanic returns what the Run goroutine started by Start panicked with, or nil.
func (e *Env) RunPanic() any {
	e.mu.Lock()
	defer e.mu.Unlock()
	return e.runPanic
}

// Close undoes process global changes (the stdout variant's redirection of logrus.StandardLogger()).
func (e *Env) Close() {
	e.mu.Lock()
	c := e.cleanup
	e.cleanup = nil
	e.mu.Unlock()
	for i := len(c) - 1; i >= 0; i-- {
		c[i]()
	}
}

// ---------------------------------------------------------------- log capture

// LogCapture is a goroutine safe io.Writer that keeps what is written to it.
type LogCapture struct {
	mu  sync.Mutex
	buf bytes.Buffer
}

var _ io.Writer = (*LogCapture)(nil)

func (l *LogCapture) Write(p []byte) (int, error) {
	l.mu.Lock()
	defer l.mu.Unlock()
	return l.buf.Write(p)
}

func (l *LogCapture) String() string {
	l.mu.Lock()
	defer l.mu.Unlock()
	return l.buf.String()
}

// Lines returns the non-empty lines written so far.
func (l *LogCapture) Lines() []string {
	var out []string
	for _, s := range strings.Split(l.String(), "\n") {
		if s != "" {
			out = append(out, s)
		}
	}
	return out
}

func (l *LogCapture) Reset() {
	l.mu.Lock()
	defer l.mu.Unlock()
	l.buf.Reset()
}

type rawFormatter struct{}

func (rawFormatter) Format(e *logrus.Entry) ([]byte, error) { return []byte(e.Message + "\n"), nil }

// CaptureStdLogger points logrus.StandardLogger() at w with a formatter that prints the bare message per line, at
// Info level, and returns the function that restores the previous output, formatter and level.
func CaptureStdLogger(w io.Writer) (restore func()) {
	std := logrus.StandardLogger()
	oldOut, oldFmt, oldLevel := std.Out, std.Formatter, std.GetLevel()
	std.SetOutput(w)
	std.SetFormatter(rawFormatter{})
	std.SetLevel(logrus.InfoLevel)
	return func() {
		std.SetOutput(oldOut)
		std.SetFormatter(oldFmt)
		std.SetLevel(oldLevel)
	}
}

// ---------------------------------------------------------------- variants

// Kind names the seam a variant's traffic goes through.
type Kind string

const (
	KindHTTP Kind = "http" // Env.HTTP
	KindConn Kind = "conn" // Env.Conn
	KindAWS  Kind = "aws"  // Env.CW
	KindLog  Kind = "log"  // Env.Stdout
	KindNone Kind = "none" // null
)

// Variant is one backend in one mode.
type Variant struct {
	// Name is "<backend>" or "<backend>/<mode>", e.g. "graphite/tags", "influxdb/v2", "otlp/AsHistogram".
	Name string
	// Backend is the gostatsd backend name (Backend.Name()).
	Backend string
	Kind    Kind
	// HasRun: the backend implements gostatsd.Runner.
	HasRun bool
	// NeedsRun: without Run the callback of SendMetricsAsync is never invoked. True for graphite and statsdaemon:
	// their sender.Sender only takes streams off its queue (capacity 10) inside Run; the 11th SendMetricsAsync blocks
	// until its context is done. datadog, influxdb and newrelic have a Run too, but it only publishes internal gauges
	// on statser flush notifications; sending works without it.
	NeedsRun bool
	// SyncCallback: the callback runs on the caller's goroutine before SendMetricsAsync returns, so a transport that
	// blocks also blocks the caller (otlp: errgroup.Wait inside SendMetricsAsync; null; cloudwatch only for an empty map).
	SyncCallback bool
	// Events: SendEvent produces traffic on the variant's seam (graphite, cloudwatch and null drop events).
	Events bool
	// Keys lists the viper keys the variant sets (mode keys with their values) or maps from Env fields.
	Keys []string
	// New builds the backend from env through the real NewClientFromViper (cloudwatch: the hook that reads the same
	// keys), after pointing the transport at env's script. It fills env's nil fields.
	New func(env *Env) (gostatsd.Backend, error)

	conf func(e *Env, v *viper.Viper)
}

// Viper returns the configuration New would use for env.
func (vr Variant) Viper(env *Env) *viper.Viper {
	env.fill()
	v := viper.New()
	v.Set("flush-interval", orDur(env.FlushInterval, DefaultFlushInterval))
	if env.NativeClientTimeout {
		v.Set("transport.default.client-timeout", env.clientTimeout())
	} else {
		v.Set("transport.default.client-timeout", time.Duration(0))
	}
	d := env.Disabled
	for k, b := range map[string]bool{
		"lower": d.Lower, "lower-pct": d.LowerPct, "upper": d.Upper, "upper-pct": d.UpperPct,
		"count": d.Count, "count-pct": d.CountPct, "count-per-second": d.CountPerSecond,
		"mean": d.Mean, "mean-pct": d.MeanPct, "median": d.Median, "stddev": d.StdDev,
		"sum": d.Sum, "sum-pct": d.SumPct, "sum-squares": d.SumSquares, "sum-squares-pct": d.SumSquaresPct,
	} {
		v.Set("disabled-sub-metrics."+k, b)
	}
	if vr.conf != nil {
		vr.conf(env, v)
	}
	for k, x := range env.Overrides {
		v.Set(k, x)
	}
	return v
}

func (e *Env) clientTimeout() time.Duration {
	switch {
	case e.ClientTimeout == 0:
		return DefaultClientTimeout
	case e.ClientTimeout < 0:
		return 0
	}
	return e.ClientTimeout
}

func orDur(d, def time.Duration) time.Duration {
	if d == 0 {
		return def
	}
	return d
}

func orInt(n, def int) int {
	if n == 0 {
		return def
	}
	return n
}

type factory func(v *viper.Viper, logger logrus.FieldLogger, pool *transport.TransportPool) (gostatsd.Backend, error)

// httpVariant: the pool's "default" client gets env.HTTP as its transport before the backend is constructed; the
// backend then holds that same *http.Client (transport.TransportPool.Get caches by name).
func httpVariant(vr Variant, f factory) Variant {
	vr.Kind = KindHTTP
	vr.New = func(env *Env) (gostatsd.Backend, error) {
		v := vr.prepare(env)
		pool := transport.NewTransportPool(env.Logger, v)
		c, err := pool.Get("default")
		if err != nil {
			return nil, err
		}
		c.Client.Transport = env.HTTP
		if env.NativeClientTimeout {
			env.HTTP.Timeout = 0
		} else {
			env.HTTP.Timeout = env.clientTimeout()
		}
		return f(v, env.Logger, pool)
	}
	return vr
}

func (vr Variant) prepare(env *Env) *viper.Viper {
	env.fill()
	env.Name = vr.Name
	env.HTTP.Name, env.Conn.Name = vr.Name, vr.Name
	return vr.Viper(env)
}

func connVariant(vr Variant, network string, f factory) Variant {
	vr.Kind = KindConn
	vr.HasRun, vr.NeedsRun = true, true
	vr.New = func(env *Env) (gostatsd.Backend, error) {
		v := vr.prepare(env)
		env.Conn.Network = network
		b, err := f(v, env.Logger, transport.NewTransportPool(env.Logger, v))
		if err != nil {
			return nil, err
		}
		switch c := b.(type) {
		case *graphite.Client:
			c.SetConnFactory(env.Conn.Connect)
		case *statsdaemon.Client:
			c.SetConnFactory(env.Conn.Connect)
		default:
			return nil, fmt.Errorf("bk: %s: unexpected backend type %T", vr.Name, b)
		}
		return b, nil
	}
	return vr
}

func otlpDisabled(v *viper.Viper, d gostatsd.TimerSubtypes) {
	// otlp.Config embeds gostatsd.TimerSubtypes under the mapstructure name disabled_timer_aggregations; the field
	// names are matched case-insensitively. Only the non-percentile ones are used by the backend.
	for k, b := range map[string]bool{
		"lower": d.Lower, "upper": d.Upper, "count": d.Count, "countpersecond": d.CountPerSecond, "mean": d.Mean,
		"median": d.Median, "stddev": d.StdDev, "sum": d.Sum, "sumsquares": d.SumSquares,
	} {
		v.Set("otlp.disabled_timer_aggregations."+k, b)
	}
}

// Variants lists every bundled backend in every mode, 18 in all.
func Variants() []Variant {
	var out []Variant

	// graphite: one stream of one buffer per flush through sender.Sender. Events are dropped.
	for _, mode := range []string{"legacy", "basic", "tags"} {
		out = append(out, connVariant(Variant{
			Name: "graphite/" + mode, Backend: graphite.BackendName,
			Keys: []string{"graphite.mode=" + mode, "graphite.address", "graphite.write_timeout", "disabled-sub-metrics.*"},
			conf: func(e *Env, v *viper.Viper) {
				v.Set("graphite.mode", mode)
				v.Set("graphite.address", "graphite.test:2003") // never dialled
				if e.WriteTimeout != 0 {
					v.Set("graphite.write_timeout", e.WriteTimeout)
				}
			},
		}, "tcp", graphite.NewClientFromViper))
	}

	// statsdaemon: one stream of N buffers (<= 1472 bytes for udp, <= 1 MiB for tcp) per flush through
	// sender.Sender; SendEvent dials a connection of its own, writes once and closes it.
	for _, tcp := range []bool{false, true} {
		for _, notags := range []bool{false, true} {
			network, name := "udp", "statsdaemon/udp"
			if tcp {
				network, name = "tcp", "statsdaemon/tcp"
			}
			if notags {
				name += "/notags"
			}
			out = append(out, connVariant(Variant{
				Name: name, Backend: statsdaemon.BackendName, Events: true,
				Keys: []string{fmt.Sprintf("statsdaemon.tcp_transport=%v", tcp), fmt.Sprintf("statsdaemon.disable_tags=%v", notags),
					"statsdaemon.address", "statsdaemon.write_timeout"},
				conf: func(e *Env, v *viper.Viper) {
					v.Set("statsdaemon.address", "statsd.test:8125") // never dialled
					v.Set("statsdaemon.tcp_transport", tcp)
					v.Set("statsdaemon.disable_tags", notags)
					if e.WriteTimeout != 0 {
						v.Set("statsdaemon.write_timeout", e.WriteTimeout)
					}
				},
			}, network, statsdaemon.NewClientFromViper))
		}
	}

	out = append(out, httpVariant(Variant{
		Name: "datadog", Backend: datadog.BackendName, HasRun: true, Events: true,
		Keys: []string{"datadog.api_key", "datadog.api_endpoint", "datadog.metrics_per_batch", "datadog.compress_payload",
			"datadog.max_request_elapsed_time", "datadog.max_requests", "flush-interval", "disabled-sub-metrics.*"},
		conf: func(e *Env, v *viper.Viper) {
			v.Set("datadog.api_key", "bk-api-key")
			v.Set("datadog.api_endpoint", "http://datadog.test")
			if e.MetricsPerBatch != 0 {
				v.Set("datadog.metrics_per_batch", e.MetricsPerBatch)
			}
			v.Set("datadog.compress_payload", !e.NoCompress)
			v.Set("datadog.max_request_elapsed_time", orDur(e.MaxRequestElapsedTime, DefaultMaxRequestElapsedTime))
			v.Set("datadog.max_requests", orInt(e.MaxRequests, DefaultMaxRequests))
		},
	}, datadog.NewClientFromViper))

	for _, ver := range []int{1, 2} {
		out = append(out, httpVariant(Variant{
			Name: fmt.Sprintf("influxdb/v%d", ver), Backend: influxdb.BackendName, HasRun: true, Events: true,
			Keys: []string{fmt.Sprintf("influxdb.api-version=%d", ver), "influxdb.api-endpoint", "influxdb.database (v1)",
				"influxdb.bucket, influxdb.org (v2)", "influxdb.metrics-per-batch", "influxdb.compress-payload",
				"influxdb.max-request-elapsed-time", "influxdb.max-requests", "disabled-sub-metrics.*"},
			conf: func(e *Env, v *viper.Viper) {
				v.Set("influxdb.api-version", ver)
				v.Set("influxdb.api-endpoint", "http://influxdb.test:8086")
				if ver == 1 {
					v.Set("influxdb.database", "bkdb")
				} else {
					v.Set("influxdb.bucket", "bkbucket")
					v.Set("influxdb.org", "bkorg")
				}
				if e.MetricsPerBatch != 0 {
					v.Set("influxdb.metrics-per-batch", e.MetricsPerBatch)
				}
				v.Set("influxdb.compress-payload", !e.NoCompress)
				v.Set("influxdb.max-request-elapsed-time", orDur(e.MaxRequestElapsedTime, DefaultMaxRequestElapsedTime))
				v.Set("influxdb.max-requests", orInt(e.MaxRequests, DefaultMaxRequests))
			},
		}, influxdb.NewClientFromViper))
	}

	for _, ft := range []string{"infra", "insights", "metrics"} {
		out = append(out, httpVariant(Variant{
			Name: "newrelic/" + ft, Backend: newrelic.BackendName, HasRun: true, Events: true,
			Keys: []string{"newrelic.flush-type=" + ft, "newrelic.address", "newrelic.address-metrics (metrics)",
				"newrelic.api-key (insights, metrics)", "newrelic.metrics-per-batch", "newrelic.max-request-elapsed-time",
				"newrelic.max-requests", "flush-interval", "disabled-sub-metrics.*"},
			conf: func(e *Env, v *viper.Viper) {
				v.Set("newrelic.flush-type", ft)
				v.Set("newrelic.address", "http://newrelic.test/v1/data")
				if ft == "metrics" {
					v.Set("newrelic.address-metrics", "http://newrelic-metrics.test/metric/v1")
				}
				if ft != "infra" {
					v.Set("newrelic.api-key", "bk-insert-key")
				}
				if e.MetricsPerBatch != 0 {
					v.Set("newrelic.metrics-per-batch", e.MetricsPerBatch)
				}
				v.Set("newrelic.max-request-elapsed-time", orDur(e.MaxRequestElapsedTime, DefaultMaxRequestElapsedTime))
				v.Set("newrelic.max-requests", orInt(e.MaxRequests, DefaultMaxRequests))
			},
		}, newrelic.NewClientFromViper))
	}

	for _, conv := range []string{otlp.ConversionAsGauge, otlp.ConversionAsHistogram} {
		out = append(out, httpVariant(Variant{
			Name: "otlp/" + conv, Backend: otlp.BackendName, SyncCallback: true, Events: true,
			Keys: []string{"otlp.conversion=" + conv, "otlp.metrics_endpoint", "otlp.logs_endpoint", "otlp.metrics_per_batch",
				"otlp.compress_payload", "otlp.max_request_elapsed_time", "otlp.max_requests", "otlp.max_retries (Overrides)",
				"otlp.disabled_timer_aggregations.*"},
			conf: func(e *Env, v *viper.Viper) {
				v.Set("otlp.conversion", conv)
				v.Set("otlp.metrics_endpoint", "http://otlp.test/v1/metrics")
				v.Set("otlp.logs_endpoint", "http://otlp.test/v1/logs")
				if e.MetricsPerBatch != 0 {
					v.Set("otlp.metrics_per_batch", e.MetricsPerBatch)
				}
				v.Set("otlp.compress_payload", !e.NoCompress)
				v.Set("otlp.max_request_elapsed_time", orDur(e.MaxRequestElapsedTime, DefaultMaxRequestElapsedTime))
				v.Set("otlp.max_requests", orInt(e.MaxRequests, DefaultMaxRequests))
				otlpDisabled(v, e.Disabled)
			},
		}, otlp.NewClientFromViper))
	}

	// cloudwatch: sequential PutMetricData calls of <= 20 data each on one goroutine. Events are dropped.
	cw := Variant{
		Name: "cloudwatch", Backend: cloudwatch.BackendName, Kind: KindAWS,
		Keys: []string{"cloudwatch.namespace", "disabled-sub-metrics.*"},
	}
	cw.New = func(env *Env) (gostatsd.Backend, error) {
		v := cw.prepare(env)
		return cloudwatch.NewClientFromViperWithAPI(v, env.Logger, env.CW)
	}
	out = append(out, cw)

	// stdout: one goroutine per flush writing through logrus.StandardLogger().Writer(), i.e. an io.Pipe plus a
	// scanner goroutine that logs each line at Info level.
	so := Variant{
		Name: "stdout", Backend: stdout.BackendName, Kind: KindLog, Events: true,
		Keys: []string{"disabled-sub-metrics.*"},
	}
	so.New = func(env *Env) (gostatsd.Backend, error) {
		v := so.prepare(env)
		restore := CaptureStdLogger(env.Stdout)
		env.mu.Lock()
		env.cleanup = append(env.cleanup, restore)
		env.mu.Unlock()
		return stdout.NewClientFromViper(v, env.Logger, transport.NewTransportPool(env.Logger, v))
	}
	out = append(out, so)

	nl := Variant{Name: "null", Backend: null.BackendName, Kind: KindNone, SyncCallback: true}
	nl.New = func(env *Env) (gostatsd.Backend, error) {
		v := nl.prepare(env)
		return null.NewClientFromViper(v, env.Logger, transport.NewTransportPool(env.Logger, v))
	}
	out = append(out, nl)

	return out
}

// ByName finds a variant.
func ByName(name string) (Variant, bool) {
	for _, v := range Variants() {
		if v.Name == name {
			return v, true
		}
	}
	return Variant{}, false
}
