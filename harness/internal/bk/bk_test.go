//go:build verif

package bk

import (
	"context"
	"errors"
	"net"
	"os"
	"strings"
	"sync"
	"testing"
	"testing/synctest"
	"time"

	"github.com/atlassian/gostatsd"
)

type cbRec struct {
	mu    sync.Mutex
	calls int
	errs  []error
}

func (c *cbRec) cb(errs []error) {
	c.mu.Lock()
	defer c.mu.Unlock()
	c.calls++
	for _, e := range errs {
		if e != nil {
			c.errs = append(c.errs, e)
		}
	}
}

func (c *cbRec) get() (int, []error) {
	c.mu.Lock()
	defer c.mu.Unlock()
	return c.calls, append([]error(nil), c.errs...)
}

// TestEveryVariant builds each variant in a bubble, flushes the sample map and one event through it and checks that
// the callback ran exactly once without errors and that the traffic was captured on the variant's seam.
func TestEveryVariant(t *testing.T) {
	vs := Variants()
	if len(vs) < 16 {
		t.Fatalf("only %d variants", len(vs))
	}
	seen := map[string]bool{}
	for _, v := range vs {
		if seen[v.Name] {
			t.Fatalf("duplicate variant %s", v.Name)
		}
		seen[v.Name] = true
		t.Run(v.Name, func(t *testing.T) {
			synctest.Test(t, func(t *testing.T) {
				env := NewEnv()
				defer env.Close()
				b, err := v.New(env)
				if err != nil {
					t.Fatalf("New: %v", err)
				}
				if b.Name() != v.Backend {
					t.Fatalf("Name() = %q, want %q", b.Name(), v.Backend)
				}
				if _, isRunner := b.(gostatsd.Runner); isRunner != v.HasRun {
					t.Fatalf("HasRun = %v but Runner = %v", v.HasRun, isRunner)
				}
				ctx, cancel := context.WithCancel(context.Background())
				defer cancel()
				stop := env.Start(ctx, b)
				defer stop()

				var rec cbRec
				returned := false
				go func() {
					b.SendMetricsAsync(env.Context(ctx), SampleMap(), rec.cb)
					returned = true
				}()
				synctest.Wait()
				if !returned {
					t.Fatalf("SendMetricsAsync has not returned")
				}
				if n, errs := rec.get(); n != 1 || len(errs) != 0 {
					t.Fatalf("callback calls = %d, errors = %v", n, errs)
				}
				metricAttempts, metricWrites, metricCalls := env.HTTP.Len(), len(env.Conn.Writes()), len(env.CW.Calls())
				metricLines := len(env.Stdout.Lines())

				if err := b.SendEvent(env.Context(ctx), SampleEvent()); err != nil {
					t.Fatalf("SendEvent: %v", err)
				}
				synctest.Wait()
				if n, _ := rec.get(); n != 1 {
					t.Fatalf("callback calls after event = %d", n)
				}

				switch v.Kind {
				case KindHTTP:
					as := env.HTTP.Attempts()
					if metricAttempts < 1 {
						t.Fatalf("no metric request captured")
					}
					if v.Events && len(as) <= metricAttempts {
						t.Fatalf("no event request captured")
					}
					for _, a := range as {
						if a.Backend != v.Name || a.DecodeErr != nil || len(a.Decoded) == 0 || a.Short || a.Method != "POST" {
							t.Fatalf("bad attempt %+v", a)
						}
						t.Logf("%s #%d %s enc=%q ct=%q body=%dB decoded=%dB", v.Name, a.Seq, a.URL, a.Header.Get("Content-Encoding"),
							a.Header.Get("Content-Type"), len(a.Body), len(a.Decoded))
					}
				case KindConn:
					if metricWrites < 1 {
						t.Fatalf("no metric write captured")
					}
					ws := env.Conn.Writes()
					if v.Events && len(ws) <= metricWrites {
						t.Fatalf("no event write captured")
					}
					for _, c := range env.Conn.Conns() {
						if c.Network != env.Conn.Network {
							t.Fatalf("network %q", c.Network)
						}
					}
					for _, w := range ws {
						if w.Err != nil || len(w.Data) != w.Offered {
							t.Fatalf("bad write %+v", w)
						}
						t.Logf("%s conn=%d write#%d deadline=+%v %q", v.Name, w.Conn, w.Seq, w.Deadline.Sub(w.At), firstLine(w.Data))
					}
					t.Logf("%s dials=%d bytes=%d", v.Name, len(env.Conn.Dials()), len(env.Conn.Data()))
				case KindAWS:
					if metricCalls < 1 {
						t.Fatalf("no PutMetricData captured")
					}
					for _, c := range env.CW.Calls() {
						t.Logf("%s call#%d ns=%s data=%d first=%s", v.Name, c.Seq, c.Namespace, len(c.Data), *c.Data[0].MetricName)
					}
				case KindLog:
					lines := env.Stdout.Lines()
					if metricLines < 1 || len(lines) <= metricLines {
						t.Fatalf("stdout lines: %d after metrics, %d after event", metricLines, len(lines))
					}
					t.Logf("%s %d lines, first %q, last %q", v.Name, len(lines), lines[0], lines[len(lines)-1])
				case KindNone:
					t.Logf("%s nothing to capture", v.Name)
				}
				t.Logf("%s ok: needsRun=%v syncCallback=%v events=%v keys=%v", v.Name, v.NeedsRun, v.SyncCallback, v.Events, v.Keys)
			})
		})
	}
}

func firstLine(b []byte) string {
	s := string(b)
	if i := strings.IndexByte(s, '\n'); i >= 0 {
		s = s[:i]
	}
	if len(s) > 90 {
		s = s[:90] + "..."
	}
	return s
}

// TestHTTPScriptOutcomes drives the scripted transport through datadog: 503, a connection error, a slow answer cut
// by the client timeout, then a held answer that is released.
func TestHTTPScriptOutcomes(t *testing.T) {
	synctest.Test(t, func(t *testing.T) {
		env := NewEnv()
		env.MaxRequestElapsedTime = time.Minute
		env.ClientTimeout = 2 * time.Second
		gate := NewGate()
		env.HTTP.Respond = func(a Attempt) Outcome {
			switch a.Seq {
			case 0:
				return Status(503)
			case 1:
				return Fail(ErrRefused)
			case 2:
				return Slow(time.Hour, OK()) // client timeout wins
			case 3:
				return Hold(gate, Status(202))
			}
			return OK()
		}
		v, _ := ByName("datadog")
		b, err := v.New(env)
		if err != nil {
			t.Fatal(err)
		}
		var rec cbRec
		start := time.Now()
		b.SendMetricsAsync(env.Context(context.Background()), SampleMap(), rec.cb)
		synctest.Wait()
		// The bubble's clock only moves while every goroutine, this one included, is durably blocked: sleep in steps
		// until the backoff timers and the client timeout have brought the fourth attempt.
		for i := 0; i < 100 && env.HTTP.Len() < 4; i++ {
			time.Sleep(500 * time.Millisecond)
			synctest.Wait()
		}
		if env.HTTP.Len() != 4 || env.HTTP.InFlight() != 1 {
			t.Fatalf("attempts=%d inflight=%d", env.HTTP.Len(), env.HTTP.InFlight())
		}
		if n, _ := rec.get(); n != 0 {
			t.Fatalf("callback ran while the request is held")
		}
		gate.Release()
		synctest.Wait()
		if n, errs := rec.get(); n != 1 || len(errs) != 0 {
			t.Fatalf("callback calls = %d, errors = %v", n, errs)
		}
		as := env.HTTP.Attempts()
		for _, a := range as[1:] {
			if string(a.Body) != string(as[0].Body) {
				t.Fatalf("retry body differs")
			}
		}
		t.Logf("datadog: 4 attempts over %v virtual, offsets %v %v %v", time.Since(start), as[1].At.Sub(as[0].At), as[2].At.Sub(as[0].At), as[3].At.Sub(as[0].At))
		if !strings.Contains(env.Logs.String(), "failed to send") {
			t.Fatalf("expected retry warnings in the captured log")
		}
	})
}

// TestHTTPScriptCancel: a hung request ends with the context.
func TestHTTPScriptCancel(t *testing.T) {
	synctest.Test(t, func(t *testing.T) {
		env := NewEnv()
		env.ClientTimeout = time.Hour
		env.HTTP.Respond = func(Attempt) Outcome { return Hang() }
		v, _ := ByName("influxdb/v2")
		b, err := v.New(env)
		if err != nil {
			t.Fatal(err)
		}
		ctx, cancel := context.WithCancel(context.Background())
		var rec cbRec
		b.SendMetricsAsync(env.Context(ctx), SampleMap(), rec.cb)
		synctest.Wait()
		if env.HTTP.InFlight() != 1 {
			t.Fatalf("inflight=%d", env.HTTP.InFlight())
		}
		cancel()
		synctest.Wait()
		n, errs := rec.get()
		if n != 1 || len(errs) != 1 || env.HTTP.InFlight() != 0 {
			t.Fatalf("callback calls = %d, errors = %v, inflight = %d", n, errs, env.HTTP.InFlight())
		}
		t.Logf("influxdb/v2 cancelled: %v", errs)
	})
}

// TestOTLPRetryBody shows what DrainedPolicy is for: otlp re-sends the same *http.Request on every retry.
func TestOTLPRetryBody(t *testing.T) {
	for _, pol := range []DrainedPolicy{DrainedRewind, DrainedFail, DrainedPass} {
		synctest.Test(t, func(t *testing.T) {
			env := NewEnv()
			env.HTTP.Drained = pol
			env.HTTP.Respond = func(a Attempt) Outcome {
				if a.Seq == 0 {
					return Status(503)
				}
				return OK()
			}
			v, _ := ByName("otlp/AsGauge")
			b, err := v.New(env)
			if err != nil {
				t.Fatal(err)
			}
			var rec cbRec
			go b.SendMetricsAsync(env.Context(context.Background()), SampleMap(), rec.cb)
			synctest.Wait()
			for i := 0; i < 100; i++ { // sleeping lets the bubble's clock reach the backoff timers
				if n, _ := rec.get(); n > 0 {
					break
				}
				time.Sleep(500 * time.Millisecond)
				synctest.Wait()
			}
			n, errs := rec.get()
			as := env.HTTP.Attempts()
			t.Logf("otlp after a 503, policy %d: callback calls=%d errors=%v attempts=%d", pol, n, errs, len(as))
			for _, a := range as {
				t.Logf("  #%d declared=%d body=%d short=%v rewound=%v", a.Seq, a.ContentLength, len(a.Body), a.Short, a.Rewound)
			}
			if n != 1 || len(as) < 2 || !as[1].Short {
				t.Fatalf("callback calls = %d, attempts = %d", n, len(as))
			}
			switch pol {
			case DrainedRewind:
				if len(errs) != 0 || len(as) != 2 || !as[1].Rewound || string(as[1].Body) != string(as[0].Body) {
					t.Fatalf("rewind: errors = %v, attempts = %d", errs, len(as))
				}
			case DrainedFail:
				if len(errs) != 1 || len(as) != 4 || !strings.Contains(errs[0].Error(), "ContentLength=") {
					t.Fatalf("fail: errors = %v, attempts = %d", errs, len(as))
				}
			case DrainedPass:
				if len(errs) != 0 || len(as) != 2 || len(as[1].Body) != 0 {
					t.Fatalf("pass: errors = %v, attempts = %d", errs, len(as))
				}
			}
		})
	}
}

// TestConnScriptOutcomes: refused dials, a failing write, a short write, a stalled write hitting its deadline.
func TestConnScriptOutcomes(t *testing.T) {
	synctest.Test(t, func(t *testing.T) {
		env := NewEnv()
		env.WriteTimeout = 5 * time.Second
		boom := errors.New("boom")
		env.Conn.Dial = func(d int) (net.Conn, error) {
			switch d {
			case 0:
				return nil, ErrRefused
			case 1:
				return NewConn(FailNthWrite(0, boom)), nil
			case 2:
				return NewConn(FailAfterBytes(10, boom)), nil
			case 3:
				return NewConn(StallNthWrite(0, nil)), nil
			}
			return NewConn(), nil
		}
		v, _ := ByName("graphite/tags")
		b, err := v.New(env)
		if err != nil {
			t.Fatal(err)
		}
		ctx, cancel := context.WithCancel(context.Background())
		stop := env.Start(ctx, b)
		var recs [4]cbRec
		start := time.Now()
		for i := range recs {
			b.SendMetricsAsync(env.Context(ctx), SampleMap(), recs[i].cb)
			synctest.Wait()
			for j := 0; j < 20; j++ {
				if n, _ := recs[i].get(); n > 0 {
					break
				}
				time.Sleep(time.Second)
				synctest.Wait()
			}
			n, errs := recs[i].get()
			t.Logf("graphite/tags flush %d at +%v: callback calls=%d errors=%v dials=%d", i, time.Since(start), n, errs, len(env.Conn.Dials()))
			if n != 1 {
				t.Fatalf("flush %d: callback calls = %d", i, n)
			}
		}
		ws := env.Conn.Writes()
		if len(ws) != 4 {
			t.Fatalf("writes = %d", len(ws))
		}
		if ws[0].Err != boom || len(ws[0].Data) != 0 {
			t.Fatalf("write 0: %+v", ws[0])
		}
		if ws[1].Err != boom || len(ws[1].Data) != 10 {
			t.Fatalf("write 1: %+v", ws[1])
		}
		if !errors.Is(ws[2].Err, os.ErrDeadlineExceeded) || ws[2].At.Sub(ws[2].Deadline) != 0 {
			t.Fatalf("write 2: %+v", ws[2])
		}
		if ws[3].Err != nil || len(ws[3].Data) != ws[3].Offered {
			t.Fatalf("write 3: %+v", ws[3])
		}
		stop()
		cancel()
		for _, c := range env.Conn.Conns() {
			if closed, n := c.Closed(); !closed || n != 1 {
				t.Fatalf("conn %d closed=%v n=%d", c.ID, closed, n)
			}
		}
		if p := env.RunPanic(); p != nil {
			t.Fatalf("Run panicked: %v", p)
		}
	})
}

// TestCloudwatchOutcome: an error on the first PutMetricData reaches the callback; later calls still happen.
func TestCloudwatchOutcome(t *testing.T) {
	synctest.Test(t, func(t *testing.T) {
		env := NewEnv()
		boom := errors.New("throttled")
		env.CW.Respond = func(c CWCall) Outcome {
			if c.Seq == 0 {
				return Slow(time.Second, Fail(boom))
			}
			return OK()
		}
		v, _ := ByName("cloudwatch")
		b, err := v.New(env)
		if err != nil {
			t.Fatal(err)
		}
		mm := SampleMap()
		for i := 0; i < 30; i++ { // more than 20 data: two calls
			mm.Gauges["g"+string(rune('a'+i))] = mm.Gauges["bk.gauge"]
		}
		var rec cbRec
		b.SendMetricsAsync(env.Context(context.Background()), mm, rec.cb)
		time.Sleep(2 * time.Second)
		synctest.Wait()
		n, errs := rec.get()
		if n != 1 || len(errs) != 1 || errs[0] != boom || len(env.CW.Calls()) != 3 {
			t.Fatalf("callback calls = %d, errors = %v, calls = %d", n, errs, len(env.CW.Calls()))
		}
	})
}

// TestNeedsRun checks Variant.NeedsRun: without Run, exactly the variants that need it never call back.
func TestNeedsRun(t *testing.T) {
	for _, v := range Variants() {
		synctest.Test(t, func(t *testing.T) {
			env := NewEnv()
			defer env.Close()
			b, err := v.New(env)
			if err != nil {
				t.Fatal(err)
			}
			var rec cbRec
			go b.SendMetricsAsync(env.Context(context.Background()), SampleMap(), rec.cb)
			time.Sleep(time.Minute)
			synctest.Wait()
			if n, _ := rec.get(); (n == 0) != v.NeedsRun || n > 1 {
				t.Fatalf("%s: NeedsRun = %v but callback calls without Run = %d", v.Name, v.NeedsRun, n)
			}
		})
	}
}

// TestNativeClientTimeout: with NativeClientTimeout the limit is http.Client.Timeout itself.
func TestNativeClientTimeout(t *testing.T) {
	for _, native := range []bool{false, true} {
		synctest.Test(t, func(t *testing.T) {
			env := NewEnv()
			env.NativeClientTimeout = native
			env.ClientTimeout = 2 * time.Second
			env.MaxRequestElapsedTime = time.Second
			env.HTTP.Respond = func(Attempt) Outcome { return Hang() }
			v, _ := ByName("newrelic/insights")
			b, err := v.New(env)
			if err != nil {
				t.Fatal(err)
			}
			var rec cbRec
			start := time.Now()
			b.SendMetricsAsync(env.Context(context.Background()), SampleMap(), rec.cb)
			time.Sleep(2*time.Second + time.Millisecond)
			synctest.Wait()
			n, errs := rec.get()
			// net/http appends "(Client.Timeout exceeded ...)" only when its timer goroutine has run before the context
			// deadline is noticed; both are due at the same instant, so the native wording varies.
			if n != 1 || len(errs) != 1 || !strings.Contains(errs[0].Error(), "context deadline exceeded") {
				t.Fatalf("native=%v: callback calls = %d, errors = %v", native, n, errs)
			}
			t.Logf("native=%v after %v: %v", native, time.Since(start), errs[0])
		})
	}
}
