// Package trace writes NDJSON traces for TLC trace validation (R3). Events are ordered by the order of Emit calls,
// which callers make inside the seam that constitutes the event (see DESIGN.md 5.1).
package trace

import (
	"bufio"
	"encoding/json"
	"os"
	"sync"
)

type Writer struct {
	mu sync.Mutex
	f  *os.File
	w  *bufio.Writer
	N  int
}

func New(path string) (*Writer, error) {
	f, err := os.Create(path)
	if err != nil {
		return nil, err
	}
	return &Writer{f: f, w: bufio.NewWriterSize(f, 1<<20)}, nil
}

// Emit appends one event; ev must be JSON-marshalable and contain an "ev" field.
func (t *Writer) Emit(ev map[string]any) {
	b, err := json.Marshal(ev)
	if err != nil {
		panic(err)
	}
	t.mu.Lock()
	t.w.Write(b)
	t.w.WriteByte('\n')
	t.N++
	t.mu.Unlock()
}

func (t *Writer) Close() error {
	t.mu.Lock()
	defer t.mu.Unlock()
	if err := t.w.Flush(); err != nil {
		return err
	}
	return t.f.Close()
}
