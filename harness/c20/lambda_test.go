//go:build verif

// Package c20 runs the real Lambda extension (pkg/lambda.NewExtension around a real forwarder-mode statsd.Server, with the real
// telemetry server, flush coordinator and HTTP forwarder) against a fake Lambda runtime API and a fake upstream on loopback sockets,
// following TLC-generated invocation histories (spec/LambdaSched.tla); the observations are judged by spec/LambdaTrace.tla (C20).
// Real time and real sockets: nothing here can run in a synctest bubble (net/http servers, the manager's own http.Client).
package c20

import (
	"bytes"
	"context"
	"encoding/json"
	"fmt"
	"io"
	"net"
	"net/http"
	"net/http/httptest"
	"os"
	"strings"
	"sync"
	"sync/atomic"
	"testing"
	"time"

	"github.com/sirupsen/logrus"
	"github.com/spf13/viper"
	"google.golang.org/protobuf/proto"

	"github.com/atlassian/gostatsd/pb"
	"github.com/atlassian/gostatsd/pkg/lambda"
	"github.com/atlassian/gostatsd/pkg/statsd"
	"github.com/atlassian/gostatsd/pkg/transport"
	"github.com/atlassian/gostatsd/verifhooks"

	"verifharness/internal/trace"
	"verifharness/internal/vh"
)

type invocation struct {
	Pts   int        `json:"pts"`
	Shape [][]string `json:"shape"`
	Up    string     `json:"up"`
	Late  int        `json:"late"`
	// Big > 0: a very large request to the ingestion endpoint is under way while the runtime-done signal arrives; it was started
	// Big percent of its own (measured) duration earlier, so that its merge into the consolidator overlaps the flush
	Big int `json:"big"`
}

type scase struct {
	Fault string       `json:"fault"`
	Invs  []invocation `json:"invs"`
	Init  int          `json:"init"` // datapoints accepted during the init phase
	// SlowStart: the server's own start-up (sockets, transports, the forwarder and its consolidator) begins this many ms after the
	// extension was started: a cold start on a throttled sandbox.  SlowSub: the runtime takes this long to answer the telemetry subscription.
	Slots     int `json:"slots"` // http-transport.consolidator-slots (0 = default)
	SlowStart int `json:"slowstart"`
	SlowSub   int `json:"slowsub"`
}

// delayed is a server whose start-up begins late
type delayed struct {
	srv interface{ Run(context.Context) error }
	d   time.Duration
}

func (s delayed) Run(ctx context.Context) error {
	select {
	case <-time.After(s.d):
	case <-ctx.Done():
		return ctx.Err()
	}
	return s.srv.Run(ctx)
}

// evlog orders the observations of one extension instance
type evlog struct {
	mu  sync.Mutex
	evs []map[string]any
}

func (l *evlog) emit(ev string, kv ...any) {
	m := map[string]any{"ev": ev}
	for i := 0; i+1 < len(kv); i += 2 {
		m[kv[i].(string)] = kv[i+1]
	}
	l.mu.Lock()
	l.evs = append(l.evs, m)
	l.mu.Unlock()
}

type world struct {
	log           *evlog
	nextCh        chan chan string
	mu            sync.Mutex
	mode          string        // what the upstream does with requests that carry datapoints
	tries         int           // attempts seen in this mode
	subDelay      time.Duration // the runtime takes this long to answer the telemetry subscription
	holdSubscribe chan struct{} // non-nil: the runtime answers the telemetry subscription only when this is closed (a long init phase)
}

var recordType = map[string]string{"done": "platform.runtimeDone", "start": "platform.start", "report": "platform.report",
	"initRuntimeDone": "platform.initRuntimeDone", "restoreRuntimeDone": "platform.restoreRuntimeDone", "logsDropped": "platform.logsDropped",
	"function": "function", "extension": "platform.extension", "initReport": "platform.initReport"}

func (w *world) runtimeAPI() http.Handler {
	mux := http.NewServeMux()
	mux.HandleFunc("/2020-01-01/extension/register", func(rw http.ResponseWriter, r *http.Request) {
		w.log.emit("register")
		rw.Header().Set("Lambda-Extension-Identifier", "ext-1")
		rw.WriteHeader(200)
		rw.Write([]byte(`{"functionName":"f","functionVersion":"1","handler":"h"}`))
	})
	mux.HandleFunc("/2022-07-01/telemetry", func(rw http.ResponseWriter, r *http.Request) {
		w.log.emit("subscribe")
		if w.subDelay > 0 {
			time.Sleep(w.subDelay)
		}
		if w.holdSubscribe != nil {
			select {
			case <-w.holdSubscribe:
			case <-r.Context().Done():
			}
		}
		rw.WriteHeader(200)
	})
	mux.HandleFunc("/2020-01-01/extension/event/next", func(rw http.ResponseWriter, r *http.Request) {
		w.log.emit("next_req")
		reply := make(chan string, 1)
		select {
		case w.nextCh <- reply:
		case <-r.Context().Done():
			return
		}
		select {
		case ev := <-reply:
			if ev == "INVOKE" {
				w.log.emit("invoke")
			}
			rw.WriteHeader(200)
			fmt.Fprintf(rw, `{"eventType":%q,"deadlineMs":%d,"requestId":"r","invokedFunctionArn":"arn","tracing":{},"shutdownReason":"spindown"}`,
				ev, time.Now().Add(time.Minute).UnixMilli())
		case <-r.Context().Done():
		}
	})
	mux.HandleFunc("/2020-01-01/extension/init/error", func(rw http.ResponseWriter, r *http.Request) {
		io.Copy(io.Discard, r.Body)
		w.log.emit("init_error", "type", r.Header.Get("Lambda-Extension-Function-Error-Type"))
		rw.WriteHeader(202)
	})
	mux.HandleFunc("/2020-01-01/extension/exit/error", func(rw http.ResponseWriter, r *http.Request) {
		io.Copy(io.Discard, r.Body)
		w.log.emit("exit_error")
		rw.WriteHeader(202)
	})
	return mux
}

func (w *world) upstream() http.Handler {
	mux := http.NewServeMux()
	mux.HandleFunc("/v2/raw", func(rw http.ResponseWriter, r *http.Request) {
		b, _ := io.ReadAll(r.Body)
		var msg pb.RawMessageV2
		var ds []string
		if err := proto.Unmarshal(b, &msg); err == nil {
			for name := range msg.Counters {
				if strings.HasPrefix(name, "dp.") {
					ds = append(ds, name)
				}
			}
		}
		if len(ds) == 0 { // the start-up probe and batches of internal metrics only
			rw.WriteHeader(200)
			return
		}
		w.log.emit("up_req", "ds", ds)
		w.mu.Lock()
		mode := w.mode
		w.tries++
		try := w.tries
		w.mu.Unlock()
		status, drop := 200, false
		switch mode {
		case "slow":
			time.Sleep(300 * time.Millisecond)
		case "fail1":
			if try == 1 {
				status = 503
			}
		case "drop1":
			drop = try == 1
		case "failall":
			status = 503
		}
		w.log.emit("up_done", "ds", ds, "status", status, "drop", drop)
		if drop {
			if hj, ok := rw.(http.Hijacker); ok {
				if c, _, err := hj.Hijack(); err == nil {
					c.Close()
					return
				}
			}
		}
		rw.WriteHeader(status)
	})
	mux.HandleFunc("/", func(rw http.ResponseWriter, r *http.Request) { rw.WriteHeader(200) })
	return mux
}

func freeAddr() string {
	l, err := net.Listen("tcp", "127.0.0.1:0")
	if err != nil {
		panic(err)
	}
	defer l.Close()
	return l.Addr().String()
}

// failing is a server whose Run returns err a moment after it was started (its own context still alive)
type failing struct{ err error }

func (f failing) Run(ctx context.Context) error {
	select {
	case <-time.After(20 * time.Millisecond):
		return f.err
	case <-ctx.Done():
		return ctx.Err()
	}
}

var stubFaults = map[string]failing{
	"plainerr": {fmt.Errorf("listen udp :8125: address already in use")},
	// a start-up step that ran into its own deadline / was given up: the error chain holds a context error while the extension's
	// context is alive
	"deadline": {fmt.Errorf("fetching instance metadata: %w", context.DeadlineExceeded)},
	"canceled": {fmt.Errorf("dialing the upstream: %w", context.Canceled)},
	"earlynil": {nil},
}

var errMachinery = fmt.Errorf("machinery")

var (
	bigOnce sync.Once
	bigBuf  []byte
)

// bigBody is a raw message of 150 000 counters whose names the fake upstream does not track
func bigBody() []byte {
	bigOnce.Do(func() {
		msg := &pb.RawMessageV2{Counters: map[string]*pb.CounterTagV2{}}
		for i := 0; i < 150000; i++ {
			msg.Counters[fmt.Sprintf("big.%d", i)] = &pb.CounterTagV2{TagMap: map[string]*pb.RawCounterV2{"": {Value: 1}}}
		}
		bigBuf, _ = proto.Marshal(msg)
	})
	return bigBuf
}

// runCase returns the observations, or errMachinery when the environment (ports) got in the way
func runCase(c *scase, idx int) ([]map[string]any, error) {
	w := &world{log: &evlog{}, nextCh: make(chan chan string, 4), mode: "ok"}
	if c.Init > 0 && c.Fault == "none" {
		w.holdSubscribe = make(chan struct{})
	}
	rt := httptest.NewServer(w.runtimeAPI())
	defer rt.Close()
	up := httptest.NewServer(w.upstream())
	defer up.Close()
	ingest, tele := freeAddr(), freeAddr()
	logger := logrus.New()
	logger.SetOutput(io.Discard)
	v := viper.New()
	v.Set("http-transport.api-endpoint", up.URL)
	v.Set("http-transport.compress", false)
	v.Set("http-transport.max-request-elapsed-time", "1500ms")
	v.Set("http-servers", []string{"ingest"})
	v.Set("http.ingest.address", ingest)
	v.Set("http.ingest.enable-ingestion", true)
	v.Set("http.ingest.enable-healthcheck", false)
	if c.Slots > 0 {
		v.Set("http-transport.consolidator-slots", c.Slots)
	}
	srv := &statsd.Server{FlushInterval: 200 * time.Millisecond, MaxReaders: 1, MaxParsers: 1, MetricsAddr: "127.0.0.1:0", ReceiveBatchSize: 1,
		ServerMode: "forwarder", DisableInternalEvents: true, Viper: v, TransportPool: transport.NewTransportPool(logger, v)}
	switch c.Fault {
	case "badmode":
		srv.ServerMode = "bogus"
	case "noendpoint":
		v.Set("http-transport.api-endpoint", "")
	case "badcompression":
		v.Set("http-transport.compress", true)
		v.Set("http-transport.compression-type", "bogus")
	}
	var ext interface{ Run(context.Context) error }
	var err error
	w.subDelay = time.Duration(c.SlowSub) * time.Millisecond
	if c.SlowStart > 0 {
		// the same wiring as lambda.NewExtension (one coordinator shared by the server's forwarder and the manager), around a server
		// whose start-up begins late
		fc := verifhooks.NewFlushCoordinator()
		srv.ForwarderFlushCoordinator = fc
		ext = verifhooks.NewLambdaManager(strings.TrimPrefix(rt.URL, "http://"), "gostatsd-ext", logger, delayed{srv, time.Duration(c.SlowStart) * time.Millisecond}, fc, tele)
	} else if stub, ok := stubFaults[c.Fault]; ok {
		// the manager around a server that fails in a way the real server's configuration cannot be made to: the manager accepts any
		// server (extension.Server), and whatever makes its Run return during start-up is a start-up failure
		ext = verifhooks.NewLambdaManager(strings.TrimPrefix(rt.URL, "http://"), "gostatsd-ext", logger, stub, verifhooks.NewFlushCoordinator(), tele)
	} else {
		ext, err = lambda.NewExtension(logger, srv, lambda.Options{RuntimeAPI: strings.TrimPrefix(rt.URL, "http://"), ExecutableName: "gostatsd-ext",
			EnableManualFlush: true, TelemetryAddr: tele})
	}
	if err != nil {
		return nil, err
	}
	w.log.emit("start", "fault", c.Fault != "none", "case", idx, "sched", c)
	ctx, cancel := context.WithCancel(context.Background())
	defer cancel()
	done := make(chan error, 1)
	go func() { done <- ext.Run(ctx) }()
	client := &http.Client{Timeout: 5 * time.Second}
	finish := func() ([]map[string]any, error) {
		w.log.emit("end")
		cancel()
		select {
		case <-done:
		case <-time.After(15 * time.Second):
		}
		w.log.mu.Lock()
		defer w.log.mu.Unlock()
		return w.log.evs, nil
	}
	if c.Fault != "none" {
		select {
		case <-done:
			done <- nil
		case <-time.After(10 * time.Second):
		}
		return finish()
	}
	stallAfter := time.Duration(vh.EnvInt("VERIF_STALL_S", 30)) * time.Second
	waitNext := func() chan string {
		select {
		case r := <-w.nextCh:
			return r
		case err := <-done:
			done <- err
			w.log.emit("exited", "err", fmt.Sprint(err))
			return nil
		case <-time.After(stallAfter):
			w.log.emit("stall")
			return nil
		}
	}
	post := func(name string) error {
		msg := &pb.RawMessageV2{Counters: map[string]*pb.CounterTagV2{name: {TagMap: map[string]*pb.RawCounterV2{"": {Value: 1}}}}}
		body, _ := proto.Marshal(msg)
		var last error
		for i := 0; i < 60; i++ {
			resp, err := client.Post("http://"+ingest+"/v2/raw", "application/x-protobuf", bytes.NewReader(body))
			if err == nil {
				io.Copy(io.Discard, resp.Body)
				resp.Body.Close()
				if resp.StatusCode == 202 {
					return nil
				}
				last = fmt.Errorf("status %d", resp.StatusCode)
			} else {
				last = err
			}
			time.Sleep(50 * time.Millisecond)
		}
		return last
	}
	if w.holdSubscribe != nil {
		// the init phase: the server is up (or coming up) while the runtime has not yet answered the telemetry subscription; what is
		// accepted now is due with the extension's initial flush, i.e. before its first request for an invocation
		for k := 0; k < c.Init; k++ {
			d := fmt.Sprintf("dp.%d.init.%d", idx, k)
			if err := post(d); err != nil {
				cancel()
				return nil, errMachinery
			}
			w.log.emit("accept", "d", d)
		}
		w.log.emit("init_mark")
		close(w.holdSubscribe)
	}
	var tbig time.Duration
	for i, inv := range c.Invs {
		reply := waitNext()
		if reply == nil {
			return finish()
		}
		reply <- "INVOKE"
		time.Sleep(30 * time.Millisecond) // the function runs
		for k := 0; k < inv.Pts; k++ {
			d := fmt.Sprintf("dp.%d.%d.%d", idx, i, k)
			if err := post(d); err != nil {
				cancel()
				return nil, errMachinery
			}
			w.log.emit("accept", "d", d)
		}
		w.mu.Lock()
		w.mode, w.tries = inv.Up, 0
		w.mu.Unlock()
		var bigDone chan struct{}
		for _, batch := range inv.Shape {
			var recs []map[string]any
			hasDone := false
			for _, r := range batch {
				recs = append(recs, map[string]any{"time": time.Now().UTC().Format(time.RFC3339Nano), "type": recordType[r], "record": map[string]any{"requestId": "r"}})
				hasDone = hasDone || r == "done"
			}
			body, _ := json.Marshal(recs)
			if hasDone && inv.Big > 0 {
				postBig := func() {
					if resp, err := client.Post("http://"+ingest+"/v2/raw", "application/x-protobuf", bytes.NewReader(bigBody())); err == nil {
						io.Copy(io.Discard, resp.Body)
						resp.Body.Close()
					}
				}
				if tbig == 0 { // once per history: how long such a request takes here
					t0 := time.Now()
					postBig()
					tbig = time.Since(t0)
				}
				bigDone = make(chan struct{})
				go func() { defer close(bigDone); postBig() }()
				time.Sleep(tbig * time.Duration(inv.Big) / 100)
			}
			if hasDone {
				w.log.emit("runtime_done")
			}
			resp, err := client.Post("http://"+tele+"/telemetry", "application/json", bytes.NewReader(body))
			if err != nil {
				cancel()
				return nil, errMachinery
			}
			io.Copy(io.Discard, resp.Body)
			resp.Body.Close()
			time.Sleep(20 * time.Millisecond)
			if bigDone != nil {
				<-bigDone
				bigDone = nil
			}
			if hasDone {
				for k := 0; k < inv.Late; k++ {
					d := fmt.Sprintf("dp.%d.%d.late%d", idx, i, k)
					if post(d) == nil {
						w.log.emit("accept", "d", d)
					}
				}
			}
		}
	}
	if reply := waitNext(); reply != nil {
		reply <- "SHUTDOWN"
	}
	return finish()
}

func TestHistories(t *testing.T) {
	path := os.Getenv("VERIF_CASES")
	if path == "" {
		t.Skip("VERIF_CASES not set")
	}
	logrus.SetOutput(io.Discard)
	res := vh.NewResult()
	defer res.Write()
	tw, err := trace.New(os.Getenv("VERIF_TRACE_OUT"))
	if err != nil {
		t.Fatal(err)
	}
	defer tw.Close()
	var cases []*scase
	seen := map[string]bool{}
	err = vh.ReadCases(path, func(idx int, raw []byte) error {
		if seen[string(raw)] {
			return nil
		}
		seen[string(raw)] = true
		var c scase
		if err := json.Unmarshal(raw, &c); err != nil {
			return err
		}
		cases = append(cases, &c)
		return nil
	})
	if err != nil {
		t.Fatal(err)
	}
	par := vh.EnvInt("VERIF_PAR", 8)
	sem := make(chan struct{}, par)
	var wg sync.WaitGroup
	var mu sync.Mutex
	machinery := 0
	var stalls int32 // histories that ended in a stall: a few establish the verdict, each costs the stall limit in real time
	for idx, c := range cases {
		wg.Add(1)
		sem <- struct{}{}
		go func() {
			defer wg.Done()
			defer func() { <-sem }()
			if atomic.LoadInt32(&stalls) >= 4 {
				mu.Lock()
				res.Hit("skipped-after-repeated-stalls")
				mu.Unlock()
				return
			}
			var evs []map[string]any
			var err error
			for attempt := 0; attempt < 3; attempt++ {
				if evs, err = runCase(c, idx); err == nil {
					break
				}
			}
			mu.Lock()
			defer mu.Unlock()
			if err != nil {
				machinery++
				return
			}
			for _, e := range evs {
				tw.Emit(e)
				switch e["ev"] {
				case "stall":
					atomic.AddInt32(&stalls, 1)
				case "up_done":
					if s, _ := e["status"].(int); s != 200 {
						res.Hit("upstream-refused")
					}
					if d, _ := e["drop"].(bool); d {
						res.Hit("upstream-dropped")
					}
				case "init_error":
					res.Hit("init-error")
				case "accept":
					res.Hit("datapoint")
				}
			}
			res.Hit("fault:" + c.Fault)
			if c.Init > 0 {
				res.Hit("init-datapoints")
			}
			for _, inv := range c.Invs {
				res.Hit("up:" + inv.Up)
				if len(inv.Shape) > 1 || len(inv.Shape[0]) > 1 {
					res.Hit("other-records")
				}
			}
			res.Eval(len(c.Invs) > 0)
			if idx%17 == 0 {
				res.Sample(c)
			}
		}()
	}
	wg.Wait()
	if machinery > 0 {
		res.Note("%d histories could not be run (ports)", machinery)
		res.Hit("machinery-failed")
	}
	res.Traces = tw.N
	res.Distinct = res.Evaluations
}
