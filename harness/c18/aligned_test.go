//go:build verif

// Package c18 drives the real AlignedTicker (on a tilinna mock clock that jumps) and the real MetricFlusher in aligned
// mode (on the bubble's smooth clock, and on the mock clock) with TLC-generated schedules (spec/AlignedSched.tla) and
// records traces for spec/AlignedTrace.tla (C18).
package c18

import (
	"context"
	"encoding/json"
	"os"
	"sync"
	"testing"
	"testing/synctest"
	"time"

	"github.com/tilinna/clock"

	"github.com/atlassian/gostatsd"
	"github.com/atlassian/gostatsd/pkg/statsd"
	"github.com/atlassian/gostatsd/verifhooks"

	"verifharness/internal/trace"
	"verifharness/internal/vh"
)

const unit = 100 * time.Millisecond

type op struct {
	Op string `json:"op"`
	D  int    `json:"d"`
}

type scase struct {
	Cfg struct {
		I int `json:"i"`
		O int `json:"o"`
		S int `json:"s"`
		B int `json:"b"`
	} `json:"cfg"`
	Sched []op `json:"sched"`
}

// base: where on the calendar a mock clock starts; each is a multiple of every interval used
func base(b int, bubble time.Time, res *vh.Result) time.Time {
	switch b {
	case 1:
		res.Hit("start-at-unix-epoch")
		return time.Unix(0, 0)
	case 2:
		res.Hit("start-before-1970")
		return time.Unix(-86400, 0)
	}
	return bubble
}

func units(t time.Time, epoch time.Time) int { return int(t.Sub(epoch) / unit) }

// (1) the ticker alone on a jumping mock clock
func runTicker(t *testing.T, tw *trace.Writer, c *scase, idx int, res *vh.Result) {
	defer func() {
		// goroutines that stay blocked for ever make the bubble panic on exit; the trace written so far is still judged
		if x := recover(); x != nil {
			res.Note("bubble left with blocked goroutines: %v", x)
			res.Hit("goroutines-left-blocked")
		}
	}()
	synctest.Test(t, func(t *testing.T) {
		epoch := base(c.Cfg.B, time.Now(), res) // bubble start: 2000-01-01T00:00:00Z, a multiple of every interval used
		mock := clock.NewMock(epoch.Add(time.Duration(c.Cfg.S) * unit))
		ctx, cancel := context.WithCancel(clock.Context(context.Background(), mock))
		at := verifhooks.NewAlignedTickerWithContext(ctx, time.Duration(c.Cfg.I)*unit, time.Duration(c.Cfg.O)*unit)
		synctest.Wait()
		tw.Emit(map[string]any{"ev": "start", "s": c.Cfg.S, "i": c.Cfg.I, "o": c.Cfg.O, "case": idx, "mode": "ticker/mock"})
		held := false
		for _, o := range c.Sched {
			switch o.Op {
			case "adv":
				mock.Add(time.Duration(o.D) * unit)
				synctest.Wait()
				if len(at.C) > 0 && held {
					tw.Emit(map[string]any{"ev": "notready"})
				}
				if !held { // a ready consumer takes what is there
					select {
					case v := <-at.C:
						tw.Emit(map[string]any{"ev": "tick", "v": units(v, epoch), "clk": units(mock.Now(), epoch)})
						res.Hit("tick")
					default:
					}
				}
				tw.Emit(map[string]any{"ev": "clock", "t": units(mock.Now(), epoch)})
				if o.D > c.Cfg.I {
					res.Hit("jump-over-interval")
				}
				if o.D > 600 {
					res.Hit("stall-longer-than-a-minute")
				}
			case "hold":
				held = true
				res.Hit("consumer-behind")
			case "take":
				held = false
				select {
				case v := <-at.C:
					tw.Emit(map[string]any{"ev": "tick", "v": units(v, epoch), "clk": units(mock.Now(), epoch)})
				default:
				}
			}
		}
		at.Stop()
		cancel()
		synctest.Wait()
		res.Eval(true)
	})
}

type proc struct {
	mu       sync.Mutex
	gate     chan struct{}
	onRun    func(d time.Duration)
	entry    time.Time // clock reading when the flusher entered Process for the current flush
	lastDone time.Time // when the previous flush completed
	late     bool      // the flusher was still busy when this flush's tick fired
}

type recAgg struct{ p *proc }

func (a recAgg) ReceiveMap(*gostatsd.MetricMap) {}
func (a recAgg) Flush(d time.Duration) {
	a.p.onRun(d)
}
func (a recAgg) Process(statsd.ProcessFunc) {}
func (a recAgg) Reset()                     {}

// Process implements statsd.AggregateProcesser: one aggregator, run on the caller's goroutine; can be held (slow consumer).
func (p *proc) Process(ctx context.Context, fn statsd.DispatcherProcessFunc) gostatsd.Wait {
	p.mu.Lock()
	g := p.gate
	p.entry = time.Now()
	p.late = !p.lastDone.IsZero() && p.entry.Equal(p.lastDone) // taken from the channel the instant the previous flush ended
	p.mu.Unlock()
	if g != nil {
		select {
		case <-g:
		case <-ctx.Done():
		}
	}
	fn(0, recAgg{p})
	p.mu.Lock()
	p.lastDone = time.Now()
	p.mu.Unlock()
	return func() {}
}

// (2) the flusher in aligned mode on the bubble's smooth clock: the clock reading at the invocation is the flush time
func runFlusherSmooth(t *testing.T, tw *trace.Writer, c *scase, idx int, res *vh.Result) {
	synctest.Test(t, func(t *testing.T) {
		epoch := time.Now()
		time.Sleep(time.Duration(c.Cfg.S) * unit)
		ctx, cancel := context.WithCancel(context.Background())
		p := &proc{}
		p.onRun = func(d time.Duration) {
			now := units(time.Now(), epoch)
			p.mu.Lock()
			entry, late := units(p.entry, epoch), p.late
			p.mu.Unlock()
			tw.Emit(map[string]any{"ev": "flush", "t": entry, "delta": int(d / unit), "exact": !late, "clk": now})
			if d%unit != 0 {
				tw.Emit(map[string]any{"ev": "flushdelta", "delta": -1})
			}
			res.Hit("flush")
		}
		fl := statsd.NewMetricFlusher(time.Duration(c.Cfg.I)*unit, time.Duration(c.Cfg.O)*unit, true, p, nil)
		done := make(chan struct{})
		go func() { fl.Run(ctx); close(done) }()
		synctest.Wait()
		tw.Emit(map[string]any{"ev": "start", "s": c.Cfg.S, "i": c.Cfg.I, "o": c.Cfg.O, "case": idx, "mode": "flusher/smooth"})
		for _, o := range c.Sched {
			switch o.Op {
			case "adv":
				time.Sleep(time.Duration(o.D) * unit)
				synctest.Wait()
				p.mu.Lock()
				held := p.gate != nil
				p.mu.Unlock()
				if held {
					tw.Emit(map[string]any{"ev": "notready"})
				}
				tw.Emit(map[string]any{"ev": "clock", "t": units(time.Now(), epoch)})
			case "hold":
				p.mu.Lock()
				if p.gate == nil {
					p.gate = make(chan struct{})
				}
				p.mu.Unlock()
				res.Hit("slow-flush")
			case "take":
				p.mu.Lock()
				if p.gate != nil {
					close(p.gate)
					p.gate = nil
				}
				p.mu.Unlock()
				synctest.Wait()
			}
		}
		p.mu.Lock()
		if p.gate != nil {
			close(p.gate)
			p.gate = nil
		}
		p.mu.Unlock()
		cancel()
		<-done
		res.Eval(true)
	})
}

// (3) the flusher on the jumping mock clock: only the elapsed time passed to the aggregators is meaningful
func runFlusherMock(t *testing.T, tw *trace.Writer, c *scase, idx int, res *vh.Result) {
	synctest.Test(t, func(t *testing.T) {
		epoch := base(c.Cfg.B, time.Now(), res)
		mock := clock.NewMock(epoch.Add(time.Duration(c.Cfg.S) * unit))
		ctx, cancel := context.WithCancel(clock.Context(context.Background(), mock))
		p := &proc{}
		first := true
		p.onRun = func(d time.Duration) {
			if first { // the first delta is measured from process start on another clock
				first = false
				tw.Emit(map[string]any{"ev": "flushdelta", "delta": 0})
				return
			}
			delta := -1
			if d%unit == 0 {
				delta = int(d / unit)
			}
			tw.Emit(map[string]any{"ev": "flushdelta", "delta": delta})
		}
		fl := statsd.NewMetricFlusher(time.Duration(c.Cfg.I)*unit, time.Duration(c.Cfg.O)*unit, true, p, nil)
		done := make(chan struct{})
		go func() { fl.Run(ctx); close(done) }()
		synctest.Wait()
		tw.Emit(map[string]any{"ev": "start", "s": c.Cfg.S, "i": c.Cfg.I, "o": c.Cfg.O, "case": idx, "mode": "flusher/mock"})
		for _, o := range c.Sched {
			if o.Op == "adv" {
				mock.Add(time.Duration(o.D) * unit)
				synctest.Wait()
			}
		}
		cancel()
		<-done
		res.Eval(true)
	})
}

func TestSchedules(t *testing.T) {
	path := os.Getenv("VERIF_CASES")
	if path == "" {
		t.Skip("VERIF_CASES not set")
	}
	res := vh.NewResult()
	defer res.Write()
	tw, err := trace.New(os.Getenv("VERIF_TRACE_OUT"))
	if err != nil {
		t.Fatal(err)
	}
	defer tw.Close()
	seen := map[string]bool{}
	err = vh.ReadCases(path, func(idx int, raw []byte) error {
		if seen[string(raw)] {
			return nil
		}
		seen[string(raw)] = true
		var c scase
		if err := json.Unmarshal(raw, &c); err != nil {
			return err
		}
		runTicker(t, tw, &c, idx, res)
		runFlusherSmooth(t, tw, &c, idx, res)
		runFlusherMock(t, tw, &c, idx, res)
		if c.Cfg.O >= c.Cfg.I {
			res.Hit("offset-beyond-interval")
		}
		if (c.Cfg.S-c.Cfg.O)%c.Cfg.I == 0 {
			res.Hit("start-on-boundary")
		}
		if idx%401 == 3 {
			res.Sample(c)
		}
		return nil
	})
	if err != nil {
		t.Fatal(err)
	}
	res.Traces = tw.N
	res.Distinct = res.Evaluations
}
