//go:build verif

// Package c09 replays TLC-enumerated histories (spec/Aggregator.tla) of datapoints, clock advances and flushes into the
// real MetricAggregator under virtual time and compares, after every flush, the set of reported series and their values.
package c09

import (
	"bytes"
	"encoding/json"
	"fmt"
	"math"
	"net/http"
	"net/http/httptest"
	"os"
	"sort"
	"testing"
	"testing/synctest"
	"time"

	"github.com/sirupsen/logrus"
	"google.golang.org/protobuf/proto"

	"github.com/atlassian/gostatsd"
	"github.com/atlassian/gostatsd/pb"
	"github.com/atlassian/gostatsd/pkg/statsd"
	"github.com/atlassian/gostatsd/pkg/web"

	"verifharness/internal/fakes"
	"verifharness/internal/vh"
)

var quiet = func() *logrus.Logger { l := logrus.New(); l.SetLevel(logrus.PanicLevel); return l }()

type rep struct {
	S     string `json:"s"`
	Pend  []int  `json:"pend"`
	Gauge []int  `json:"gauge"`
}

type hcase struct {
	Hist    []string       `json:"hist"`
	Exp     map[string]int `json:"exp"`
	Reports [][]rep        `json:"reports"`
	Half    bool           `json:"half"` // datapoints are stamped half a unit before they are merged
}

func typeOf(s string) string {
	switch s {
	case "c", "c2":
		return "counter"
	case "g", "g2":
		return "gauge"
	case "s":
		return "set"
	}
	return "timer"
}

// sid maps a reported (name, tags) back to the spec's series id
func sid(name string, tags gostatsd.Tags) string {
	if tags.Exists("sib") {
		return name + "2"
	}
	return name
}

func dur(e int) time.Duration { return time.Duration(e) * time.Second }

// gaugeValue: in every other history a gauge is sent with one constant value (a datapoint that repeats the value still counts as the
// last datapoint of the series); in the others every datapoint has a value of its own
func gaugeValue(idx, id int) float64 {
	if idx%2 == 1 {
		return 7
	}
	return float64(id)
}

func TestCases(t *testing.T) {
	path := os.Getenv("VERIF_CASES")
	if path == "" {
		t.Skip("VERIF_CASES not set")
	}
	res := vh.NewResult()
	defer res.Write()
	err := vh.ReadCases(path, func(idx int, raw []byte) error {
		var c hcase
		if err := json.Unmarshal(raw, &c); err != nil {
			return fmt.Errorf("case %d: %v", idx, err)
		}
		rec := map[string]any{"history": c.Hist, "expiry": c.Exp, "case": idx}
		synctest.Test(t, func(t *testing.T) {
			defer func() {
				if x := recover(); x != nil {
					res.Fail("C04", "flush-panic:history", fmt.Sprintf("history %v expiry %v: panic %v", c.Hist, c.Exp, x), rec)
				}
			}()
			histTimer := idx%3 == 1          // the timer series carries histogram buckets: it expires like any other timer
			viaHTTP := idx%3 == 2 && !c.Half // datapoints arrive through the /v2/raw ingestion endpoint (which stamps them on receipt)
			a := statsd.NewMetricAggregator([]float64{90, -50}, dur(c.Exp["counter"]), dur(c.Exp["gauge"]), dur(c.Exp["set"]), dur(c.Exp["timer"]), gostatsd.TimerSubtypes{}, 1000)
			flush := 0
			interval := 2 * time.Second
			var srv http.Handler
			if viaHTTP {
				hs, err := web.NewHttpServer(quiet, &fakes.Handler{OnMap: func(mm *gostatsd.MetricMap) { a.ReceiveMap(mm) }}, "in", "127.0.0.1:0", false, false, true, false, nil, nil)
				if err != nil {
					t.Fatal(err)
				}
				srv = hs.Router
				res.Hit("via-http-ingestion")
			}
			if histTimer {
				res.Hit("histogram-timer")
			}
			if c.Half {
				time.Sleep(500 * time.Millisecond) // every instant of this history lies half a unit after a whole second
				res.Hit("half-unit-age")
			}
			for i, h := range c.Hist {
				id := i + 1
				switch h {
				case "A":
					time.Sleep(time.Second)
				case "F":
					a.Flush(interval)
					var got []string
					problems := []string{}
					want := map[string]rep{}
					for _, r := range c.Reports[flush] {
						want[r.S] = r
					}
					a.Process(func(mm *gostatsd.MetricMap) {
						see := func(name0, ty string) (rep, bool) {
							name := name0
							got = append(got, name)
							w, ok := want[name]
							if !ok {
								problems = append(problems, fmt.Sprintf("reported-after-expiry:%s|%s series %s reported although it should have disappeared", ty, ty, name))
							}
							delete(want, name)
							return w, ok
						}
						sum := func(xs []int) (s int) {
							for _, x := range xs {
								s += x
							}
							return
						}
						mm.Counters.Each(func(n, _ string, v gostatsd.Counter) {
							n = sid(n, v.Tags)
							if w, ok := see(n, "counter"); ok {
								if v.Value != int64(sum(w.Pend)) || v.PerSecond != float64(sum(w.Pend))/interval.Seconds() {
									problems = append(problems, fmt.Sprintf("value:counter|counter %s = %d (%v/s) want %d", n, v.Value, v.PerSecond, sum(w.Pend)))
								}
							}
						})
						mm.Gauges.Each(func(n, _ string, v gostatsd.Gauge) {
							n = sid(n, v.Tags)
							if w, ok := see(n, "gauge"); ok {
								okv := false
								for _, g := range w.Gauge {
									okv = okv || v.Value == gaugeValue(idx, g)
								}
								if !okv {
									problems = append(problems, fmt.Sprintf("value:gauge|gauge %s = %v want last value %v", n, v.Value, w.Gauge))
								}
							}
						})
						mm.Sets.Each(func(n, _ string, v gostatsd.Set) {
							if w, ok := see(n, "set"); ok {
								var m, wm []string
								for k := range v.Values {
									m = append(m, k)
								}
								for _, x := range w.Pend {
									wm = append(wm, fmt.Sprint("m", x))
								}
								sort.Strings(m)
								sort.Strings(wm)
								if fmt.Sprint(m) != fmt.Sprint(wm) {
									problems = append(problems, fmt.Sprintf("value:set|set %s members %v want %v", n, m, wm))
								}
							}
						})
						mm.Timers.Each(func(n, _ string, v gostatsd.Timer) {
							if w, ok := see(n, "timer"); ok {
								vals := append([]float64{}, v.Values...)
								sort.Float64s(vals)
								var wv []float64
								for _, x := range w.Pend {
									wv = append(wv, float64(x))
								}
								if histTimer { // no summary statistics for a timer with buckets: the +Inf bucket counts the values
									if v.Histogram[gostatsd.HistogramThreshold(math.Inf(1))] != len(wv) || (fmt.Sprint(vals) != fmt.Sprint(wv) && !(len(vals) == 0 && len(wv) == 0)) {
										problems = append(problems, fmt.Sprintf("value:timer|histogram timer %s values %v buckets %v want %v", n, vals, v.Histogram, wv))
									}
									return
								}
								if fmt.Sprint(vals) != fmt.Sprint(wv) && !(len(vals) == 0 && len(wv) == 0) || v.Count != len(wv) {
									problems = append(problems, fmt.Sprintf("value:timer|timer %s values %v count %d want %v", n, vals, v.Count, wv))
								}
								if len(wv) == 0 && (len(v.Percentiles) != 0 || v.PerSecond != 0) {
									problems = append(problems, fmt.Sprintf("idle-timer-not-empty|idle timer %s reports percentiles %v per-second %v", n, v.Percentiles, v.PerSecond))
								}
							}
						})
					})
					for n := range want {
						problems = append(problems, fmt.Sprintf("not-reported:%s|series %s missing from flush %d (reported %v)", typeOf(n), n, flush+1, got))
					}
					for _, p := range problems {
						var sig, d string
						for k := 0; k < len(p); k++ {
							if p[k] == '|' {
								sig, d = p[:k], p[k+1:]
								break
							}
						}
						res.Fail("C09", sig, fmt.Sprintf("history %v expiry %v, flush %d: %s", c.Hist, c.Exp, flush+1, d), rec)
					}
					a.Reset()
					flush++
				default:
					m := &gostatsd.Metric{Name: h, Rate: 1, Value: float64(id), Timestamp: gostatsd.Nanotime(time.Now().UnixNano()), Source: "10.0.0.1", Tags: gostatsd.Tags{"a:b"}}
					if len(h) == 2 { // sibling: same name, another tag set
						m.Name, m.Tags = h[:1], gostatsd.Tags{"sib:2"}
					}
					switch typeOf(h) {
					case "counter":
						m.Type = gostatsd.COUNTER
					case "gauge":
						m.Type = gostatsd.GAUGE
						m.Value = gaugeValue(idx, id)
					case "set":
						m.Type, m.StringValue = gostatsd.SET, fmt.Sprint("m", id)
					default:
						m.Type = gostatsd.TIMER
						if histTimer {
							m.Tags = append(m.Tags, "gsd_histogram:3_6")
						}
					}
					if c.Half {
						m.Timestamp -= gostatsd.Nanotime(500 * time.Millisecond)
					}
					if viaHTTP {
						tk := gostatsd.FormatTagsKey(m.Source, m.Tags)
						msg := &pb.RawMessageV2{}
						switch m.Type {
						case gostatsd.COUNTER:
							msg.Counters = map[string]*pb.CounterTagV2{m.Name: {TagMap: map[string]*pb.RawCounterV2{tk: {Tags: m.Tags, Hostname: string(m.Source), Value: int64(m.Value)}}}}
						case gostatsd.GAUGE:
							msg.Gauges = map[string]*pb.GaugeTagV2{m.Name: {TagMap: map[string]*pb.RawGaugeV2{tk: {Tags: m.Tags, Hostname: string(m.Source), Value: m.Value}}}}
						case gostatsd.SET:
							msg.Sets = map[string]*pb.SetTagV2{m.Name: {TagMap: map[string]*pb.RawSetV2{tk: {Tags: m.Tags, Hostname: string(m.Source), Values: []string{m.StringValue}}}}}
						default:
							msg.Timers = map[string]*pb.TimerTagV2{m.Name: {TagMap: map[string]*pb.RawTimerV2{tk: {Tags: m.Tags, Hostname: string(m.Source), Values: []float64{m.Value}, SampleCount: 1}}}}
						}
						body, _ := proto.Marshal(msg)
						rr := httptest.NewRecorder()
						srv.ServeHTTP(rr, httptest.NewRequest("POST", "/v2/raw", bytes.NewReader(body)))
						if rr.Code != 202 {
							t.Fatalf("ingestion answered %d", rr.Code)
						}
					} else {
						mm := gostatsd.NewMetricMap(false)
						mm.Receive(m)
						a.ReceiveMap(mm)
					}
				}
			}
			res.Eval(flush >= 2)
			if flush >= 2 {
				res.Hit("multi-flush")
			}
		})
		if idx%2503 == 9 {
			res.Sample(c)
		}
		return nil
	})
	if err != nil {
		t.Fatal(err)
	}
	res.Distinct = res.Evaluations
}
