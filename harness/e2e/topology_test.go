//go:build verif

// Package e2e wires a real forwarder-mode front (DatagramParser -> TagHandler -> HttpForwarderHandlerV2) to a real aggregating
// server (the /v2/raw ingestion endpoint -> BackendHandler with real aggregators -> MetricFlusher -> recording backend) through an
// in-memory transport that can refuse requests and lose responses, follows TLC-generated schedules (spec/GostatsdSched.tla) under
// virtual time, and records what spec/EndToEndTrace.tla judges: beyond the listed properties (DESIGN.md 11.8).
package e2e

import (
	"context"
	"encoding/json"
	"fmt"
	"io"
	"net/http"
	"net/http/httptest"
	"os"
	"sort"
	"strings"
	"sync"
	"testing"
	"testing/synctest"
	"time"

	"github.com/sirupsen/logrus"
	"github.com/spf13/viper"
	"google.golang.org/protobuf/proto"

	"github.com/atlassian/gostatsd"
	"github.com/atlassian/gostatsd/pb"
	"github.com/atlassian/gostatsd/pkg/stats"
	"github.com/atlassian/gostatsd/pkg/statsd"
	"github.com/atlassian/gostatsd/pkg/transport"
	"github.com/atlassian/gostatsd/pkg/web"

	"verifharness/internal/fakes"
	"verifharness/internal/trace"
	"verifharness/internal/vh"
)

type op struct {
	Op string `json:"op"`
	X  string `json:"x"`
}

type scase struct {
	Cfg struct {
		W      int `json:"w"`
		Shards int `json:"shards"`
		Slots  int `json:"slots"`
	} `json:"cfg"`
	Sched []op `json:"sched"`
}

// backend of the aggregating server: reports what each flush says about the d<k> counters
type backend struct{ tw *trace.Writer }

func (b *backend) Name() string                                     { return "far" }
func (b *backend) SendEvent(context.Context, *gostatsd.Event) error { return nil }
func (b *backend) SendMetricsAsync(ctx context.Context, mm *gostatsd.MetricMap, cb gostatsd.SendCallback) {
	mm.Counters.Each(func(name, _ string, c gostatsd.Counter) {
		if strings.HasPrefix(name, "d") && c.Value != 0 {
			b.tw.Emit(map[string]any{"ev": "report", "d": name, "n": c.Value})
		}
	})
	cb(nil)
}

// tap: a datapoint is accepted when the forwarder's DispatchMetricMap has returned
type tap struct {
	gostatsd.PipelineHandler
	tw *trace.Writer
}

func (t *tap) DispatchMetricMap(ctx context.Context, mm *gostatsd.MetricMap) {
	var names []string
	mm.Counters.Each(func(name, _ string, _ gostatsd.Counter) { names = append(names, name) })
	t.PipelineHandler.DispatchMetricMap(ctx, mm)
	for _, n := range names {
		t.tw.Emit(map[string]any{"ev": "accept", "d": n})
	}
}

// link is the network between the two servers
type link struct {
	mu      sync.Mutex
	tw      *trace.Writer
	server  http.Handler
	plan    []string
	bodies  map[string]int // datapoint set -> body number
	lastBad map[int]bool   // body -> its last attempt failed from the forwarder's point of view
	res     *vh.Result
}

func (l *link) RoundTrip(req *http.Request) (*http.Response, error) {
	raw, _ := io.ReadAll(req.Body)
	req.Body.Close()
	var ds []string
	if strings.HasSuffix(req.URL.Path, "/v2/raw") {
		if dec, err := decode(req.Header.Get("Content-Encoding"), raw); err == nil {
			var msg pb.RawMessageV2
			if proto.Unmarshal(dec, &msg) == nil {
				for name := range msg.Counters {
					if strings.HasPrefix(name, "d") {
						ds = append(ds, name)
					}
				}
			}
		}
	}
	sort.Strings(ds)
	serve := func() *http.Response {
		rr := httptest.NewRecorder()
		r2 := httptest.NewRequest(req.Method, req.URL.String(), strings.NewReader(string(raw))).WithContext(req.Context())
		r2.Header = req.Header.Clone()
		l.server.ServeHTTP(rr, r2)
		return rr.Result()
	}
	if len(ds) == 0 { // the start-up probe
		return serve(), nil
	}
	l.mu.Lock()
	key := strings.Join(ds, ",")
	b, seen := l.bodies[key]
	if !seen {
		b = len(l.bodies) + 1
		l.bodies[key] = b
	}
	outcome := "ok"
	if len(l.plan) > 0 {
		outcome, l.plan = l.plan[0], l.plan[1:]
	}
	l.mu.Unlock()
	if !seen {
		l.tw.Emit(map[string]any{"ev": "body", "b": b, "ds": ds})
	}
	l.res.Hit("net:" + outcome)
	bad := func(v bool) {
		l.mu.Lock()
		l.lastBad[b] = v
		l.mu.Unlock()
	}
	switch outcome {
	case "refuse":
		bad(true)
		rr := httptest.NewRecorder()
		rr.WriteHeader(503)
		return rr.Result(), nil
	case "slow":
		select {
		case <-time.After(2 * time.Second):
		case <-req.Context().Done():
			bad(true)
			return nil, req.Context().Err()
		}
	}
	resp := serve()
	if resp.StatusCode/100 == 2 {
		l.tw.Emit(map[string]any{"ev": "ingest", "b": b})
	} else {
		l.res.Note("the ingestion endpoint answered %d to a forwarded body", resp.StatusCode)
	}
	if outcome == "lose" {
		l.tw.Emit(map[string]any{"ev": "lost", "b": b})
		bad(true)
		return nil, fmt.Errorf("connection reset by peer")
	}
	bad(resp.StatusCode/100 != 2)
	return resp, nil
}

func decode(enc string, b []byte) ([]byte, error) {
	switch enc {
	case "deflate":
		return web.DecompressWithZlib(b)
	case "lz4":
		return web.DecompressWithLz4(b)
	}
	return b, nil
}

func runSchedule(t *testing.T, tw *trace.Writer, c *scase, idx int, res *vh.Result) {
	defer func() {
		// goroutines that stay blocked for ever make the bubble panic on exit; the trace written so far is still judged
		if x := recover(); x != nil {
			res.Note("bubble left with blocked goroutines: %v", x)
			res.Hit("goroutines-left-blocked")
		}
	}()
	synctest.Test(t, func(t *testing.T) {
		ctx, cancel := context.WithCancel(context.Background())
		logger := logrus.New()
		logger.SetLevel(logrus.PanicLevel)
		var wg sync.WaitGroup
		run := func(f func(context.Context), cx context.Context) {
			wg.Add(1)
			go func() { defer wg.Done(); f(cx) }()
		}
		// the aggregating server
		far := &backend{tw}
		bh := statsd.NewBackendHandler([]gostatsd.Backend{far}, 1, c.Cfg.Shards, 4, statsd.AggregatorFactoryFunc(func() statsd.Aggregator {
			return statsd.NewMetricAggregator(nil, 5*time.Minute, 5*time.Minute, 5*time.Minute, 5*time.Minute, gostatsd.TimerSubtypes{}, 0)
		}))
		srv, err := web.NewHttpServer(logger, statsd.NewTagHandler(bh, nil, nil), "in", "127.0.0.1:0", false, false, true, false, nil, nil)
		if err != nil {
			t.Fatal(err)
		}
		fl := statsd.NewMetricFlusher(3*time.Second, 0, false, bh, []gostatsd.Backend{far})
		sst := fakes.NewStatser()
		sctx := stats.NewContext(ctx, sst)
		run(bh.Run, sctx)
		run(fl.Run, sctx)
		// the forwarder
		ln := &link{tw: tw, server: srv.Router, bodies: map[string]int{}, lastBad: map[int]bool{}, res: res}
		pool := transport.NewTransportPool(logger, viper.New())
		cl, err := pool.Get("default")
		if err != nil {
			t.Fatal(err)
		}
		cl.Client.Transport = ln
		cl.Client.Timeout = 0
		w := time.Duration(c.Cfg.W) * time.Millisecond
		if c.Cfg.W == -1 {
			w = -1
		}
		fwd, err := statsd.NewHttpForwarderHandlerV2(logger, "default", "http://far", c.Cfg.Slots, 2, 1, true, "zlib", 1, w, time.Second, nil, nil, pool, nil)
		if err != nil {
			t.Fatal(err)
		}
		fst := fakes.NewStatser()
		fctx := stats.NewContext(ctx, fst)
		run(fwd.Run, fctx)
		run(fwd.RunMetricsContext, fctx)
		in := make(chan []*statsd.Datagram)
		dp := statsd.NewDatagramParser(in, "", true, 0, statsd.NewTagHandler(&tap{fwd, tw}, nil, nil), 0, false, logger)
		run(dp.Run, fctx)
		synctest.Wait()
		tw.Emit(map[string]any{"ev": "start", "case": idx, "cfg": c.Cfg})
		n := 0
		for _, o := range c.Sched {
			switch o.Op {
			case "dp":
				n++
				msg := fmt.Sprintf("d%d:1|c", n)
				dg := &statsd.Datagram{IP: "10.0.0.9", Msg: []byte(msg), Timestamp: gostatsd.Nanotime(time.Now().UnixNano()), DoneFunc: func() {}}
				in <- []*statsd.Datagram{dg}
			case "tick":
				time.Sleep(time.Second)
			case "net":
				ln.mu.Lock()
				ln.plan = append(ln.plan, o.X)
				ln.mu.Unlock()
			}
			synctest.Wait()
		}
		// epilogue: a healthy network, every retry window and back-off passes, both servers flush
		ln.mu.Lock()
		ln.plan = nil
		ln.mu.Unlock()
		time.Sleep(40 * time.Second)
		synctest.Wait()
		fst.Flush(fctx)
		synctest.Wait()
		dropped := int(fst.GetCount("http.forwarder.dropped"))
		ln.mu.Lock()
		var failed []int
		for b, bad := range ln.lastBad {
			if bad {
				failed = append(failed, b)
			}
		}
		ln.mu.Unlock()
		sort.Ints(failed)
		if dropped != len(failed) {
			res.Note("case %d: the forwarder counts %d dropped, %d bodies ended on a failed attempt", idx, dropped, len(failed))
		}
		for i, b := range failed {
			if i < dropped {
				tw.Emit(map[string]any{"ev": "dropped", "b": b})
				res.Hit("dropped")
			}
		}
		tw.Emit(map[string]any{"ev": "quiesce", "dropped": dropped})
		res.Eval(n > 0)
		cancel()
		wg.Wait()
	})
}

func TestTopology(t *testing.T) {
	path := os.Getenv("VERIF_CASES")
	if path == "" {
		t.Skip("VERIF_CASES not set")
	}
	logrus.SetLevel(logrus.PanicLevel)
	res := vh.NewResult()
	defer res.Write()
	tw, err := trace.New(os.Getenv("VERIF_TRACE_OUT"))
	if err != nil {
		t.Fatal(err)
	}
	defer tw.Close()
	seen := map[string]bool{}
	err = vh.ReadCases(path, func(idx int, raw []byte) error {
		if seen[string(raw)] {
			return nil
		}
		seen[string(raw)] = true
		var c scase
		if err := json.Unmarshal(raw, &c); err != nil {
			return err
		}
		runSchedule(t, tw, &c, idx, res)
		if idx%97 == 0 {
			res.Sample(c)
		}
		return nil
	})
	if err != nil {
		t.Fatal(err)
	}
	res.Traces = tw.N
	res.Distinct = res.Evaluations
}
