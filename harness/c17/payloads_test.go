//go:build verif

// Package c17 sends flushed metric maps (built by the real aggregator from TLC-generated aggregate states, spec/BatchSched.tla)
// through every real backend variant (package bk), parses what reached the transport back with the strict protocol parsers of
// package payload (the statsd relay: with gostatsd's own parser), and records per flush what the statement demands against what
// was found; the trace is judged by spec/BatchTrace.tla (C17).
package c17

import (
	"context"
	"encoding/json"
	"fmt"
	"math"
	"os"
	"sort"
	"strconv"
	"strings"
	"sync"
	"testing"
	"testing/synctest"
	"time"

	"github.com/sirupsen/logrus"

	"github.com/atlassian/gostatsd"
	"github.com/atlassian/gostatsd/pkg/statsd"

	"verifharness/internal/bk"
	"verifharness/internal/fakes"
	"verifharness/internal/payload"
	"verifharness/internal/trace"
	"verifharness/internal/vh"
)

type sspec struct {
	K string `json:"k"`
	N int    `json:"n"`
	T int    `json:"t"`
	H int    `json:"h"`
	V int    `json:"v"`
}

type pools struct {
	Names    []string   `json:"names"`
	TagSets  [][]string `json:"tagsets"`
	Hosts    []string   `json:"hosts"`
	Counters [][]string `json:"counters"`
	Gauges   []string   `json:"gauges"`
	Sets     [][]string `json:"sets"`
	Timers   [][]string `json:"timers"`
	Masks    [][]string `json:"masks"`
	Pcts     [][]string `json:"pcts"`
}

type ccase struct {
	Label string `json:"label"`
	Cfg   struct {
		Batch     int  `json:"batch"`
		Mask      int  `json:"mask"`
		Pcts      int  `json:"pcts"`
		Compress  bool `json:"compress"`
		HistLimit int  `json:"histLimit"`
		ResKeys   bool `json:"reskeys"`
	} `json:"cfg"`
	Series []sspec `json:"series"`
	Pools  pools   `json:"pools"`
}

const histTag = "gsd_histogram:10_20_x" // buckets 10, 20 and +Inf; "x" is not a number and is skipped by the aggregator

var kindPrefix = map[string]string{"c": "", "g": "g-", "s": "s_", "ms": "t.", "hist": "h."}

func mask(names []string) gostatsd.TimerSubtypes {
	var d gostatsd.TimerSubtypes
	for _, n := range names {
		switch n {
		case "lower":
			d.Lower = true
		case "lower-pct":
			d.LowerPct = true
		case "upper":
			d.Upper = true
		case "upper-pct":
			d.UpperPct = true
		case "count":
			d.Count = true
		case "count-pct":
			d.CountPct = true
		case "count-per-second":
			d.CountPerSecond = true
		case "mean":
			d.Mean = true
		case "mean-pct":
			d.MeanPct = true
		case "median":
			d.Median = true
		case "stddev":
			d.StdDev = true
		case "sum":
			d.Sum = true
		case "sum-pct":
			d.SumPct = true
		case "sum-squares":
			d.SumSquares = true
		case "sum-squares-pct":
			d.SumSquaresPct = true
		default:
			panic("mask " + n)
		}
	}
	return d
}

type built struct {
	metrics  []*gostatsd.Metric
	series   []payload.Series
	pcts     []float64
	disabled gostatsd.TimerSubtypes
}

func f64(s string) float64 {
	v, err := strconv.ParseFloat(s, 64)
	if err != nil {
		panic(err)
	}
	return v
}

func (c *ccase) build(extra []*gostatsd.Metric, extraSeries []payload.Series) *built {
	b := &built{disabled: mask(c.Pools.Masks[c.Cfg.Mask-1])}
	for _, p := range c.Pools.Pcts[c.Cfg.Pcts-1] {
		b.pcts = append(b.pcts, f64(p))
	}
	seen := map[payload.Series]bool{}
	add := func(kind, name string) {
		s := payload.Series{Kind: kind, Name: name}
		if !seen[s] {
			seen[s] = true
			b.series = append(b.series, s)
		}
	}
	for _, s := range c.Series {
		name := kindPrefix[s.K] + c.Pools.Names[s.N-1]
		tags := append(gostatsd.Tags{}, c.Pools.TagSets[s.T-1]...)
		switch c.Label {
		case "numeric-tag-value":
			tags = append(tags, "ver:1.0", "n:10_20")
		case "empty-tag-value":
			tags = append(tags, "k:")
		}
		src := gostatsd.Source(c.Pools.Hosts[s.H-1])
		mk := func(t gostatsd.MetricType, v float64, sv string, tg gostatsd.Tags) {
			b.metrics = append(b.metrics, &gostatsd.Metric{Name: name, Type: t, Value: v, StringValue: sv, Rate: 1, Tags: append(gostatsd.Tags{}, tg...), Source: src})
		}
		switch s.K {
		case "c":
			add("counter", name)
			for _, v := range c.Pools.Counters[s.V-1] {
				mk(gostatsd.COUNTER, f64(v), "", tags)
			}
		case "g":
			add("gauge", name)
			mk(gostatsd.GAUGE, f64(c.Pools.Gauges[s.V-1]), "", tags)
		case "s":
			add("set", name)
			for _, m := range c.Pools.Sets[s.V-1] {
				mk(gostatsd.SET, 0, m, tags)
			}
		case "ms", "hist":
			add("timer", name)
			if s.K == "hist" {
				tags = append(tags, histTag)
			}
			for _, v := range c.Pools.Timers[s.V-1] {
				mk(gostatsd.TIMER, f64(v), "", tags)
			}
		}
	}
	b.metrics = append(b.metrics, extra...)
	for _, s := range extraSeries {
		add(s.Kind, s.Name)
	}
	return b
}

// flushed runs the metrics through the real aggregator: one flush interval of one second
func (b *built) flushed(histLimit int) *gostatsd.MetricMap {
	agg := statsd.NewMetricAggregator(b.pcts, 5*time.Minute, 5*time.Minute, 5*time.Minute, 5*time.Minute, b.disabled, uint32(histLimit))
	in := gostatsd.NewMetricMap(false)
	ts := gostatsd.Nanotime(time.Now().UnixNano())
	for _, m := range b.metrics {
		c := *m
		c.Tags = append(gostatsd.Tags{}, m.Tags...)
		c.Timestamp = ts
		in.Receive(&c)
	}
	agg.ReceiveMap(in)
	agg.Flush(time.Second)
	var out *gostatsd.MetricMap
	agg.Process(func(mm *gostatsd.MetricMap) { out = mm })
	return out
}

type rec struct {
	id     string
	value  float64
	always bool // written whatever the disabled sub-metrics say (the format has no way to leave it out)
}

func bound(s string) string {
	switch strings.ToLower(strings.TrimPrefix(s, "+")) {
	case "inf", "infinity":
		return "+Inf"
	}
	if v, err := strconv.ParseFloat(s, 64); err == nil {
		return strconv.FormatFloat(v, 'g', -1, 64)
	}
	return s
}

func ident(kind, name, sub string, tags []string, host string) string {
	if strings.HasPrefix(sub, "le:") {
		sub = "le:" + bound(sub[3:])
	}
	t := append([]string{}, tags...)
	sort.Strings(t)
	return kind + "|" + name + "|" + sub + "|" + strings.Join(t, ",") + "|" + host
}

func canon(variant string, tags gostatsd.Tags, source gostatsd.Source, hostKnownMissing bool) ([]string, string) {
	var t []string
	for _, x := range tags {
		t = append(t, x)
	}
	fam, mode, _ := strings.Cut(variant, "/")
	var ct []string
	var host string
	switch fam {
	case "graphite":
		ct, host = payload.CanonGraphite(mode, t, string(source))
	case "influxdb":
		ct, host = payload.CanonInfluxDB(t, string(source))
	case "stdout":
		ct, host = payload.CanonStdout(t, string(source))
	case "datadog":
		ct, host = payload.CanonDatadog(t, string(source))
	case "newrelic":
		ct, host = payload.CanonNewRelic(t, string(source))
	case "otlp":
		ct, host = payload.CanonOTLP(t, string(source))
	case "cloudwatch":
		ct, host = payload.CanonCloudWatch(t, string(source))
	default:
		panic(variant)
	}
	// The statement demands the host. Where the format could carry it and the backend leaves it out (a listed finding),
	// the comparison goes on without it so that everything else is still judged.
	if (fam == "influxdb" || fam == "cloudwatch") && !hostKnownMissing {
		host = string(source)
	}
	return ct, host
}

// expected: what the statement demands of the payloads of one flush for this variant; full = with no sub-metric disabled
func expected(mm *gostatsd.MetricMap, variant string, d gostatsd.TimerSubtypes, hostKnownMissing bool) (want map[string]rec, full map[string]rec, collided map[string]bool) {
	want, full, collided = map[string]rec{}, map[string]rec{}, map[string]bool{}
	fam, mode, _ := strings.Cut(variant, "/")
	put := func(kind, name, sub string, tags gostatsd.Tags, src gostatsd.Source, v float64, enabled, always bool) {
		ct, host := canon(variant, tags, src, hostKnownMissing)
		id := ident(kind, name, sub, ct, host)
		if _, dup := full[id]; dup {
			// two flushed series that the variant's documented naming cannot tell apart (tags or host dropped by design): both are
			// written under one name, which of them is which cannot be told, so the name is left out of the comparison
			collided[id] = true
		}
		full[id] = rec{id, v, always}
		if enabled || always {
			want[id] = rec{id, v, always}
		}
	}
	mm.Counters.Each(func(name, _ string, c gostatsd.Counter) {
		put("counter", name, "count", c.Tags, c.Source, float64(c.Value), true, false)
		put("counter", name, "rate", c.Tags, c.Source, c.PerSecond, true, false)
	})
	mm.Gauges.Each(func(name, _ string, g gostatsd.Gauge) {
		put("gauge", name, "value", g.Tags, g.Source, g.Value, true, false)
	})
	mm.Sets.Each(func(name, _ string, s gostatsd.Set) {
		put("set", name, "count", s.Tags, s.Source, float64(len(s.Values)), true, false)
	})
	mm.Timers.Each(func(name, _ string, t gostatsd.Timer) {
		asHist := variant == "otlp/AsHistogram"
		summary := variant == "newrelic/metrics" // count, sum, min, max travel in one summary object
		// the one histogram data point of AsHistogram describes the values themselves: their number, sum, minimum and maximum
		// (the aggregator computes no statistics for timers with histogram buckets)
		histPoint := func() {
			sum, lo, hi := 0.0, math.Inf(1), math.Inf(-1)
			for _, v := range t.Values {
				sum += v
				lo, hi = math.Min(lo, v), math.Max(hi, v)
			}
			put("timer", name, "count", t.Tags, t.Source, float64(len(t.Values)), true, true)
			put("timer", name, "sum", t.Tags, t.Source, sum, true, true)
			if len(t.Values) > 0 {
				put("timer", name, "lower", t.Tags, t.Source, lo, true, true)
				put("timer", name, "upper", t.Tags, t.Source, hi, true, true)
			}
		}
		if t.Histogram != nil {
			if fam == "graphite" && mode != "tags" {
				return // legacy and basic drop all tags (documented), the bound of a bucket is a tag: nothing to compare
			}
			if asHist {
				histPoint()
			}
			for b, n := range t.Histogram {
				s := "+Inf"
				if !math.IsInf(float64(b), 1) {
					s = strconv.FormatFloat(float64(b), 'g', -1, 64)
				}
				put("timer", name, "le:"+s, t.Tags, t.Source, float64(n), true, true)
			}
			return
		}
		if asHist { // one histogram data point: count, sum, min, max; the other aggregations have no place in it
			histPoint()
			put("timer", name, "le:+Inf", t.Tags, t.Source, float64(len(t.Values)), false, false)
			return
		}
		put("timer", name, "lower", t.Tags, t.Source, t.Min, !d.Lower, summary)
		put("timer", name, "upper", t.Tags, t.Source, t.Max, !d.Upper, summary)
		put("timer", name, "count", t.Tags, t.Source, float64(t.Count), !d.Count, summary)
		put("timer", name, "rate", t.Tags, t.Source, t.PerSecond, !d.CountPerSecond, false)
		put("timer", name, "mean", t.Tags, t.Source, t.Mean, !d.Mean, false)
		put("timer", name, "median", t.Tags, t.Source, t.Median, !d.Median, false)
		put("timer", name, "std", t.Tags, t.Source, t.StdDev, !d.StdDev, false)
		put("timer", name, "sum", t.Tags, t.Source, t.Sum, !d.Sum, summary)
		put("timer", name, "sum_squares", t.Tags, t.Source, t.SumSquares, !d.SumSquares, false)
		for _, p := range t.Percentiles { // disabled percentile aggregations are left out by the aggregator already
			put("timer", name, p.Str, t.Tags, t.Source, p.Float, true, false)
		}
	})
	for id := range collided {
		delete(want, id)
	}
	return want, full, collided
}

func closeTo(a, b float64) bool {
	if a == b {
		return true
	}
	return math.Abs(a-b) <= 1e-6+1e-9*math.Max(math.Abs(a), math.Abs(b)) // text formats print six decimals
}

type flushResult struct {
	want     []string         // identities demanded
	payloads []map[string]any // trace events
	detail   map[string]any   // readable account, kept when something is off
	off      bool
	classes  map[string]bool // what kinds of difference showed up
	desc     map[string]bool // what exactly: "missing:set/count", "value:timer/sum", "invalid:no-value", ... (the signature of a finding)
}

func kindSub(id string) string {
	p := strings.Split(id, "|")
	if len(p) < 3 {
		return id
	}
	sub := p[2]
	if strings.HasPrefix(sub, "le:") {
		sub = "le"
	}
	if i := strings.IndexByte(sub, '='); i >= 0 {
		sub = sub[:i]
	}
	return p[0] + "/" + sub
}

// errClass names what a parser objected to, without the names and numbers of the particular payload
func errClass(text string) string {
	for _, c := range []struct{ has, class string }{
		{`no "value"`, "no-value"}, {"empty value", "empty-tag-value"}, {"empty tag value", "empty-tag-value"}, {"with an empty value", "empty-tag-value"},
		{"Value \"\"", "empty-tag-value"}, {"is empty", "empty-tag-value"}, {"unknown series on the wire", "unknown-series"},
	} {
		if strings.Contains(text, c.has) {
			return c.class
		}
	}
	if len(text) > 80 {
		text = text[:80]
	}
	return "other(" + text + ")"
}

// judge numbers the identities of one flush: 1..n are the wanted ones, anything else found gets a number above n
func judge(want, full map[string]rec, collided map[string]bool, ps []payload.Payload, ilim, blim int, res *vh.Result) *flushResult {
	fr := &flushResult{classes: map[string]bool{}, desc: map[string]bool{}}
	ids := make([]string, 0, len(want))
	for id := range want {
		ids = append(ids, id)
	}
	sort.Strings(ids)
	num := map[string]int{}
	for i, id := range ids {
		num[id] = i + 1
	}
	fr.want = ids
	readable := []any{}
	seen := map[string]int{}
	for _, p := range ps {
		var recs []int
		var names []string
		for _, r := range p.Recs {
			id := ident(r.Kind, r.Name, r.Sub, r.Tags, r.Host)
			if collided[id] {
				res.Hit("indistinguishable-series")
				continue
			}
			key := id
			if e, ok := full[id]; ok && closeTo(e.value, r.Value) {
				if _, wanted := want[id]; !wanted {
					res.Hit("disabled-sub-metric-still-written")
					continue // a disabled sub-metric written anyway with its right value: the statement does not forbid it
				}
			} else if ok {
				key = fmt.Sprintf("%s#value=%v(want %v)", id, r.Value, e.value)
				fr.classes["value"] = true
				fr.desc["value:"+kindSub(id)] = true
			} else {
				fr.classes["identity"] = true
				fr.desc["unexpected:"+kindSub(id)] = true
			}
			n, ok := num[key]
			if !ok {
				n = len(num) + 1
				num[key] = n
				fr.off = true
			}
			seen[key]++
			if seen[key] > 1 {
				fr.off = true
				fr.classes["duplicate"] = true
				fr.desc["duplicate:"+kindSub(id)] = true
			}
			recs = append(recs, n)
			names = append(names, key)
		}
		if p.Err != nil {
			fr.off = true
			fr.classes["invalid"] = true
			fr.desc["invalid:"+errClass(p.ErrText)] = true
		}
		if (ilim > 0 && p.Items > ilim) || (blim > 0 && p.Bytes > blim && p.Items > 1) {
			fr.off = true
			fr.classes["limit"] = true
			fr.desc["limit"] = true
		}
		if recs == nil {
			recs = []int{}
		}
		fr.payloads = append(fr.payloads, map[string]any{"ev": "payload", "recs": recs, "items": p.Items, "bytes": p.Bytes, "valid": p.Err == nil, "oneline": p.Items <= 1})
		readable = append(readable, map[string]any{"items": p.Items, "bytes": p.Bytes, "err": p.ErrText, "recs": names})
	}
	var missing []string
	for _, id := range ids {
		if seen[id] == 0 {
			missing = append(missing, id)
			fr.off = true
			fr.classes["missing"] = true
			fr.desc["missing:"+kindSub(id)] = true
		}
	}
	fr.detail = map[string]any{"want": ids, "payloads": readable, "missing": missing}
	return fr
}

// send hands mm to a freshly built backend of the variant inside a bubble and returns what reached its transport
func send(t *testing.T, vr bk.Variant, c *ccase, disabled gostatsd.TimerSubtypes, mm *gostatsd.MetricMap, ev *gostatsd.Event) (env *bk.Env, cbErrs []error, cbN int, panicked any) {
	return sendAll(t, vr, c, disabled, []*gostatsd.MetricMap{mm}, ev)
}

// sendAll hands the maps to one backend at the same time, the way the flusher does with the maps of several aggregators
func sendAll(t *testing.T, vr bk.Variant, c *ccase, disabled gostatsd.TimerSubtypes, mms []*gostatsd.MetricMap, ev *gostatsd.Event) (env *bk.Env, cbErrs []error, cbN int, panicked any) {
	synctest.Test(t, func(t *testing.T) {
		var mu sync.Mutex
		env = bk.NewEnv()
		env.MetricsPerBatch = c.Cfg.Batch
		env.NoCompress = !c.Cfg.Compress
		env.Disabled = disabled
		if c.Cfg.ResKeys {
			env.Set("otlp.resource_keys", []string{"zone"})
		}
		env.Logger = func() logrus.FieldLogger { l := logrus.New(); l.SetLevel(logrus.PanicLevel); return l }()
		b, err := vr.New(env)
		if err != nil {
			t.Fatalf("%s: New: %v", vr.Name, err)
		}
		ctx, cancel := context.WithCancel(context.Background())
		stop := env.Start(ctx, b)
		var done sync.WaitGroup
		for _, mm := range mms {
			mm := mm
			done.Add(1)
			go func() {
				defer done.Done()
				defer func() {
					if x := recover(); x != nil {
						mu.Lock()
						panicked = x
						mu.Unlock()
					}
				}()
				if ev != nil {
					if err := b.SendEvent(env.Context(ctx), ev); err != nil {
						cbErrs = append(cbErrs, err)
					}
					cbN = 1
					return
				}
				b.SendMetricsAsync(env.Context(ctx), mm, func(errs []error) {
					mu.Lock()
					defer mu.Unlock()
					cbN++
					cbErrs = append(cbErrs, errs...)
				})
			}()
		}
		synctest.Wait()
		time.Sleep(2 * time.Second)
		synctest.Wait()
		done.Wait()
		stop()
		cancel()
		if p := env.RunPanic(); p != nil && panicked == nil {
			panicked = p
		}
	})
	return
}

func parse(vr bk.Variant, env *bk.Env, opt payload.Options) []payload.Payload {
	fam, mode, _ := strings.Cut(vr.Name, "/")
	switch fam {
	case "graphite":
		return payload.ParseGraphite(mode, env.Conn.Writes(), opt)
	case "influxdb":
		return payload.ParseInfluxDB(env.HTTP.Attempts(), opt)
	case "stdout":
		return payload.ParseStdout(env.Stdout.Lines(), opt)
	case "datadog":
		return payload.ParseDatadog(env.HTTP.Attempts(), opt)
	case "newrelic":
		return payload.ParseNewRelic(mode, env.HTTP.Attempts(), opt)
	case "otlp":
		return payload.ParseOTLP(mode, env.HTTP.Attempts(), opt)
	case "cloudwatch":
		return payload.ParseCloudWatch(env.CW.Calls(), opt)
	}
	panic(vr.Name)
}

// relay: what the statsd relay wrote is given to gostatsd's own parser; the outcome is one record per series with its content
func relayParse(t *testing.T, writes []bk.Write, udp bool) (ps []payload.Payload, agg map[string]rec, events []*gostatsd.Event) {
	agg = map[string]rec{}
	var datagrams [][]byte
	if udp {
		for _, w := range writes {
			datagrams = append(datagrams, w.Data)
		}
	} else { // a stream: the receiver sees the concatenation
		var all []byte
		for _, w := range writes {
			all = append(all, w.Data...)
		}
		datagrams = [][]byte{all}
	}
	for i, w := range writes {
		lines := strings.Count(string(w.Data), "\n")
		p := payload.Payload{Index: i, Bytes: len(w.Data), Items: lines}
		if len(w.Data) > 0 && !strings.HasSuffix(string(w.Data), "\n") && udp {
			lines++
			p.Items = lines
		}
		ps = append(ps, p)
	}
	synctest.Test(t, func(t *testing.T) {
		h := &fakes.Handler{}
		in := make(chan []*statsd.Datagram)
		logger := logrus.New()
		logger.SetLevel(logrus.PanicLevel)
		dp := statsd.NewDatagramParser(in, "", true, 0, h, 0, false, logger)
		ctx, cancel := context.WithCancel(context.Background())
		done := make(chan struct{})
		go func() { defer close(done); dp.Run(ctx) }()
		bad := 0
		for _, d := range datagrams {
			in <- []*statsd.Datagram{{IP: "relay", Msg: d, Timestamp: gostatsd.Nanotime(time.Now().UnixNano()), DoneFunc: func() {}}}
			synctest.Wait()
		}
		cancel()
		<-done
		maps, evs := h.Take()
		events = evs
		merged := gostatsd.NewMetricMap(false)
		n := 0
		for _, m := range maps {
			merged.Merge(m)
		}
		tagsOf := func(tags gostatsd.Tags, src gostatsd.Source) []string {
			var out []string
			for _, x := range tags {
				out = append(out, x)
			}
			if src != "" && src != "relay" {
				out = append(out, "s:"+string(src))
			}
			return out
		}
		merged.Counters.Each(func(name, _ string, c gostatsd.Counter) {
			n++
			agg[ident("counter", name, "total", tagsOf(c.Tags, c.Source), "")] = rec{value: float64(c.Value)}
		})
		merged.Gauges.Each(func(name, _ string, g gostatsd.Gauge) {
			n++
			agg[ident("gauge", name, "value", tagsOf(g.Tags, g.Source), "")] = rec{value: g.Value}
		})
		merged.Timers.Each(func(name, _ string, tm gostatsd.Timer) {
			n++
			agg[ident("timer", name, "values="+fmtVals(tm.Values), tagsOf(tm.Tags, tm.Source), "")] = rec{}
		})
		merged.Sets.Each(func(name, _ string, s gostatsd.Set) {
			n++
			var ms []string
			for m := range s.Values {
				ms = append(ms, m)
			}
			sort.Strings(ms)
			agg[ident("set", name, "members="+strings.Join(ms, " "), tagsOf(s.Tags, s.Source), "")] = rec{}
		})
		_ = bad
	})
	return
}

func fmtVals(vs []float64) string {
	s := make([]string, len(vs))
	for i, v := range vs {
		s[i] = strconv.FormatFloat(math.Round(v*1e6)/1e6, 'f', -1, 64)
	}
	sort.Strings(s)
	return strings.Join(s, " ")
}

// relayExpected: series names and tags (the source as an extra s: tag), counter totals, gauge values, timer values, set members
func relayExpected(mm *gostatsd.MetricMap, notags bool) map[string]rec {
	want := map[string]rec{}
	tagsOf := func(tags gostatsd.Tags, src gostatsd.Source) []string {
		if notags {
			return nil
		}
		var out []string
		for _, x := range tags {
			out = append(out, x)
		}
		if src != "" {
			out = append(out, "s:"+string(src))
		}
		return out
	}
	type acc struct {
		total  float64
		vals   []float64
		gauges []float64
		mem    map[string]bool
	}
	m := map[string]*acc{}
	get := func(k string) *acc {
		if m[k] == nil {
			m[k] = &acc{mem: map[string]bool{}}
		}
		return m[k]
	}
	mm.Counters.Each(func(name, _ string, c gostatsd.Counter) {
		if strings.HasPrefix(name, "statsd.") {
			return // skipped on purpose: recalculated by the receiving server
		}
		get("counter|" + name + "|" + strings.Join(sorted(tagsOf(c.Tags, c.Source)), ",")).total += float64(c.Value)
	})
	mm.Gauges.Each(func(name, _ string, g gostatsd.Gauge) {
		a := get("gauge|" + name + "|" + strings.Join(sorted(tagsOf(g.Tags, g.Source)), ","))
		a.gauges = append(a.gauges, g.Value)
	})
	mm.Timers.Each(func(name, _ string, t gostatsd.Timer) {
		a := get("timer|" + name + "|" + strings.Join(sorted(tagsOf(t.Tags, t.Source)), ","))
		a.vals = append(a.vals, t.Values...)
	})
	mm.Sets.Each(func(name, _ string, s gostatsd.Set) {
		a := get("set|" + name + "|" + strings.Join(sorted(tagsOf(s.Tags, s.Source)), ","))
		for k := range s.Values {
			a.mem[k] = true
		}
	})
	for k, a := range m {
		parts := strings.SplitN(k, "|", 3)
		var tags []string
		if parts[2] != "" {
			tags = strings.Split(parts[2], ",")
		}
		switch parts[0] {
		case "counter":
			want[ident("counter", parts[1], "total", tags, "")] = rec{value: a.total}
		case "gauge":
			if len(a.gauges) == 1 { // without tags several gauges may fall onto one name: any of them may win, nothing to compare
				want[ident("gauge", parts[1], "value", tags, "")] = rec{value: a.gauges[0]}
			}
		case "timer":
			if len(a.vals) > 0 {
				want[ident("timer", parts[1], "values="+fmtVals(a.vals), tags, "")] = rec{}
			}
		case "set":
			var ms []string
			for x := range a.mem {
				ms = append(ms, x)
			}
			sort.Strings(ms)
			if len(ms) > 0 {
				want[ident("set", parts[1], "members="+strings.Join(ms, " "), tags, "")] = rec{}
			}
		}
	}
	return want
}

// relayCollided: gauges that fall onto one name once tags are disabled; any of them may win at the receiver
func relayCollided(mm *gostatsd.MetricMap, notags bool) map[string]bool {
	out := map[string]bool{}
	if !notags {
		return out
	}
	n := map[string]int{}
	mm.Gauges.Each(func(name, _ string, g gostatsd.Gauge) { n[name]++ })
	for name, k := range n {
		if k > 1 {
			out[ident("gauge", name, "value", nil, "")] = true
		}
	}
	return out
}

func sorted(s []string) []string {
	t := append([]string{}, s...)
	sort.Strings(t)
	return t
}

// fill: three gauges without tags or source whose relay lines add up to total bytes ("<name>:1.000000|g\n" = len(name)+12)
func fill(total int) ([]*gostatsd.Metric, []payload.Series) {
	var ms []*gostatsd.Metric
	var ss []payload.Series
	left := total
	for i := 0; i < 3; i++ {
		l := left / (3 - i)
		left -= l
		name := fmt.Sprintf("f%d.", i) + strings.Repeat("x", l-12-3)
		ms = append(ms, &gostatsd.Metric{Name: name, Type: gostatsd.GAUGE, Value: 1, Rate: 1})
		ss = append(ss, payload.Series{Kind: "gauge", Name: name})
	}
	return ms, ss
}

const concEvery = 7

// crowd: many plain series, so that several aggregators have a real share each
func crowd(n int) ([]*gostatsd.Metric, []payload.Series) {
	var ms []*gostatsd.Metric
	var ss []payload.Series
	for i := 0; i < n; i++ {
		name := fmt.Sprintf("w%d.req", i)
		tags := gostatsd.Tags{fmt.Sprintf("shard:%d", i%7), "env:prod"}
		src := gostatsd.Source(fmt.Sprintf("10.1.%d.%d", i%3, i%11))
		if i%2 == 0 {
			ms = append(ms, &gostatsd.Metric{Name: name, Type: gostatsd.COUNTER, Value: float64(i + 1), Rate: 1, Tags: tags, Source: src})
			ss = append(ss, payload.Series{Kind: "counter", Name: name})
		} else {
			ms = append(ms, &gostatsd.Metric{Name: "g-" + name, Type: gostatsd.GAUGE, Value: float64(i) + 0.5, Rate: 1, Tags: tags, Source: src})
			ss = append(ss, payload.Series{Kind: "gauge", Name: "g-" + name})
		}
	}
	return ms, ss
}

var relayEvents = []*gostatsd.Event{
	{Title: "t", Text: "x", Source: "h1"},
	{Title: "deploy 1.2", Text: "line one\nline two", DateHappened: 1700000000, AggregationKey: "agg", SourceTypeName: "src", Tags: gostatsd.Tags{"env:x", "solo"},
		Source: "10.0.0.7", Priority: gostatsd.PriLow, AlertType: gostatsd.AlertWarning},
	{Title: "a|b", Text: "", AlertType: gostatsd.AlertError, Tags: gostatsd.Tags{"k:pr/od-1.x_y"}},
	{Title: "", Text: "only text\n", AlertType: gostatsd.AlertSuccess, Source: "h1"},
}

func sameEvent(a, b *gostatsd.Event) string {
	switch {
	case a.Title != b.Title:
		return fmt.Sprintf("title %q / %q", a.Title, b.Title)
	case a.Text != b.Text:
		return fmt.Sprintf("text %q / %q", a.Text, b.Text)
	case a.DateHappened != b.DateHappened && a.DateHappened != 0:
		return "date"
	case a.AggregationKey != b.AggregationKey:
		return "aggregation key"
	case a.SourceTypeName != b.SourceTypeName:
		return "source type"
	case a.Priority != b.Priority:
		return "priority"
	case a.AlertType != b.AlertType:
		return "alert type"
	case fmt.Sprint(sorted(a.Tags)) != fmt.Sprint(sorted(b.Tags)):
		return fmt.Sprintf("tags %v / %v", a.Tags, b.Tags)
	}
	return ""
}

type hostFinding struct{ influx, cloudwatch bool }

func TestPayloads(t *testing.T) {
	path := os.Getenv("VERIF_CASES")
	if path == "" {
		t.Skip("VERIF_CASES not set")
	}
	logrus.SetLevel(logrus.PanicLevel)
	res := vh.NewResult()
	defer res.Write()
	tw, err := trace.New(os.Getenv("VERIF_TRACE_OUT"))
	if err != nil {
		t.Fatal(err)
	}
	defer tw.Close()
	detail, err := os.Create(vh.Env("VERIF_DETAIL_OUT", os.DevNull))
	if err != nil {
		t.Fatal(err)
	}
	defer detail.Close()
	known := vh.Env("VERIF_KNOWN_HOSTLESS", "") // backends listed as not writing the source (open findings): compared without the host
	var variants []bk.Variant
	for _, v := range bk.Variants() {
		if v.Kind != bk.KindNone {
			variants = append(variants, v)
		}
	}
	flushN := 0
	record := func(variant string, c *ccase, idx int, sub string, fr *flushResult, ilim, blim int, extra map[string]any) {
		flushN++
		want := make([]int, len(fr.want))
		for i := range want {
			want[i] = i + 1
		}
		tw.Emit(map[string]any{"ev": "flush", "n": flushN, "variant": variant, "case": idx, "label": c.Label, "sub": sub, "want": want, "ilim": ilim, "blim": blim})
		for _, p := range fr.payloads {
			tw.Emit(p)
		}
		tw.Emit(map[string]any{"ev": "done"})
		if fr.off {
			var cl []string
			for k := range fr.classes {
				cl = append(cl, k)
			}
			sort.Strings(cl)
			var ds []string
			for k := range fr.desc {
				ds = append(ds, k)
			}
			sort.Strings(ds)
			d := map[string]any{"n": flushN, "variant": variant, "case": idx, "label": c.Label, "sub": sub, "cfg": c.Cfg, "series": c.Series, "classes": cl, "desc": ds, "detail": fr.detail}
			for k, v := range extra {
				d[k] = v
			}
			b, _ := json.Marshal(d)
			detail.Write(append(b, '\n'))
		}
		if len(fr.payloads) > 1 {
			res.Hit("multi-payload")
		}
		res.Eval(len(fr.want) > 0)
	}
	err = vh.ReadCases(path, func(idx int, raw []byte) error {
		var c ccase
		if err := json.Unmarshal(raw, &c); err != nil {
			return err
		}
		subs := []int{0}
		if c.Label == "fill" {
			subs = []int{1471, 1472, 1473, 1474, 2944, 2945}
		}
		if idx%concEvery == 3 && c.Label == "" {
			subs = append(subs, -1) // the flush of several aggregators at once
		}
		for _, sub := range subs {
			var extra []*gostatsd.Metric
			var extraSeries []payload.Series
			if sub == -1 {
				extra, extraSeries = crowd(480)
			}
			if sub > 0 {
				extra, extraSeries = fill(sub)
				if sub > 2000 { // two datagrams' worth
					e2, s2 := fill(sub - 1472)
					for _, m := range e2 {
						m.Name = "g" + m.Name[1:]
					}
					for i := range s2 {
						s2[i].Name = "g" + s2[i].Name[1:]
					}
					extra, extraSeries = fill(1472)
					extra, extraSeries = append(extra, e2...), append(extraSeries, s2...)
				}
			}
			b := c.build(extra, extraSeries)
			opt := payload.Options{Series: b.series, Percentiles: b.pcts}
			for _, vr := range variants {
				mm := b.flushed(c.Cfg.HistLimit) // a map of its own for every backend
				fam, mode, _ := strings.Cut(vr.Name, "/")
				if sub > 0 && fam != "statsdaemon" {
					continue // the filling series are made for the relay's datagram size (their names are too long for CloudWatch)
				}
				mms := []*gostatsd.MetricMap{mm}
				if sub == -1 {
					// every aggregator hands its own map to every backend from its own goroutine: the flush is what they emit together
					mms = mm.Split(6)
					res.Hit("concurrent-flushes")
				}
				env, cbErrs, cbN, panicked := sendAll(t, vr, &c, b.disabled, mms, nil)
				if panicked != nil {
					res.Fail("C17", "panic:"+vr.Name, fmt.Sprintf("%s panicked while sending a flush: %v", vr.Name, panicked), c)
					env.Close()
					continue
				}
				if cbN != len(mms) || len(cbErrs) != 0 {
					res.Note("%s case %d: callback calls=%d errors=%v", vr.Name, idx, cbN, cbErrs)
				}
				var fr *flushResult
				ilim, blim := 0, 0
				if fam == "statsdaemon" {
					udp := strings.HasPrefix(mode, "udp")
					if udp {
						blim = 1472
					}
					ps, agg, _ := relayParse(t, env.Conn.Writes(), udp)
					want := relayExpected(b.flushed(c.Cfg.HistLimit), strings.HasSuffix(mode, "notags"))
					// the records of the relay are per series, not per datagram: they are judged in one closing unit
					ps = append(ps, payload.Payload{Index: len(ps)})
					for id, r := range agg {
						parts := strings.Split(id, "|")
						ps[len(ps)-1].Recs = append(ps[len(ps)-1].Recs, payload.Rec{Kind: parts[0], Name: parts[1], Sub: parts[2], Tags: splitTags(parts[3]), Host: parts[4], Value: r.value})
					}
					sort.Slice(ps[len(ps)-1].Recs, func(i, j int) bool { return fmt.Sprint(ps[len(ps)-1].Recs[i]) < fmt.Sprint(ps[len(ps)-1].Recs[j]) })
					fr = judge(want, want, relayCollided(mm, strings.HasSuffix(mode, "notags")), ps, 0, blim, res)
					for _, p := range ps {
						if p.Bytes == 1472 {
							res.Hit("relay-datagram-exactly-full")
						}
						if p.Bytes > 1472 && p.Items == 1 {
							res.Hit("relay-single-long-line")
						}
					}
					if len(ps) > 2 {
						res.Hit("relay-multi-datagram")
					}
				} else {
					switch fam {
					case "influxdb":
						ilim = c.Cfg.Batch
						if ilim == 0 {
							ilim = 5000
						}
					case "otlp":
						ilim = c.Cfg.Batch
						if ilim == 0 {
							ilim = 1000
						}
					case "cloudwatch":
						ilim = 20
					}
					hostless := strings.Contains(known, fam)
					want, full, collided := expected(b.flushed(c.Cfg.HistLimit), vr.Name, b.disabled, hostless) // from a copy the backend has not touched
					ps := parse(vr, env, opt)
					if fam == "graphite" && mode != "tags" { // the bucket lines of these modes have lost their bound with the tags (documented)
						for i := range ps {
							var keep []payload.Rec
							for _, r := range ps[i].Recs {
								if !strings.HasPrefix(r.Sub, "le:") {
									keep = append(keep, r)
								}
							}
							ps[i].Recs = keep
						}
					}
					fr = judge(want, full, collided, ps, ilim, 0, res)
					if hostless {
						mm.Gauges.Each(func(_, _ string, g gostatsd.Gauge) {
							if g.Source != "" {
								res.Hit("hostless:" + fam)
							}
						})
						mm.Counters.Each(func(_, _ string, g gostatsd.Counter) {
							if g.Source != "" {
								res.Hit("hostless:" + fam)
							}
						})
					}
					for _, p := range ps {
						if ilim > 0 && p.Items == ilim {
							res.Hit("batch-exactly-full")
						}
					}
				}
				record(vr.Name, &c, idx, fmt.Sprint(sub), fr, ilim, blim, nil)
				env.Close()
				res.Hit("variant:" + vr.Name)
			}
		}
		for _, s := range c.Series {
			res.Hit("kind:" + s.K)
		}
		if len(c.Series) == 0 && c.Label == "" {
			res.Hit("empty-flush")
		}
		if idx%199 == 0 {
			c.Pools = pools{}
			res.Sample(c)
		}
		return nil
	})
	if err != nil {
		t.Fatal(err)
	}
	// events through the statsd relay, parsed back by gostatsd's own parser
	for _, vr := range variants {
		if !strings.HasPrefix(vr.Name, "statsdaemon/") {
			continue
		}
		for i, ev := range relayEvents {
			c := &ccase{Label: "event"}
			env, errs, _, panicked := send(t, vr, c, gostatsd.TimerSubtypes{}, nil, ev)
			if panicked != nil || len(errs) != 0 {
				res.Fail("C17", "event:"+vr.Name, fmt.Sprintf("%s: SendEvent failed: %v %v", vr.Name, panicked, errs), ev)
				env.Close()
				continue
			}
			_, _, evs := relayParse(t, env.Conn.Writes(), true)
			fr := &flushResult{want: []string{"event"}, classes: map[string]bool{}, desc: map[string]bool{}}
			recs := []int{}
			why := "no event parsed back"
			if len(evs) == 1 {
				got := *evs[0]
				exp := *ev
				if strings.HasSuffix(vr.Name, "notags") {
					// events keep their tags: disable_tags is about metrics
				}
				if why = sameEvent(&exp, &got); why == "" {
					recs = []int{1}
				} else {
					recs = []int{2}
				}
			} else if len(evs) > 1 {
				recs = []int{1, 1}
				why = "several events parsed back"
			}
			if why != "" {
				fr.off = true
				fr.classes["event"] = true
				fr.desc["event:"+strings.SplitN(why, " ", 2)[0]] = true
			}
			fr.payloads = []map[string]any{{"ev": "payload", "recs": recs, "items": 1, "bytes": len(env.Conn.Data()), "valid": true, "oneline": true}}
			fr.detail = map[string]any{"why": why, "wire": string(env.Conn.Data())}
			record(vr.Name, c, 100000+i, "event", fr, 0, 0, nil)
			env.Close()
			res.Hit("event-relay")
		}
	}
	res.Traces = tw.N
	res.Distinct = res.Evaluations
}

func splitTags(s string) []string {
	if s == "" {
		return nil
	}
	return strings.Split(s, ",")
}
