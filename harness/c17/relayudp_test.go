package c17

import (
	"context"
	"fmt"
	"net"
	"strconv"
	"strings"
	"testing"
	"time"

	"github.com/atlassian/gostatsd"
	"github.com/atlassian/gostatsd/pkg/backends/statsdaemon"
	"github.com/sirupsen/logrus"

	"verifharness/internal/vh"
)

// TestRelayRealUDP: the statsd relay on its default transport, a kernel UDP socket on the loopback interface (no bubble, no connection
// factory of the harness: the sender dials for itself).  The scripted connection of the other stages sees one Write per buffer whatever
// the sender does; only a real socket shows what one datagram is.  Judged: no datagram is larger than 1472 bytes unless it is a single
// line, every datagram is made of whole lines, and the lines of a flush hold every series exactly once with its value.
func TestRelayRealUDP(t *testing.T) {
	res := vh.NewResult()
	defer res.Write()
	logger := logrus.New()
	logger.SetLevel(logrus.PanicLevel)
	sizes := []int{1, 7, 40, 90, 300}
	if vh.Tier() == "thorough" {
		sizes = append(sizes, 2, 3, 20, 41, 150, 700, 1500)
	}
	for round, n := range sizes {
		for _, notags := range []bool{false, true} {
			pc, err := net.ListenPacket("udp", "127.0.0.1:0")
			if err != nil {
				res.Note("no loopback UDP socket: %v", err)
				res.Hit("no-udp-socket")
				return
			}
			_ = pc.(*net.UDPConn).SetReadBuffer(8 << 20)
			c, err := statsdaemon.NewClient(pc.LocalAddr().String(), 2*time.Second, 2*time.Second, notags, false, nil, logger)
			if err != nil {
				t.Fatal(err)
			}
			ctx, cancel := context.WithCancel(context.Background())
			runDone := make(chan struct{})
			go func() { defer close(runDone); c.Run(ctx) }()
			mm := gostatsd.NewMetricMap(false)
			want := map[string]float64{}
			for i := 0; i < n; i++ {
				name := fmt.Sprintf("relay.r%d.series_number_%04d", round, i)
				v := float64(1 + (i*7+int(vh.Seed()))%1000)
				mm.Receive(&gostatsd.Metric{Name: name, Type: gostatsd.COUNTER, Value: v, Rate: 1, Tags: gostatsd.Tags{"env:demo", "zone:z" + strconv.Itoa(i%3)}, Source: "10.0.0.1", Timestamp: 1})
				want[name] = v
				g := fmt.Sprintf("relay.r%d.gauge_%04d", round, i)
				mm.Receive(&gostatsd.Metric{Name: g, Type: gostatsd.GAUGE, Value: v / 2, Rate: 1, Tags: gostatsd.Tags{"env:demo"}, Source: "10.0.0.1", Timestamp: 1})
				want[g] = v / 2
			}
			rec := map[string]any{"series": 2 * n, "disable_tags": notags, "seed": vh.Seed()}
			fail := func(sig, f string, a ...any) {
				res.Fail("C17", "statsdaemon/udp-socket:"+sig, fmt.Sprintf("relay over a real UDP socket, %d series, disable_tags=%v: ", 2*n, notags)+fmt.Sprintf(f, a...), rec)
			}
			cbDone := make(chan []error, 1)
			c.SendMetricsAsync(ctx, mm, func(errs []error) { cbDone <- errs })
			select {
			case errs := <-cbDone:
				for _, e := range errs {
					if e != nil {
						res.Note("relay reported %v", e)
					}
				}
			case <-time.After(30 * time.Second):
				res.Note("no callback within 30 s (not judged here: C16)")
			}
			got := map[string][]float64{}
			datagrams, largest := 0, 0
			buf := make([]byte, 1<<20)
			for {
				_ = pc.SetReadDeadline(time.Now().Add(400 * time.Millisecond))
				k, _, err := pc.ReadFrom(buf)
				if err != nil {
					break
				}
				datagrams++
				d := string(buf[:k])
				if k > largest {
					largest = k
				}
				lines := strings.Split(strings.TrimSuffix(d, "\n"), "\n")
				if k > 1472 && len(lines) > 1 {
					fail("DatagramSize", "a datagram of %d bytes holding %d lines (limit 1472)", k, len(lines))
				}
				for _, ln := range lines {
					name, rest, ok := strings.Cut(ln, ":")
					val, typ, ok2 := strings.Cut(rest, "|")
					typ, _, _ = strings.Cut(typ, "|")
					v, perr := strconv.ParseFloat(val, 64)
					if !ok || !ok2 || perr != nil || (typ != "c" && typ != "g") {
						fail("WholeLines", "a datagram holds %q, which is not a whole line", ln)
						continue
					}
					got[name] = append(got[name], v)
				}
			}
			for name, w := range want {
				switch g := got[name]; {
				case len(g) == 0:
					fail("Missing", "series %s is in no datagram (%d datagrams read)", name, datagrams)
				case len(g) > 1:
					fail("Twice", "series %s is written %d times", name, len(g))
				case g[0] != w:
					fail("Value", "series %s = %v, want %v", name, g[0], w)
				}
			}
			for name := range got {
				if _, ok := want[name]; !ok {
					fail("Phantom", "series %s was never flushed", name)
				}
			}
			if datagrams > 1 {
				res.Hit("relay-udp-socket-multi-datagram")
			}
			res.Hit("relay-udp-socket-flush")
			res.Eval(true)
			cancel()
			<-runDone
			pc.Close()
		}
	}
}
