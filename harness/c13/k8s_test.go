//go:build verif

// Package c13 replays TLC-enumerated histories of pod add / update / delete and lookups (spec/K8sProvider.tla) into the
// real Kubernetes provider, fed by client-go's fake clientset and fake watcher inside a synctest bubble, and compares every
// lookup (Peek, and IpSink / InfoSource) with the P-level CurrentPod.
package c13

import (
	"context"
	"encoding/json"
	"fmt"
	"os"
	"regexp"
	"sort"
	"sync"
	"testing"
	"testing/synctest"
	"time"

	"github.com/sirupsen/logrus"
	core_v1 "k8s.io/api/core/v1"
	meta_v1 "k8s.io/apimachinery/pkg/apis/meta/v1"
	"k8s.io/apimachinery/pkg/watch"
	mainFake "k8s.io/client-go/kubernetes/fake"
	kube_testing "k8s.io/client-go/testing"

	"github.com/atlassian/gostatsd"
	"github.com/atlassian/gostatsd/pkg/cachedinstances/k8s"

	"verifharness/internal/vh"
)

type podv struct {
	IP       string `json:"ip"`
	Phase    string `json:"phase"`
	Host     bool   `json:"host"`
	Deleting bool   `json:"deleting"`
	Ver      int    `json:"ver"`
}

type step struct {
	Op   string `json:"op"`
	Name string `json:"name"`
	Pod  podv   `json:"pod"`
	IP   string `json:"ip"`
	Exp  struct {
		Name string `json:"name"`
		Ver  int    `json:"ver"`
	} `json:"exp"`
}

type hcase struct {
	Hist []step `json:"hist"`
}

var ipOf = map[string]string{"X": "10.0.0.1", "Y": "10.0.0.2", "": ""}

type regexCfg struct {
	label, ann *regexp.Regexp
	expect     func(v int, n string) []string // the tag values carry the pod's name: two pods never have the same tags
}

// key classes of getTagNameFromRegex: no match; named group with text; named group not participating / empty; no named group
var cfgs = []regexCfg{
	{regexp.MustCompile(`^(?:app|x(?P<tag>[a-z]*))$`), regexp.MustCompile(`^ann\.`), func(v int, n string) []string {
		// the labels app and xapp both derive the tag name "app": every matched key yields a tag
		return []string{fmt.Sprintf("app:a%d.%s", v, n), fmt.Sprintf("app:b%d.%s", v, n), fmt.Sprintf("team:t%d.%s", v, n), fmt.Sprintf("x:e%d.%s", v, n), fmt.Sprintf("ann.k:n%d.%s", v, n)}
	}},
	{nil, regexp.MustCompile(k8s.DefaultAnnotationTagRegex), func(v int, n string) []string {
		return []string{fmt.Sprintf("svc:s%d.%s", v, n), fmt.Sprintf("app:c%d.%s", v, n)}
	}},
	{regexp.MustCompile(`^app$`), regexp.MustCompile(k8s.DefaultAnnotationTagRegex), func(v int, n string) []string { // a label and an annotation with one tag name
		return []string{fmt.Sprintf("app:a%d.%s", v, n), fmt.Sprintf("svc:s%d.%s", v, n), fmt.Sprintf("app:c%d.%s", v, n)}
	}},
	{regexp.MustCompile(`^(?P<tag>app)$|^other$`), nil, func(v int, n string) []string {
		return []string{fmt.Sprintf("app:a%d.%s", v, n), fmt.Sprintf("other:o%d.%s", v, n)}
	}},
}

func podObj(name string, p podv) *core_v1.Pod {
	pod := &core_v1.Pod{
		ObjectMeta: meta_v1.ObjectMeta{
			Name: name, Namespace: "ns",
			Labels: map[string]string{"app": fmt.Sprintf("a%d.%s", p.Ver, name), "xteam": fmt.Sprintf("t%d.%s", p.Ver, name), "x": fmt.Sprintf("e%d.%s", p.Ver, name), "other": fmt.Sprintf("o%d.%s", p.Ver, name),
				"xapp": fmt.Sprintf("b%d.%s", p.Ver, name)},
			Annotations: map[string]string{"ann.k": fmt.Sprintf("n%d.%s", p.Ver, name), "zzz": fmt.Sprintf("z%d.%s", p.Ver, name), "app": "shadow", k8s.AnnotationPrefix + "svc": fmt.Sprintf("s%d.%s", p.Ver, name),
				k8s.AnnotationPrefix + "app": fmt.Sprintf("c%d.%s", p.Ver, name)},
		},
		Spec:   core_v1.PodSpec{HostNetwork: p.Host},
		Status: core_v1.PodStatus{PodIP: ipOf[p.IP], HostIP: "9.9.9.9", Phase: core_v1.PodPhase(p.Phase)},
	}
	if p.Deleting {
		now := meta_v1.NewTime(time.Unix(1000, 0))
		pod.DeletionTimestamp = &now
	}
	return pod
}

func TestCases(t *testing.T) {
	path := os.Getenv("VERIF_CASES")
	if path == "" {
		t.Skip("VERIF_CASES not set")
	}
	res := vh.NewResult()
	defer res.Write()
	logger := logrus.New()
	logger.SetLevel(logrus.PanicLevel)
	every := vh.EnvInt("VERIF_EVERY", 1)
	seed := vh.Seed()
	ran := 0 // cases actually run: choices made by position must not alias with the seed-dependent selection
	err := vh.ReadCases(path, func(idx int, raw []byte) error {
		if (idx+int(seed))%every != 0 {
			return nil
		}
		ran++
		var c hcase
		if err := json.Unmarshal(raw, &c); err != nil {
			return err
		}
		cfg := cfgs[ran%len(cfgs)]
		synctest.Test(t, func(t *testing.T) {
			fakeClient := mainFake.NewSimpleClientset()
			// every Watch call gets a watcher of its own (the reflector opens a new one after a re-list); the object tracker is kept in
			// step with the events, so that a re-list sees the truth
			var wmu sync.Mutex
			var podsWatch *watch.FakeWatcher
			opened := 0
			fakeClient.PrependWatchReactor("pods", func(kube_testing.Action) (bool, watch.Interface, error) {
				wmu.Lock()
				defer wmu.Unlock()
				podsWatch = watch.NewFake()
				opened++
				return true, podsWatch, nil
			})
			watches := func() int { wmu.Lock(); defer wmu.Unlock(); return opened }
			cur := func() *watch.FakeWatcher { wmu.Lock(); defer wmu.Unlock(); return podsWatch }
			gvr := core_v1.SchemeGroupVersion.WithResource("pods")
			relist := (ran/len(cfgs))%3 == 2 // deletions are not seen on the watch: it breaks, the pod goes, the reflector lists again
			p, err := k8s.NewProvider(logger, fakeClient, k8s.PodInformerOptions{ResyncPeriod: 100000 * time.Hour, WatchCluster: true}, cfg.ann, cfg.label)
			if err != nil {
				t.Fatal(err)
			}
			ctx, cancel := context.WithCancel(context.Background())
			done := make(chan struct{})
			go func() { p.Run(ctx); close(done) }()
			synctest.Wait()
			lazy := (ran/(3*len(cfgs)))%2 == 1 // every other round of configurations: answers are read at the end of the history
			type asked struct {
				i       int
				s       step
				textual []string
			}
			var pending []asked
			// judge compares one answer with what the history says the IP's current pod was when the lookup was made
			// agrees: the answer is what the history expects for that lookup (used to pair answers that were read later with their lookups)
			agrees := func(s step, inst *gostatsd.Instance) bool {
				if s.Exp.Name == "" || inst == nil {
					return (s.Exp.Name == "") == (inst == nil)
				}
				want := cfg.expect(s.Exp.Ver, s.Exp.Name)
				got := append([]string{}, inst.Tags...)
				sort.Strings(want)
				sort.Strings(got)
				return string(inst.ID) == "ns/"+s.Exp.Name && fmt.Sprint(got) == fmt.Sprint(want)
			}
			judge := func(i int, s step, inst *gostatsd.Instance, textual []string) {
				res.Eval(i >= 2)
			rec := map[string]any{"history": textual, "step": i, "case": idx, "label_regex": fmt.Sprint(cfg.label), "annotation_regex": fmt.Sprint(cfg.ann)}
			switch {
			case s.Exp.Name == "" && inst != nil:
				res.Fail("C13", "stale-or-phantom-answer", fmt.Sprintf("step %d %s(%s): answered %s %v although no running pod holds the IP; history %v", i, s.Op, s.IP, inst.ID, inst.Tags, textual), rec)
			case s.Exp.Name != "" && inst == nil:
				res.Fail("C13", "no-answer-for-current-pod", fmt.Sprintf("step %d %s(%s): nothing although pod %s v%d holds the IP; history %v", i, s.Op, s.IP, s.Exp.Name, s.Exp.Ver, textual), rec)
			case s.Exp.Name != "":
				want := cfg.expect(s.Exp.Ver, s.Exp.Name)
				got := append([]string{}, inst.Tags...)
				sort.Strings(want)
				sort.Strings(got)
				if string(inst.ID) != "ns/"+s.Exp.Name {
					res.Fail("C13", "wrong-pod", fmt.Sprintf("step %d: identity %s want ns/%s; history %v", i, inst.ID, s.Exp.Name, textual), rec)
				} else if fmt.Sprint(got) != fmt.Sprint(want) {
					sig := "wrong-tags"
					other := cfg.expect(3-s.Exp.Ver, s.Exp.Name)
					sort.Strings(other)
					if fmt.Sprint(got) == fmt.Sprint(other) {
						sig = "stale-version"
					}
					res.Fail("C13", sig, fmt.Sprintf("step %d: tags %v want %v (pod %s v%d); history %v", i, got, want, s.Exp.Name, s.Exp.Ver, textual), rec)
				}
				res.Hit("answered-pod")
			default:
				res.Hit("answered-nothing")
			}
			}
			var textual []string
			for i, s := range c.Hist {
				switch s.Op {
				case "add":
					if err := fakeClient.Tracker().Add(podObj(s.Name, s.Pod)); err != nil {
						res.Note("tracker add: %v", err)
					}
					cur().Add(podObj(s.Name, s.Pod))
				case "update":
					if err := fakeClient.Tracker().Update(gvr, podObj(s.Name, s.Pod), "ns"); err != nil {
						res.Note("tracker update: %v", err)
					}
					cur().Modify(podObj(s.Name, s.Pod))
				case "delete":
					if err := fakeClient.Tracker().Delete(gvr, "ns", s.Name); err != nil {
						res.Note("tracker delete: %v", err)
					}
					if relist {
						// the watch ends with "too old resource version": the reflector has to list again, and finds the pod gone
						cur().Error(&meta_v1.Status{Status: "Failure", Reason: meta_v1.StatusReasonExpired, Code: 410, Message: "too old resource version"})
						before := watches() - 1
						synctest.Wait()
						// the reflector lists again after a back-off that grows with every failure: wait until it has opened its next watch
						for i := 0; i < 600 && watches()-1 == before; i++ {
							time.Sleep(time.Second)
							synctest.Wait()
						}
						res.Hit("deletion-seen-by-relist")
					} else {
						cur().Delete(podObj(s.Name, s.Pod))
					}
				}
				synctest.Wait()
				textual = append(textual, fmt.Sprintf("%s %s %+v %s", s.Op, s.Name, s.Pod, s.IP))
				if s.Op != "peek" && s.Op != "ask" {
					continue
				}
				var inst *gostatsd.Instance
				if s.Op == "peek" {
					inst, _ = p.Peek(gostatsd.Source(ipOf[s.IP]))
				} else if lazy {
					// a consumer that is behind: the request is taken (the provider computes the answer now), the answer is read later,
					// after whatever the history does next -- further events, further lookups of the same IP
					p.IpSink() <- gostatsd.Source(ipOf[s.IP])
					synctest.Wait()
					pending = append(pending, asked{i, s, append([]string{}, textual...)})
					res.Hit("answer-read-later")
					continue
				} else {
					p.IpSink() <- gostatsd.Source(ipOf[s.IP])
					info := <-p.InfoSource()
					inst = info.Instance
					if string(info.IP) != ipOf[s.IP] {
						res.Fail("C13", "answer-for-wrong-ip", fmt.Sprintf("asked %s, answered %s", ipOf[s.IP], info.IP), map[string]any{"history": textual})
					}
				}
				judge(i, s, inst, textual)
			}
			// the lazy consumer catches up: one answer per lookup, each the pod that held the IP when the lookup was made
			var answers []gostatsd.InstanceInfo
			for range pending {
				synctest.Wait()
				select {
				case info := <-p.InfoSource():
					answers = append(answers, info)
				default:
				}
			}
			if len(answers) != len(pending) {
				res.Fail("C13", "lookup-never-answered", fmt.Sprintf("%d lookups were made while the consumer was behind, %d answers came; history %v", len(pending), len(answers), textual),
					map[string]any{"history": textual, "case": idx})
			}
			// the order in which outstanding answers come is the provider's business: pair each answer with a lookup of the same IP that
			// it agrees with, if there is one; what cannot be paired is judged against the newest lookup still open
			used := make([]bool, len(pending))
			for _, info := range answers {
				pick := -1
				for k := len(pending) - 1; k >= 0; k-- {
					if used[k] || ipOf[pending[k].s.IP] != string(info.IP) {
						continue
					}
					if pick < 0 {
						pick = k
					}
					if agrees(pending[k].s, info.Instance) {
						pick = k
						break
					}
				}
				if pick < 0 {
					res.Fail("C13", "answer-for-wrong-ip", fmt.Sprintf("an answer for %s that no open lookup asked for; history %v", info.IP, textual), map[string]any{"history": textual, "case": idx})
					continue
				}
				used[pick] = true
				judge(pending[pick].i, pending[pick].s, info.Instance, pending[pick].textual)
			}
			if len(pending) >= 2 {
				res.Hit("several-answers-outstanding")
			}
			cancel()
			<-done
			synctest.Wait()
		})
		if idx%2999 == 1 {
			res.Sample(c)
		}
		return nil
	})
	if err != nil {
		t.Fatal(err)
	}
	res.Distinct = res.Evaluations
}
