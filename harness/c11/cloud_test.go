//go:build verif

// Package c11 drives the real CloudHandler with TLC-generated stimulus schedules (spec/CloudSched.tla) against a
// driver-owned CachedInstances (Peek / IpSink / InfoSource), a capturing downstream handler and a fake Statser, inside a
// synctest bubble, and records a trace judged by spec/EnrichTrace.tla (C11; event clauses of C19; cloud-stage merge of C07).
package c11

import (
	"context"
	"encoding/json"
	"fmt"
	"os"
	"sort"
	"strings"
	"sync"
	"sync/atomic"
	"testing"
	"testing/synctest"

	"github.com/atlassian/gostatsd"
	"github.com/atlassian/gostatsd/pkg/statsd"

	"verifharness/internal/fakes"
	"verifharness/internal/trace"
	"verifharness/internal/vh"
)

type stim struct {
	Op  string `json:"op"`
	Src string `json:"src"`
	Res string `json:"res"`
}

type scase struct {
	Sched []stim `json:"sched"`
}

// cache is the driver-owned CachedInstances.
type cache struct {
	mu    sync.Mutex
	known map[gostatsd.Source]*gostatsd.Instance // present = hit (nil value = negative)
	sink  chan gostatsd.Source
	info  chan gostatsd.InstanceInfo
}

func (c *cache) Peek(ip gostatsd.Source) (*gostatsd.Instance, bool) {
	c.mu.Lock()
	defer c.mu.Unlock()
	i, ok := c.known[ip]
	return i, ok
}
func (c *cache) IpSink() chan<- gostatsd.Source           { return c.sink }
func (c *cache) InfoSource() <-chan gostatsd.InstanceInfo { return c.info }
func (c *cache) EstimatedTags() int                       { return 2 }
func (c *cache) hit(ip gostatsd.Source) string {
	if ip == "" {
		return "empty"
	}
	c.mu.Lock()
	defer c.mu.Unlock()
	i, ok := c.known[ip]
	switch {
	case !ok:
		return "miss"
	case i == nil:
		return "neg"
	}
	return "pos"
}

func instanceFor(src string, tagged bool) *gostatsd.Instance {
	if !tagged {
		return &gostatsd.Instance{ID: gostatsd.Source("i-" + src)}
	}
	return &gostatsd.Instance{ID: gostatsd.Source("i-" + src), Tags: gostatsd.Tags{"inst:" + src, "region:r"}}
}

var (
	bareMu sync.Mutex
	bare   = map[string]bool{} // sources whose instance was given without tags (per schedule)
)

// tagging classifies how an item left: "pos" (instance tags + id), "none" (unchanged) or "mixed".
func tagging(tags gostatsd.Tags, source gostatsd.Source, orig string) string {
	has := tags.Exists("inst") || tags.Exists("region")
	bareMu.Lock()
	isBare := bare[orig]
	bareMu.Unlock()
	switch {
	case isBare && !has && string(source) == "i-"+orig:
		return "pos"
	case has && string(source) == "i-"+orig && tags.Exists("inst") && tags.Exists("region"):
		return "pos"
	case !has && string(source) == orig:
		return "none"
	}
	return fmt.Sprintf("mixed(tags=%v,source=%s)", tags, source)
}

func runSchedule(t *testing.T, tw *trace.Writer, c *scase, idx int, res *vh.Result) {
	defer func() {
		// goroutines of the stage (or of the driver, waiting for it) that stay blocked for ever make the bubble panic on exit; the
		// trace written so far is still judged: what they should have delivered shows up there as never delivered
		if x := recover(); x != nil {
			res.Note("case %d: %v", idx, x)
			res.Hit("goroutines-left-blocked")
		}
	}()
	synctest.Test(t, func(t *testing.T) {
		ctx, cancel := context.WithCancel(context.Background())
		ci := &cache{known: map[gostatsd.Source]*gostatsd.Instance{}, sink: make(chan gostatsd.Source), info: make(chan gostatsd.InstanceInfo)}
		down := &fakes.Handler{}
		st := fakes.NewStatser()
		var mu sync.Mutex
		type batchInfo struct {
			src    string
			weight int64
			gauge  float64
			ts     int64
		}
		batches := map[string]batchInfo{} // item id -> what its batch carried
		down.OnMap = func(mm *gostatsd.MetricMap) {
			// one leave event per (original source) group found in the map
			type grp struct {
				ids    []string
				tag    map[string]bool
				shared int64
				gauge  float64
				hasG   bool
			}
			groups := map[string]*grp{}
			g := func(src string) *grp {
				if groups[src] == nil {
					groups[src] = &grp{tag: map[string]bool{}, ids: []string{}}
				}
				return groups[src]
			}
			orig := func(tags gostatsd.Tags) string {
				for _, tg := range tags {
					if strings.HasPrefix(tg, "from:") {
						return tg[5:]
					}
				}
				return "?"
			}
			mm.Counters.Each(func(n, _ string, c gostatsd.Counter) {
				o := orig(c.Tags)
				if strings.HasPrefix(n, "n") { // the batch's datapoint without tags of its own: its origin is known by its name
					mu.Lock()
					o = batches["i"+n[1:]].src
					mu.Unlock()
					gr := g(o)
					gr.tag[tagging(c.Tags, c.Source, o)] = true
					return
				}
				gr := g(o)
				gr.tag[tagging(c.Tags, c.Source, o)] = true
				if strings.HasPrefix(n, "u") {
					gr.ids = append(gr.ids, "i"+n[1:])
				} else {
					gr.shared += c.Value
				}
			})
			mm.Gauges.Each(func(n, _ string, v gostatsd.Gauge) {
				o := orig(v.Tags)
				gr := g(o)
				gr.tag[tagging(v.Tags, v.Source, o)] = true
				gr.gauge, gr.hasG = v.Value, true
			})
			mu.Lock()
			defer mu.Unlock()
			for o, gr := range groups {
				sort.Strings(gr.ids)
				tg := "mixed"
				if len(gr.tag) == 1 {
					for k := range gr.tag {
						tg = k
					}
				}
				tw.Emit(map[string]any{"ev": "leave", "ids": gr.ids, "tagged": tg, "kind": "m", "src": o})
				// the parked batches were merged: the shared counter and the gauge must be those of exactly these batches
				var want int64
				var newestTS int64 = -1
				for _, id := range gr.ids {
					b := batches[id]
					want += b.weight
					if b.ts > newestTS {
						newestTS = b.ts
					}
				}
				newest := []float64{} // values carrying the newest timestamp (a tie may resolve either way)
				gaugeOK := false
				for _, id := range gr.ids {
					if b := batches[id]; b.ts == newestTS {
						newest = append(newest, b.gauge)
						gaugeOK = gaugeOK || b.gauge == gr.gauge
					}
				}
				rec := map[string]any{"case": idx, "schedule": c.Sched, "ids": gr.ids}
				if gr.shared != want {
					res.Fail("C11", "parked-counter-merge", fmt.Sprintf("source %s: shared counter left as %d, the batches %v carried %d", o, gr.shared, gr.ids, want), rec)
				}
				if gr.hasG && !gaugeOK {
					res.Fail("C07", "CloudStage:wrong-value:gauge", fmt.Sprintf("source %s: gauge left as %v, newest datapoint among %v is %v", o, gr.gauge, gr.ids, newest), rec)
				}
			}
		}
		down.OnEv = func(e *gostatsd.Event) {
			o := ""
			for _, tg := range e.Tags {
				if strings.HasPrefix(tg, "from:") {
					o = tg[5:]
				}
			}
			tw.Emit(map[string]any{"ev": "leave", "ids": []string{"i" + e.Title[2:]}, "tagged": tagging(e.Tags, e.Source, o), "kind": "e", "src": o})
		}
		ch := statsd.NewCloudHandler(ci, down)
		var wg sync.WaitGroup
		wg.Add(2)
		go func() { defer wg.Done(); ch.Run(ctx) }()
		go func() { defer wg.Done(); ch.RunMetrics(ctx, st) }()
		synctest.Wait()
		tw.Emit(map[string]any{"ev": "reset", "case": idx})
		bareMu.Lock()
		bare = map[string]bool{}
		bareMu.Unlock()
		var gateMu sync.Mutex
		var gate chan struct{}
		waitGate := func() {
			gateMu.Lock()
			g := gate
			gateMu.Unlock()
			if g != nil {
				<-g
			}
		}
		release := func() {
			gateMu.Lock()
			if gate != nil {
				close(gate)
				gate = nil
			}
			gateMu.Unlock()
		}
		origOnMap, origOnEv := down.OnMap, down.OnEv
		// a mixed batch: its parts that need a lookup reach the stage's queue only when the part that needs none has been handed on;
		// their "enter" is logged at that moment (when the next handler returns from that hand-over)
		var defMu sync.Mutex
		deferred := map[string][]map[string]any{} // name of the hit part's marker counter -> enter events to log
		down.OnMap = func(mm *gostatsd.MetricMap) {
			origOnMap(mm)
			waitGate()
			defMu.Lock()
			var evs []map[string]any
			mm.Counters.Each(func(n, _ string, _ gostatsd.Counter) {
				evs = append(evs, deferred[n]...)
				delete(deferred, n)
			})
			defMu.Unlock()
			for _, e := range evs {
				tw.Emit(e)
			}
			// what was handed on belongs to the next handler now, and the real one (the tag stage) edits tag slices in place: so does this one
			scribble := func(t gostatsd.Tags) {
				for i := range t {
					t[i] = "scribbled:by-the-next-handler"
				}
			}
			mm.Counters.Each(func(_, _ string, v gostatsd.Counter) { scribble(v.Tags) })
			mm.Gauges.Each(func(_, _ string, v gostatsd.Gauge) { scribble(v.Tags) })
		}
		down.OnEv = func(e *gostatsd.Event) { origOnEv(e); waitGate() }
		n := 0
		var taken []gostatsd.Source // lookups taken from IpSink and not yet answered
		weights := map[string]int{}
		gaugeSeq := 0.0
		settle := func() {
			synctest.Wait()
			tw.Emit(map[string]any{"ev": "settle"})
		}
		take := func() bool {
			select {
			case ip := <-ci.sink:
				tw.Emit(map[string]any{"ev": "lookupreq", "src": string(ip)})
				taken = append(taken, ip)
				return true
			default:
				return false
			}
		}
		answer := func(result string) bool {
			if len(taken) == 0 {
				return false
			}
			ip := taken[0]
			taken = taken[1:]
			var inst *gostatsd.Instance
			if result == "err" { // the lookup failed; the cache keeps serving an older instance for the source
				ci.mu.Lock()
				ci.known[ip] = instanceFor(string(ip), true)
				ci.mu.Unlock()
				bareMu.Lock()
				bare[string(ip)] = false
				bareMu.Unlock()
				tw.Emit(map[string]any{"ev": "answer", "src": string(ip), "res": "neg"})
				res.Hit("failed-lookup-cache-keeps-instance")
				ci.info <- gostatsd.InstanceInfo{IP: ip, Instance: nil}
				return true
			}
			if result != "neg" {
				inst = instanceFor(string(ip), result == "pos")
				bareMu.Lock()
				bare[string(ip)] = result == "pos0"
				bareMu.Unlock()
			}
			ci.mu.Lock()
			ci.known[ip] = inst // the real provider caches before it publishes
			ci.mu.Unlock()
			tw.Emit(map[string]any{"ev": "answer", "src": string(ip), "res": result})
			ci.info <- gostatsd.InstanceInfo{IP: ip, Instance: inst}
			return true
		}
		var mixedInFlight atomic.Int32
		for _, s := range c.Sched {
			switch s.Op {
			case "m", "mall":
				srcs := []string{s.Src}
				if s.Op == "mall" { // a batch whose datapoints come from every source and from none: hits and misses side by side
					srcs = []string{"x", "y", ""}
					res.Hit("mixed-batch")
				}
				mm := gostatsd.NewMetricMap(false)
				var late []map[string]any
				marker := ""
				for _, sn := range srcs {
					n++
					id := fmt.Sprintf("i%d", n)
					gaugeSeq++
					w := int64(1) << uint(weights[sn])
					weights[sn]++
					mu.Lock()
					tsn := int64(1000 + (n*7)%5) // arrival order is not timestamp order
					batches[id] = batchInfo{sn, w, gaugeSeq, tsn}
					mu.Unlock()
					tags := gostatsd.Tags{"from:" + sn}
					src := gostatsd.Source(sn)
					ts := gostatsd.Nanotime(tsn)
					mm.Receive(&gostatsd.Metric{Name: fmt.Sprintf("u%d", n), Type: gostatsd.COUNTER, Value: 1, Rate: 1, Tags: tags.Copy(), Source: src, Timestamp: ts})
					mm.Receive(&gostatsd.Metric{Name: "sh", Type: gostatsd.COUNTER, Value: float64(w), Rate: 1, Tags: tags.Copy(), Source: src, Timestamp: ts})
					mm.Receive(&gostatsd.Metric{Name: "g", Type: gostatsd.GAUGE, Value: gaugeSeq, Rate: 1, Tags: tags.Copy(), Source: src, Timestamp: ts})
					mm.Receive(&gostatsd.Metric{Name: fmt.Sprintf("n%d", n), Type: gostatsd.COUNTER, Value: 1, Rate: 1, Source: src, Timestamp: ts}) // no tags of its own
					ev := map[string]any{"ev": "enter", "ids": []string{id}, "src": sn, "kind": "m", "hit": ci.hit(src)}
					if s.Op == "mall" && ci.hit(src) == "miss" {
						late = append(late, ev)
					} else {
						tw.Emit(ev)
						marker = fmt.Sprintf("u%d", n)
					}
				}
				if len(late) > 0 {
					defMu.Lock()
					deferred[marker] = late
					defMu.Unlock()
				}
				if s.Op == "mall" {
					// the parts of a mixed batch enter the stage at different moments (the part that needs no lookup is handed on first,
					// and the next handler may hold it): while such a dispatch has not returned the gauges are not judged
					mixedInFlight.Add(1)
					go func() { defer mixedInFlight.Add(-1); ch.DispatchMetricMap(ctx, mm) }()
				} else {
					go ch.DispatchMetricMap(ctx, mm)
				}
			case "e":
				n++
				src := gostatsd.Source(s.Src)
				tw.Emit(map[string]any{"ev": "enter", "ids": []string{fmt.Sprintf("i%d", n)}, "src": s.Src, "kind": "e", "hit": ci.hit(src)})
				e := &gostatsd.Event{Title: fmt.Sprintf("ev%d", n), Text: "t", Source: src, Tags: gostatsd.Tags{"from:" + s.Src}}
				go ch.DispatchEvent(ctx, e)
			case "hold":
				gateMu.Lock()
				if gate == nil {
					gate = make(chan struct{})
				}
				gateMu.Unlock()
				res.Hit("downstream-held")
			case "release":
				release()
			case "evict":
				ci.mu.Lock()
				ci.known = map[gostatsd.Source]*gostatsd.Instance{}
				ci.mu.Unlock()
			case "take":
				synctest.Wait()
				take()
			case "answer":
				answer(s.Res)
			case "emit":
				st.Flush(ctx)
				synctest.Wait()
				f := func(k string) int {
					v, ok := st.GetGauge(k)
					if !ok {
						return -2
					}
					if v > 1e15 {
						return -1 // uint64 underflow
					}
					return int(v)
				}
				name := "gauge"
				if mixedInFlight.Load() != 0 {
					name = "gauge-while-entering"
				}
				tw.Emit(map[string]any{"ev": name, "mh": f("cloudprovider.hosts_queued|type:metric"), "eh": f("cloudprovider.hosts_queued|type:event"),
					"ei": f("cloudprovider.items_queued|type:event")})
				res.Hit("emit")
			}
			gateMu.Lock()
			held := gate != nil
			gateMu.Unlock()
			if held {
				synctest.Wait() // no settle claim while the next handler holds items
			} else {
				settle()
			}
		}
		release()
		// epilogue: serve every outstanding lookup positively, then everything must have left
		for i := 0; i < 40; i++ {
			synctest.Wait()
			if !take() && !answer("pos") {
				break
			}
		}
		settle()
		tw.Emit(map[string]any{"ev": "quiesce"})
		done := make(chan struct{})
		go func() { ch.WaitForEvents(); close(done) }()
		synctest.Wait()
		select {
		case <-done:
		default:
			res.Fail("C19", "wait-for-events-hangs", "WaitForEvents does not return although every event left the cloud stage", map[string]any{"case": idx, "schedule": c.Sched})
		}
		res.Eval(n >= 2)
		cancel()
		wg.Wait()
	})
}

func TestSchedules(t *testing.T) {
	path := os.Getenv("VERIF_CASES")
	if path == "" {
		t.Skip("VERIF_CASES not set")
	}
	res := vh.NewResult()
	defer res.Write()
	tw, err := trace.New(os.Getenv("VERIF_TRACE_OUT"))
	if err != nil {
		t.Fatal(err)
	}
	defer tw.Close()
	seen := map[string]bool{}
	err = vh.ReadCases(path, func(idx int, raw []byte) error {
		if seen[string(raw)] {
			return nil
		}
		seen[string(raw)] = true
		var c scase
		if err := json.Unmarshal(raw, &c); err != nil {
			return err
		}
		runSchedule(t, tw, &c, idx, res)
		// named situations, syntactically
		pendM, pendE := map[string]bool{}, map[string]bool{}
		for _, s := range c.Sched {
			switch s.Op {
			case "mall":
				pendM["x"], pendM["y"] = true, true
			case "m":
				if pendE[s.Src] {
					res.Hit("metrics-after-parked-event-same-source")
				}
				if pendM[s.Src] {
					res.Hit("second-batch-for-pending-source")
				}
				pendM[s.Src] = true
			case "e":
				if pendM[s.Src] {
					res.Hit("event-after-parked-metrics-same-source")
				}
				pendE[s.Src] = true
			case "answer":
				if s.Res == "neg" {
					res.Hit("answer-negative")
				}
				pendM, pendE = map[string]bool{}, map[string]bool{}
			}
			if s.Src == "" && (s.Op == "m" || s.Op == "e") {
				res.Hit("empty-source")
			}
		}
		if idx%503 == 5 {
			res.Sample(c)
		}
		return nil
	})
	if err != nil {
		t.Fatal(err)
	}
	res.Traces = tw.N
	res.Distinct = res.Evaluations
}
