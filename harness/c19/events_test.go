//go:build verif

// Package c19 drives the real event path -- DatagramParser -> CloudHandler -> TagHandler -> BackendHandler with recording backends,
// the /v2/event ingestion endpoint in front of it, and the forwarder variant -- with TLC-generated schedules
// (spec/EventSched.tla) inside a synctest bubble; the trace is judged by spec/EventTrace.tla (C19).
package c19

import (
	"bytes"
	"context"
	"encoding/json"
	"errors"
	"fmt"
	"io"
	"net/http"
	"net/http/httptest"
	"os"
	"sort"
	"strconv"
	"strings"
	"sync"
	"testing"
	"testing/synctest"
	"time"

	"github.com/sirupsen/logrus"
	"github.com/spf13/viper"
	"google.golang.org/protobuf/proto"

	"github.com/atlassian/gostatsd"
	"github.com/atlassian/gostatsd/pb"
	"github.com/atlassian/gostatsd/pkg/statsd"
	"github.com/atlassian/gostatsd/pkg/transport"
	"github.com/atlassian/gostatsd/pkg/web"

	"verifharness/internal/trace"
	"verifharness/internal/vh"
)

type op struct {
	Op string `json:"op"`
	K  int    `json:"k"`
	S  string `json:"s"`
}

type expEv struct {
	Title  []string   `json:"title"`
	Text   []string   `json:"text"`
	Date   []string   `json:"date"`
	AggKey []string   `json:"aggkey"`
	SType  []string   `json:"stype"`
	Pri    []string   `json:"pri"`
	Alert  []string   `json:"alert"`
	Tags   [][]string `json:"tags"`
}

type line struct {
	Toks []string `json:"toks"`
	Exp  expEv    `json:"exp"`
}

type scase struct {
	Cfg struct {
		Mode   string `json:"mode"`
		B      int    `json:"b"`
		Tokens int    `json:"tokens"`
		IH     bool   `json:"ih"`
	} `json:"cfg"`
	Sched []op   `json:"sched"`
	Lines []line `json:"lines"`
}

func cat(t []string) string {
	s := strings.Join(t, "")
	s = strings.ReplaceAll(s, "U2", "\u00e9") // one character of two bytes
	return strings.ReplaceAll(s, "NL", "\n")
}

var ipOf = map[string]string{"x": "10.0.0.1", "y": "10.0.0.2"}

// what each accepted event should look like at a backend
type want struct {
	title, text, agg, stype, pri, alert string
	date                                int64
	tags                                []string
	source                              string // sender address; replaced by the instance id after a positive lookup
	cloud                               string // "" while the lookup is pending, then "pos" | "neg": the cache's answer when the event arrived, else the lookup's
}

type world struct {
	mu       sync.Mutex
	tw       *trace.Writer
	wants    map[int]*want
	cloud    map[string]string // source -> "pos" | "neg" while the instance cache knows it
	gates    map[int]chan struct{}
	failNext map[int]int // backend -> SendEvent calls that still have to fail with an error of the backend's own
	upFail   int         // forwarder mode: event POSTs the upstream still has to refuse (after reading the body)
	res      *vh.Result
	rec      map[string]any
}

// resolve: the lookup for ip was answered; every event of that sender still waiting gets this answer, and the cache knows it from now on
func (w *world) resolve(ip, r string) {
	w.mu.Lock()
	defer w.mu.Unlock()
	w.cloud[ip] = r
	for _, x := range w.wants {
		if x.source == ip && x.cloud == "" {
			x.cloud = r
		}
	}
}

func idOf(tags gostatsd.Tags) int {
	for _, t := range tags {
		if strings.HasPrefix(t, "id:") {
			n, _ := strconv.Atoi(t[3:])
			return n
		}
	}
	return -1
}

func (w *world) check(e *gostatsd.Event, id int, forwarder bool) (bool, string) {
	w.mu.Lock()
	defer w.mu.Unlock()
	x := w.wants[id]
	if x == nil {
		return false, "unknown event"
	}
	tags := append([]string{}, x.tags...)
	src := x.source
	if !forwarder {
		tags = append(tags, "st:1")
		if x.cloud == "" {
			return false, "handed to a backend before the sender's lookup was answered"
		}
		if x.cloud == "pos" {
			tags = append(tags, "inst:"+x.source, "region:r")
			src = "i-" + x.source
		}
	}
	got := append([]string{}, e.Tags...)
	sort.Strings(got)
	sort.Strings(tags)
	switch {
	case e.Title != x.title:
		return false, fmt.Sprintf("title %q want %q", e.Title, x.title)
	case e.Text != x.text:
		return false, fmt.Sprintf("text %q want %q", e.Text, x.text)
	case x.date != 0 && e.DateHappened != x.date:
		return false, fmt.Sprintf("date %d want %d", e.DateHappened, x.date)
	case x.date == 0 && e.DateHappened == 0:
		return false, "no time although the line carried none (receipt time expected)"
	case e.AggregationKey != x.agg:
		return false, fmt.Sprintf("aggregation key %q want %q", e.AggregationKey, x.agg)
	case e.SourceTypeName != x.stype:
		return false, fmt.Sprintf("source type %q want %q", e.SourceTypeName, x.stype)
	case e.Priority.String() != x.pri:
		return false, fmt.Sprintf("priority %s want %s", e.Priority, x.pri)
	case e.AlertType.String() != x.alert:
		return false, fmt.Sprintf("alert type %s want %s", e.AlertType, x.alert)
	case fmt.Sprint(got) != fmt.Sprint(tags):
		return false, fmt.Sprintf("tags %v want %v", got, tags)
	case string(e.Source) != src:
		return false, fmt.Sprintf("source %q want %q", e.Source, src)
	}
	return true, ""
}

type backend struct {
	n int
	w *world
}

func (b *backend) Name() string { return fmt.Sprint("rec", b.n) }
func (b *backend) SendMetricsAsync(ctx context.Context, mm *gostatsd.MetricMap, cb gostatsd.SendCallback) {
	cb(nil)
}
func (b *backend) SendEvent(ctx context.Context, e *gostatsd.Event) error {
	id := idOf(e.Tags)
	ok, why := b.w.check(e, id, false)
	b.w.tw.Emit(map[string]any{"ev": "handed", "b": b.n, "id": id, "fields": ok, "why": why})
	if !ok {
		b.w.res.Note("event %d at backend %d: %s", id, b.n, why)
	}
	b.w.mu.Lock()
	g := b.w.gates[b.n]
	b.w.mu.Unlock()
	if g != nil {
		select {
		case <-g:
		case <-ctx.Done():
		}
	}
	alive := ctx.Err() == nil // a backend that honours its context cannot finish once it is cancelled
	b.w.tw.Emit(map[string]any{"ev": "sent", "b": b.n, "id": id, "ok": alive})
	b.w.mu.Lock()
	fail := alive && b.w.failNext[b.n] > 0
	if fail {
		b.w.failNext[b.n]--
	}
	b.w.mu.Unlock()
	if fail { // the event reached the backend, whose own transport then let it down: that is the backend's affair, not the pipeline's
		b.w.res.Hit("backend-send-error")
		return errors.New("503 from the vendor")
	}
	return ctx.Err()
}

// tap sits where the parser and the HTTP endpoint hand events to the pipeline: an event is accepted when it is dispatched here
type tap struct {
	gostatsd.PipelineHandler
	w *world
}

func (t *tap) DispatchEvent(ctx context.Context, e *gostatsd.Event) {
	id := idOf(e.Tags)
	t.w.mu.Lock()
	if x := t.w.wants[id]; x != nil && x.cloud == "" {
		x.cloud = t.w.cloud[x.source] // what the instance cache knows of the sender as the event arrives; "" = lookup needed
	}
	t.w.mu.Unlock()
	t.w.tw.Emit(map[string]any{"ev": "accepted", "id": id})
	t.PipelineHandler.DispatchEvent(ctx, e)
}

type cache struct {
	mu    sync.Mutex
	known map[gostatsd.Source]*gostatsd.Instance
	sink  chan gostatsd.Source
	info  chan gostatsd.InstanceInfo
}

func (c *cache) Peek(ip gostatsd.Source) (*gostatsd.Instance, bool) {
	c.mu.Lock()
	defer c.mu.Unlock()
	i, ok := c.known[ip]
	return i, ok
}
func (c *cache) IpSink() chan<- gostatsd.Source           { return c.sink }
func (c *cache) InfoSource() <-chan gostatsd.InstanceInfo { return c.info }
func (c *cache) EstimatedTags() int                       { return 2 }

type upstream struct{ w *world }

func (u *upstream) RoundTrip(req *http.Request) (*http.Response, error) {
	b, _ := io.ReadAll(req.Body)
	req.Body.Close()
	rec := httptest.NewRecorder()
	if req.URL.Path == "/v2/event" {
		u.w.mu.Lock()
		refuse := u.w.upFail > 0
		if refuse {
			u.w.upFail--
		}
		u.w.mu.Unlock()
		if refuse { // the body has been read; the forwarder must send the same event again
			u.w.res.Hit("upstream-refused-event")
			rec.WriteHeader(503)
			return rec.Result(), nil
		}
		var m pb.EventV2
		if err := proto.Unmarshal(b, &m); err == nil {
			e := &gostatsd.Event{Title: m.Title, Text: m.Text, DateHappened: m.DateHappened, Source: gostatsd.Source(m.Hostname), AggregationKey: m.AggregationKey,
				SourceTypeName: m.SourceTypeName, Tags: m.Tags}
			if m.Priority == pb.EventV2_Low {
				e.Priority = gostatsd.PriLow
			}
			e.AlertType = map[pb.EventV2_AlertType]gostatsd.AlertType{pb.EventV2_Info: gostatsd.AlertInfo, pb.EventV2_Warning: gostatsd.AlertWarning,
				pb.EventV2_Error: gostatsd.AlertError, pb.EventV2_Success: gostatsd.AlertSuccess}[m.Type]
			id := idOf(e.Tags)
			ok, why := u.w.check(e, id, true)
			u.w.tw.Emit(map[string]any{"ev": "handed", "b": 1, "id": id, "fields": ok, "why": why})
			u.w.tw.Emit(map[string]any{"ev": "sent", "b": 1, "id": id, "ok": req.Context().Err() == nil})
		}
	}
	rec.WriteHeader(202)
	return rec.Result(), nil
}

func runSchedule(t *testing.T, tw *trace.Writer, c *scase, idx int, res *vh.Result) {
	defer func() {
		// goroutines that stay blocked for ever make the bubble panic on exit; the trace written so far is still judged
		if x := recover(); x != nil {
			res.Note("bubble left with blocked goroutines: %v", x)
			res.Hit("goroutines-left-blocked")
		}
	}()
	synctest.Test(t, func(t *testing.T) {
		logger := logrus.New()
		logger.SetLevel(logrus.PanicLevel)
		logrus.SetLevel(logrus.PanicLevel)
		ctx, cancel := context.WithCancel(context.Background())
		w := &world{tw: tw, wants: map[int]*want{}, cloud: map[string]string{}, gates: map[int]chan struct{}{}, failNext: map[int]int{}, res: res}
		var wg sync.WaitGroup
		var top gostatsd.PipelineHandler
		forwarder := c.Cfg.Mode == "forwarder"
		ci := &cache{known: map[gostatsd.Source]*gostatsd.Instance{}, sink: make(chan gostatsd.Source), info: make(chan gostatsd.InstanceInfo)}
		nb := c.Cfg.B
		if forwarder {
			pool := transport.NewTransportPool(logger, viper.New())
			cl, _ := pool.Get("default")
			cl.Client.Transport = &upstream{w}
			cl.Client.Timeout = 0
			fwd, err := statsd.NewHttpForwarderHandlerV2(logger, "default", "http://up", 1, 2, 1, false, "zlib", 0, 3*time.Second, time.Second, nil, nil, pool, nil)
			if err != nil {
				t.Fatal(err)
			}
			wg.Add(1)
			go func() { defer wg.Done(); fwd.Run(ctx) }()
			top = fwd
			nb = 1
		} else {
			var backends []gostatsd.Backend
			for i := 1; i <= c.Cfg.B; i++ {
				backends = append(backends, &backend{i, w})
			}
			bh := statsd.NewBackendHandler(backends, uint(c.Cfg.Tokens), 1, 1, statsd.AggregatorFactoryFunc(func() statsd.Aggregator {
				return statsd.NewMetricAggregator(nil, 0, 0, 0, 0, gostatsd.TimerSubtypes{}, 0)
			}))
			th := statsd.NewTagHandler(bh, gostatsd.Tags{"st:1"}, nil)
			ch := statsd.NewCloudHandler(ci, th)
			wg.Add(2)
			go func() { defer wg.Done(); bh.Run(ctx) }()
			go func() { defer wg.Done(); ch.Run(ctx) }()
			top = ch
		}
		top = &tap{top, w}
		srv, err := web.NewHttpServer(logger, top, "in", "127.0.0.1:0", false, false, true, false, nil, nil)
		if err != nil {
			t.Fatal(err)
		}
		in := make(chan []*statsd.Datagram)
		dp := statsd.NewDatagramParser(in, "", c.Cfg.IH, 0, top, 0, false, logger) // ignore-host concerns metrics only
		wg.Add(1)
		go func() { defer wg.Done(); dp.Run(ctx) }()
		synctest.Wait()
		tw.Emit(map[string]any{"ev": "start", "backends": nb, "case": idx, "cfg": c.Cfg})
		n := 0
		var taken []gostatsd.Source
		mkWant := func(k int, id int, source string) *want {
			e := c.Lines[k-1].Exp
			x := &want{title: cat(e.Title), text: cat(e.Text), agg: cat(e.AggKey), stype: cat(e.SType), pri: "normal", alert: "info", source: source}
			if len(e.Pri) > 0 {
				x.pri = cat(e.Pri)
			}
			if len(e.Alert) > 0 {
				x.alert = cat(e.Alert)
			}
			if len(e.Date) > 0 {
				x.date, _ = strconv.ParseInt(cat(e.Date), 10, 64)
			}
			for _, tg := range e.Tags {
				x.tags = append(x.tags, cat(tg))
			}
			x.tags = append(x.tags, fmt.Sprint("id:", id))
			return x
		}
		waits := 0
		for _, o := range c.Sched {
			switch o.Op {
			case "ev", "evbad", "evsp":
				n++
				text := strings.ReplaceAll(strings.Join(c.Lines[o.K-1].Toks, ""), "U2", "\u00e9")
				x := mkWant(o.K, n, o.S)
				if o.Op == "evbad" { // one more tag, after the line's own, with a byte that is not UTF-8
					text += ",o:Jos\xe9"
					if forwarder {
						x.tags = append(x.tags, "o:Jos\uFFFD")
					} else {
						x.tags = append(x.tags, "o:Jos\xe9")
					}
					res.Hit("invalid-utf8-tag-after-valid-ones")
				}
				if strings.Contains(text, "|#") {
					text += fmt.Sprint(",id:", n)
				} else {
					text += fmt.Sprint("|#id:", n)
				}
				if o.Op == "evsp" { // the line ends in a tag whose value ends in a blank: part of the tag like any other byte
					text += ",w:x "
					x.tags = append(x.tags, "w:x ")
					res.Hit("line-ending-in-a-blank")
				}
				w.mu.Lock()
				w.wants[n] = x
				w.mu.Unlock()
				tw.Emit(map[string]any{"ev": "offered", "id": n, "via": "udp", "line": text})
				dg := &statsd.Datagram{IP: gostatsd.Source(o.S), Msg: []byte(text), Timestamp: gostatsd.Nanotime(time.Now().UnixNano()), DoneFunc: func() {}}
				go func() {
					select {
					case in <- []*statsd.Datagram{dg}:
					case <-ctx.Done():
					}
				}()
			case "evhttp":
				n++
				x := mkWant(o.K, n, "h9")
				if forwarder {
					x.source = "h9"
				}
				x.cloud = "neg" // the instance cache is told below that h9 has no instance
				w.mu.Lock()
				w.wants[n] = x
				w.mu.Unlock()
				ci.mu.Lock()
				ci.known["h9"] = nil
				ci.mu.Unlock()
				m := &pb.EventV2{Title: x.title, Text: x.text, DateHappened: x.date, Hostname: "h9", AggregationKey: x.agg, SourceTypeName: x.stype, Tags: x.tags}
				if x.date == 0 {
					m.DateHappened = 777
					x.date = 777
				}
				if x.pri == "low" {
					m.Priority = pb.EventV2_Low
				}
				m.Type = map[string]pb.EventV2_AlertType{"info": pb.EventV2_Info, "warning": pb.EventV2_Warning, "error": pb.EventV2_Error, "success": pb.EventV2_Success}[x.alert]
				body, _ := proto.Marshal(m)
				// net/http cancels the request context as soon as the handler returns
				rctx, rcancel := context.WithCancel(context.Background())
				req := httptest.NewRequest("POST", "/v2/event", bytes.NewReader(body)).WithContext(rctx)
				rr := httptest.NewRecorder()
				tw.Emit(map[string]any{"ev": "offered", "id": n, "via": "http"})
				// the request waits for an event token when all are taken (back-pressure), so it runs beside the schedule like a real client
				wg.Add(1)
				go func() {
					defer wg.Done()
					srv.Router.ServeHTTP(rr, req)
					rcancel()
					if rr.Code != 202 {
						res.Note("POST /v2/event of a well-formed event answered %d", rr.Code)
					}
				}()
				res.Hit("http-ingested")
			case "known":
				parts := strings.SplitN(o.S, ":", 2)
				var inst *gostatsd.Instance
				if parts[1] == "pos" {
					inst = &gostatsd.Instance{ID: gostatsd.Source("i-" + parts[0]), Tags: gostatsd.Tags{"inst:" + parts[0], "region:r"}}
				}
				ci.mu.Lock()
				ci.known[gostatsd.Source(parts[0])] = inst
				ci.mu.Unlock()
				w.mu.Lock()
				w.cloud[parts[0]] = parts[1]
				w.mu.Unlock()
			case "take":
				synctest.Wait()
				select {
				case ip := <-ci.sink:
					taken = append(taken, ip)
					res.Hit("lookup-pending")
				default:
				}
			case "answer":
				if len(taken) > 0 {
					ip := taken[0]
					taken = taken[1:]
					var inst *gostatsd.Instance
					if o.S == "pos" {
						inst = &gostatsd.Instance{ID: "i-" + ip, Tags: gostatsd.Tags{"inst:" + string(ip), "region:r"}}
					}
					ci.mu.Lock()
					ci.known[ip] = inst
					ci.mu.Unlock()
					w.resolve(string(ip), o.S)
					ci.info <- gostatsd.InstanceInfo{IP: ip, Instance: inst}
				}
			case "hold":
				w.mu.Lock()
				if w.gates[o.K] == nil {
					w.gates[o.K] = make(chan struct{})
				}
				w.mu.Unlock()
				res.Hit("backend-held")
			case "release":
				w.mu.Lock()
				if g := w.gates[o.K]; g != nil {
					close(g)
					w.gates[o.K] = nil
				}
				w.mu.Unlock()
			case "bfail":
				w.mu.Lock()
				w.failNext[o.K]++
				w.mu.Unlock()
			case "evict":
				ci.mu.Lock()
				_, had := ci.known[gostatsd.Source(o.S)]
				delete(ci.known, gostatsd.Source(o.S))
				ci.mu.Unlock()
				w.mu.Lock()
				delete(w.cloud, o.S)
				w.mu.Unlock()
				if had {
					res.Hit("cache-entry-evicted")
				}
			case "refresh":
				ci.mu.Lock()
				inst, had := ci.known[gostatsd.Source(o.S)]
				ci.mu.Unlock()
				if had {
					r := "neg"
					if inst != nil {
						r = "pos"
					}
					w.resolve(o.S, r) // events of s still waiting for a lookup are answered by this announcement
					ci.info <- gostatsd.InstanceInfo{IP: gostatsd.Source(o.S), Instance: inst}
					res.Hit("cache-refresh-announced")
				}
			case "upfail":
				w.mu.Lock()
				w.upFail = 1 // only the next POST: an upstream that keeps refusing makes the forwarder give up, which is not this property's case
				w.mu.Unlock()
			case "wait":
				waits++
				tw.Emit(map[string]any{"ev": "waitcall"})
				wg.Add(1)
				go func() {
					defer wg.Done()
					top.WaitForEvents()
					tw.Emit(map[string]any{"ev": "waitreturn"})
				}()
				res.Hit("wait")
			}
			synctest.Wait()
		}
		// epilogue: release every backend, serve every lookup, then everything accepted must have been delivered everywhere
		w.mu.Lock()
		for k, g := range w.gates {
			if g != nil {
				close(g)
				w.gates[k] = nil
			}
		}
		w.mu.Unlock()
		for i := 0; i < 20; i++ {
			synctest.Wait()
			select {
			case ip := <-ci.sink:
				inst := &gostatsd.Instance{ID: "i-" + ip, Tags: gostatsd.Tags{"inst:" + string(ip), "region:r"}}
				ci.mu.Lock()
				ci.known[ip] = inst
				ci.mu.Unlock()
				w.resolve(string(ip), "pos")
				ci.info <- gostatsd.InstanceInfo{IP: ip, Instance: inst}
				continue
			default:
			}
			if len(taken) > 0 {
				ip := taken[0]
				taken = taken[1:]
				w.resolve(string(ip), "neg")
				ci.mu.Lock()
				ci.known[ip] = nil
				ci.mu.Unlock()
				ci.info <- gostatsd.InstanceInfo{IP: ip}
				continue
			}
			break
		}
		time.Sleep(5 * time.Second)
		synctest.Wait()
		tw.Emit(map[string]any{"ev": "quiesce"})
		res.Eval(n >= 2)
		cancel()
		wg.Wait()
	})
}

func TestSchedules(t *testing.T) {
	path := os.Getenv("VERIF_CASES")
	if path == "" {
		t.Skip("VERIF_CASES not set")
	}
	res := vh.NewResult()
	defer res.Write()
	tw, err := trace.New(os.Getenv("VERIF_TRACE_OUT"))
	if err != nil {
		t.Fatal(err)
	}
	defer tw.Close()
	every := vh.EnvInt("VERIF_EVERY", 1)
	seed := vh.Seed()
	seen := map[string]bool{}
	err = vh.ReadCases(path, func(idx int, raw []byte) error {
		if seen[string(raw)] {
			return nil
		}
		seen[string(raw)] = true
		var c scase
		if err := json.Unmarshal(raw, &c); err != nil {
			return err
		}
		if len(c.Sched) < 8 && (idx+int(seed))%every != 0 {
			return nil
		}
		runSchedule(t, tw, &c, idx, res)
		res.Hit("mode:" + c.Cfg.Mode)
		if c.Cfg.IH {
			res.Hit("ignore-host")
		}
		res.Hit(fmt.Sprintf("B=%d", c.Cfg.B))
		if idx%997 == 1 {
			res.Sample(map[string]any{"cfg": c.Cfg, "sched": c.Sched})
		}
		return nil
	})
	if err != nil {
		t.Fatal(err)
	}
	res.Traces = tw.N
	res.Distinct = res.Evaluations
}
