//go:build verif

// Package shut runs the real statsd.Server (RunWithCustomSocket: receiver, parsers, cloud stage, tag stage, BackendHandler, aggregators,
// flusher, internal statser, all started stage by stage through the stager) over an in-memory socket with recording backends, under
// virtual time, drives it with the TLC-generated schedules of spec/ShutdownSched.tla and writes what the outside can see of start-up and
// shutdown for spec/ShutdownTrace.tla (X02, beyond the listed properties).
package shut

import (
	"context"
	"encoding/json"
	"errors"
	"fmt"
	"io"
	"net"
	"net/http"
	"net/http/httptest"
	"os"
	"strings"
	"sync"
	"testing"
	"testing/synctest"
	"time"

	"github.com/sirupsen/logrus"
	"github.com/spf13/viper"
	"google.golang.org/protobuf/proto"

	"github.com/atlassian/gostatsd"
	"github.com/atlassian/gostatsd/pb"
	"github.com/atlassian/gostatsd/pkg/statsd"
	"github.com/atlassian/gostatsd/pkg/transport"

	"verifharness/internal/trace"
	"verifharness/internal/vh"
)

type op struct {
	Op string `json:"op"`
	K  int    `json:"k"`
}

type scase struct {
	Cfg struct {
		Mode     string `json:"mode"`
		Workers  int    `json:"workers"`
		Queue    int    `json:"queue"`
		Backends int    `json:"backends"`
		Cloud    bool   `json:"cloud"`
		Events   bool   `json:"events"`
		Expiry   int    `json:"expiry"` // seconds after which an idle series is dropped; 0: never
	} `json:"cfg"`
	Sched []op `json:"sched"`
}

type packet struct {
	data []byte
	addr net.Addr
}

type conn struct {
	q      chan packet
	closed chan struct{}
	once   sync.Once
}

func (c *conn) ReadFrom(p []byte) (int, net.Addr, error) {
	select {
	case pk := <-c.q:
		return copy(p, pk.data), pk.addr, nil
	case <-c.closed:
		return 0, nil, fmt.Errorf("use of closed network connection")
	}
}
func (c *conn) WriteTo(p []byte, addr net.Addr) (int, error) { return len(p), nil }
func (c *conn) Close() error                                 { c.once.Do(func() { close(c.closed) }); return nil }
func (c *conn) LocalAddr() net.Addr                          { return &net.UDPAddr{IP: net.IPv4(127, 0, 0, 1), Port: 8125} }
func (c *conn) SetDeadline(time.Time) error                  { return nil }
func (c *conn) SetReadDeadline(time.Time) error              { return nil }
func (c *conn) SetWriteDeadline(time.Time) error             { return nil }

// the server's own series the accounting monitor (spec/AccountingProp.tla) follows
var ownNames = map[string]bool{"receiver.datagrams_received": true, "parser.metrics_received": true, "parser.events_received": true, "parser.bad_lines_seen": true}

type world struct {
	mu    sync.Mutex
	tw    *trace.Writer
	start time.Time
	gates map[int]chan struct{}
}

func (w *world) emit(m map[string]any) {
	m["t"] = int(time.Since(w.start) / time.Millisecond)
	w.tw.Emit(m)
}

func (w *world) gate(b int) chan struct{} {
	w.mu.Lock()
	defer w.mu.Unlock()
	return w.gates[b]
}

// backend records what it is asked to do; while held it waits, like a backend whose transport is stuck, and honours its context
type backend struct {
	n int
	w *world
}

func (b *backend) Name() string { return fmt.Sprint("rec", b.n) }
func (b *backend) SendMetricsAsync(ctx context.Context, mm *gostatsd.MetricMap, cb gostatsd.SendCallback) {
	var names []string
	mm.Counters.Each(func(name, _ string, _ gostatsd.Counter) {
		if strings.HasPrefix(name, "m") {
			names = append(names, name)
		}
	})
	mm.Gauges.Each(func(name, _ string, g gostatsd.Gauge) {
		if ownNames[name] {
			b.w.emit(map[string]any{"ev": "own", "b": b.n, "name": name, "kind": "gauge", "v": int(g.Value)})
		}
	})
	b.w.emit(map[string]any{"ev": "flush", "b": b.n, "n": len(names)})
	g := b.w.gate(b.n)
	go func() {
		if g != nil {
			select {
			case <-g:
			case <-ctx.Done():
			}
		}
		b.w.emit(map[string]any{"ev": "flushdone", "b": b.n})
		cb(nil)
	}()
}
func (b *backend) SendEvent(ctx context.Context, e *gostatsd.Event) error {
	b.w.emit(map[string]any{"ev": "event", "b": b.n, "title": e.Title})
	if g := b.w.gate(b.n); g != nil {
		select {
		case <-g:
		case <-ctx.Done():
		}
	}
	b.w.emit(map[string]any{"ev": "eventdone", "b": b.n, "title": e.Title})
	return ctx.Err()
}

// upstream is what a forwarder-mode server talks to (counted as backend 1): POST /v2/raw is a flush, POST /v2/event an event; while held
// it does not answer until it is let go or the request's context ends
type upstream struct{ w *world }

func (u *upstream) RoundTrip(req *http.Request) (*http.Response, error) {
	b, _ := io.ReadAll(req.Body)
	req.Body.Close()
	switch req.URL.Path {
	case "/v2/event":
		var m pb.EventV2
		if proto.Unmarshal(b, &m) == nil {
			u.w.emit(map[string]any{"ev": "event", "b": 1, "title": m.Title})
		}
	case "/v2/raw":
		var m pb.RawMessageV2
		n := 0
		if proto.Unmarshal(b, &m) == nil {
			for name, tm := range m.Counters {
				if strings.HasPrefix(name, "m") {
					n++
				}
				if ownNames[name] {
					for _, c := range tm.TagMap {
						u.w.emit(map[string]any{"ev": "own", "b": 1, "name": name, "kind": "count", "v": int(c.Value)})
					}
				}
			}
			for name, tm := range m.Gauges { // bad_lines_seen is a gauge in either mode
				if ownNames[name] {
					for _, g := range tm.TagMap {
						u.w.emit(map[string]any{"ev": "own", "b": 1, "name": name, "kind": "gauge", "v": int(g.Value)})
					}
				}
			}
		}
		u.w.emit(map[string]any{"ev": "flush", "b": 1, "n": n})
	}
	if g := u.w.gate(1); g != nil {
		select {
		case <-g:
		case <-req.Context().Done():
			return nil, req.Context().Err()
		case <-time.After(10 * time.Second): // what the HTTP client's own timeout does with an upstream that never answers
			return nil, errors.New("Client.Timeout exceeded while awaiting headers")
		}
	}
	rec := httptest.NewRecorder()
	rec.WriteHeader(202)
	return rec.Result(), nil
}

// cache answers every lookup after 10 ms: the server's own events carry its hostname as their source and wait for the answer like any other
type cache struct {
	sink chan gostatsd.Source
	info chan gostatsd.InstanceInfo
}

func (c *cache) Peek(gostatsd.Source) (*gostatsd.Instance, bool) { return nil, false }
func (c *cache) IpSink() chan<- gostatsd.Source                  { return c.sink }
func (c *cache) InfoSource() <-chan gostatsd.InstanceInfo        { return c.info }
func (c *cache) EstimatedTags() int                              { return 1 }
func (c *cache) Run(ctx context.Context) {
	for {
		select {
		case <-ctx.Done():
			return
		case ip := <-c.sink:
			select {
			case <-time.After(10 * time.Millisecond):
			case <-ctx.Done():
				return
			}
			select {
			case c.info <- gostatsd.InstanceInfo{IP: ip, Instance: &gostatsd.Instance{ID: "i-" + ip, Tags: gostatsd.Tags{"region:r"}}}:
			case <-ctx.Done():
				return
			}
		}
	}
}

func runSchedule(t *testing.T, tw *trace.Writer, c *scase, idx int, res *vh.Result) {
	leaked := false
	func() {
		defer func() {
			// goroutines that stay blocked for ever make the bubble panic on exit: for this property that is the verdict
			if os.Getenv("VERIF_NORECOVER") != "" {
				return
			}
			if x := recover(); x != nil {
				leaked = true
				if c.Cfg.Mode == "forwarder" {
					// observed, not judged: a forwarder stopped while posts are outstanding returns with its merge goroutines still waiting
					// for a request slot that Run's own drain loop has taken (their flush is never posted); see DESIGN 11.8
					tw.Emit(map[string]any{"ev": "leak-forwarder", "what": fmt.Sprint(x)})
					res.Hit("forwarder-goroutines-left-at-return")
					return
				}
				tw.Emit(map[string]any{"ev": "leak", "what": fmt.Sprint(x)})
				res.Hit("goroutines-left-blocked")
			}
		}()
		synctest.Test(t, func(t *testing.T) {
			logrus.SetLevel(logrus.PanicLevel)
			w := &world{tw: tw, start: time.Now(), gates: map[int]chan struct{}{}}
			var bs []gostatsd.Backend
			for i := 1; i <= c.Cfg.Backends; i++ {
				bs = append(bs, &backend{i, w})
			}
			sock := &conn{q: make(chan packet, 64), closed: make(chan struct{})}
			srv := &statsd.Server{Backends: bs, FlushInterval: time.Second, MaxReaders: 1, MaxParsers: 2, MaxWorkers: c.Cfg.Workers, MaxQueueSize: c.Cfg.Queue,
				MaxConcurrentEvents: 2, EstimatedTags: 4, ReceiveBatchSize: 2, ServerMode: "standalone", Hostname: "me", DisableInternalEvents: !c.Cfg.Events,
				Viper: viper.New(), PercentThreshold: []float64{90}}
			exp := time.Duration(c.Cfg.Expiry) * time.Second
			srv.ExpiryIntervalCounter, srv.ExpiryIntervalGauge, srv.ExpiryIntervalSet, srv.ExpiryIntervalTimer = exp, exp, exp, exp
			if c.Cfg.Expiry == 0 {
				res.Hit("expiry-disabled")
			}
			if c.Cfg.Mode == "forwarder" {
				logger := logrus.New()
				logger.SetLevel(logrus.PanicLevel)
				v := viper.New()
				v.Set("http-transport.api-endpoint", "http://up")
				v.Set("http-transport.compress", false)
				v.Set("http-transport.max-request-elapsed-time", "3s")
				v.Set("http-transport.flush-interval", "1s")
				pool := transport.NewTransportPool(logger, v)
				cl, err := pool.Get("default")
				if err != nil {
					t.Fatal(err)
				}
				cl.Client.Transport = &upstream{w}
				cl.Client.Timeout = 0
				srv.ServerMode, srv.Viper, srv.TransportPool, srv.Backends = "forwarder", v, pool, nil
				res.Hit("mode:forwarder")
			}
			if c.Cfg.Cloud {
				ci := &cache{sink: make(chan gostatsd.Source), info: make(chan gostatsd.InstanceInfo)}
				srv.CachedInstances = ci
				srv.Runnables = []gostatsd.Runnable{ci.Run} // what cmd/gostatsd does with the provider it builds
			}
			ctx, cancel := context.WithCancel(context.Background())
			tw.Emit(map[string]any{"ev": "start", "case": idx, "backends": c.Cfg.Backends, "events": c.Cfg.Events, "cfg": c.Cfg})
			done := make(chan error, 1)
			go func() {
				defer func() {
					if x := recover(); x != nil {
						w.emit(map[string]any{"ev": "panic", "what": fmt.Sprint(x)})
						done <- fmt.Errorf("panic")
					}
				}()
				done <- srv.RunWithCustomSocket(ctx, func() (net.PacketConn, error) { return sock, nil })
			}()
			synctest.Wait()
			stopped := false
			stopAt := time.Time{}
			seq := 0
			everHeld := false
			send := func(text string, from, m, e, bad int) {
				select {
				case sock.q <- packet{[]byte(text), &net.UDPAddr{IP: net.IPv4(10, 0, 0, byte(1+from%2)), Port: 999}}:
					// (what is put on the socket of a server that is being stopped may or may not be read: the totals are an upper bound
					// from then on, and nothing is settled after a stop)
					w.emit(map[string]any{"ev": "offered", "d": 1, "m": m, "e": e, "bad": bad})
				default:
				}
			}
			for _, o := range c.Sched {
				switch o.Op {
				case "dg":
					var lines []string
					for k := 0; k < o.K; k++ {
						seq++
						lines = append(lines, fmt.Sprintf("m%d:1|c|#a:b", seq))
					}
					send(strings.Join(lines, "\n"), seq, o.K, 0, 0)
					res.Hit("datagram")
				case "bad": // a line the parser rejects next to one it accepts
					seq++
					send(fmt.Sprintf("zz%d:x|c\nm%d:1|c", seq, seq), seq, 1, 0, 1)
					res.Hit("bad-line")
				case "ev":
					seq++
					send(fmt.Sprintf("_e{2,2}:t%d|xx|#a:b", seq%10), seq, 0, 1, 0)
					res.Hit("client-event")
				case "hold":
					w.mu.Lock()
					if w.gates[o.K] == nil {
						w.gates[o.K] = make(chan struct{})
					}
					w.mu.Unlock()
					everHeld = true
					w.emit(map[string]any{"ev": "hold", "b": o.K})
					res.Hit("backend-held")
				case "release":
					w.mu.Lock()
					if g := w.gates[o.K]; g != nil {
						close(g)
						w.gates[o.K] = nil
					}
					w.mu.Unlock()
				case "adv":
					time.Sleep(time.Duration(o.K) * 100 * time.Millisecond)
				case "stop":
					if !stopped {
						stopped, stopAt = true, time.Now()
						w.emit(map[string]any{"ev": "stop"})
						cancel()
						res.Hit("stop-in-schedule")
					}
				}
				synctest.Wait()
			}
			if !stopped {
				if !everHeld {
					// every backend has answered all along: after four more flush intervals everything offered has been read, counted, reported
					// by the components, carried through the pipeline and handed to the backends
					time.Sleep(4500 * time.Millisecond)
					synctest.Wait()
					w.emit(map[string]any{"ev": "settled"})
					res.Hit("settled")
				}
				stopAt = time.Now()
				w.emit(map[string]any{"ev": "stop"})
				cancel()
			}
			select {
			case err := <-done:
				w.emit(map[string]any{"ev": "returned", "after": int(time.Since(stopAt) / time.Millisecond), "err": fmt.Sprint(err)})
			case <-time.After(300 * time.Second): // every backend call gives up after 20 s at the latest, and a schedule holds few of them
				w.emit(map[string]any{"ev": "stuck", "after": 300000})
				res.Hit("run-did-not-return")
			}
			// whatever is still held is let go (a backend call made before the return may still be waiting on its own 20 s limit)
			w.mu.Lock()
			for k, g := range w.gates {
				if g != nil {
					close(g)
					w.gates[k] = nil
				}
			}
			w.mu.Unlock()
			time.Sleep(30 * time.Second)
			synctest.Wait()
			w.emit(map[string]any{"ev": "end"})
			res.Eval(true)
		})
	}()
	_ = leaked
}

func TestSchedules(t *testing.T) {
	path := os.Getenv("VERIF_CASES")
	if path == "" {
		t.Skip("VERIF_CASES not set")
	}
	res := vh.NewResult()
	defer res.Write()
	tw, err := trace.New(os.Getenv("VERIF_TRACE_OUT"))
	if err != nil {
		t.Fatal(err)
	}
	defer tw.Close()
	seen := map[string]bool{}
	err = vh.ReadCases(path, func(idx int, raw []byte) error {
		if seen[string(raw)] {
			return nil
		}
		seen[string(raw)] = true
		var c scase
		if err := json.Unmarshal(raw, &c); err != nil {
			return err
		}
		runSchedule(t, tw, &c, idx, res)
		if c.Cfg.Cloud {
			res.Hit("cloud-stage")
		}
		if idx%301 == 2 {
			res.Sample(c)
		}
		return nil
	})
	if err != nil {
		t.Fatal(err)
	}
	res.Traces = tw.N
	res.Distinct = res.Evaluations
}
