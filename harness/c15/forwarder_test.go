//go:build verif

// Package c15 drives the real HttpForwarderHandlerV2 (consolidator, merge / request semaphores, retry loop, dynamic headers,
// manual flush through the real flush coordinator or timer driven) with TLC-generated schedules (spec/ForwarderSched.tla)
// against a scripted in-memory upstream inside a synctest bubble; the recorded trace is judged by spec/DeliveryTrace.tla (C15).
package c15

import (
	"context"
	"encoding/json"
	"errors"
	"fmt"
	"io"
	"net/http"
	"net/http/httptest"
	"os"
	"sort"
	"strings"
	"sync"
	"testing"
	"testing/synctest"
	"time"

	"github.com/sirupsen/logrus"
	"github.com/spf13/viper"
	"google.golang.org/protobuf/proto"

	"github.com/atlassian/gostatsd"
	"github.com/atlassian/gostatsd/pb"
	"github.com/atlassian/gostatsd/pkg/stats"
	"github.com/atlassian/gostatsd/pkg/statsd"
	"github.com/atlassian/gostatsd/pkg/transport"
	"github.com/atlassian/gostatsd/pkg/web"
	"github.com/atlassian/gostatsd/verifhooks"

	"verifharness/internal/fakes"
	"verifharness/internal/trace"
	"verifharness/internal/vh"
)

type op struct {
	Op string `json:"op"`
	K  int    `json:"k"`
	O  string `json:"o"`
	N  int    `json:"n"`
}

type scase struct {
	Cfg struct {
		Slots  int  `json:"slots"`
		Merge  int  `json:"merge"`
		Reqs   int  `json:"reqs"`
		W      int  `json:"w"`
		Dyn    bool `json:"dyn"`
		Manual bool `json:"manual"`
	} `json:"cfg"`
	Sched []op `json:"sched"`
}

type errReader struct{}

func (errReader) Read([]byte) (int, error) { return 0, io.ErrUnexpectedEOF }

type bodyState struct {
	first, last int
	ok          bool
}

type upstream struct {
	mu       sync.Mutex
	tw       *trace.Writer
	start    time.Time
	plan     []string
	bodies   map[string]*bodyState
	w        int
	shared   int64 // sum of the shared counter over successfully delivered bodies
	sharedF  int64 // ... over bodies whose last attempt failed
	perBody  map[string]int64
	inflight int
}

func (u *upstream) ms() int { return int(time.Since(u.start) / time.Millisecond) }

func (u *upstream) RoundTrip(req *http.Request) (*http.Response, error) {
	b, _ := io.ReadAll(req.Body)
	req.Body.Close()
	var msg pb.RawMessageV2
	ids := []string{}
	var shared int64
	var derr error
	switch req.Header.Get("Content-Encoding") { // what the receiving gostatsd does with the body
	case web.ZlibContentEncoding:
		b, derr = web.DecompressWithZlib(b)
	case web.Lz4ContentEncoding:
		b, derr = web.DecompressWithLz4(b)
	}
	if derr == nil {
		derr = proto.Unmarshal(b, &msg)
	}
	if err := derr; err == nil {
		for name, tm := range msg.Counters {
			for _, c := range tm.TagMap {
				if strings.HasPrefix(name, "d") {
					ids = append(ids, name)
				} else {
					shared += c.Value
				}
			}
		}
		for name, tm := range msg.Sets {
			if name != "st" {
				continue
			}
			for _, st := range tm.TagMap {
				for _, m := range st.Values {
					ids = append(ids, m)
				}
			}
		}
	} else {
		ids = append(ids, "undecodable")
	}
	sort.Strings(ids)
	// two dynamic headers; the request's header value is the pair
	hdr := req.Header.Get("Region")
	if sv, ok := req.Header["Svc"]; ok || hdr != "" {
		hdr += "/" + strings.Join(sv, "+")
	}
	bid := strings.Join(ids, ",") + "|" + hdr
	t0 := u.ms()
	u.mu.Lock()
	o := "ok"
	if len(u.plan) > 0 {
		o, u.plan = u.plan[0], u.plan[1:]
	}
	u.mu.Unlock()
	// the event is written when the request ARRIVES (that is when the body exists for the upstream); the answer time is known
	t := t0
	if o == "slow" {
		t = t0 + 2000
	}
	ok := o == "ok" || o == "okshort"
	u.mu.Lock()
	if u.bodies[bid] == nil {
		u.bodies[bid] = &bodyState{first: t0}
	}
	u.bodies[bid].last, u.bodies[bid].ok = t, ok
	u.perBody[bid] = shared
	u.tw.Emit(map[string]any{"ev": "attempt", "bid": bid, "ids": ids, "hdr": hdr, "t0": t0, "t": t, "ok": ok, "outcome": o})
	u.inflight++
	u.mu.Unlock()
	if o == "slow" {
		time.Sleep(2 * time.Second)
	}
	u.mu.Lock()
	u.inflight--
	u.mu.Unlock()
	switch o {
	case "connerr":
		return nil, errors.New("connection refused")
	case "ok":
		rec := httptest.NewRecorder()
		rec.WriteHeader(202)
		return rec.Result(), nil
	case "okshort": // a 2xx whose response body breaks off while it is read
		return &http.Response{StatusCode: 202, Status: "202 Accepted", Proto: "HTTP/1.1", ProtoMajor: 1, ProtoMinor: 1, Header: http.Header{},
			ContentLength: 64, Body: io.NopCloser(io.MultiReader(strings.NewReader("ok"), errReader{})), Request: req}, nil
	}
	rec := httptest.NewRecorder()
	if o == "404" { // a 4xx is a failed attempt like any other: the same body is sent again within the window
		rec.WriteHeader(404)
	} else {
		rec.WriteHeader(500)
	}
	return rec.Result(), nil
}

// inBackoff: some body failed last time and its window is not exhausted, so it will be attempted again
func (u *upstream) inBackoff() bool {
	u.mu.Lock()
	defer u.mu.Unlock()
	if u.inflight > 0 { // a request is being served: bodies behind it may still wait for a request token
		return true
	}
	for _, b := range u.bodies {
		if !b.ok && u.w != -1 && b.last-b.first <= u.w+1 {
			return true
		}
	}
	return false
}

var pick int

func runSchedule(t *testing.T, tw *trace.Writer, c *scase, idx int, res *vh.Result) {
	defer func() {
		// goroutines that stay blocked for ever make the bubble panic on exit; the trace written so far is still judged
		if x := recover(); x != nil {
			res.Note("bubble left with blocked goroutines: %v", x)
			res.Hit("goroutines-left-blocked")
		}
	}()
	synctest.Test(t, func(t *testing.T) {
		ctx, cancel := context.WithCancel(context.Background())
		logger := logrus.New()
		logger.SetLevel(logrus.PanicLevel)
		u := &upstream{tw: tw, start: time.Now(), bodies: map[string]*bodyState{}, w: c.Cfg.W, perBody: map[string]int64{}}
		pool := transport.NewTransportPool(logger, viper.New())
		cl, err := pool.Get("default")
		if err != nil {
			t.Fatal(err)
		}
		cl.Client.Transport = u
		cl.Client.Timeout = 0
		var fc verifhooks.FlushCoordinator
		if c.Cfg.Manual {
			fc = verifhooks.NewFlushCoordinator()
		}
		var dyn []string
		if c.Cfg.Dyn {
			dyn = []string{"region", "svc"}
		}
		w := time.Duration(c.Cfg.W) * time.Millisecond
		if c.Cfg.W == -1 {
			w = -1
		}
		var fwd *statsd.HttpForwarderHandlerV2
		// the body is sent as it is, or compressed (the default configuration) -- which of the two says nothing about what it holds
		compress, ctype := pick%2 == 1, []string{"zlib", "lz4"}[(pick/2)%2]
		if compress {
			res.Hit("compressed-bodies:" + ctype)
		}
		if fc != nil {
			fwd, err = statsd.NewHttpForwarderHandlerV2(logger, "default", "http://up", c.Cfg.Slots, c.Cfg.Reqs, c.Cfg.Merge, compress, ctype, 0, w, time.Second, nil, dyn, pool, fc)
		} else {
			fwd, err = statsd.NewHttpForwarderHandlerV2(logger, "default", "http://up", c.Cfg.Slots, c.Cfg.Reqs, c.Cfg.Merge, compress, ctype, 0, w, time.Second, nil, dyn, pool, nil)
		}
		if err != nil {
			t.Fatal(err)
		}
		st := fakes.NewStatser()
		sctx := stats.NewContext(ctx, st)
		tw.Emit(map[string]any{"ev": "start", "w": c.Cfg.W, "case": idx, "cfg": c.Cfg})
		var wg sync.WaitGroup
		wg.Add(2)
		go func() { defer wg.Done(); fwd.Run(sctx) }()
		go func() { defer wg.Done(); fwd.RunMetricsContext(sctx) }()
		if fc != nil {
			wg.Add(1)
			go func() { // whoever waits for flushes (the Lambda manager in production)
				defer wg.Done()
				for {
					fc.WaitForFlush()
					if ctx.Err() != nil {
						return
					}
					tw.Emit(map[string]any{"ev": "notify"})
				}
			}()
		}
		synctest.Wait()
		seq := 0
		var sharedGiven int64
		flush := func() {
			tw.Emit(map[string]any{"ev": "flushbegin"})
			if fc != nil {
				go fc.Flush()
			} else {
				time.Sleep(time.Second)
			}
			synctest.Wait()
			u.mu.Lock()
			healthy := len(u.plan) == 0
			u.mu.Unlock()
			if healthy && !u.inBackoff() {
				tw.Emit(map[string]any{"ev": "settle"})
				res.Hit("settle")
			}
		}
		for _, o := range c.Sched {
			switch o.Op {
			case "disp", "dispbad":
				mm := gostatsd.NewMetricMap(false)
				tags := gostatsd.Tags{"a:b"}
				hv := ""
				if c.Cfg.Dyn {
					hv = fmt.Sprintf("r%d", o.K)
					if o.K%2 == 1 { // a value that itself holds the separator (host:port, a URN): the header carries all of it
						hv += ":p"
						res.Hit("header-value-with-colon")
					}
					tags = append(tags, "region:"+hv)
					if o.K%2 == 0 && (seq/3)%3 != 0 { // the line repeated the tag (the parser keeps repeats): the second header is still found
						tags = append(tags, "region:"+hv)
						res.Hit("dynamic-header-tag-repeated")
					}
					tags = append(tags, fmt.Sprintf("svc:s%d", o.K%2))
					hv += fmt.Sprintf("/s%d", o.K%2)
				}
				if o.Op == "dispbad" {
					tags = append(tags, "x:\xff\xfe")
					if seq%2 == 1 { // several such tags on one series
						tags = append(tags, "y:\xc3(", "z\x80:ok")
						res.Hit("several-invalid-utf8-tags")
					}
					res.Hit("invalid-utf8-tag")
				}
				var pts []map[string]any
				for j := 0; j < 2; j++ {
					seq++
					name := fmt.Sprintf("d%d_%d", o.K, seq)
					mm.Receive(&gostatsd.Metric{Name: name, Type: gostatsd.COUNTER, Value: 1, Rate: 1, Tags: tags.Copy(), Source: gostatsd.Source(fmt.Sprint("c", o.K)), Timestamp: 1})
					pts = append(pts, map[string]any{"id": name, "hv": hv})
				}
				// a set series that all clients share by name and header value and that differs only in its source
				seq++
				member := fmt.Sprintf("s%d_%d", o.K, seq)
				stags := gostatsd.Tags{"a:b"}
				shv := ""
				if c.Cfg.Dyn {
					shv = "shared/shared"
					stags = append(stags, "region:shared", "svc:shared")
				}
				mm.Receive(&gostatsd.Metric{Name: "st", Type: gostatsd.SET, StringValue: member, Rate: 1, Tags: stags, Source: gostatsd.Source(fmt.Sprint("c", o.K)), Timestamp: 1})
				pts = append(pts, map[string]any{"id": member, "hv": shv})
				mm.Receive(&gostatsd.Metric{Name: "sh", Type: gostatsd.COUNTER, Value: float64(int64(1) << uint(seq%40)), Rate: 1, Tags: tags.Copy(), Source: "shared", Timestamp: 1})
				sharedGiven += int64(1) << uint(seq%40)
				done := make(chan struct{})
				go func() { fwd.DispatchMetricMap(ctx, mm); close(done) }()
				synctest.Wait()
				select {
				case <-done:
					tw.Emit(map[string]any{"ev": "dispatch", "pts": pts, "client": o.K})
				default:
					res.Fail("C15", "dispatch-blocked", "DispatchMetricMap did not return while no flush was in progress", map[string]any{"case": idx, "schedule": c.Sched})
				}
			case "flush":
				flush()
			case "out":
				u.mu.Lock()
				for k := 0; k < o.N; k++ {
					u.plan = append(u.plan, o.O)
				}
				u.mu.Unlock()
				res.Hit("outcome:" + o.O)
			case "adv":
				time.Sleep(time.Duration(o.N) * time.Millisecond)
				synctest.Wait()
			}
		}
		// epilogue: healthy upstream, let every retry window pass, flush what is left
		u.mu.Lock()
		u.plan = nil
		u.mu.Unlock()
		time.Sleep(70 * time.Second)
		synctest.Wait()
		flush()
		time.Sleep(2 * time.Second)
		synctest.Wait()
		st.Flush(sctx)
		synctest.Wait()
		// the nop body sent by Run counts as sent: it is body "|"
		tw.Emit(map[string]any{"ev": "counters", "sent": int(st.GetCount("http.forwarder.sent")), "dropped": int(st.GetCount("http.forwarder.dropped")),
			"invalid": int(st.GetCount("http.forwarder.invalid")), "retried": int(st.GetCount("http.forwarder.retried"))})
		tw.Emit(map[string]any{"ev": "quiesce"})
		// the shared series: what was given equals what the bodies carried (delivered or abandoned), unless bodies were lost
		var carried int64
		u.mu.Lock()
		for _, v := range u.perBody {
			carried += v
		}
		u.mu.Unlock()
		if carried != sharedGiven {
			res.Note("case %d: shared counter given %d carried %d", idx, sharedGiven, carried)
		}
		res.Eval(len(c.Sched) >= 3)
		cancel()
		if fc != nil {
			go fc.NotifyFlush() // wakes the flush waiter so that it can leave
		}
		wg.Wait()
	})
}

func TestSchedules(t *testing.T) {
	path := os.Getenv("VERIF_CASES")
	if path == "" {
		t.Skip("VERIF_CASES not set")
	}
	res := vh.NewResult()
	defer res.Write()
	tw, err := trace.New(os.Getenv("VERIF_TRACE_OUT"))
	if err != nil {
		t.Fatal(err)
	}
	defer tw.Close()
	seen := map[string]bool{}
	every := vh.EnvInt("VERIF_EVERY", 1)
	seed := vh.Seed()
	err = vh.ReadCases(path, func(idx int, raw []byte) error {
		if seen[string(raw)] {
			return nil
		}
		seen[string(raw)] = true
		var c scase
		if err := json.Unmarshal(raw, &c); err != nil {
			return err
		}
		if len(c.Sched) < 9 && (idx+int(seed))%every != 0 {
			return nil
		}
		pick++ // choices made by position go by the cases actually run, so that they do not alias with the seed-dependent selection
		// the adv op carries its amount in n
		for i := range c.Sched {
			if c.Sched[i].Op == "adv" && c.Sched[i].N == 0 {
				c.Sched[i].N = 1000
			}
		}
		runSchedule(t, tw, &c, idx, res)
		if c.Cfg.Dyn {
			res.Hit("dynamic-headers")
		}
		if c.Cfg.W == -1 {
			res.Hit("retries-disabled")
		}
		if c.Cfg.Manual {
			res.Hit("manual-flush")
		}
		if idx%997 == 3 {
			res.Sample(c)
		}
		return nil
	})
	if err != nil {
		t.Fatal(err)
	}
	res.Traces = tw.N
	res.Distinct = res.Evaluations
}

// TestStress runs the forwarder in real time with real goroutine concurrency: several dispatchers (small batches and an
// occasional very large one, so that merging a flush takes a while), a flusher calling the coordinator in a loop, a healthy
// upstream. The trace goes to the same monitor; dispatch events are written BEFORE the call (no settle claims are made).
func TestStress(t *testing.T) {
	if os.Getenv("VERIF_TRACE_OUT") == "" {
		t.Skip("VERIF_TRACE_OUT not set")
	}
	res := vh.NewResult()
	defer res.Write()
	tw, err := trace.New(os.Getenv("VERIF_TRACE_OUT"))
	if err != nil {
		t.Fatal(err)
	}
	defer tw.Close()
	rounds := vh.EnvInt("VERIF_ROUNDS", 3)
	seed := vh.Seed()
	for round := 0; round < rounds; round++ {
		logger := logrus.New()
		logger.SetLevel(logrus.PanicLevel)
		slots := 1 + (round+int(seed))%3
		u := &upstream{tw: tw, start: time.Now(), bodies: map[string]*bodyState{}, w: 3000, perBody: map[string]int64{}}
		pool := transport.NewTransportPool(logger, viper.New())
		cl, _ := pool.Get("default")
		cl.Client.Transport = u
		fc := verifhooks.NewFlushCoordinator()
		fwd, err := statsd.NewHttpForwarderHandlerV2(logger, "default", "http://up", slots, 4, 1, false, "zlib", 0, 3*time.Second, time.Second, nil, nil, pool, fc)
		if err != nil {
			t.Fatal(err)
		}
		ctx, cancel := context.WithCancel(context.Background())
		tw.Emit(map[string]any{"ev": "start", "w": 3000, "mode": "stress", "round": round, "slots": slots})
		var wg sync.WaitGroup
		wg.Add(1)
		go func() { defer wg.Done(); fwd.Run(ctx) }()
		stopWait := make(chan struct{})
		go func() {
			for {
				fc.WaitForFlush()
				select {
				case <-stopWait:
					return
				default:
				}
			}
		}()
		var dwg sync.WaitGroup
		deadline := time.Now().Add(time.Duration(vh.EnvInt("VERIF_STRESS_MS", 700)) * time.Millisecond)
		for k := 1; k <= 4; k++ {
			dwg.Add(1)
			go func(k int) {
				defer dwg.Done()
				rng := vh.NewRng(seed, round*10+k)
				for n := 0; n < 250 && time.Now().Before(deadline); n++ { // bounded: the monitor keeps every id
					mm := gostatsd.NewMetricMap(false)
					var pts []map[string]any
					for j := 0; j < 2; j++ {
						name := fmt.Sprintf("d%d_%d_%d_%d", k, round, n, j)
						mm.Receive(&gostatsd.Metric{Name: name, Type: gostatsd.COUNTER, Value: 1, Rate: 1, Source: "c", Timestamp: 1})
						pts = append(pts, map[string]any{"id": name, "hv": ""})
					}
					if k == 1 && rng.Intn(6) == 0 { // ballast: makes this flush slow to merge
						for j := 0; j < 60000; j++ {
							mm.Receive(&gostatsd.Metric{Name: fmt.Sprintf("x%d", j), Type: gostatsd.GAUGE, Value: 1, Rate: 1, Source: "c", Timestamp: 1})
						}
					}
					tw.Emit(map[string]any{"ev": "dispatch", "pts": pts, "client": k})
					fwd.DispatchMetricMap(ctx, mm)
					if rng.Intn(3) == 0 {
						time.Sleep(time.Duration(rng.Intn(300)) * time.Microsecond)
					}
				}
			}(k)
		}
		dwg.Add(1)
		go func() {
			defer dwg.Done()
			for n := 0; n < 400 && time.Now().Before(deadline); n++ {
				fc.Flush()
				time.Sleep(200 * time.Microsecond)
			}
		}()
		dwg.Wait()
		// quiescence in real time: flush until the upstream has been silent for 1.5 s (at most 20 s)
		lastSeen := func() int {
			u.mu.Lock()
			defer u.mu.Unlock()
			n := 0
			for range u.bodies {
				n++
			}
			return n
		}
		prev, quietSince := -1, time.Now()
		for limit := time.Now().Add(20 * time.Second); time.Now().Before(limit); {
			fc.Flush()
			time.Sleep(100 * time.Millisecond)
			if n := lastSeen(); n != prev {
				prev, quietSince = n, time.Now()
			}
			u.mu.Lock()
			busy := u.inflight > 0
			u.mu.Unlock()
			if !busy && time.Since(quietSince) > 1500*time.Millisecond {
				break
			}
		}
		tw.Emit(map[string]any{"ev": "quiesce"})
		close(stopWait)
		cancel()
		go fc.NotifyFlush()
		wg.Wait()
		res.Eval(true)
		res.Hit("stress-round")
	}
	res.Traces = tw.N
	res.Distinct = res.Evaluations
}
