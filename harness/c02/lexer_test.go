//go:build verif

// Package c02 replays TLC-enumerated token strings (spec/MCLexer.tla) through the real lexer and compares
// with the P-level expectation computed by spec/Grammar.tla (C02). Every run is wrapped in recover(): a panic
// is a C03 violation.
package c02

import (
	"encoding/json"
	"fmt"
	"math"
	"os"
		"strconv"
	"strings"
	"testing"

	"github.com/atlassian/gostatsd"
	"github.com/atlassian/gostatsd/verifhooks"

	"verifharness/internal/vh"
)

type exp struct {
	K      string     `json:"k"`
	Name   []string   `json:"name"`
	Value  []string   `json:"value"`
	Type   string     `json:"type"`
	Rates  [][]string `json:"rates"`
	Tags   [][]string `json:"tags"`
	Exact  bool       `json:"exact"`
	Title  []string   `json:"title"`
	Text   []string   `json:"text"`
	Date   []string   `json:"date"`
	Host   []string   `json:"host"`
	AggKey []string   `json:"aggkey"`
	SType  []string   `json:"stype"`
	Pri    []string   `json:"pri"`
	Alert  []string   `json:"alert"`
}

type tcase struct {
	In  []string `json:"in"`
	Exp exp      `json:"exp"`
	St  string   `json:"st"`
}

// ---- concretisation: token -> bytes, with a class-preserving substitution chosen per case

var ordinaryLetters = []byte("abfijlnoqruvwxyzABCDEFGHIJKLMNOPQRSTUVWXYZ")

// bytes a metric name drops; no backslash (it could form the "\n" escape with a following letter),
// none of the structural bytes, no NUL, no newline.
var removedBytes = func() []byte {
	var out []byte
	for b := 1; b < 256; b++ {
		c := byte(b)
		switch {
		case c >= 'a' && c <= 'z', c >= 'A' && c <= 'Z', c >= '0' && c <= '9':
		case strings.IndexByte("._-/ \t:|@#,{}\\\n+", c) >= 0:
		default:
			out = append(out, c)
		}
	}
	return out
}()

type subst map[string]string

func newSubst(rng *vh.Rng, identity bool, toks []string) subst {
	s := subst{"NL": "\n"}
	for k, v := range vh.HugeTokens(toks, rng) { // symbolic header numbers (C03)
		s[k] = v
	}
	if identity {
		return s
	}
	a := ordinaryLetters[rng.Intn(len(ordinaryLetters))]
	b := a
	for b == a {
		b = ordinaryLetters[rng.Intn(len(ordinaryLetters))]
	}
	s["a"], s["b"] = string(a), string(b)
	s["!"] = string(removedBytes[rng.Intn(len(removedBytes))])
	if rng.Intn(2) == 0 {
		s[" "] = "\t"
	}
	return s
}

func (s subst) cat(toks []string) string {
	var sb strings.Builder
	for _, t := range toks {
		if v, ok := s[t]; ok {
			sb.WriteString(v)
		} else {
			sb.WriteString(t)
		}
	}
	return sb.String()
}

func numClass(f string) string {
	v, err := strconv.ParseFloat(f, 64)
	switch {
	case err != nil:
		return "bad"
	case math.IsNaN(v):
		return "nan"
	case math.IsInf(v, 0):
		return "inf"
	case v > 0:
		return "pos"
	case v == 0:
		return "zero"
	default:
		return "neg"
	}
}

// the substitution must not change any numeric judgement (e.g. letters that happen to spell "inf")
func (s subst) sound(c *tcase, id subst) bool {
	if c.Exp.K != "metric" {
		return true
	}
	if numClass(s.cat(c.Exp.Value)) != numClass(id.cat(c.Exp.Value)) {
		return false
	}
	for _, r := range c.Exp.Rates {
		if numClass(s.cat(r)) != numClass(id.cat(r)) {
			return false
		}
	}
	return true
}

type outcome struct {
	panicked string
	m        *gostatsd.Metric
	e        *gostatsd.Event
	err      error
}

func runLexer(l *verifhooks.Lexer, line string, ns string) (o outcome) {
	defer func() {
		if r := recover(); r != nil {
			o.panicked = fmt.Sprint(r)
		}
	}()
	buf := []byte(line) // the lexer normalises in place
	m, e, err := l.Run(buf, ns)
	if m != nil {
		cp := *m
		cp.Name = strings.Clone(m.Name)
		cp.StringValue = strings.Clone(m.StringValue)
		cp.Tags = nil
		for _, tg := range m.Tags {
			cp.Tags = append(cp.Tags, strings.Clone(tg))
		}
		// overwrite the line buffer: nothing the lexer returned may alias it (C05)
		for i := range buf {
			buf[i] = 0xFF
		}
		if cp.Name != m.Name || cp.StringValue != m.StringValue || !sameTags(m.Tags, cp.Tags) {
			o.panicked = "metric aliases the input buffer"
		}
		o.m = &cp
		m.Done() // back to the pool: later cases run on recycled metrics
	}
	if e != nil {
		cp := *e
		cp.Tags = append(gostatsd.Tags(nil), e.Tags...)
		o.e = &cp
	}
	o.err = err
	return o
}

func tagsOf(s subst, tt [][]string) []string {
	out := []string{}
	for _, t := range tt {
		out = append(out, s.cat(t))
	}
	return out
}

func sameTags(a gostatsd.Tags, b []string) bool {
	if len(a) != len(b) {
		return false
	}
	for i := range a {
		if a[i] != b[i] {
			return false
		}
	}
	return true
}

func wellFormedMetric(m *gostatsd.Metric, ns string) string {
	name := m.Name
	if ns != "" {
		name = strings.TrimPrefix(name, ns+".")
	}
	if name == "" {
		return "empty name"
	}
	for _, c := range []byte(name) {
		ok := c >= 'a' && c <= 'z' || c >= 'A' && c <= 'Z' || c >= '0' && c <= '9' || c == '.' || c == '-' || c == '_'
		if !ok {
			return "name byte outside [A-Za-z0-9._-]"
		}
	}
	if m.Type != gostatsd.SET && math.IsNaN(m.Value) {
		return "NaN value"
	}
	if !(m.Rate > 0) || math.IsInf(m.Rate, 0) || math.IsNaN(m.Rate) {
		return fmt.Sprintf("sample rate %v not finite and > 0", m.Rate)
	}
	for _, t := range m.Tags {
		if t == "" || strings.ContainsAny(t, ",|") {
			return fmt.Sprintf("malformed tag %q", t)
		}
	}
	return ""
}

// judge compares one outcome with the P-level expectation; returns (signature, description) or "".
func judge(c *tcase, s subst, o outcome, ns string) (string, string) {
	accepted := o.err == nil
	switch c.Exp.K {
	case "reject":
		if accepted {
			return "accepted-line-the-statement-rejects", fmt.Sprintf("accepted: m=%v e=%v", o.m, o.e)
		}
	case "unspec":
		if accepted && o.m != nil {
			if w := wellFormedMetric(o.m, ns); w != "" {
				return "accepted-not-wellformed:" + strings.SplitN(w, " ", 3)[0], w
			}
		}
	case "metric":
		val := s.cat(c.Exp.Value)
		mustAccept := c.Exp.Type == "set" || (numClass(val) != "bad" && numClass(val) != "nan")
		var rates []float64
		badRate := ""
		for _, r := range c.Exp.Rates {
			rs := s.cat(r)
			cl := numClass(rs)
			if cl != "pos" {
				mustAccept = false
				if badRate == "" {
					badRate = cl
				}
			}
			f, _ := strconv.ParseFloat(rs, 64)
			rates = append(rates, f)
		}
		if !mustAccept {
			if accepted {
				if badRate != "" && badRate != "bad" {
					return "accepted-rate-not-finite-positive:" + badRate, fmt.Sprintf("accepted with rate %v: %v", o.m.Rate, o.m)
				}
				return "accepted-unparsable-number", fmt.Sprintf("accepted: %v", o.m)
			}
			return "", ""
		}
		if !accepted {
			return "rejected-documented-line", fmt.Sprintf("error %v", o.err)
		}
		if o.m == nil {
			return "metric-expected-event-returned", ""
		}
		m := o.m
		wantName := s.cat(c.Exp.Name)
		if ns != "" {
			wantName = ns + "." + wantName
		}
		if m.Name != wantName {
			return "field-name", fmt.Sprintf("name %q want %q", m.Name, wantName)
		}
		if m.Type.String() != c.Exp.Type {
			return "field-type", fmt.Sprintf("type %v want %v", m.Type, c.Exp.Type)
		}
		if c.Exp.Type == "set" {
			if m.StringValue != val {
				return "field-setvalue", fmt.Sprintf("string value %q want %q", m.StringValue, val)
			}
		} else {
			want, _ := strconv.ParseFloat(val, 64)
			if math.Float64bits(m.Value) != math.Float64bits(want) {
				return "field-value", fmt.Sprintf("value %v want %v", m.Value, want)
			}
		}
		if w := wellFormedMetric(m, ns); w != "" {
			return "accepted-not-wellformed:" + strings.SplitN(w, " ", 3)[0], w
		}
		if c.Exp.Exact {
			wantRate := 1.0
			if len(rates) == 1 {
				wantRate = rates[0]
			}
			if m.Rate != wantRate {
				return "field-rate", fmt.Sprintf("rate %v want %v", m.Rate, wantRate)
			}
			if want := tagsOf(s, c.Exp.Tags); !sameTags(m.Tags, want) {
				return "field-tags", fmt.Sprintf("tags %q want %q", m.Tags, want)
			}
		} else {
			ok := len(rates) == 0 && m.Rate == 1
			for _, r := range rates {
				ok = ok || r == m.Rate
			}
			if !ok {
				return "field-rate", fmt.Sprintf("rate %v not among the given rates %v", m.Rate, rates)
			}
		}
	case "event":
		if !accepted {
			return "rejected-documented-event", fmt.Sprintf("error %v", o.err)
		}
		if o.e == nil {
			return "event-expected-metric-returned", ""
		}
		e := o.e
		chk := func(field, got, want string) (string, string) {
			if got != want {
				return "event-field-" + field, fmt.Sprintf("%s %q want %q", field, got, want)
			}
			return "", ""
		}
		for _, t := range [][3]string{
			{"title", e.Title, s.cat(c.Exp.Title)}, {"text", e.Text, s.cat(c.Exp.Text)},
			{"host", string(e.Source), s.cat(c.Exp.Host)}, {"aggkey", e.AggregationKey, s.cat(c.Exp.AggKey)},
			{"sourcetype", e.SourceTypeName, s.cat(c.Exp.SType)},
		} {
			if sig, d := chk(t[0], t[1], t[2]); sig != "" {
				return sig, d
			}
		}
		wantDate := int64(0)
		if len(c.Exp.Date) > 0 {
			wantDate, _ = strconv.ParseInt(s.cat(c.Exp.Date), 10, 64)
		}
		if e.DateHappened != wantDate {
			return "event-field-date", fmt.Sprintf("date %d want %d", e.DateHappened, wantDate)
		}
		wantPri := "normal"
		if len(c.Exp.Pri) > 0 {
			wantPri = s.cat(c.Exp.Pri)
		}
		if e.Priority.String() != wantPri {
			return "event-field-priority", fmt.Sprintf("priority %v want %v", e.Priority, wantPri)
		}
		wantAlert := "info"
		if len(c.Exp.Alert) > 0 {
			wantAlert = s.cat(c.Exp.Alert)
		}
		if e.AlertType.String() != wantAlert {
			return "event-field-alert", fmt.Sprintf("alert %v want %v", e.AlertType, wantAlert)
		}
		if want := tagsOf(s, c.Exp.Tags); !sameTags(e.Tags, want) {
			return "event-field-tags", fmt.Sprintf("tags %q want %q", e.Tags, want)
		}
	}
	return "", ""
}

func TestCases(t *testing.T) {
	path := os.Getenv("VERIF_CASES")
	if path == "" {
		t.Skip("VERIF_CASES not set")
	}
	res := vh.NewResult()
	defer res.Write()
	seed := vh.Seed()
	variants := vh.EnvInt("VERIF_VARIANTS", 2)
	pooled := verifhooks.NewLexer(0)
	pooled2 := verifhooks.NewLexer(4)
	distinct := map[string]bool{}
	err := vh.ReadCases(path, func(idx int, raw []byte) error {
		var c tcase
		if err := json.Unmarshal(raw, &c); err != nil {
			return fmt.Errorf("case %d: %v", idx, err)
		}
		rng := vh.NewRng(seed, idx)
		id := newSubst(rng, true, c.In)
		for v := 0; v < variants; v++ {
			s := id
			if v > 0 {
				s = newSubst(rng, false, c.In)
				if !s.sound(&c, id) {
					s = id
				}
			}
			line := s.cat(c.In)
			for li, lx := range []*verifhooks.Lexer{verifhooks.NewLexer(0), pooled, pooled2} {
				ns := []string{"", "ns", "n.s"}[(idx+li+v)%3]
				cc, ln := &c, line
				if c.Exp.K == "metric" && (idx+v)%4 == 3 {
					// "all namespaces" includes one the name itself starts with: the prefix is added all the same
					c2 := c
					c2.In = append([]string{"q7."}, c.In...)
					c2.Exp.Name = append([]string{"q7."}, c.Exp.Name...)
					cc, ln, ns = &c2, "q7."+line, "q7"
					res.Hit("namespace-is-name-prefix")
				}
				o := runLexer(lx, ln, ns)
				res.Eval(false)
				rec := map[string]any{"line": ln, "tokens": cc.In, "namespace": ns, "expect": c.Exp.K, "case": idx}
				if o.panicked != "" {
					res.Fail("C03", "lexer-panic:"+c.St, fmt.Sprintf("lexer panicked on %q: %s", ln, o.panicked), rec)
					continue
				}
				if sig, d := judge(cc, s, o, ns); sig != "" {
					res.Fail("C02", sig, fmt.Sprintf("line %q (namespace %q): %s", ln, ns, d), rec)
				}
			}
			if len(c.In) >= 2 {
				k := c.Exp.K + "/" + c.St
				if !distinct[k+line] {
					distinct[k+line] = true
				}
			}
			res.Hit("expect:" + c.Exp.K)
			res.Hit("state:" + c.St)
			if c.Exp.K == "metric" && len(c.Exp.Rates) > 0 && len(c.Exp.Tags) > 0 {
				res.Hit("rate-and-tags")
			}
		}
		if idx%9973 == 7 {
			res.Sample(map[string]any{"tokens": c.In, "expect": c.Exp})
		}
		return nil
	})
	if err != nil {
		t.Fatal(err)
	}
	// the implications that hold "on all strings", on lines the grammar-generated subset does not contain: names made only of bytes that
	// are removed, every spelling of a number that is not one, signs, blanks around numbers (whatever is accepted must be well formed)
	for _, line := range []string{"$:1|c", ",,:3|g", "\x01:1|ms", "$$$:1|c|@0.5|#t", "?:x|s", "a:nan|c", "a:NAN|g", "a:nAn|ms", "a:Nan|h", "a:naN|c|@0.5",
		"a:+Inf|c|@nan", "a:1|c|@NAN", "a:1|c|@nAn|#t", "a:1|c|@+Inf", "a:1|c|@-0", "a:1|g|@0x0p0", "a:0x1p-2|g", "a:1_0|g", "a:1|ms|@1_0", "a: 1|c", "a:1 |c",
		"a:1|c|@ 0.5", "a:1|c|#", "a:1|c|#,", "a:1|c|#t,", "a:1|c|#,t", "a:1|c|# ", "a:1|c|#t||", " :1|c", "/:1|c", "a:|c", "a:-|g", "a:.|ms", "a:e1|h"} {
		for _, ns := range []string{"", "stats", "a.b"} {
			for _, lx := range []*verifhooks.Lexer{verifhooks.NewLexer(0), pooled} {
				o := runLexer(lx, line, ns)
				res.Eval(false)
				rec := map[string]any{"line": line, "namespace": ns, "expect": "unspec (hand-written line)"}
				if o.panicked != "" {
					res.Fail("C03", "lexer-panic:extra", fmt.Sprintf("lexer panicked on %q: %s", line, o.panicked), rec)
					continue
				}
				if o.err == nil && o.m != nil {
					if w := wellFormedMetric(o.m, ns); w != "" {
						res.Fail("C02", "accepted-not-wellformed:"+strings.SplitN(w, " ", 3)[0], fmt.Sprintf("line %q (namespace %q): %s: %v", line, ns, w, o.m), rec)
					}
				}
			}
		}
	}
	res.Hit("hand-written-lines")
	res.Distinct = len(distinct)
}
