//go:build verif

// Package c10 replays TLC-enumerated (filters, static tags, metric) cases (spec/MCTagStage.tla) through the real
// TagHandler and compares what reaches the next handler with the declarative result of spec/TagStage.tla.
package c10

import (
	"context"
	"encoding/json"
	"fmt"
	"os"
	"sort"
	"strings"
	"testing"

	"github.com/atlassian/gostatsd"
	"github.com/atlassian/gostatsd/pkg/statsd"

	"verifharness/internal/fakes"
	"verifharness/internal/vh"
)

type pat struct {
	Kind string   `json:"kind"`
	Neg  bool     `json:"neg"`
	S    []string `json:"s"`
}

type filter struct {
	MM []pat `json:"mm"`
	EX []pat `json:"ex"`
	MT []pat `json:"mt"`
	DT []pat `json:"dt"`
	DM bool  `json:"dm"`
	DH bool  `json:"dh"`
}

type metric struct {
	Name []string   `json:"name"`
	Tags [][]string `json:"tags"`
}

type tcase struct {
	FS     []filter   `json:"fs"`
	Static [][]string `json:"static"`
	M      metric     `json:"m"`
	Exp    struct {
		Dropped     bool       `json:"dropped"`
		Tags        [][]string `json:"tags"`
		HostCleared bool       `json:"hostCleared"`
	} `json:"exp"`
}

func cat(t []string) string { return strings.Join(t, "") }

func (p pat) String() string {
	s := cat(p.S)
	switch p.Kind {
	case "prefix":
		s += "*"
	case "rpre":
		s = "regex:^" + s
	case "rsuf":
		s = "regex:" + s + "$"
	case "rinf":
		s = "regex:" + s
	}
	if p.Neg {
		s = "!" + s
	}
	return s
}

func sml(ps []pat) (gostatsd.StringMatchList, []string) {
	var out gostatsd.StringMatchList
	var txt []string
	for _, p := range ps {
		out = append(out, gostatsd.NewStringMatch(p.String()))
		txt = append(txt, p.String())
	}
	return out, txt
}

func tagList(tt [][]string) gostatsd.Tags {
	var out gostatsd.Tags
	for _, t := range tt {
		out = append(out, cat(t))
	}
	return out
}

func TestCases(t *testing.T) {
	path := os.Getenv("VERIF_CASES")
	if path == "" {
		t.Skip("VERIF_CASES not set")
	}
	res := vh.NewResult()
	defer res.Write()
	seed := vh.Seed()
	ctx := context.Background()
	var recent []metric // metrics of earlier cases, replayed as a prelude: the result for a metric must not depend on history
	err := vh.ReadCases(path, func(idx int, raw []byte) error {
		var c tcase
		if err := json.Unmarshal(raw, &c); err != nil {
			return fmt.Errorf("case %d: %v", idx, err)
		}
		rng := vh.NewRng(seed, idx)
		var filters []statsd.Filter
		var ftxt []map[string]any
		for _, f := range c.FS {
			var fl statsd.Filter
			d := map[string]any{"drop-metric": f.DM, "drop-host": f.DH}
			fl.MatchMetrics, d["match-metrics"] = sml(f.MM)
			fl.ExcludeMetrics, d["exclude-metrics"] = sml(f.EX)
			fl.MatchTags, d["match-tags"] = sml(f.MT)
			fl.DropTags, d["drop-tags"] = sml(f.DT)
			fl.DropMetric, fl.DropHost = f.DM, f.DH
			filters = append(filters, fl)
			ftxt = append(ftxt, d)
		}
		static := tagList(c.Static)
		sink := &fakes.Handler{}
		th := statsd.NewTagHandler(sink, static.Copy(), filters)
		name := cat(c.M.Name)
		tags := tagList(c.M.Tags)
		rec := map[string]any{"filters": ftxt, "static": static, "name": name, "tags": tags, "case": idx}
		fail := func(sig, f string, a ...any) {
			res.Fail("C10", sig, fmt.Sprintf("filters %v static %v metric %s%v: ", ftxt, static, name, tags)+fmt.Sprintf(f, a...), rec)
		}
		// the metric under test in all four types, plus an unrelated companion processed in the same map
		mm := gostatsd.NewMetricMap(false)
		src := gostatsd.Source("10.1.1.1")
		add := func(n string, tg gostatsd.Tags, v float64) {
			for ty, mt := range map[string]gostatsd.MetricType{"c": gostatsd.COUNTER, "g": gostatsd.GAUGE, "t": gostatsd.TIMER, "s": gostatsd.SET} {
				mm.Receive(&gostatsd.Metric{Name: n, Type: mt, Value: v, StringValue: "m" + ty, Rate: 1, Tags: tg.Copy(), Source: src, Timestamp: 7})
			}
		}
		add(name, tags, float64(1+rng.Intn(9)))
		pass := "fresh handler"
		if idx%2 == 1 && len(recent) > 0 { // same handler after it has processed other metrics (some of them dropped)
			pass = "after a prelude of other metrics"
			pre := gostatsd.NewMetricMap(false)
			for k := 0; k < 3; k++ {
				o := recent[rng.Intn(len(recent))]
				if cat(o.Name) == name && fmt.Sprint(tagList(o.Tags)) == fmt.Sprint(tags) {
					continue
				}
				for _, mt := range []gostatsd.MetricType{gostatsd.COUNTER, gostatsd.SET} {
					one := gostatsd.NewMetricMap(false)
					one.Receive(&gostatsd.Metric{Name: cat(o.Name), Type: mt, Value: 1, StringValue: "p", Rate: 1, Tags: tagList(o.Tags), Source: "10.9.9.9", Timestamp: 3})
					th.DispatchMetricMap(ctx, one)
				}
			}
			_ = pre
			sink.Take()
		}
		rec["pass"] = pass
		if len(recent) < 64 {
			recent = append(recent, c.M)
		} else {
			recent[rng.Intn(64)] = c.M
		}
		th.DispatchMetricMap(ctx, mm)
		maps, _ := sink.Take()
		res.Eval(len(c.FS) >= 1)
		var out []fakes.Series
		for _, m := range maps {
			out = append(out, fakes.Flatten(m)...)
		}
		if c.Exp.Dropped {
			if len(out) != 0 {
				fail("not-dropped", "metric should have been dropped, got %d series", len(out))
			}
			res.Hit("dropped")
			return nil
		}
		if len(out) != 4 {
			fail("dropped-or-split", "expected the metric in all four types, got %d series", len(out))
			return nil
		}
		want := []string{}
		for _, tg := range c.Exp.Tags {
			want = append(want, cat(tg))
		}
		sort.Strings(want)
		for _, s := range out {
			if fmt.Sprint(s.Tags) != fmt.Sprint(want) {
				dup := false
				for i := 1; i < len(s.Tags); i++ {
					dup = dup || s.Tags[i] == s.Tags[i-1]
				}
				sig := "tags"
				if dup {
					sig = "duplicate-tags"
				}
				fail(sig, "%s leaves with tags %v want %v", s.Type, s.Tags, want)
				break
			}
			wantSrc := string(src)
			if c.Exp.HostCleared {
				wantSrc = ""
			}
			if s.Source != wantSrc {
				fail("source", "%s leaves with source %q want %q", s.Type, s.Source, wantSrc)
				break
			}
			if s.Name != name {
				fail("name", "name changed to %q", s.Name)
			}
			if wk := gostatsd.FormatTagsKey(gostatsd.Source(wantSrc), append(gostatsd.Tags{}, want...)); s.TagsKey != wk {
				fail("series-key", "%s filed under key %q, want %q", s.Type, s.TagsKey, wk)
				break
			}
		}
		if c.Exp.HostCleared {
			res.Hit("host-cleared")
		}
		if len(c.Exp.Tags) < len(tags) {
			res.Hit("tags-removed")
		}
		if idx%9973 == 5 {
			res.Sample(map[string]any{"filters": ftxt, "static": static, "name": name, "tags": tags, "expect": c.Exp})
		}
		return nil
	})
	if err != nil {
		t.Fatal(err)
	}
	res.Distinct = res.Evaluations
}
