package notif

import (
	"encoding/json"
	"fmt"
	"sync/atomic"
	"testing"

	"github.com/atlassian/gostatsd"
	"github.com/atlassian/gostatsd/pkg/stats"

	"verifharness/internal/vh"
)

// spec/ChangeGauge.tla: histories of set v / send k with the emission every call must produce, replayed into the real stats.ChangeGauge.
type cgstep struct {
	Op  string `json:"op"`
	V   int    `json:"v"`
	K   int    `json:"k"`
	Exp []int  `json:"exp"`
}

type cgcase struct {
	Hist []cgstep `json:"hist"`
}

func TestChangeGauge(t *testing.T) {
	res := vh.NewResult()
	defer res.Write()
	seen := map[string]bool{}
	err := vh.ReadCases(vh.Env("VERIF_CASES", ""), func(i int, raw []byte) error {
		if seen[string(raw)] { // the generator prints a history once per path that reaches it
			return nil
		}
		seen[string(raw)] = true
		var c cgcase
		if err := json.Unmarshal(raw, &c); err != nil {
			return err
		}
		st := &recStatser{g: map[string][]float64{}}
		var view stats.Statser = st
		if i%2 == 1 {
			view = st.WithTags(gostatsd.Tags{"k:v"})
		}
		var cg stats.ChangeGauge
		calls := 0
		for at, s := range c.Hist {
			switch s.Op {
			case "set":
				// the owner writes Cur, atomically or (every third history) plainly, as the doc comment allows
				if i%3 == 0 {
					cg.Cur = uint64(s.V)
				} else {
					atomic.StoreUint64(&cg.Cur, uint64(s.V))
				}
			case "send":
				for j := 0; j < s.K; j++ {
					cg.SendIfChanged(view, "g", nil)
					got := st.take()["g"]
					calls++
					want := s.Exp[j]
					switch {
					case want < 0 && len(got) != 0:
						res.Fail("X04", "ChangeGauge:SentWhenSettled", fmt.Sprintf("call %d (step %d, %d of %d) emitted %v although the value has not changed within the last 22 calls", calls, at, j+1, s.K, got), c)
						res.Hit("settled")
					case want >= 0 && len(got) == 0:
						res.Fail("X04", "ChangeGauge:NotSent", fmt.Sprintf("call %d (step %d, %d of %d) emitted nothing; want %d (a change within the last 22 calls)", calls, at, j+1, s.K, want), c)
					case want >= 0 && (len(got) != 1 || got[0] != float64(want)):
						res.Fail("X04", "ChangeGauge:WrongValue", fmt.Sprintf("call %d (step %d, %d of %d) emitted %v, want [%d]", calls, at, j+1, s.K, got, want), c)
					}
					if want < 0 {
						res.Hit("change-gauge-silent")
					} else {
						res.Hit("change-gauge-sent")
						if j >= 21 {
							res.Hit("change-gauge-sent-at-the-22nd-call")
						}
					}
					res.Eval(calls > 1)
				}
			}
		}
		res.Sample(c)
		return nil
	})
	if err != nil {
		t.Fatal(err)
	}
}
