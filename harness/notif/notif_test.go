// Package notif binds spec/FlushNotifierSeq.tla (sequential histories, S1) and the invariants of spec/FlushNotifier.tla (a concurrent
// run whose observations are judged by the same clauses) to the real flush notifier of pkg/stats, reached through the three statsers that
// embed it (NullStatser, LoggingStatser, InternalStatser).
package notif

import (
	"context"
	"encoding/json"
	"fmt"
	"io"
	"math/rand"
	"sort"
	"sync"
	"sync/atomic"
	"testing"
	"testing/synctest"
	"time"

	"github.com/atlassian/gostatsd"
	"github.com/atlassian/gostatsd/pkg/stats"
	"github.com/sirupsen/logrus"

	"verifharness/internal/fakes"
	"verifharness/internal/vh"
)

type step struct {
	Op    string `json:"op"`
	ID    int    `json:"id"`
	D     int    `json:"d"`
	Got   []int  `json:"got"`
	Woken []int  `json:"woken"`
}

type hcase struct {
	Hist []step `json:"hist"`
}

type obs struct {
	d  time.Duration
	ok bool
}

type registrant struct {
	ch    <-chan time.Duration
	unreg func()
	mu    sync.Mutex
	got   []obs
}

func (r *registrant) take() []obs {
	r.mu.Lock()
	defer r.mu.Unlock()
	g := r.got
	r.got = nil
	return g
}

func newStatser(kind int) stats.Statser {
	switch kind % 3 {
	case 0:
		return stats.NewNullStatser()
	case 1:
		l := logrus.New()
		l.SetOutput(io.Discard)
		return stats.NewLoggingStatser(gostatsd.Tags{"a:b"}, l)
	default:
		return stats.NewInternalStatser(gostatsd.Tags{"a:b"}, "ns", "h", &fakes.Handler{}, false, false)
	}
}

var kinds = []string{"null", "logging", "internal"}

func TestCases(t *testing.T) {
	res := vh.NewResult()
	defer res.Write()
	idx := 0
	err := vh.ReadCases(vh.Env("VERIF_CASES", ""), func(i int, raw []byte) error {
		var c hcase
		if err := json.Unmarshal(raw, &c); err != nil {
			return err
		}
		for kind := 0; kind < 3; kind++ {
			// through WithTags as well: components register on a tagged view of the statser
			runCase(t, &c, idx, kind, idx%2 == 1, res)
		}
		idx++
		return nil
	})
	if err != nil {
		t.Fatal(err)
	}
}

func runCase(t *testing.T, c *hcase, idx, kind int, tagged bool, res *vh.Result) {
	fail := func(sig, desc string, at int) {
		res.Fail("X04", sig, fmt.Sprintf("%s statser (tagged view %v), case %d step %d: %s", kinds[kind], tagged, idx, at, desc), c)
	}
	defer func() {
		if x := recover(); x != nil {
			fail("Panic", fmt.Sprintf("panic: %v", x), -1)
		}
	}()
	synctest.Test(t, func(t *testing.T) {
		defer func() {
			if x := recover(); x != nil {
				fail("Panic", fmt.Sprintf("panic: %v", x), -1)
			}
		}()
		root := newStatser(kind)
		view := root
		if tagged {
			view = root.WithTags(gostatsd.Tags{"c:d"})
		}
		ctx := context.Background()
		regs := map[int]*registrant{}
		check := func(at int, want map[int]obs) {
			synctest.Wait()
			for id, r := range regs {
				g := r.take()
				w, expected := want[id]
				switch {
				case expected && len(g) == 1 && g[0] == w:
				case expected && len(g) == 0:
					fail("Missed", fmt.Sprintf("registrant %d parked in its receive got nothing, wanted %v", id, w), at)
				case !expected && len(g) == 0:
				default:
					fail("Unexpected", fmt.Sprintf("registrant %d received %v, wanted %v (expected=%v)", id, g, w, expected), at)
				}
			}
		}
		for at, s := range c.Hist {
			switch s.Op {
			case "reg":
				r := &registrant{}
				if s.ID%2 == 0 {
					r.ch, r.unreg = view.RegisterFlush()
				} else {
					r.ch, r.unreg = root.RegisterFlush()
				}
				regs[s.ID] = r
				check(at, nil)
			case "park":
				r := regs[s.ID]
				go func() {
					d, ok := <-r.ch
					r.mu.Lock()
					r.got = append(r.got, obs{d, ok})
					r.mu.Unlock()
				}()
				check(at, nil)
				res.Hit("park")
			case "notify":
				var done atomic.Bool
				d := time.Duration(s.D) * time.Second
				go func() {
					defer done.Store(true)
					defer func() { // a panic in the flusher's goroutine is the verdict, not the end of the run
						if x := recover(); x != nil {
							fail("NoSendOnClosed", fmt.Sprintf("NotifyFlush panicked: %v", x), at)
						}
					}()
					if s.D%2 == 0 {
						view.NotifyFlush(ctx, d)
					} else {
						root.NotifyFlush(ctx, d)
					}
				}()
				synctest.Wait()
				if !done.Load() {
					fail("NotifyBlocked", "NotifyFlush did not return although nothing else can run", at)
				}
				want := map[int]obs{}
				for _, id := range s.Got {
					want[id] = obs{d, true}
				}
				if len(s.Got) > 0 {
					res.Hit("delivered")
				}
				if len(s.Got) < len(regs) {
					res.Hit("dropped-for-a-busy-registrant")
				}
				check(at, want)
			case "unreg":
				regs[s.ID].unreg()
				want := map[int]obs{}
				for _, id := range s.Woken {
					want[id] = obs{0, false}
					res.Hit("woken-by-close")
				}
				check(at, want)
				// the closed channel stays closed and is never written again
				r := regs[s.ID]
				select {
				case v, ok := <-r.ch:
					if ok {
						fail("ValueAfterClose", fmt.Sprintf("registrant %d read %v from its channel after unregister", s.ID, v), at)
					}
				default:
					fail("NotClosed", fmt.Sprintf("registrant %d's channel is not closed after unregister", s.ID), at)
				}
				delete(regs, s.ID)
			}
			res.Eval(s.Op == "notify" || s.Op == "unreg")
		}
		// epilogue: a last notification with everybody still registered parked reaches all of them; then everything is unregistered
		ids := []int{}
		for id := range regs {
			ids = append(ids, id)
		}
		sort.Ints(ids)
		for _, id := range ids {
			r := regs[id]
			go func() {
				d, ok := <-r.ch
				r.mu.Lock()
				r.got = append(r.got, obs{d, ok})
				r.mu.Unlock()
			}()
		}
		synctest.Wait()
		func() {
			defer func() {
				if x := recover(); x != nil {
					fail("NoSendOnClosed", fmt.Sprintf("NotifyFlush panicked: %v", x), len(c.Hist))
				}
			}()
			root.NotifyFlush(ctx, 77*time.Second)
		}()
		want := map[int]obs{}
		for _, id := range ids {
			want[id] = obs{77 * time.Second, true}
		}
		check(len(c.Hist), want)
		for _, id := range ids {
			regs[id].unreg()
		}
		synctest.Wait()
	})
	res.Sample(map[string]any{"case": idx, "kind": kinds[kind], "steps": len(c.Hist)})
}

// TestConcurrent runs registrants that register, wait, and unregister on their own goroutines against a notifier that keeps notifying
// (real scheduler, no bubble).  Judged by the clauses of FlushNotifier.tla that do not need the interleaving to be known:
// NoSendOnClosed (NotifyFlush never panics), NotifyNeverWaits (every call returns promptly although most registrants are busy),
// AtMostOnce in the form "a registration never receives a value twice" (each call carries its own value), values received are values
// that were sent while the registration existed, and a registrant parked throughout a call receives it (checked by a steady registrant).
func TestConcurrent(t *testing.T) {
	res := vh.NewResult()
	defer res.Write()
	rounds := 6
	if vh.Tier() == "thorough" {
		rounds = 60
	}
	for round := 0; round < rounds; round++ {
		kind := round % 3
		rng := rand.New(rand.NewSource(vh.Seed()*1000 + int64(round)))
		st := newStatser(kind)
		ctx := context.Background()
		var sent atomic.Int64 // the value of the last call that has started
		var finished atomic.Int64
		var panics atomic.Int64
		var panicText atomic.Value
		stop := make(chan struct{})
		var wg sync.WaitGroup
		fail := func(sig, desc string) {
			res.Fail("X04", sig, fmt.Sprintf("%s statser, concurrent round %d: %s", kinds[kind], round, desc), map[string]any{"round": round, "seed": vh.Seed()})
		}
		// steady registrant: always parked, must see every call exactly once and in order
		steadyCh, steadyUnreg := st.RegisterFlush()
		steadyGot := make(chan time.Duration, 1<<16)
		wg.Add(1)
		go func() {
			defer wg.Done()
			for {
				select {
				case d := <-steadyCh:
					steadyGot <- d
				case <-stop:
					return
				}
			}
		}()
		nChurn := 6 + rng.Intn(6)
		for w := 0; w < nChurn; w++ {
			wg.Add(1)
			seed := rng.Int63()
			go func() {
				defer wg.Done()
				r := rand.New(rand.NewSource(seed))
				for {
					select {
					case <-stop:
						return
					default:
					}
					lo := sent.Load()
					ch, unreg := st.RegisterFlush()
					n := r.Intn(4)
					last := time.Duration(0)
					for k := 0; k < n; k++ {
						select {
						case d := <-ch:
							if d <= last {
								fail("AtMostOnce", fmt.Sprintf("a registration received %v after %v", d, last))
							}
							if int64(d) <= lo-1 || int64(d) > sent.Load() {
								fail("ForeignValue", fmt.Sprintf("a registration made when call %d had started received %v (last started %d)", lo, d, sent.Load()))
							}
							last = d
						case <-time.After(time.Duration(r.Intn(200)) * time.Microsecond):
						}
					}
					unreg()
					if v, ok := <-ch; ok {
						// a value may have been handed over just before the close only if it was received above; here the channel is unbuffered
						fail("ValueAfterClose", fmt.Sprintf("read %v from the channel after unregister", v))
					}
					res.Hit("churn-registration")
				}
			}()
		}
		calls := 3000
		slow := 0
		for i := 1; i <= calls; i++ {
			sent.Store(int64(i))
			func() {
				defer func() {
					if x := recover(); x != nil {
						panics.Add(1)
						panicText.Store(fmt.Sprint(x))
					}
				}()
				t0 := time.Now()
				st.NotifyFlush(ctx, time.Duration(i))
				if time.Since(t0) > 2*time.Second {
					slow++
				}
			}()
			finished.Store(int64(i))
			if i%50 == 0 {
				time.Sleep(50 * time.Microsecond)
			}
		}
		close(stop)
		wg.Wait()
		steadyUnreg()
		if panics.Load() > 0 {
			fail("NoSendOnClosed", fmt.Sprintf("NotifyFlush panicked %d times: %v", panics.Load(), panicText.Load()))
		}
		if slow > 0 {
			fail("NotifyNeverWaits", fmt.Sprintf("%d NotifyFlush calls took longer than 2 s", slow))
		}
		close(steadyGot)
		prev, n := time.Duration(0), 0
		for d := range steadyGot {
			if d <= prev {
				fail("AtMostOnce", fmt.Sprintf("the steady registrant received %v after %v", d, prev))
			}
			prev = d
			n++
		}
		// the steady registrant is between two receives only for the time it takes to buffer a value: it may miss a call only then,
		// which the doc comment allows ("if the channel blocks, the notification will be silently dropped"); it must not miss most
		res.Named["steady-received"] += n
		res.Named["calls"] += calls
		if n == 0 {
			fail("ParkedGetsIt", "a registrant that is always receiving got none of 3000 notifications")
		}
		res.Eval(true)
	}
}
