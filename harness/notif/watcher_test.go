package notif

import (
	"context"
	"encoding/json"
	"fmt"
	"math"
	"sync"
	"sync/atomic"
	"testing"
	"testing/synctest"
	"time"

	"github.com/atlassian/gostatsd"
	"github.com/atlassian/gostatsd/pkg/stats"

	"verifharness/internal/vh"
)

// recStatser records every gauge written through it or through one of its tagged views.
type recStatser struct {
	stats.NullStatser
	root *recStatser
	tags gostatsd.Tags
	mu   sync.Mutex
	g    map[string][]float64
}

func (s *recStatser) r() *recStatser {
	if s.root != nil {
		return s.root
	}
	return s
}
func (s *recStatser) Gauge(name string, v float64, tags gostatsd.Tags) {
	r := s.r()
	r.mu.Lock()
	r.g[name] = append(r.g[name], v)
	r.mu.Unlock()
}
func (s *recStatser) WithTags(tags gostatsd.Tags) stats.Statser {
	return &recStatser{root: s.r(), tags: append(append(gostatsd.Tags(nil), s.tags...), tags...)}
}
func (s *recStatser) RegisterFlush() (<-chan time.Duration, func()) { return s.r().NullStatser.RegisterFlush() }
func (s *recStatser) NotifyFlush(ctx context.Context, d time.Duration) {
	s.r().NullStatser.NotifyFlush(ctx, d)
}
func (s *recStatser) take() map[string][]float64 {
	r := s.r()
	r.mu.Lock()
	defer r.mu.Unlock()
	g := r.g
	r.g = map[string][]float64{}
	return g
}

type wstep struct {
	Op   string `json:"op"`
	V    int    `json:"v"`
	N    int    `json:"n"`
	Sum  int    `json:"sum"`
	Mn   int    `json:"mn"`
	Mx   int    `json:"mx"`
	Last int    `json:"last"`
}

type wcase struct {
	Cap  int     `json:"cap"`
	Hist []wstep `json:"hist"`
}

// TestWatcher replays the histories of spec/ChannelWatcher.tla into the real ChannelStatsWatcher: the queue length is a scripted function,
// ticks are the bubble's clock, flushes are notifications of the statser the watcher registered on.
func TestWatcher(t *testing.T) {
	res := vh.NewResult()
	defer res.Write()
	idx := 0
	err := vh.ReadCases(vh.Env("VERIF_CASES", ""), func(i int, raw []byte) error {
		var c wcase
		if err := json.Unmarshal(raw, &c); err != nil {
			return err
		}
		runWatcher(t, &c, idx, res)
		idx++
		return nil
	})
	if err != nil {
		t.Fatal(err)
	}
}

func runWatcher(t *testing.T, c *wcase, idx int, res *vh.Result) {
	// the queue's capacity is larger than any length the history uses: a minimum that is really the capacity would show
	capacity := c.Cap + 3 + idx%2
	fail := func(sig, desc string, at int) {
		res.Fail("X04", sig, fmt.Sprintf("channel watcher, capacity %d, case %d step %d: %s", capacity, idx, at, desc), c)
	}
	defer func() {
		if x := recover(); x != nil {
			fail("Panic", fmt.Sprintf("panic: %v", x), -1)
		}
	}()
	synctest.Test(t, func(t *testing.T) {
		st := &recStatser{g: map[string][]float64{}}
		var cur atomic.Int64
		ctx, cancel := context.WithCancel(context.Background())
		const interval = 10 * time.Second
		flushes := 0
		for at, s := range c.Hist {
			switch s.Op {
			case "start":
				cur.Store(int64(s.V))
				w := stats.NewChannelStatsWatcher(st, "q", gostatsd.Tags{"x:y"}, capacity, func() int { return int(cur.Load()) }, interval)
				go w.Run(ctx)
				synctest.Wait()
			case "set":
				cur.Store(int64(s.V))
			case "tick":
				time.Sleep(interval)
				synctest.Wait()
				res.Hit("tick")
			case "flush":
				st.take()
				st.NotifyFlush(ctx, time.Second)
				synctest.Wait()
				g := st.take()
				flushes++
				want := map[string]float64{"channel.samples": float64(s.N), "channel.avg": float64(s.Sum) / float64(s.N), "channel.min": float64(s.Mn),
					"channel.max": float64(s.Mx), "channel.last": float64(s.Last), "channel.capacity": float64(capacity)}
				for name, w := range want {
					vals := g[name]
					switch {
					case len(vals) != 1:
						fail("Written:"+name, fmt.Sprintf("%s written %d times at a flush (%v)", name, len(vals), vals), at)
					case math.IsNaN(vals[0]) || math.IsInf(vals[0], 0):
						fail("Finite:"+name, fmt.Sprintf("%s = %v", name, vals[0]), at)
					case vals[0] != w:
						first := ""
						if flushes == 1 {
							first = ":first-write"
						}
						fail("Value:"+name+first, fmt.Sprintf("%s = %v, the samples since the previous write give %v (n=%d sum=%d min=%d max=%d last=%d)", name, vals[0], w, s.N, s.Sum, s.Mn, s.Mx, s.Last), at)
					}
				}
				if s.Mn > 0 {
					res.Hit("minimum-above-zero")
				}
				if s.N > 1 {
					res.Hit("several-samples")
				}
				res.Eval(true)
			}
		}
		cancel()
		synctest.Wait()
	})
}
