module verifharness

go 1.26

require (
	github.com/atlassian/gostatsd v0.0.0
	github.com/aws/aws-sdk-go-v2/service/cloudwatch v1.42.3
	github.com/pierrec/lz4/v4 v4.1.19
	github.com/sirupsen/logrus v1.9.0
	github.com/spf13/viper v1.17.0
	golang.org/x/time v0.3.0
	google.golang.org/protobuf v1.34.1
)

require (
	github.com/ash2k/stager v0.0.0-20170622123058-6e9c7b0eacd4 // indirect
	github.com/aws/aws-sdk-go-v2 v1.32.3 // indirect
	github.com/aws/aws-sdk-go-v2/config v1.26.2 // indirect
	github.com/aws/aws-sdk-go-v2/credentials v1.16.13 // indirect
	github.com/aws/aws-sdk-go-v2/feature/ec2/imds v1.14.10 // indirect
	github.com/aws/aws-sdk-go-v2/internal/configsources v1.3.22 // indirect
	github.com/aws/aws-sdk-go-v2/internal/endpoints/v2 v2.6.22 // indirect
	github.com/aws/aws-sdk-go-v2/internal/ini v1.7.2 // indirect
	github.com/aws/aws-sdk-go-v2/service/internal/accept-encoding v1.12.0 // indirect
	github.com/aws/aws-sdk-go-v2/service/internal/presigned-url v1.12.3 // indirect
	github.com/aws/aws-sdk-go-v2/service/sso v1.18.5 // indirect
	github.com/aws/aws-sdk-go-v2/service/ssooidc v1.21.5 // indirect
	github.com/aws/aws-sdk-go-v2/service/sts v1.26.6 // indirect
	github.com/aws/smithy-go v1.22.0 // indirect
	github.com/cenkalti/backoff v2.2.1+incompatible // indirect
	github.com/fsnotify/fsnotify v1.6.0 // indirect
	github.com/gorilla/mux v1.8.0 // indirect
	github.com/grpc-ecosystem/grpc-gateway/v2 v2.16.0 // indirect
	github.com/hashicorp/hcl v1.0.0 // indirect
	github.com/jmespath/go-jmespath v0.4.0 // indirect
	github.com/json-iterator/go v1.1.12 // indirect
	github.com/libp2p/go-reuseport v0.2.0 // indirect
	github.com/magiconair/properties v1.8.7 // indirect
	github.com/mitchellh/mapstructure v1.5.0 // indirect
	github.com/modern-go/concurrent v0.0.0-20180306012644-bacd9c7ef1dd // indirect
	github.com/modern-go/reflect2 v1.0.2 // indirect
	github.com/pelletier/go-toml/v2 v2.1.0 // indirect
	github.com/sagikazarmark/slog-shim v0.1.0 // indirect
	github.com/spf13/afero v1.10.0 // indirect
	github.com/spf13/cast v1.5.1 // indirect
	github.com/spf13/pflag v1.0.5 // indirect
	github.com/subosito/gotenv v1.6.0 // indirect
	github.com/tilinna/clock v1.1.0
	go.opentelemetry.io/proto/otlp v1.0.0 // indirect
	go.uber.org/multierr v1.11.0 // indirect
	golang.org/x/exp v0.0.0-20230905200255-921286631fa9 // indirect
	golang.org/x/net v0.35.0 // indirect
	golang.org/x/sync v0.11.0 // indirect
	golang.org/x/sys v0.30.0 // indirect
	golang.org/x/text v0.22.0 // indirect
	google.golang.org/genproto/googleapis/api v0.0.0-20240227224415-6ceb2ff114de
	google.golang.org/genproto/googleapis/rpc v0.0.0-20240227224415-6ceb2ff114de
	google.golang.org/grpc v1.63.2 // indirect
	gopkg.in/ini.v1 v1.67.0 // indirect
	gopkg.in/yaml.v3 v3.0.1 // indirect
)

replace github.com/atlassian/gostatsd => /repo
