module verifharness

go 1.26

require (
	github.com/alicebob/miniredis/v2 v2.23.0
	github.com/atlassian/gostatsd v0.0.0
	github.com/aws/aws-sdk-go-v2/service/cloudwatch v1.42.3
	github.com/go-redis/redis/v8 v8.11.5
	github.com/pierrec/lz4/v4 v4.1.19
	github.com/sirupsen/logrus v1.9.0
	github.com/spf13/viper v1.17.0
	golang.org/x/time v0.3.0
	google.golang.org/protobuf v1.34.1
	k8s.io/api v0.25.2
	k8s.io/apimachinery v0.25.2
	k8s.io/client-go v0.25.2
)

require (
	github.com/PuerkitoBio/purell v1.1.1 // indirect
	github.com/PuerkitoBio/urlesc v0.0.0-20170810143723-de5bf2ad4578 // indirect
	github.com/alicebob/gopher-json v0.0.0-20200520072559-a9ecdc9d1d3a // indirect
	github.com/cespare/xxhash/v2 v2.2.0 // indirect
	github.com/davecgh/go-spew v1.1.2-0.20180830191138-d8f796af33cc // indirect
	github.com/dgryski/go-rendezvous v0.0.0-20200823014737-9f7001d12a5f // indirect
	github.com/emicklei/go-restful/v3 v3.8.0 // indirect
	github.com/evanphx/json-patch v4.12.0+incompatible // indirect
	github.com/go-logr/logr v1.2.3 // indirect
	github.com/go-openapi/jsonpointer v0.19.5 // indirect
	github.com/go-openapi/jsonreference v0.19.5 // indirect
	github.com/go-openapi/swag v0.19.14 // indirect
	github.com/gogo/protobuf v1.3.2 // indirect
	github.com/golang/protobuf v1.5.4 // indirect
	github.com/google/gnostic v0.5.7-v3refs // indirect
	github.com/google/go-cmp v0.6.0 // indirect
	github.com/google/gofuzz v1.1.0 // indirect
	github.com/imdario/mergo v0.3.8 // indirect
	github.com/josharian/intern v1.0.0 // indirect
	github.com/mailru/easyjson v0.7.6 // indirect
	github.com/munnerz/goautoneg v0.0.0-20191010083416-a7dc8b61c822 // indirect
	github.com/pkg/errors v0.9.1 // indirect
	github.com/yuin/gopher-lua v0.0.0-20210529063254-f4c35e4016d9 // indirect
	golang.org/x/oauth2 v0.28.0 // indirect
	golang.org/x/term v0.29.0 // indirect
	gopkg.in/inf.v0 v0.9.1 // indirect
	gopkg.in/yaml.v2 v2.4.0 // indirect
	k8s.io/klog/v2 v2.70.1 // indirect
	k8s.io/kube-openapi v0.0.0-20220803162953-67bda5d908f1 // indirect
	k8s.io/utils v0.0.0-20220728103510-ee6ede2d64ed // indirect
	sigs.k8s.io/json v0.0.0-20220713155537-f223a00ba0e2 // indirect
	sigs.k8s.io/structured-merge-diff/v4 v4.2.3 // indirect
	sigs.k8s.io/yaml v1.2.0 // indirect
	stathat.com/c/consistent v1.0.0 // indirect
)

require (
	github.com/ash2k/stager v0.0.0-20170622123058-6e9c7b0eacd4 // indirect
	github.com/aws/aws-sdk-go-v2 v1.32.3 // indirect
	github.com/aws/aws-sdk-go-v2/config v1.26.2 // indirect
	github.com/aws/aws-sdk-go-v2/credentials v1.16.13 // indirect
	github.com/aws/aws-sdk-go-v2/feature/ec2/imds v1.14.10 // indirect
	github.com/aws/aws-sdk-go-v2/internal/configsources v1.3.22 // indirect
	github.com/aws/aws-sdk-go-v2/internal/endpoints/v2 v2.6.22 // indirect
	github.com/aws/aws-sdk-go-v2/internal/ini v1.7.2 // indirect
	github.com/aws/aws-sdk-go-v2/service/internal/accept-encoding v1.12.0 // indirect
	github.com/aws/aws-sdk-go-v2/service/internal/presigned-url v1.12.3 // indirect
	github.com/aws/aws-sdk-go-v2/service/sso v1.18.5 // indirect
	github.com/aws/aws-sdk-go-v2/service/ssooidc v1.21.5 // indirect
	github.com/aws/aws-sdk-go-v2/service/sts v1.26.6 // indirect
	github.com/aws/smithy-go v1.22.0 // indirect
	github.com/cenkalti/backoff v2.2.1+incompatible // indirect
	github.com/fsnotify/fsnotify v1.6.0 // indirect
	github.com/gorilla/mux v1.8.0 // indirect
	github.com/grpc-ecosystem/grpc-gateway/v2 v2.16.0 // indirect
	github.com/hashicorp/hcl v1.0.0 // indirect
	github.com/jmespath/go-jmespath v0.4.0 // indirect
	github.com/json-iterator/go v1.1.12 // indirect
	github.com/libp2p/go-reuseport v0.2.0 // indirect
	github.com/magiconair/properties v1.8.7 // indirect
	github.com/mitchellh/mapstructure v1.5.0 // indirect
	github.com/modern-go/concurrent v0.0.0-20180306012644-bacd9c7ef1dd // indirect
	github.com/modern-go/reflect2 v1.0.2 // indirect
	github.com/pelletier/go-toml/v2 v2.1.0 // indirect
	github.com/sagikazarmark/slog-shim v0.1.0 // indirect
	github.com/spf13/afero v1.10.0 // indirect
	github.com/spf13/cast v1.5.1 // indirect
	github.com/spf13/pflag v1.0.5 // indirect
	github.com/subosito/gotenv v1.6.0 // indirect
	github.com/tilinna/clock v1.1.0
	go.opentelemetry.io/proto/otlp v1.0.0
	go.uber.org/multierr v1.11.0 // indirect
	golang.org/x/exp v0.0.0-20230905200255-921286631fa9 // indirect
	golang.org/x/net v0.35.0 // indirect
	golang.org/x/sync v0.11.0 // indirect
	golang.org/x/sys v0.30.0 // indirect
	golang.org/x/text v0.22.0 // indirect
	google.golang.org/genproto/googleapis/api v0.0.0-20240227224415-6ceb2ff114de
	google.golang.org/genproto/googleapis/rpc v0.0.0-20240227224415-6ceb2ff114de
	google.golang.org/grpc v1.63.2 // indirect
	gopkg.in/ini.v1 v1.67.0 // indirect
	gopkg.in/yaml.v3 v3.0.1 // indirect
)

replace github.com/atlassian/gostatsd => /repo
