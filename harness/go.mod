module verifharness

go 1.26

require github.com/atlassian/gostatsd v0.0.0

require (
	github.com/fsnotify/fsnotify v1.6.0 // indirect
	github.com/hashicorp/hcl v1.0.0 // indirect
	github.com/magiconair/properties v1.8.7 // indirect
	github.com/mitchellh/mapstructure v1.5.0 // indirect
	github.com/pelletier/go-toml/v2 v2.1.0 // indirect
	github.com/sagikazarmark/slog-shim v0.1.0 // indirect
	github.com/sirupsen/logrus v1.9.0 // indirect
	github.com/spf13/afero v1.10.0 // indirect
	github.com/spf13/cast v1.5.1 // indirect
	github.com/spf13/pflag v1.0.5 // indirect
	github.com/spf13/viper v1.17.0 // indirect
	github.com/subosito/gotenv v1.6.0 // indirect
	github.com/tilinna/clock v1.1.0 // indirect
	golang.org/x/sys v0.30.0 // indirect
	golang.org/x/text v0.22.0 // indirect
	gopkg.in/ini.v1 v1.67.0 // indirect
	gopkg.in/yaml.v3 v3.0.1 // indirect
)

replace github.com/atlassian/gostatsd => /repo
