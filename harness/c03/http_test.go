//go:build verif

// Package c03 replays TLC-enumerated request sequences (spec/HttpIngest.tla) against the real ingestion router.
package c03

import (
	"bytes"
	"context"
	"encoding/binary"
	"encoding/json"
	"fmt"
	"math"
	"net/http"
	"net/http/httptest"
	"os"
	"strings"
	"sync"
	"testing"
	"time"

	"github.com/pierrec/lz4/v4"
	"github.com/sirupsen/logrus"
	"google.golang.org/protobuf/proto"

	"github.com/atlassian/gostatsd"
	"github.com/atlassian/gostatsd/pb"
	"github.com/atlassian/gostatsd/pkg/statsd"
	"github.com/atlassian/gostatsd/pkg/web"

	"verifharness/internal/fakes"
	"verifharness/internal/vh"
)

type req struct {
	Ep   string `json:"ep"`
	Enc  string `json:"enc"`
	Body string `json:"body"`
}

type hcase struct {
	Reqs []req    `json:"reqs"`
	Exp  []string `json:"exp"`
}

// rawProto builds a message whose structure is chosen by seed: which series are present, sets and timers with or
// without values, map entries with absent values. The series keys repeat across requests so that later requests merge
// into what earlier ones left downstream.
func rawProto(rng *vh.Rng) []byte {
	if rng.Intn(2) == 0 {
		m := &pb.RawMessageV2{}
		if rng.Intn(2) == 0 {
			m.Sets = map[string]*pb.SetTagV2{"s": {TagMap: map[string]*pb.RawSetV2{"": {}}}} // a set without members
		} else {
			m.Sets = map[string]*pb.SetTagV2{"s": {TagMap: map[string]*pb.RawSetV2{"": {Values: []string{fmt.Sprint(rng.Intn(9))}}}}}
		}
		if rng.Intn(2) == 0 {
			m.Timers = map[string]*pb.TimerTagV2{"t": {TagMap: map[string]*pb.RawTimerV2{"": {}}}} // a timer without values
		}
		if rng.Intn(3) == 0 {
			m.Counters = map[string]*pb.CounterTagV2{"c": {}}
			m.Gauges = map[string]*pb.GaugeTagV2{"g": {TagMap: map[string]*pb.RawGaugeV2{"": nil}}}
		}
		b, err := proto.Marshal(m)
		if err == nil {
			return b
		}
	}
	m := &pb.RawMessageV2{
		Counters: map[string]*pb.CounterTagV2{"c": {TagMap: map[string]*pb.RawCounterV2{"a:b": {Tags: []string{"a:b"}, Hostname: "h", Value: int64(rng.Intn(1000))}}}},
		Gauges:   map[string]*pb.GaugeTagV2{"g": {TagMap: map[string]*pb.RawGaugeV2{"": {Value: float64(rng.Intn(100)) / 7}}}},
		Timers:   map[string]*pb.TimerTagV2{"t": {TagMap: map[string]*pb.RawTimerV2{"": {SampleCount: 3, Values: []float64{1, 2, float64(rng.Intn(50))}}}}},
		Sets:     map[string]*pb.SetTagV2{"s": {TagMap: map[string]*pb.RawSetV2{"": {Values: []string{"x", fmt.Sprint(rng.Intn(9))}}}}},
	}
	if rng.Intn(3) == 0 { // map entries with absent / empty values
		m.Counters["nil"] = &pb.CounterTagV2{}
		m.Timers["nilv"] = &pb.TimerTagV2{TagMap: map[string]*pb.RawTimerV2{"": {}}}
	}
	b, _ := proto.Marshal(m)
	return b
}

func eventProto(rng *vh.Rng) []byte {
	b, _ := proto.Marshal(&pb.EventV2{Title: "t", Text: fmt.Sprint("x", rng.Intn(100)), Tags: []string{"a:b"}, Priority: pb.EventV2_Low, Type: pb.EventV2_Error})
	return b
}

func garbage(rng *vh.Rng) []byte {
	b := make([]byte, 1+rng.Intn(200))
	for i := range b {
		b[i] = byte(rng.Next())
	}
	return b
}

func zl(b []byte, rng *vh.Rng) []byte {
	var out bytes.Buffer
	_ = web.CompressWithZlib(b, &out, rng.Intn(10))
	return out.Bytes()
}

func l4(b []byte, rng *vh.Rng) []byte {
	var out bytes.Buffer
	_ = web.CompressWithLz4(b, &out, rng.Intn(10))
	return out.Bytes()
}

func trunc(b []byte, rng *vh.Rng) []byte {
	// strictly inside the stream: drop at least the trailer
	if len(b) < 12 {
		return b[:len(b)/2]
	}
	return b[:4+rng.Intn(len(b)-10)]
}

func body(r req, rng *vh.Rng) []byte {
	p := rawProto(rng)
	if r.Ep == "event" {
		p = eventProto(rng)
	}
	switch r.Body {
	case "proto":
		return p
	case "empty":
		return nil
	case "garbage":
		return garbage(rng)
	case "z_proto":
		return zl(p, rng)
	case "z_garbage":
		return zl(garbage(rng), rng)
	case "z_trunc":
		return trunc(zl(append(p, garbage(rng)...), rng), rng)
	case "z_empty":
		return zl(nil, rng)
	case "l_proto":
		return l4(p, rng)
	case "l_garbage":
		return l4(garbage(rng), rng)
	case "l_trunc":
		return trunc(l4(append(p, garbage(rng)...), rng), rng)
	case "l_empty":
		return l4(nil, rng)
	case "l_sized":
		return lz4Frame(p, len(p), false, rng)
	case "l_size_lie":
		return lz4Frame(p, len(p)+1+rng.Intn(100000), false, rng)
	case "l_size_huge":
		return lz4Frame(p, []int{1 << 31, 1 << 40, 1 << 62, math.MaxInt64}[rng.Intn(4)], false, rng)
	case "l_blocksum":
		return lz4Frame(p, -1, true, rng)
	case "l_blocklen_lie":
		b := l4(append(p, garbage(rng)...), rng)
		if len(b) > 11 { // the first block length field follows the 7-byte frame descriptor
			binary.LittleEndian.PutUint32(b[7:], uint32(0x7fffff00+rng.Intn(255)))
		}
		return b
	case "z_dictflag":
		b := zl(p, rng)
		if len(b) > 2 { // set FDICT and repair FCHECK so that the header is well formed
			b[1] |= 0x20
			b[1] &^= 0x1f
			b[1] += byte(31 - (uint16(b[0])<<8|uint16(b[1]))%31)
		}
		return b
	}
	return nil
}

// lz4Frame compresses p into an lz4 frame whose descriptor carries a content size (size >= 0; possibly a lie) and / or
// block checksums. A rewritten size invalidates the one-byte header checksum; it is repaired by asking the lz4 library
// itself which of the 256 values it accepts.
func lz4Frame(p []byte, size int, blockSums bool, rng *vh.Rng) []byte {
	var out bytes.Buffer
	w := lz4.NewWriter(&out)
	opts := []lz4.Option{lz4.BlockChecksumOption(blockSums), lz4.ChecksumOption(rng.Intn(2) == 0)}
	if size >= 0 {
		opts = append(opts, lz4.SizeOption(uint64(len(p))))
	}
	if err := w.Apply(opts...); err != nil {
		return l4(p, rng)
	}
	w.Write(p)
	w.Close()
	b := out.Bytes()
	if size < 0 || size == len(p) || len(b) < 15 {
		return b
	}
	binary.LittleEndian.PutUint64(b[6:], uint64(size)) // magic(4) FLG BD size(8) HC
	for hc := 0; hc < 256; hc++ {
		b[14] = byte(hc)
		ok := func() (ok bool) {
			defer func() { recover() }()
			r := lz4.NewReader(bytes.NewReader(b))
			_, err := r.Read(make([]byte, 1))
			return err == nil || !strings.Contains(err.Error(), "header")
		}()
		if ok {
			break
		}
	}
	return b
}

func TestCases(t *testing.T) {
	path := os.Getenv("VERIF_CASES")
	if path == "" {
		t.Skip("VERIF_CASES not set")
	}
	res := vh.NewResult()
	defer res.Write()
	logger := logrus.New()
	logger.SetLevel(logrus.PanicLevel)
	h := &fakes.Handler{}
	// what the ingestion endpoint accepted is handed to a real aggregator, as the pipeline would: a payload that was
	// answered 202 must not crash the stage behind it (the aggregator runs under recover() here; in the server it
	// runs in a worker goroutine without one)
	agg := statsd.NewMetricAggregator([]float64{90, -90}, -1, -1, -1, -1, gostatsd.TimerSubtypes{}, 2)
	downstream := ""
	merges := 0
	var aggMu sync.Mutex // an aggregator belongs to one worker goroutine in the server; here requests may overlap
	h.OnMap = func(mm *gostatsd.MetricMap) {
		aggMu.Lock()
		defer aggMu.Unlock()
		defer func() {
			if x := recover(); x != nil {
				downstream = fmt.Sprint(x)
				agg = statsd.NewMetricAggregator([]float64{90, -90}, -1, -1, -1, -1, gostatsd.TimerSubtypes{}, 2)
			}
		}()
		agg.ReceiveMap(mm)
		merges++
		if merges%3 == 0 { // negative expiry: every series starts from nothing again after a flush
			agg.Flush(time.Second)
			agg.Process(func(*gostatsd.MetricMap) {})
			agg.Reset()
		}
	}
	srv, err := web.NewHttpServer(logger, h, "t", "127.0.0.1:0", false, false, true, false, nil, nil)
	if err != nil {
		t.Fatal(err)
	}
	seed := vh.Seed()
	mutations := vh.EnvInt("VERIF_MUTATIONS", 2)
	every := vh.EnvInt("VERIF_EVERY", 1)
	wedged := false
	do := func(r req, b []byte) (status int, nm, ne int, panicked string) {
		defer func() {
			if x := recover(); x != nil {
				panicked = fmt.Sprint(x)
			}
		}()
		enc := r.Enc
		if enc == "x-long" {
			enc = string(bytes.Repeat([]byte("x"), 300))
		}
		hr := httptest.NewRequest("POST", "/v2/"+r.Ep, bytes.NewReader(b))
		if r.Enc != "" {
			hr.Header.Set("Content-Encoding", enc)
		}
		rec := httptest.NewRecorder()
		rec.Code = 0
		// a request that is never answered must not hang the check: it is given a generous real-time limit
		done := make(chan string, 1)
		go func() {
			defer func() {
				if x := recover(); x != nil {
					done <- fmt.Sprint(x)
					return
				}
				done <- ""
			}()
			srv.Router.ServeHTTP(rec, hr.WithContext(context.Background()))
		}()
		select {
		case p := <-done:
			if p != "" {
				return 0, 0, 0, p
			}
		case <-time.After(time.Duration(vh.EnvInt("VERIF_WEDGE_S", 20)) * time.Second):
			wedged = true
			return -1, 0, 0, ""
		}
		maps, evs := h.Take()
		return rec.Code, len(maps), len(evs), ""
	}
	err = vh.ReadCases(path, func(idx int, raw []byte) error {
		var c hcase
		if err := json.Unmarshal(raw, &c); err != nil {
			return err
		}
		if wedged {
			return nil // the endpoint has stopped answering: reported once, nothing more can be learned from it
		}
		if len(c.Reqs) > 1 && (idx+int(seed))%every != 0 { // quick tier: every single request, a seeded share of the pairs
			return nil
		}
		rng := vh.NewRng(seed, idx)
		for i, r := range c.Reqs {
			for v := 0; v <= mutations; v++ {
				b := body(r, rng)
				exp := c.Exp[i]
				if v > 0 && len(b) > 0 { // seeded corruption: the table no longer applies, only consistency and survival
					b = append([]byte(nil), b...)
					for k := 0; k <= rng.Intn(3); k++ {
						b[rng.Intn(len(b))] ^= byte(1 << rng.Intn(8))
					}
					if rng.Intn(3) == 0 {
						b = b[:rng.Intn(len(b)+1)]
					}
					exp = "either"
				}
				rc := map[string]any{"endpoint": r.Ep, "encoding": r.Enc, "body_class": r.Body, "body": fmt.Sprintf("%x", b), "expect": exp, "case": idx}
				status, nm, ne, pan := do(r, b)
				res.Eval(len(c.Reqs) >= 2)
				cls := r.Ep + "/" + r.Enc + "/" + r.Body
				if pan != "" {
					res.Fail("C03", "http-panic:"+cls, fmt.Sprintf("ingestion handler panicked: %s", pan), rc)
					continue
				}
				if downstream != "" {
					res.Fail("C03", "accepted-payload-crashes-aggregation", fmt.Sprintf("a payload answered with %d crashed the aggregator behind the endpoint: %s", status, downstream), rc)
					downstream = ""
				}
				if status == -1 {
					res.Fail("C03", "http-wedged:"+cls, "the request was not answered within the time limit: the endpoint is wedged", rc)
					return nil
				}
				if status == 0 {
					res.Fail("C03", "http-no-status:"+cls, "request was not answered with a status", rc)
					continue
				}
				disp := nm
				other := ne
				if r.Ep == "event" {
					disp, other = ne, nm
				}
				if other != 0 || disp > 1 || (disp == 1) != (status == 202) {
					res.Fail("C14", "http-status-dispatch-inconsistent:"+cls, fmt.Sprintf("status %d with %d/%d dispatches", status, nm, ne), rc)
					continue
				}
				switch exp {
				case "accept":
					if status != 202 {
						res.Fail("C14", "http-rejected-decodable:"+cls, fmt.Sprintf("status %d for a decodable body", status), rc)
					}
				case "reject":
					if status < 400 {
						res.Fail("C14", "http-accepted-undecodable:"+cls, fmt.Sprintf("status %d for an undecodable body", status), rc)
					}
				}
				res.Hit("exp:" + exp)
				res.Hit(fmt.Sprintf("status:%d", status))
			}
		}
		// after any sequence a valid request still succeeds
		status, nm, _, pan := do(req{Ep: "raw"}, rawProto(rng))
		if status == -1 {
			res.Fail("C03", "http-wedged:later-request", "a valid request after the sequence was not answered within the time limit", map[string]any{"case": idx})
			return nil
		}
		if pan != "" || status != 202 || nm != 1 {
			res.Fail("C03", "http-later-request-fails", fmt.Sprintf("valid request after the sequence: status %d dispatches %d panic %q", status, nm, pan), map[string]any{"case": idx})
		}
		if idx%3001 == 5 {
			res.Sample(c)
		}
		return nil
	})
	if err != nil {
		t.Fatal(err)
	}
	if !wedged {
		// requests overlap in production: every kind of request from several clients at once (a data race on the handlers' shared
		// state ends the process with a fatal error, which the pipeline attributes)
		kinds := []struct {
			ep, enc string
			body    []byte
		}{
			{"raw", "", rawProto(vh.NewRng(seed, 1))}, {"raw", "br", []byte("x")}, {"event", "x-unknown", []byte("y")}, {"raw", "deflate", []byte{0x01}},
			{"raw", "deflate", nil}, {"raw", "lz4", []byte{0x04, 0x22}}, {"event", "", []byte{0x50, 0x07}}, {"raw", "gzip", []byte("zz")},
		}
		var wg sync.WaitGroup
		answered := make(chan struct{})
		for g := 0; g < 8; g++ {
			wg.Add(1)
			go func(g int) {
				defer wg.Done()
				for i := 0; i < 400; i++ {
					k := kinds[(g+i)%len(kinds)]
					hr := httptest.NewRequest("POST", "/v2/"+k.ep, bytes.NewReader(k.body))
					if k.enc != "" {
						hr.Header.Set("Content-Encoding", k.enc)
					}
					func() {
						defer func() { recover() }()
						srv.Router.ServeHTTP(httptest.NewRecorder(), hr)
					}()
				}
			}(g)
		}
		go func() { wg.Wait(); close(answered) }()
		select {
		case <-answered:
			res.Hit("concurrent-requests")
		case <-time.After(60 * time.Second):
			res.Fail("C03", "http-wedged:concurrent", "overlapping requests were not all answered within the time limit", nil)
		}
		h.Take()
	}
	res.Distinct = res.Evaluations / (mutations + 1)
}

var _ = http.StatusOK
