//go:build verif

// Package c03 replays TLC-enumerated request sequences (spec/HttpIngest.tla) against the real ingestion router.
package c03

import (
	"bytes"
	"context"
	"encoding/json"
	"fmt"
	"net/http"
	"net/http/httptest"
	"os"
	"testing"

	"github.com/sirupsen/logrus"
	"google.golang.org/protobuf/proto"

	"github.com/atlassian/gostatsd/pb"
	"github.com/atlassian/gostatsd/pkg/web"

	"verifharness/internal/fakes"
	"verifharness/internal/vh"
)

type req struct {
	Ep   string `json:"ep"`
	Enc  string `json:"enc"`
	Body string `json:"body"`
}

type hcase struct {
	Reqs []req    `json:"reqs"`
	Exp  []string `json:"exp"`
}

func rawProto(rng *vh.Rng) []byte {
	m := &pb.RawMessageV2{
		Counters: map[string]*pb.CounterTagV2{"c": {TagMap: map[string]*pb.RawCounterV2{"a:b": {Tags: []string{"a:b"}, Hostname: "h", Value: int64(rng.Intn(1000))}}}},
		Gauges:   map[string]*pb.GaugeTagV2{"g": {TagMap: map[string]*pb.RawGaugeV2{"": {Value: float64(rng.Intn(100)) / 7}}}},
		Timers:   map[string]*pb.TimerTagV2{"t": {TagMap: map[string]*pb.RawTimerV2{"": {SampleCount: 3, Values: []float64{1, 2, float64(rng.Intn(50))}}}}},
		Sets:     map[string]*pb.SetTagV2{"s": {TagMap: map[string]*pb.RawSetV2{"": {Values: []string{"x", fmt.Sprint(rng.Intn(9))}}}}},
	}
	if rng.Intn(3) == 0 { // map entries with absent / empty values
		m.Counters["nil"] = &pb.CounterTagV2{}
		m.Timers["nilv"] = &pb.TimerTagV2{TagMap: map[string]*pb.RawTimerV2{"": {}}}
	}
	b, _ := proto.Marshal(m)
	return b
}

func eventProto(rng *vh.Rng) []byte {
	b, _ := proto.Marshal(&pb.EventV2{Title: "t", Text: fmt.Sprint("x", rng.Intn(100)), Tags: []string{"a:b"}, Priority: pb.EventV2_Low, Type: pb.EventV2_Error})
	return b
}

func garbage(rng *vh.Rng) []byte {
	b := make([]byte, 1+rng.Intn(200))
	for i := range b {
		b[i] = byte(rng.Next())
	}
	return b
}

func zl(b []byte, rng *vh.Rng) []byte {
	var out bytes.Buffer
	_ = web.CompressWithZlib(b, &out, rng.Intn(10))
	return out.Bytes()
}

func l4(b []byte, rng *vh.Rng) []byte {
	var out bytes.Buffer
	_ = web.CompressWithLz4(b, &out, rng.Intn(10))
	return out.Bytes()
}

func trunc(b []byte, rng *vh.Rng) []byte {
	// strictly inside the stream: drop at least the trailer
	if len(b) < 12 {
		return b[:len(b)/2]
	}
	return b[:4+rng.Intn(len(b)-10)]
}

func body(r req, rng *vh.Rng) []byte {
	p := rawProto(rng)
	if r.Ep == "event" {
		p = eventProto(rng)
	}
	switch r.Body {
	case "proto":
		return p
	case "empty":
		return nil
	case "garbage":
		return garbage(rng)
	case "z_proto":
		return zl(p, rng)
	case "z_garbage":
		return zl(garbage(rng), rng)
	case "z_trunc":
		return trunc(zl(append(p, garbage(rng)...), rng), rng)
	case "z_empty":
		return zl(nil, rng)
	case "l_proto":
		return l4(p, rng)
	case "l_garbage":
		return l4(garbage(rng), rng)
	case "l_trunc":
		return trunc(l4(append(p, garbage(rng)...), rng), rng)
	case "l_empty":
		return l4(nil, rng)
	}
	return nil
}

func TestCases(t *testing.T) {
	path := os.Getenv("VERIF_CASES")
	if path == "" {
		t.Skip("VERIF_CASES not set")
	}
	res := vh.NewResult()
	defer res.Write()
	logger := logrus.New()
	logger.SetLevel(logrus.PanicLevel)
	h := &fakes.Handler{}
	srv, err := web.NewHttpServer(logger, h, "t", "127.0.0.1:0", false, false, true, false, nil, nil)
	if err != nil {
		t.Fatal(err)
	}
	seed := vh.Seed()
	mutations := vh.EnvInt("VERIF_MUTATIONS", 2)
	do := func(r req, b []byte) (status int, nm, ne int, panicked string) {
		defer func() {
			if x := recover(); x != nil {
				panicked = fmt.Sprint(x)
			}
		}()
		enc := r.Enc
		if enc == "x-long" {
			enc = string(bytes.Repeat([]byte("x"), 300))
		}
		hr := httptest.NewRequest("POST", "/v2/"+r.Ep, bytes.NewReader(b))
		if r.Enc != "" {
			hr.Header.Set("Content-Encoding", enc)
		}
		rec := httptest.NewRecorder()
		rec.Code = 0
		srv.Router.ServeHTTP(rec, hr.WithContext(context.Background()))
		maps, evs := h.Take()
		return rec.Code, len(maps), len(evs), ""
	}
	err = vh.ReadCases(path, func(idx int, raw []byte) error {
		var c hcase
		if err := json.Unmarshal(raw, &c); err != nil {
			return err
		}
		rng := vh.NewRng(seed, idx)
		for i, r := range c.Reqs {
			for v := 0; v <= mutations; v++ {
				b := body(r, rng)
				exp := c.Exp[i]
				if v > 0 && len(b) > 0 { // seeded corruption: the table no longer applies, only consistency and survival
					b = append([]byte(nil), b...)
					for k := 0; k <= rng.Intn(3); k++ {
						b[rng.Intn(len(b))] ^= byte(1 << rng.Intn(8))
					}
					if rng.Intn(3) == 0 {
						b = b[:rng.Intn(len(b)+1)]
					}
					exp = "either"
				}
				rc := map[string]any{"endpoint": r.Ep, "encoding": r.Enc, "body_class": r.Body, "body": fmt.Sprintf("%x", b), "expect": exp, "case": idx}
				status, nm, ne, pan := do(r, b)
				res.Eval(len(c.Reqs) >= 2)
				cls := r.Ep + "/" + r.Enc + "/" + r.Body
				if pan != "" {
					res.Fail("C03", "http-panic:"+cls, fmt.Sprintf("ingestion handler panicked: %s", pan), rc)
					continue
				}
				if status == 0 {
					res.Fail("C03", "http-no-status:"+cls, "request was not answered with a status", rc)
					continue
				}
				disp := nm
				other := ne
				if r.Ep == "event" {
					disp, other = ne, nm
				}
				if other != 0 || disp > 1 || (disp == 1) != (status == 202) {
					res.Fail("C14", "http-status-dispatch-inconsistent:"+cls, fmt.Sprintf("status %d with %d/%d dispatches", status, nm, ne), rc)
					continue
				}
				switch exp {
				case "accept":
					if status != 202 {
						res.Fail("C14", "http-rejected-decodable:"+cls, fmt.Sprintf("status %d for a decodable body", status), rc)
					}
				case "reject":
					if status < 400 {
						res.Fail("C14", "http-accepted-undecodable:"+cls, fmt.Sprintf("status %d for an undecodable body", status), rc)
					}
				}
				res.Hit("exp:" + exp)
				res.Hit(fmt.Sprintf("status:%d", status))
			}
		}
		// after any sequence a valid request still succeeds
		status, nm, _, pan := do(req{Ep: "raw"}, rawProto(rng))
		if pan != "" || status != 202 || nm != 1 {
			res.Fail("C03", "http-later-request-fails", fmt.Sprintf("valid request after the sequence: status %d dispatches %d panic %q", status, nm, pan), map[string]any{"case": idx})
		}
		if idx%3001 == 5 {
			res.Sample(c)
		}
		return nil
	})
	if err != nil {
		t.Fatal(err)
	}
	res.Distinct = res.Evaluations / (mutations + 1)
}

var _ = http.StatusOK
