//go:build verif

// Package c12 drives the real CachedCloudProvider with TLC-generated schedules (spec/CacheSched.tla) against a scripted
// CloudProvider and a fake Statser inside a synctest bubble (virtual time makes the 10 ms batch window, the refresh ticks,
// TTLs and the idle period exact) and records a trace judged by spec/CacheTrace.tla (C12).
package c12

import (
	"context"
	"encoding/json"
	"errors"
	"os"
	"sync"
	"testing"
	"testing/synctest"
	"time"

	"github.com/sirupsen/logrus"
	"golang.org/x/time/rate"

	"github.com/atlassian/gostatsd"
	"github.com/atlassian/gostatsd/pkg/cachedinstances/cloudprovider"

	"verifharness/internal/fakes"
	"verifharness/internal/trace"
	"verifharness/internal/vh"
)

type op struct {
	Op  string `json:"op"`
	Src string `json:"src"`
	D   int    `json:"d"`
}

type scase struct {
	Lim   int  `json:"lim"`
	Sched []op `json:"sched"`
}

const (
	refresh = 60
	ttl     = 100
	negttl  = 30
	idle    = 150
)

type provider struct {
	mu      sync.Mutex
	tw      *trace.Writer
	outcome string
	limit   int
}

func (p *provider) Name() string           { return "scripted" }
func (p *provider) MaxInstancesBatch() int { return p.limit }
func (p *provider) EstimatedTags() int     { return 1 }
func (p *provider) Instance(ctx context.Context, ips ...gostatsd.Source) (map[gostatsd.Source]*gostatsd.Instance, error) {
	p.mu.Lock()
	defer p.mu.Unlock()
	var l []string
	for _, ip := range ips {
		l = append(l, string(ip))
	}
	p.tw.Emit(map[string]any{"ev": "call", "ips": l, "outcome": p.outcome})
	inst := func(ip gostatsd.Source) *gostatsd.Instance {
		return &gostatsd.Instance{ID: "i-" + ip, Tags: gostatsd.Tags{"k:" + string(ip)}}
	}
	out := map[gostatsd.Source]*gostatsd.Instance{}
	switch p.outcome {
	case "full":
		for _, ip := range ips {
			out[ip] = inst(ip)
		}
		return out, nil
	case "partial", "errpartial":
		for _, ip := range ips {
			if ip == "a" {
				out[ip] = inst(ip)
			}
		}
		if p.outcome == "errpartial" {
			return out, errors.New("boom")
		}
		return out, nil
	case "empty":
		return out, nil
	}
	return nil, errors.New("boom")
}

// limiterFor: every other schedule runs with a finite rate and a burst smaller than a batch can be (the shipped defaults are like
// that: burst 15, AWS batches of up to 32); the wait is per call, whatever the size of the batch
func limiterFor(idx int) *rate.Limiter {
	if idx%2 == 1 {
		return rate.NewLimiter(1000, 2)
	}
	return rate.NewLimiter(rate.Inf, 1)
}

func runSchedule(t *testing.T, tw *trace.Writer, c *scase, idx int, res *vh.Result) {
	defer func() {
		// goroutines that stay blocked for ever make the bubble panic on exit; the trace written so far is still judged
		if x := recover(); x != nil {
			res.Note("bubble left with blocked goroutines: %v", x)
			res.Hit("goroutines-left-blocked")
		}
	}()
	synctest.Test(t, func(t *testing.T) {
		start := time.Now()
		now := func() int { return int(time.Since(start) / time.Second) }
		ctx, cancel := context.WithCancel(context.Background())
		logger := logrus.New()
		logger.SetLevel(logrus.PanicLevel)
		p := &provider{tw: tw, outcome: "full", limit: c.Lim}
		ccp := cloudprovider.NewCachedCloudProvider(logger, limiterFor(idx), p, gostatsd.CacheOptions{
			CacheRefreshPeriod: refresh * time.Second, CacheEvictAfterIdlePeriod: idle * time.Second, CacheTTL: ttl * time.Second, CacheNegativeTTL: negttl * time.Second})
		st := fakes.NewStatser()
		var wg sync.WaitGroup
		wg.Add(3)
		go func() { defer wg.Done(); ccp.Run(ctx) }()
		go func() { defer wg.Done(); ccp.RunMetrics(ctx, st) }()
		go func() { // the client side of InfoSource
			defer wg.Done()
			for {
				select {
				case <-ctx.Done():
					return
				case info := <-ccp.InfoSource():
					r := "neg"
					if info.Instance != nil {
						r = "pos"
						if string(info.Instance.ID) != "i-"+string(info.IP) {
							r = "wrong-instance"
						}
					}
					tw.Emit(map[string]any{"ev": "answer", "src": string(info.IP), "res": r, "t": now()})
				}
			}
		}()
		synctest.Wait()
		tw.Emit(map[string]any{"ev": "start", "refresh": refresh, "ttl": ttl, "negttl": negttl, "idle": idle, "case": idx, "limit": c.Lim})
		advance := func(d int) {
			target := now() + d
			for now() < target {
				next := (now()/refresh + 1) * refresh
				if next > target {
					time.Sleep(time.Duration(target-now())*time.Second - time.Since(start)%time.Second)
					synctest.Wait()
					break
				}
				time.Sleep(start.Add(time.Duration(next) * time.Second).Sub(time.Now()))
				synctest.Wait() // the tick has fired and doRefresh has run; re-queries wait in the 10 ms batch window
				tw.Emit(map[string]any{"ev": "tick", "t": next})
				res.Hit("tick")
			}
		}
		for _, o := range c.Sched {
			switch o.Op {
			case "sub":
				tw.Emit(map[string]any{"ev": "submit", "src": o.Src})
				src := gostatsd.Source(o.Src)
				go func() {
					select {
					case ccp.IpSink() <- src:
					case <-ctx.Done():
					}
				}()
				synctest.Wait()
			case "peek":
				inst, hit := ccp.Peek(gostatsd.Source(o.Src))
				r := "miss"
				if hit && inst != nil {
					r = "pos"
				} else if hit {
					r = "neg"
				}
				tw.Emit(map[string]any{"ev": "peek", "src": o.Src, "res": r, "t": now()})
			case "adv":
				advance(o.D)
			case "out":
				p.mu.Lock()
				p.outcome = o.Src
				p.mu.Unlock()
				res.Hit("outcome:" + o.Src)
			case "emit":
				time.Sleep(50 * time.Millisecond) // past any batch window, so that the cache is at rest
				synctest.Wait()
				st.Flush(ctx)
				synctest.Wait()
				g := func(k string) int {
					v, ok := st.GetGauge(k)
					if !ok {
						return -2
					}
					if v > 1e15 {
						return -1
					}
					return int(v)
				}
				tw.Emit(map[string]any{"ev": "gauge", "pos": g("cloudprovider.cache_positive"), "neg": g("cloudprovider.cache_negative")})
				res.Hit("emit")
			}
		}
		time.Sleep(100 * time.Millisecond)
		synctest.Wait()
		tw.Emit(map[string]any{"ev": "quiesce"})
		res.Eval(len(c.Sched) >= 3)
		cancel()
		wg.Wait()
	})
}

func TestSchedules(t *testing.T) {
	path := os.Getenv("VERIF_CASES")
	if path == "" {
		t.Skip("VERIF_CASES not set")
	}
	res := vh.NewResult()
	defer res.Write()
	tw, err := trace.New(os.Getenv("VERIF_TRACE_OUT"))
	if err != nil {
		t.Fatal(err)
	}
	defer tw.Close()
	seen := map[string]bool{}
	err = vh.ReadCases(path, func(idx int, raw []byte) error {
		if seen[string(raw)] {
			return nil
		}
		seen[string(raw)] = true
		var c scase
		if err := json.Unmarshal(raw, &c); err != nil {
			return err
		}
		runSchedule(t, tw, &c, idx, res)
		if idx%701 == 2 {
			res.Sample(c)
		}
		return nil
	})
	if err != nil {
		t.Fatal(err)
	}
	res.Traces = tw.N
	res.Distinct = res.Evaluations
}
