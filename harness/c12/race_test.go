//go:build verif

package c12

import (
	"context"
	"fmt"
	"os"
	"sync"
	"testing"
	"testing/synctest"
	"time"

	"github.com/sirupsen/logrus"
	"golang.org/x/time/rate"

	"github.com/atlassian/gostatsd"
	"github.com/atlassian/gostatsd/pkg/cachedinstances/cloudprovider"

	"verifharness/internal/fakes"
	"verifharness/internal/trace"
	"verifharness/internal/vh"
)

// TestPeekRace: many cached sources whose clients come back at the very refresh tick at which the entries have become idle, so that
// Peek (from several goroutines, in different orders) runs while the tick decides about eviction. Which of them are kept is up to the
// race and is not judged; the reads are not logged. Then the clients go away for good: every entry is idle at some later tick, the
// abstract cache of CacheProp is empty, and the gauges have to say so (GaugeTruth) -- whatever happened during the races.
func TestPeekRace(t *testing.T) {
	if os.Getenv("VERIF_TRACE_OUT") == "" {
		t.Skip("VERIF_TRACE_OUT not set")
	}
	res := vh.NewResult()
	defer res.Write()
	tw, err := trace.New(os.Getenv("VERIF_TRACE_OUT"))
	if err != nil {
		t.Fatal(err)
	}
	defer tw.Close()
	n := vh.EnvInt("VERIF_RACE_SOURCES", 600)
	rounds := vh.EnvInt("VERIF_RACE_ROUNDS", 4)
	const longTTL = 1000000
	for round := 0; round < rounds; round++ {
		synctest.Test(t, func(t *testing.T) {
			start := time.Now()
			at := func(sec int) { time.Sleep(time.Until(start.Add(time.Duration(sec) * time.Second))) }
			ctx, cancel := context.WithCancel(context.Background())
			logger := logrus.New()
			logger.SetLevel(logrus.PanicLevel)
			p := &provider{tw: tw, outcome: "full", limit: 50}
			ccp := cloudprovider.NewCachedCloudProvider(logger, rate.NewLimiter(rate.Inf, 1), p, gostatsd.CacheOptions{
				CacheRefreshPeriod: refresh * time.Second, CacheEvictAfterIdlePeriod: idle * time.Second, CacheTTL: longTTL * time.Second, CacheNegativeTTL: longTTL * time.Second})
			st := fakes.NewStatser()
			var wg sync.WaitGroup
			wg.Add(3)
			go func() { defer wg.Done(); ccp.Run(ctx) }()
			go func() { defer wg.Done(); ccp.RunMetrics(ctx, st) }()
			go func() {
				defer wg.Done()
				for {
					select {
					case <-ctx.Done():
						return
					case info := <-ccp.InfoSource():
						r := "neg"
						if info.Instance != nil {
							r = "pos"
						}
						tw.Emit(map[string]any{"ev": "answer", "src": string(info.IP), "res": r, "t": int(time.Since(start) / time.Second)})
					}
				}
			}()
			synctest.Wait()
			tw.Emit(map[string]any{"ev": "start", "refresh": refresh, "ttl": longTTL, "negttl": longTTL, "idle": idle, "case": 900000 + round, "limit": 50})
			srcs := make([]gostatsd.Source, n)
			for i := range srcs {
				srcs[i] = gostatsd.Source(fmt.Sprintf("r%d", i))
				tw.Emit(map[string]any{"ev": "submit", "src": string(srcs[i])})
				ccp.IpSink() <- srcs[i]
			}
			time.Sleep(time.Second)
			synctest.Wait()
			// the clients: each reads every source at 180 s, 360 s, 540 s -- refresh ticks at which an entry last read 180 s ago is idle
			var readers sync.WaitGroup
			hits := make([]int, 4)
			for r := 0; r < 4; r++ {
				r := r
				readers.Add(1)
				go func() {
					defer readers.Done()
					for k := 1; k <= 3; k++ {
						at(180 * k)
						for i := range srcs {
							j := i
							switch r {
							case 1:
								j = n - 1 - i
							case 2:
								j = (i + n/2) % n
							case 3:
								j = (i*7 + 3) % n
							}
							if _, ok := ccp.Peek(srcs[j]); ok {
								hits[r]++
							}
						}
					}
				}()
			}
			for tick := 1; tick <= 9; tick++ {
				at(refresh * tick)
				time.Sleep(time.Millisecond)
				synctest.Wait()
				tw.Emit(map[string]any{"ev": "tick", "t": refresh * tick})
			}
			readers.Wait()
			for tick := 10; tick <= 14; tick++ { // nobody has read anything since 540 s: at 720 s the last survivor is idle
				at(refresh * tick)
				time.Sleep(time.Millisecond)
				synctest.Wait()
				tw.Emit(map[string]any{"ev": "tick", "t": refresh * tick})
			}
			st.Flush(ctx)
			synctest.Wait()
			g := func(k string) int {
				v, ok := st.GetGauge(k)
				if !ok {
					return -2
				}
				if v > 1e15 {
					return -1
				}
				return int(v)
			}
			for i, src := range srcs {
				if i%97 == 0 { // and the cache agrees that they are gone
					_, ok := ccp.Peek(src)
					tw.Emit(map[string]any{"ev": "peek", "src": string(src), "res": map[bool]string{true: "pos", false: "miss"}[ok], "t": int(time.Since(start) / time.Second)})
				}
			}
			tw.Emit(map[string]any{"ev": "gauge", "pos": g("cloudprovider.cache_positive"), "neg": g("cloudprovider.cache_negative")})
			tw.Emit(map[string]any{"ev": "quiesce"})
			total := 0
			for _, h := range hits {
				total += h
			}
			if total > 0 {
				res.Hit("read-hit-at-the-eviction-tick")
			}
			res.Hit("peek-race-round")
			res.Eval(true)
			cancel()
			wg.Wait()
		})
	}
	res.Traces = tw.N
	res.Distinct = res.Evaluations
}
