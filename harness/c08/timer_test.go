//go:build verif

// Package c08 replays TLC-enumerated timer cases (spec/MCTimer.tla) into the real MetricAggregator and compares every
// Timer field, the percentile list and the histogram with the declarative statistics of spec/TimerStats.tla.
package c08

import (
	"encoding/json"
	"fmt"
	"math"
	"os"
	"strconv"
	"strings"
	"testing"
	"time"

	"github.com/atlassian/gostatsd"
	"github.com/atlassian/gostatsd/pkg/statsd"

	"verifharness/internal/vh"
)

type summary struct {
	N      int `json:"n"`
	Cnt    int `json:"cnt"`
	Sum    int `json:"sum"`
	SumSq  int `json:"sumsq"`
	Min    int `json:"min"`
	Max    int `json:"max"`
	Med2   int `json:"med2"`
	VarNum int `json:"varnum"`
}

type pct struct {
	K     int `json:"k"`
	Sum   int `json:"sum"`
	SumSq int `json:"sumsq"`
	Bound int `json:"bound"`
}

type hist struct {
	None   bool            `json:"none"`
	Bounds []int           `json:"bounds"`
	Counts json.RawMessage `json:"counts"`
	Inf    int             `json:"inf"`
}

type tcase struct {
	Mode  string           `json:"mode"`
	Vals  []int            `json:"vals"`
	Invs  []int            `json:"invs"`
	Tag   int              `json:"tag"`
	Limit uint32           `json:"limit"`
	Exp   json.RawMessage  `json:"exp"`
	Pcts  map[string][]pct `json:"pcts"`
}

var tagPool = []string{"", "0_2", "x_1__-1_3", "", "1_1_5", "abc", "1_x_x"}

func close(a, b float64) bool {
	if a == b {
		return true
	}
	return math.Abs(a-b) <= 1e-9*math.Max(1, math.Max(math.Abs(a), math.Abs(b)))
}

// valueShift is added to every value fed (0 normally): statistics of shifted values are the shifted statistics, the deviation is unchanged
var valueShift float64

func feed(a *statsd.MetricAggregator, c *tcase, tags gostatsd.Tags, rng *vh.Rng) {
	// seeded arrival order, 1..3 batches
	order := make([]int, len(c.Vals))
	for i := range order {
		order[i] = i
	}
	for i := len(order) - 1; i > 0; i-- {
		j := rng.Intn(i + 1)
		order[i], order[j] = order[j], order[i]
	}
	nb := 1 + rng.Intn(3)
	maps := make([]*gostatsd.MetricMap, nb)
	for i := range maps {
		maps[i] = gostatsd.NewMetricMap(false)
		if rng.Intn(2) == 0 { // a sibling series under the same name arrives first (different tag set, different source)
			maps[i].Receive(&gostatsd.Metric{Name: "t", Type: gostatsd.TIMER, Value: 99, Rate: 0.5, Tags: gostatsd.Tags{"decoy:1"}, Timestamp: 10, Source: "s"})
		}
		if rng.Intn(4) == 0 {
			maps[i].Receive(&gostatsd.Metric{Name: "t", Type: gostatsd.TIMER, Value: 98, Rate: 1, Tags: tags.Copy(), Timestamp: 10, Source: "other"})
		}
	}
	for _, i := range order {
		m := &gostatsd.Metric{Name: "t", Type: gostatsd.TIMER, Value: float64(c.Vals[i]) + valueShift, Rate: 1 / float64(c.Invs[i]), Tags: tags.Copy(), Timestamp: 10, Source: "s"}
		maps[rng.Intn(nb)].Receive(m)
	}
	for _, mm := range maps {
		a.ReceiveMap(mm)
	}
}

func theTimer(a *statsd.MetricAggregator) (gostatsd.Timer, int) {
	var t gostatsd.Timer
	n := 0
	a.Process(func(mm *gostatsd.MetricMap) {
		mm.Timers.Each(func(_, _ string, tm gostatsd.Timer) {
			if tm.Source != "s" || tm.Tags.Exists("decoy") {
				return
			}
			t = tm
			t.Percentiles = append(gostatsd.Percentiles(nil), tm.Percentiles...)
			n++
		})
	})
	return t, n
}

func TestCases(t *testing.T) {
	path := os.Getenv("VERIF_CASES")
	if path == "" {
		t.Skip("VERIF_CASES not set")
	}
	res := vh.NewResult()
	defer res.Write()
	seed := vh.Seed()
	err := vh.ReadCases(path, func(idx int, raw []byte) error {
		var c tcase
		if err := json.Unmarshal(raw, &c); err != nil {
			return fmt.Errorf("case %d: %v", idx, err)
		}
		rng := vh.NewRng(seed, idx)
		intervals := []time.Duration{time.Second, 10 * time.Second, 2500 * time.Millisecond}
		interval := intervals[rng.Intn(len(intervals))]
		rec := map[string]any{"vals": c.Vals, "inverse_rates": c.Invs, "mode": c.Mode, "interval": interval.String(), "case": idx}
		fail := func(sig, f string, a ...any) {
			res.Fail("C08", sig, fmt.Sprintf("values %v (1/rate %v) interval %v: ", c.Vals, c.Invs, interval)+fmt.Sprintf(f, a...), rec)
		}
		defer func() {
			if x := recover(); x != nil {
				res.Fail("C04", "flush-panic:"+c.Mode, fmt.Sprintf("values %v: Flush panicked: %v", c.Vals, x), rec)
			}
		}()
		if c.Mode == "summary" {
			var exp summary
			if err := json.Unmarshal(c.Exp, &exp); err != nil {
				return err
			}
			// percentile list: all of them, or a seeded subset; sub-metric mask seeded
			var pcts []float64
			var used []string
			for p := range c.Pcts {
				if idx%2 == 0 || rng.Intn(2) == 0 {
					f, _ := strconv.ParseFloat(p, 64)
					pcts = append(pcts, f)
					used = append(used, p)
				}
			}
			mask := gostatsd.TimerSubtypes{}
			if idx%3 == 1 {
				mask = gostatsd.TimerSubtypes{CountPct: rng.Intn(2) == 0, MeanPct: rng.Intn(2) == 0, SumPct: rng.Intn(2) == 0,
					SumSquaresPct: rng.Intn(2) == 0, UpperPct: rng.Intn(2) == 0, LowerPct: rng.Intn(2) == 0,
					Lower: true, Count: rng.Intn(2) == 0, Mean: true, Median: rng.Intn(2) == 0}
			}
			rec["percentiles"], rec["mask"] = used, fmt.Sprintf("%+v", mask)
			a := statsd.NewMetricAggregator(pcts, 0, 0, 0, 0, mask, 1000)
			if len(c.Vals) == 0 {
				// an idle persisted timer: one value, flush, reset, flush again
				a.ReceiveMap(func() *gostatsd.MetricMap {
					mm := gostatsd.NewMetricMap(false)
					mm.Receive(&gostatsd.Metric{Name: "t", Type: gostatsd.TIMER, Value: 5, Rate: 1, Timestamp: 10, Source: "s"})
					return mm
				}())
				a.Flush(interval)
				a.Reset()
			} else {
				feed(a, &c, nil, rng)
			}
			a.Flush(interval)
			res.Eval(len(c.Vals) >= 2)
			tm, n := theTimer(a)
			if n != 1 {
				fail("timer-missing", "%d timers in the flushed map", n)
				return nil
			}
			if tm.Count != exp.Cnt {
				fail("count", "Count=%d want round(sum 1/rate)=%d", tm.Count, exp.Cnt)
			}
			if !close(tm.PerSecond, float64(exp.Cnt)/interval.Seconds()) {
				fail("per-second", "PerSecond=%v want %v", tm.PerSecond, float64(exp.Cnt)/interval.Seconds())
			}
			if exp.N > 0 {
				nf := float64(exp.N)
				for _, f := range []struct {
					name      string
					got, want float64
				}{
					{"min", tm.Min, float64(exp.Min)}, {"max", tm.Max, float64(exp.Max)}, {"sum", tm.Sum, float64(exp.Sum)},
					{"sum-squares", tm.SumSquares, float64(exp.SumSq)}, {"mean", tm.Mean, float64(exp.Sum) / nf},
					{"median", tm.Median, float64(exp.Med2) / 2}, {"stddev", tm.StdDev, math.Sqrt(float64(exp.VarNum)) / nf},
				} {
					if !close(f.got, f.want) {
						fail(f.name, "%s=%v want %v", f.name, f.got, f.want)
					}
				}
				if idx%5 == 2 {
					// the same values far from zero (epoch milliseconds are like that): every statistic moves with them, the spread stays
					const shift = 1e9
					valueShift = shift
					b := statsd.NewMetricAggregator(nil, 0, 0, 0, 0, gostatsd.TimerSubtypes{}, 1000)
					feed(b, &c, nil, rng)
					valueShift = 0
					b.Flush(interval)
					st, sn := theTimer(b)
					res.Hit("shifted-values")
					if sn == 1 {
						for _, f := range []struct {
							name      string
							got, want float64
						}{
							{"min", st.Min, float64(exp.Min) + shift}, {"max", st.Max, float64(exp.Max) + shift}, {"mean", st.Mean, float64(exp.Sum)/nf + shift},
							{"median", st.Median, float64(exp.Med2)/2 + shift}, {"stddev", st.StdDev, math.Sqrt(float64(exp.VarNum)) / nf},
						} {
							if math.Abs(f.got-f.want) > 1e-4 {
								fail(f.name+"-shifted", "values + 1e9: %s=%v want %v", f.name, f.got, f.want)
							}
						}
					}
				}
			}
			// percentiles
			got := map[string]float64{}
			for _, p := range tm.Percentiles {
				if _, dup := got[p.Str]; dup {
					fail("percentile-duplicated", "percentile %s reported twice", p.Str)
				}
				got[p.Str] = p.Float
			}
			for _, ps := range used {
				alts := c.Pcts[ps]
				neg := strings.HasPrefix(ps, "-")
				if ps == "0" { // p = 0 is neither "lowest" nor "highest": whichever boundary name is used, it is the single value (n = 1)
					_, lower := got["lower_0"]
					_, upper := got["upper_0"]
					// when neither is there, the boundary is taken to be the one whose name is disabled (if any is)
					neg = lower || (!upper && mask.LowerPct)
				}
				names := map[string]bool{"count_" + ps: !mask.CountPct, "mean_" + ps: !mask.MeanPct, "sum_" + ps: !mask.SumPct,
					"sum_squares_" + ps: !mask.SumSquaresPct, "upper_" + ps: !neg && !mask.UpperPct, "lower_" + ps: neg && !mask.LowerPct}
				okAny, why := false, ""
				for _, alt := range alts {
					ok := true
					for name, enabled := range names {
						v, present := got[name]
						wantPresent := enabled && alt.K > 0
						if present != wantPresent {
							ok, why = false, fmt.Sprintf("%s present=%v want %v (k=%d)", name, present, wantPresent, alt.K)
							break
						}
						if !present {
							continue
						}
						var want float64
						switch {
						case strings.HasPrefix(name, "count_"):
							want = float64(alt.K)
						case strings.HasPrefix(name, "mean_"):
							want = float64(alt.Sum) / float64(alt.K)
						case strings.HasPrefix(name, "sum_squares_"):
							want = float64(alt.SumSq)
						case strings.HasPrefix(name, "sum_"):
							want = float64(alt.Sum)
						default:
							want = float64(alt.Bound)
						}
						if !close(v, want) {
							ok, why = false, fmt.Sprintf("%s=%v want %v (k=%d)", name, v, want, alt.K)
							break
						}
					}
					if ok {
						okAny = true
						break
					}
				}
				if len(alts) == 0 { // n = 0: nothing may be reported
					okAny = true
					for name := range names {
						if _, present := got[name]; present {
							okAny, why = false, name+" reported for an idle timer"
						}
					}
				}
				if !okAny {
					sign := "pos"
					if neg {
						sign = "neg"
					}
					fail("percentile-"+sign, "percentile %s: %s; reported %v", ps, why, tm.Percentiles)
				}
				for name := range names {
					delete(got, name)
				}
			}
			for name := range got {
				fail("percentile-unexpected", "unexpected percentile entry %s", name)
			}
			if tm.Histogram != nil && len(tm.Histogram) > 0 {
				fail("histogram-unexpected", "untagged timer reports a histogram %v", tm.Histogram)
			}
			if len(c.Vals) == 0 {
				res.Hit("idle-timer")
			}
			if len(c.Vals) == 1 {
				res.Hit("n=1")
			}
		} else {
			var exp hist
			if err := json.Unmarshal(c.Exp, &exp); err != nil {
				return err
			}
			tags := gostatsd.Tags{"a:b", "gsd_histogram:" + tagPool[c.Tag]}
			rec["tag"], rec["limit"] = tags[1], c.Limit
			a := statsd.NewMetricAggregator([]float64{90, -50}, 0, 0, 0, 0, gostatsd.TimerSubtypes{}, c.Limit)
			if len(c.Vals) == 0 {
				return nil
			}
			feed(a, &c, tags, rng)
			a.Flush(interval)
			res.Eval(len(c.Vals) >= 2)
			tm, n := theTimer(a)
			if n != 1 {
				fail("timer-missing", "%d timers in the flushed map", n)
				return nil
			}
			want := map[float64]int{}
			if !exp.None {
				var counts map[string]int
				var countsSeq []int
				if json.Unmarshal(exp.Counts, &counts) != nil {
					_ = json.Unmarshal(exp.Counts, &countsSeq) // a function over 1..n is printed as an array
					counts = map[string]int{}
					for i, v := range countsSeq {
						counts[strconv.Itoa(i+1)] = v
					}
				}
				for _, b := range exp.Bounds {
					want[float64(b)] = counts[strconv.Itoa(b)]
				}
				want[math.Inf(1)] = exp.Inf
			}
			gotH := map[float64]int{}
			for k, v := range tm.Histogram {
				gotH[float64(k)] = v
			}
			if fmt.Sprint(want) != fmt.Sprint(gotH) {
				fail("histogram", "tag %q limit %d: histogram %v want %v", tags[1], c.Limit, gotH, want)
			}
			if len(tm.Percentiles) != 0 || tm.Count != 0 || tm.Mean != 0 || tm.Sum != 0 || tm.Max != 0 || tm.Median != 0 {
				fail("histogram-with-summary", "histogram timer reports summary statistics: count=%d mean=%v pct=%v", tm.Count, tm.Mean, tm.Percentiles)
			}
			res.Hit(fmt.Sprintf("limit:%d", c.Limit))
		}
		if idx%499 == 7 {
			res.Sample(map[string]any{"vals": c.Vals, "invs": c.Invs, "mode": c.Mode, "exp": c.Exp})
		}
		return nil
	})
	if err != nil {
		t.Fatal(err)
	}
	// bucket bounds that are not small integers: decimal fractions and a bound beyond 2^24, with values on and around them
	// ("per bucket bound and +Inf, the number of values not greater than the bound" -- the bound as written)
	{
		a := statsd.NewMetricAggregator(nil, 0, 0, 0, 0, gostatsd.TimerSubtypes{}, 1000)
		mm := gostatsd.NewMetricMap(false)
		for _, v := range []float64{0.3, 0.7, 0.1, 16777217, 16777216, 0.9, 1e39} {
			mm.Receive(&gostatsd.Metric{Name: "t", Type: gostatsd.TIMER, Value: v, Rate: 1, Tags: gostatsd.Tags{"gsd_histogram:0.1_0.7_0.9_16777217_1e39"}, Timestamp: 10, Source: "s"})
		}
		a.ReceiveMap(mm)
		a.Flush(time.Second)
		tm, n := theTimer(a)
		want := map[float64]int{0.1: 1, 0.7: 3, 0.9: 4, 16777217: 6, 1e39: 7, math.Inf(1): 7}
		rec := map[string]any{"tag": "gsd_histogram:0.1_0.7_0.9_16777217_1e39", "values": "0.3 0.7 0.1 16777217 16777216 0.9 1e39"}
		res.Eval(true)
		res.Hit("decimal-and-large-bounds")
		if n != 1 {
			res.Fail("C08", "timer-missing", "decimal bounds: no timer flushed", rec)
		} else {
			got := map[float64]int{}
			for b, c := range tm.Histogram {
				got[float64(b)] = c
			}
			if fmt.Sprint(got) != fmt.Sprint(want) {
				res.Fail("C08", "histogram", fmt.Sprintf("bounds 0.1_0.7_0.9_16777217_1e39: buckets %v want %v", got, want), rec)
			}
		}
	}
	res.Distinct = res.Evaluations
}
