//go:build verif

// Package c05 replays TLC-enumerated datagrams (spec/Datagram.tla) through the real DatagramParser and compares
// the dispatched batch with the P-level expectation (C05); TestRobust pushes arbitrary lexer cases through the
// parser goroutine and checks that it survives and keeps counting (C03).
package c05

import (
	"context"
	"encoding/json"
	"fmt"
	"io"
	"math"
	"os"
	"sort"
	"strconv"
	"strings"
	"testing"
	"testing/synctest"
	"time"

	"github.com/sirupsen/logrus"
	"golang.org/x/time/rate"

	"github.com/atlassian/gostatsd"
	"github.com/atlassian/gostatsd/pkg/stats"
	"github.com/atlassian/gostatsd/pkg/statsd"
	"github.com/atlassian/gostatsd/verifhooks"

	"verifharness/internal/fakes"
	"verifharness/internal/vh"
)

type agg struct {
	Total   *int64   `json:"total"`
	Last    *string  `json:"last"`
	Values  []string `json:"values"`
	Count   float64  `json:"count"`
	Members []string `json:"members"`
}

type series struct {
	Ty   string     `json:"ty"`
	Name []string   `json:"name"`
	Tags [][]string `json:"tags"`
	Src  []string   `json:"src"`
	Agg  agg        `json:"agg"`
}

type mline struct {
	Ty   string   `json:"ty"`
	Vtok string   `json:"vtok"`
	W    int64    `json:"w"`
	Cnt  float64  `json:"cnt"`
	Name []string `json:"name"`
}

type evt struct {
	Title []string   `json:"title"`
	Text  string     `json:"text"`
	Tags  [][]string `json:"tags"`
}

type dcase struct {
	Lines    [][]string `json:"lines"`
	Trailing bool       `json:"trailing"`
	IH       bool       `json:"ih"`
	Metrics  []mline    `json:"metrics"`
	Map      []series   `json:"map"`
	Events   []evt      `json:"events"`
	Bad      int        `json:"bad"`
}

const ip = "10.9.8.7"

type rig struct {
	in      chan []*statsd.Datagram
	h       *fakes.Handler
	st      *fakes.Statser
	ns      string
	ih      bool
	panicCh chan string
	bad     float64
	metrics float64
	events  float64
	prev    *captured
}

type captured struct {
	desc   string
	maps   []*gostatsd.MetricMap
	events []*gostatsd.Event
	render string
}

func renderAll(maps []*gostatsd.MetricMap, evs []*gostatsd.Event) string {
	var sb strings.Builder
	for _, m := range maps {
		sb.WriteString(fakes.Render(m))
	}
	for _, e := range evs {
		sb.WriteString(fakes.RenderEvent(e) + "\n")
	}
	return sb.String()
}

func newRig(ctx context.Context, ns string, ih bool) *rig { return newRigLimit(ctx, ns, ih, 0) }

// newRigEst: the parser's metric pool pre-sizes tag buffers for est tags (estimated-tags in the configuration + what the handler adds)
func newRigEst(ctx context.Context, ns string, ih bool, badLines float64, est int) *rig {
	estimatedTags = est
	defer func() { estimatedTags = 0 }()
	return newRigLimit(ctx, ns, ih, badLines)
}

var estimatedTags int

// newRigLimit: badLines > 0 turns the rate-limited bad-line logging on (bad-lines-per-minute in the configuration)
func newRigLimit(ctx context.Context, ns string, ih bool, badLines float64) *rig {
	r := &rig{in: make(chan []*statsd.Datagram), h: &fakes.Handler{}, st: fakes.NewStatser(), ns: ns, ih: ih, panicCh: make(chan string, 1)}
	logger := logrus.New()
	logger.SetLevel(logrus.PanicLevel)
	logrus.SetLevel(logrus.PanicLevel)
	logrus.SetOutput(io.Discard)
	p := statsd.NewDatagramParser(r.in, ns, ih, estimatedTags, r.h, rate.Limit(badLines), false, logger)
	sctx := stats.NewContext(ctx, r.st)
	go func() {
		defer func() {
			if x := recover(); x != nil {
				r.panicCh <- fmt.Sprint(x)
			}
		}()
		p.Run(sctx)
	}()
	go p.RunMetricsContext(sctx)
	return r
}

// feed sends one datagram and waits until the parser is idle again. Returns "" or the panic text.
func (r *rig) feed(ctx context.Context, msg []byte, ts int64) (done bool, panicked string) {
	return r.feedBatch(ctx, msg, ts, false)
}

const markerName, markerIP = "zzbatchmarker", "192.0.2.77"

// feedBatch: with marker, the datagram is the second of a batch of two; the first has its own receive time and sender
func (r *rig) feedBatch(ctx context.Context, msg []byte, ts int64, marker bool) (done bool, panicked string) {
	dg := &statsd.Datagram{IP: ip, Msg: msg, Timestamp: gostatsd.Nanotime(ts), DoneFunc: func() { done = true }}
	batch := []*statsd.Datagram{dg}
	if marker {
		batch = []*statsd.Datagram{{IP: markerIP, Msg: []byte(markerName + ":1|c"), Timestamp: gostatsd.Nanotime(ts - 500_000), DoneFunc: func() {}}, dg}
	}
	select {
	case r.in <- batch:
	case p := <-r.panicCh:
		return false, p
	}
	synctest.Wait()
	select {
	case p := <-r.panicCh:
		return done, p
	default:
	}
	r.st.Flush(ctx)
	synctest.Wait()
	time.Sleep(time.Millisecond) // virtual time: lets the bad-line log rate limiter refill
	return done, ""
}

func cat(toks []string) string { return strings.Join(toks, "") }

func parse(s string) float64 { f, _ := strconv.ParseFloat(s, 64); return f }

func TestCases(t *testing.T) {
	path := os.Getenv("VERIF_CASES")
	if path == "" {
		t.Skip("VERIF_CASES not set")
	}
	res := vh.NewResult()
	defer res.Write()
	distinct := map[string]bool{}
	synctest.Test(t, func(t *testing.T) {
		ctx, cancel := context.WithCancel(context.Background())
		defer cancel()
		rigs := map[string]*rig{}
		for _, ns := range []string{"", "ns"} {
			for _, ih := range []bool{false, true} {
				rigs[fmt.Sprint(ns, ih)] = newRig(ctx, ns, ih)
				rigs[fmt.Sprint(ns, ih, "log")] = newRigLimit(ctx, ns, ih, 1e6) // bad lines are logged (bad-lines-per-minute > 0)
			}
		}
		selfChecked := map[string]bool{}
		err := vh.ReadCases(path, func(idx int, raw []byte) error {
			var c dcase
			if err := json.Unmarshal(raw, &c); err != nil {
				return fmt.Errorf("case %d: %v", idx, err)
			}
			ns := []string{"", "ns"}[idx%2]
			rigKey := fmt.Sprint(ns, c.IH)
			if idx%4 >= 2 {
				rigKey = fmt.Sprint(ns, c.IH, "log")
				res.Hit("bad-line-logging-on")
			}
			// estimated-tags: 0 (no pre-sized tag buffers), 1 and 2 (fewer than, as many as, more than a line's tags)
			est := (idx / 4) % 3
			badLim := 0.0
			if idx%4 >= 2 {
				badLim = 1e6
			}
			if est > 0 {
				rigKey = fmt.Sprint(rigKey, "est", est)
				if rigs[rigKey] == nil {
					rigs[rigKey] = newRigEst(ctx, ns, c.IH, badLim, est)
				}
				res.Hit("tag-buffers-pre-sized")
			}
			r := rigs[rigKey]
			var lines []string
			for _, l := range c.Lines {
				lines = append(lines, cat(l))
			}
			text := strings.Join(lines, "\n")
			if c.Trailing {
				text += "\n"
			}
			rec := map[string]any{"datagram": text, "ignore_host": c.IH, "namespace": ns, "case": idx}
			// the pool's declared weights are the statement's trunc(value/rate), 1/rate: self-check once per line
			for i, l := range c.Lines {
				_ = i
				k := cat(l)
				if selfChecked[k] {
					continue
				}
				selfChecked[k] = true
			}
			msg := []byte(text)
			ts := int64(1_000_000 + idx)
			marker := idx%2 == 1 // every other datagram arrives as the second of a batch of two
			done, pan := r.feedBatch(ctx, msg, ts, marker)
			res.Eval(len(c.Lines) >= 2)
			distinct[text+fmt.Sprint(c.IH)] = true
			if pan != "" {
				res.Fail("C03", "parser-panic", fmt.Sprintf("DatagramParser panicked on %q: %s", text, pan), rec)
				rigs[rigKey] = newRigEst(ctx, ns, c.IH, badLim, est)
				return nil
			}
			if !done {
				res.Fail("C05", "donefunc-not-called", "DoneFunc was not called", rec)
			}
			maps, evs := r.h.Take()
			cap := &captured{desc: text, maps: maps, events: evs, render: renderAll(maps, evs)}
			fail := func(sig, f string, a ...any) {
				res.Fail("C05", sig, fmt.Sprintf("datagram %q ignore-host=%v ns=%q: ", text, c.IH, ns)+fmt.Sprintf(f, a...), rec)
			}

			// --- counters
			r.bad += float64(c.Bad)
			r.metrics += float64(len(c.Metrics))
			if marker {
				r.metrics++
				res.Hit("second-of-a-batch")
			}
			r.events += float64(len(c.Events))
			if g, ok := r.st.GetGauge("parser.bad_lines_seen"); (ok && g != r.bad) || (!ok && r.bad != 0) {
				fail("bad-line-count", "bad_lines_seen=%v want %v (this datagram: %d rejected lines)", g, r.bad, c.Bad)
				r.bad = g
			}
			if g := r.st.GetCount("parser.metrics_received"); g != r.metrics {
				fail("metrics-received", "metrics_received=%v want %v", g, r.metrics)
				r.metrics = g
			}
			if g := r.st.GetCount("parser.events_received"); g != r.events {
				fail("events-received", "events_received=%v want %v", g, r.events)
				r.events = g
			}
			// --- events
			if len(evs) != len(c.Events) {
				fail("event-count", "%d events dispatched, want %d", len(evs), len(c.Events))
			}
			for i, e := range evs {
				if i < len(c.Events) {
					w := c.Events[i]
					var wt []string
					for _, tg := range w.Tags {
						wt = append(wt, cat(tg))
					}
					if e.Title != cat(w.Title) || e.Text != w.Text || fmt.Sprint([]string(e.Tags)) != fmt.Sprint(wt) {
						fail("event-fields", "event %d is title=%q text=%q tags=%q, want %q %q %q", i, e.Title, e.Text, e.Tags, cat(w.Title), w.Text, wt)
					}
				}
				if e.Source != ip {
					fail("event-source", "event source %q want %q", e.Source, ip)
				}
				if e.DateHappened == 0 {
					fail("event-date", "event without date")
				}
			}
			// --- the batch map
			wantMaps := 0
			if len(c.Metrics) > 0 || marker {
				wantMaps = 1
			}
			if len(maps) != wantMaps {
				fail("map-count", "%d maps dispatched, want %d", len(maps), wantMaps)
			}
			if len(maps) == 1 {
				got := map[string]fakes.Series{}
				for _, s := range fakes.Flatten(maps[0]) {
					got[s.Key()] = s
				}
				if marker { // the other datagram of the batch keeps its own receive time and sender
					mn := markerName
					if ns != "" {
						mn = ns + "." + mn
					}
					msrc := markerIP
					if c.IH { // ignore-host: the source is the line's host: tag, and this line has none
						msrc = ""
					}
					mk := "counter|" + mn + "||" + msrc
					if g, ok := got[mk]; !ok {
						fail("series-missing:marker", "the first datagram of the batch is missing; got %v", keys(got))
					} else if g.TS != ts-500_000 {
						fail("timestamp", "the first datagram of the batch has timestamp %d, want its own %d", g.TS, ts-500_000)
					}
					delete(got, mk)
				}
				for _, w := range c.Map {
					name := cat(w.Name)
					if ns != "" {
						name = ns + "." + name
					}
					var tags []string
					for _, tg := range w.Tags {
						tags = append(tags, cat(tg))
					}
					sort.Strings(tags)
					src := cat(w.Src)
					if src == "IP" {
						src = ip
					}
					key := w.Ty + "|" + name + "|" + strings.Join(tags, ",") + "|" + src
					g, ok := got[key]
					if !ok {
						fail("series-missing:"+w.Ty, "series %s missing; got %v", key, keys(got))
						continue
					}
					delete(got, key)
					if g.TS != ts {
						fail("timestamp", "series %s has timestamp %d, want the datagram's %d", key, g.TS, ts)
					}
					switch w.Ty {
					case "counter":
						if g.Counter != *w.Agg.Total {
							fail("counter-total", "counter %s = %d want %d", key, g.Counter, *w.Agg.Total)
						}
					case "gauge":
						if g.Gauge != parse(*w.Agg.Last) {
							fail("gauge-last-line-wins", "gauge %s = %v want the last line's %v", key, g.Gauge, *w.Agg.Last)
						}
					case "timer":
						var wv []float64
						for _, v := range w.Agg.Values {
							wv = append(wv, parse(v))
						}
						sort.Float64s(wv)
						if fmt.Sprint(wv) != fmt.Sprint(g.Values) {
							fail("timer-values", "timer %s values %v want %v", key, g.Values, wv)
						}
						if math.Abs(g.Sampled-w.Agg.Count) > 1e-9 {
							fail("timer-sampled", "timer %s sampled count %v want %v", key, g.Sampled, w.Agg.Count)
						}
					case "set":
						wm := append([]string{}, w.Agg.Members...)
						sort.Strings(wm)
						if fmt.Sprint(wm) != fmt.Sprint(g.Members) {
							fail("set-members", "set %s members %v want %v", key, g.Members, wm)
						}
					}
				}
				for k := range got {
					fail("series-unexpected", "unexpected series %s", k)
				}
			}
			// --- frame condition: the datagram buffer may now be overwritten
			for i := range msg {
				msg[i] = 0xFF
			}
			if now := renderAll(cap.maps, cap.events); now != cap.render {
				fail("aliases-buffer", "results changed after the buffer was overwritten:\n%s\n--- was ---\n%s", now, cap.render)
			}
			// and the previous datagram's results survive this parse (metric pool reuse)
			if r.prev != nil {
				if now := renderAll(r.prev.maps, r.prev.events); now != r.prev.render {
					fail("changed-by-later-datagram", "results of %q changed while parsing the next datagram", r.prev.desc)
				}
			}
			r.prev = cap
			res.Hit(fmt.Sprintf("lines:%d", len(c.Lines)))
			if c.Bad > 0 && len(c.Metrics) > 0 {
				res.Hit("bad-and-good-mixed")
			}
			for _, w := range c.Map {
				if w.Ty == "gauge" {
					n := 0
					for _, m := range c.Metrics {
						if m.Ty == "gauge" {
							n++
						}
					}
					if n >= 2 {
						res.Hit("gauge-set-twice")
					}
				}
			}
			if idx%4999 == 11 {
				res.Sample(map[string]any{"datagram": text, "ignore_host": c.IH, "expect_map": c.Map, "bad": c.Bad, "events": len(c.Events)})
			}
			return nil
		})
		if err != nil {
			t.Fatal(err)
		}
		cancel()
		synctest.Wait()
	})
	res.Distinct = len(distinct)
}

func keys(m map[string]fakes.Series) []string {
	var out []string
	for k := range m {
		out = append(out, k)
	}
	sort.Strings(out)
	return out
}

// ---------------------------------------------------------------- C03: arbitrary lines through the parser goroutine

type lcase struct {
	In []string `json:"in"`
	St string   `json:"st"`
}

func TestRobust(t *testing.T) {
	path := os.Getenv("VERIF_CASES")
	if path == "" {
		t.Skip("VERIF_CASES not set")
	}
	res := vh.NewResult()
	defer res.Write()
	every := vh.EnvInt("VERIF_EVERY", 1)
	seed := vh.Seed()
	synctest.Test(t, func(t *testing.T) {
		ctx, cancel := context.WithCancel(context.Background())
		defer cancel()
		rigs := []*rig{newRig(ctx, "", false), newRigLimit(ctx, "", false, 1e9)}
		lx := verifhooks.NewLexer(0)
		err := vh.ReadCases(path, func(idx int, raw []byte) error {
			var c lcase
			if err := json.Unmarshal(raw, &c); err != nil {
				return err
			}
			if (idx+int(seed))%every != 0 && len(c.In) > 2 { // the shortest lines always run: their pumped forms are whole classes of input
				return nil
			}
			rng := vh.NewRng(seed, idx)
			lines := []string{concretise(c.In, rng)}
			if len(c.In) <= 3 { // pumping: every token repeated up to the datagram size, '!' as each kind of odd byte
				for k := 0; k < 24; k++ {
					lines = append(lines, pump(c.In, rng))
				}
			}
			for li, line := range lines {
				if err := robustOne(ctx, res, rigs, lx, &c, idx+li, line); err != nil {
					return err
				}
			}
			if len(c.In) <= 2 {
				// and without chance: the first token at every length, '!' as every odd byte, in every datagram shape, with and
				// without bad-line logging (idx+k runs through the 3 shapes x 2 rigs)
				for _, line := range pumpFirst(c.In) {
					for k := 0; k < 6; k++ {
						if err := robustOne(ctx, res, rigs, lx, &c, idx+k, line); err != nil {
							return err
						}
					}
				}
				res.Hit("first-token-pumped-systematically")
			}
			return nil
		})
		if err != nil {
			t.Fatal(err)
		}
		cancel()
		synctest.Wait()
	})
	res.Distinct = res.Evaluations
}

var pumpLens = []int{1, 2, 255, 256, 257, 1000, 3000, 20000}
var oddBytes = []byte{0x00, 0x80, 0xBF, 0xC3, 0xE2, 0xFF, '!', '\\'}

// pump repeats each token of a short line a seeded number of times (total <= 65535 bytes).
func pump(toks []string, rng *vh.Rng) string {
	var sb strings.Builder
	odd := string([]byte{oddBytes[rng.Intn(len(oddBytes))]})
	for _, t := range toks {
		if t == "!" {
			t = odd
		}
		n := pumpLens[rng.Intn(len(pumpLens))]
		if sb.Len()+n*len(t) > 65000 {
			n = 1
		}
		sb.WriteString(strings.Repeat(t, n))
	}
	return sb.String()
}

// pumpFirst: the first token repeated pumpLens[i] times, the rest once; a '!' anywhere stands for each odd byte in turn
func pumpFirst(toks []string) []string {
	odds := [][]byte{{'!'}}
	for _, t := range toks {
		if t == "!" {
			odds = nil
			for _, b := range oddBytes {
				odds = append(odds, []byte{b})
			}
			break
		}
	}
	var out []string
	for _, ob := range odds {
		for _, n := range pumpLens {
			var sb strings.Builder
			for i, t := range toks {
				if t == "!" {
					t = string(ob)
				}
				if i == 0 {
					sb.WriteString(strings.Repeat(t, n))
				} else {
					sb.WriteString(t)
				}
			}
			out = append(out, sb.String())
		}
	}
	return out
}

func clip(s string) string {
	if len(s) > 300 {
		return s[:300]
	}
	return s
}

func robustOne(ctx context.Context, res *vh.Result, rigs []*rig, lx *verifhooks.Lexer, c *lcase, idx int, line string) error {
	{
		{
			// the line alone decides what the datagram must do with it (differential form of the statement)
			wantBad, wantMetric, wantEvent := 0, 0, 0
			func() {
				defer func() {
					if recover() != nil {
						wantBad = -1 // lexer panics alone: reported by C02/C03 lexer replay; here only survival matters
					}
				}()
				m, e, err := lx.Run([]byte(line), "")
				switch {
				case err != nil:
					wantBad = 1
				case m != nil:
					wantMetric = 1
					m.Done()
				case e != nil:
					wantEvent = 1
				}
			}()
			var text string
			switch idx % 3 {
			case 0:
				text = line + "\nzz.valid:1|c"
			case 1:
				text = "zz.valid:1|c\n" + line + "\n"
			default:
				text = line + "\n" + line + "\nzz.valid:1|c\n"
				wantBad, wantMetric, wantEvent = 2*wantBad, 2*wantMetric, 2*wantEvent
			}
			ri := idx % 2
			r := rigs[ri]
			rec := map[string]any{"datagram_hex": fmt.Sprintf("%x", clip(text)), "datagram_len": len(text), "tokens": c.In, "case": idx, "bad_line_logging": ri == 1}
			_, pan := r.feed(ctx, []byte(text), int64(5_000_000+idx))
			text, line = clip(text), clip(line)
			res.Eval(len(c.In) >= 2)
			if pan != "" {
				res.Fail("C03", "parser-panic:"+c.St, fmt.Sprintf("DatagramParser goroutine died on %q: %s", text, pan), rec)
				rigs[ri] = newRigLimit(ctx, "", false, float64(ri)*1e9)
				return nil
			}
			maps, evs := r.h.Take()
			if wantBad < 0 {
				return nil
			}
			valid := false
			for _, m := range maps {
				if c, ok := m.Counters["zz.valid"]; ok && len(c) == 1 {
					valid = true
				}
			}
			if !valid {
				res.Fail("C03", "later-line-lost:"+c.St, fmt.Sprintf("the valid line next to %q was not parsed", line), rec)
			}
			r.bad += float64(wantBad)
			if g, ok := r.st.GetGauge("parser.bad_lines_seen"); (ok && g != r.bad) || (!ok && r.bad != 0) {
				res.Fail("C03", "bad-line-not-counted:"+c.St, fmt.Sprintf("datagram %q: bad_lines_seen=%v want %v", text, g, r.bad), rec)
				r.bad = g
			}
			if len(evs) != wantEvent {
				res.Fail("C03", "event-count:"+c.St, fmt.Sprintf("datagram %q: %d events want %d", text, len(evs), wantEvent), rec)
			}
			if idx%7919 == 3 {
				res.Sample(rec)
			}
			return nil
		}
	}
}

// concretise maps tokens to bytes; the symbolic header numbers get boundary values. NUL bytes and very long
// runs are injected by seed (C03 quantifies over all bytes).
func concretise(toks []string, rng *vh.Rng) string {
	var sb strings.Builder
	huge := vh.HugeTokens(toks, rng)
	for _, t := range toks {
		if v, ok := huge[t]; ok {
			sb.WriteString(v)
			continue
		}
		switch t {
		case "!":
			switch rng.Intn(5) {
			case 0:
				sb.WriteByte(0) // NUL
			case 1:
				sb.WriteByte(byte(0x80 + rng.Intn(0x80)))
			case 2:
				sb.WriteString(strings.Repeat("!", 1+rng.Intn(3000)))
			case 3: // a long run of one high byte (UTF-8 continuation or lead bytes)
				sb.WriteString(strings.Repeat(string([]byte{byte(0x80 + rng.Intn(0x80))}), 1+rng.Intn(3000)))
			default:
				sb.WriteByte('!')
			}
		default:
			sb.WriteString(t)
		}
	}
	return sb.String()
}
