//go:build verif

// Package c01 drives the real standalone pipeline (DatagramParser x P -> TagHandler -> BackendHandler(W workers, queue Q,
// gated wrappers around real MetricAggregators) -> MetricFlusher -> recording backend) with TLC-generated stimulus
// schedules (spec/PipelineSched.tla) inside a synctest bubble and records an NDJSON trace that
// spec/ConservationTrace.tla judges (C01, and C06's end-to-end clause).
package c01

import (
	"context"
	"encoding/json"
	"fmt"
	"math"
	"os"
	"sort"
	"strconv"
	"strings"
	"sync"
	"testing"
	"testing/synctest"
	"time"

	"github.com/sirupsen/logrus"

	"github.com/atlassian/gostatsd"
	"github.com/atlassian/gostatsd/pkg/statsd"

	"verifharness/internal/trace"
	"verifharness/internal/vh"
)

type gateID struct {
	Kind string `json:"kind"`
	S    int    `json:"s"`
}

type stim struct {
	Op string `json:"op"`
	K  int    `json:"k"`
	G  gateID `json:"g"`
}

type scase struct {
	Cfg struct {
		P int `json:"p"`
		W int `json:"w"`
		Q int `json:"q"`
	} `json:"cfg"`
	Sched []stim `json:"sched"`
}

// ---------------------------------------------------------------- gates

type gate struct {
	mu sync.Mutex
	ch chan struct{}
}

func (g *gate) wait() {
	g.mu.Lock()
	ch := g.ch
	g.mu.Unlock()
	if ch != nil {
		<-ch
	}
}
func (g *gate) close() {
	g.mu.Lock()
	if g.ch == nil {
		g.ch = make(chan struct{})
	}
	g.mu.Unlock()
}
func (g *gate) open() {
	g.mu.Lock()
	if g.ch != nil {
		close(g.ch)
		g.ch = nil
	}
	g.mu.Unlock()
}
func (g *gate) isClosed() bool { g.mu.Lock(); defer g.mu.Unlock(); return g.ch != nil }

// ---------------------------------------------------------------- data model: distinguishable datapoints

type world struct {
	mu      sync.Mutex
	tw      *trace.Writer
	nextID  int
	bits    map[string]int            // counter series -> next free bit
	byBit   map[string]map[int]string // counter series -> bit -> datapoint id
	byVal   map[string]map[float64]string
	inv     map[string]float64 // datapoint id -> 1/rate (timers)
	byMem   map[string]string
	reg     map[*gostatsd.MetricMap]int // aggregator map -> shard id
	calls   map[int]int                 // shard -> number of backend calls (= flush index)
	held    []gostatsd.SendCallback
	backend gate
}

var shapes = [][]string{
	{"c1", "t1", "h1"},
	{"c1", "c2", "s1"},
	{"t1", "s1", "c2", "g1"},
	{"c2", "c2", "t1", "t1", "s1", "h1"},
	{"t1", "t1b", "c1d", "c1", "t1b"},        // a second tag set under a timer's name; a line that repeats its tag
	{"t1b", "s1d", "t1", "s1", "t1d", "c1d"}, // the same, the other way round
}

// a line kind of the shapes: the series' name, the tags as they are written on the line, and the series it belongs to
// (name and the set of its tags: a repeated tag is one tag)
type lineKind struct{ name, written, key string }

func kindOf(s string) lineKind {
	name := strings.TrimRight(s, "bd")
	switch {
	case s[0] == 'h':
		return lineKind{name, "gsd_histogram:10_20_40", name + "|gsd_histogram:10_20_40"}
	case strings.HasSuffix(s, "b"):
		return lineKind{name, "a:c", name + "|a:c"}
	case strings.HasSuffix(s, "d"):
		return lineKind{name, "a:b,a:b", name + "|a:b"}
	}
	return lineKind{name, "a:b", name + "|a:b"}
}

// seriesKey is the identity of a reported series: its name and the set of its tags
func seriesKey(name string, tags gostatsd.Tags) string {
	t := append([]string{}, tags...)
	sort.Strings(t)
	out := t[:0]
	for i, x := range t {
		if i == 0 || x != t[i-1] {
			out = append(out, x)
		}
	}
	return name + "|" + strings.Join(out, ",")
}

// sample rates: powers of two (value/rate exact by construction) and "odd" decimal rates, for which the value is searched so
// that the statement's trunc(value/rate), evaluated in float64 on the parsed numbers, is exactly the intended power of two
var rates = []float64{1, 0.5, 0.25, 0.125, 0.061, 0.13, 0.07, 0.3, 0.7, 0.9, 0.011}

// counterValue returns a value v such that int64(v/rate) == 2^bit (searching upwards from rate*2^bit), or ok=false.
func counterValue(rate float64, bit int) (float64, bool) {
	want := int64(1) << uint(bit)
	v := rate * math.Ldexp(1, bit)
	for i := 0; i < 8; i++ {
		s := strconv.FormatFloat(v, 'g', -1, 64)
		p, _ := strconv.ParseFloat(s, 64)
		if int64(p/rate) == want {
			return p, true
		}
		v = math.Nextafter(v, math.Inf(1))
	}
	return 0, false
}

var fracs = []float64{0.18687664732286, 0.7071067811865476, 0.1, 0.3333333333333333, 0.123456789012345678}

// lines builds one datagram for a batch shape, registering every datapoint; returns the text and the offered points.
func (w *world) lines(shape int, rng *vh.Rng) (string, []map[string]any, []string) {
	w.mu.Lock()
	defer w.mu.Unlock()
	var sb strings.Builder
	pts := []map[string]any{}
	known := []string{}
	for _, sk := range shapes[shape%len(shapes)] {
		lk := kindOf(sk)
		s := lk.key
		w.nextID++
		id := fmt.Sprintf("d%d", w.nextID)
		rate := rates[rng.Intn(len(rates))]
		switch sk[0] {
		case 'c':
			bit := w.bits[s]
			w.bits[s]++
			if w.byBit[s] == nil {
				w.byBit[s] = map[int]string{}
			}
			w.byBit[s][bit] = id
			v, ok := counterValue(rate, bit)
			if !ok {
				rate = 0.5
				v = math.Ldexp(1, bit) * rate
			}
			if rate == 1 { // an unsampled line carries no rate at all
				fmt.Fprintf(&sb, "%s:%s|c|#%s\n", lk.name, strconv.FormatFloat(v, 'g', -1, 64), lk.written)
			} else {
				fmt.Fprintf(&sb, "%s:%s|c|@%s|#%s\n", lk.name, strconv.FormatFloat(v, 'g', -1, 64), strconv.FormatFloat(rate, 'g', -1, 64), lk.written)
			}
		case 't', 'h':
			if w.byVal[s] == nil {
				w.byVal[s] = map[float64]string{}
			}
			val := float64(w.nextID)
			if sk[0] == 't' && w.nextID%3 == 0 {
				// a value that needs all seventeen digits: what is reported is exactly the number the sender wrote
				val += fracs[(w.nextID/3)%len(fracs)]
			}
			vtxt := strconv.FormatFloat(val, 'g', -1, 64)
			w.byVal[s][val] = id
			w.inv[id] = 1 / rate
			if rate == 1 {
				fmt.Fprintf(&sb, "%s:%s|ms|#%s\n", lk.name, vtxt, lk.written)
			} else {
				fmt.Fprintf(&sb, "%s:%s|ms|@%v|#%s\n", lk.name, vtxt, rate, lk.written) // h*: a timer aggregated as a histogram
			}
		case 's':
			w.byMem[fmt.Sprintf("m%d", w.nextID)] = id
			fmt.Fprintf(&sb, "%s:m%d|s|#%s\n", lk.name, w.nextID, lk.written)
		default:
			fmt.Fprintf(&sb, "%s:%d|g|#%s\n", lk.name, w.nextID, lk.written)
			known = append(known, s) // gauges are not part of the conservation clause; the series still counts for NoPhantom / NoDup
			continue
		}
		pts = append(pts, map[string]any{"id": id, "k": s})
	}
	return sb.String(), pts, known
}

// SendMetricsAsync is the recording backend: it decodes the map into datapoint ids inside the call (the seam).
func (w *world) Name() string                                     { return "rec" }
func (w *world) SendEvent(context.Context, *gostatsd.Event) error { return nil }
func (w *world) SendMetricsAsync(ctx context.Context, mm *gostatsd.MetricMap, cb gostatsd.SendCallback) {
	w.mu.Lock()
	who, ok := w.reg[mm]
	if !ok {
		who = -1
	}
	flush := w.calls[who]
	w.calls[who]++
	series := []string{}
	news := []string{}
	mm.Counters.Each(func(n, _ string, c gostatsd.Counter) {
		n = seriesKey(n, c.Tags)
		series = append(series, n)
		v := c.Value
		if v < 0 {
			news = append(news, fmt.Sprintf("phantom:%s:negative", n))
			return
		}
		for bit := 0; v != 0; bit, v = bit+1, v>>1 {
			if v&1 == 1 {
				if id, ok := w.byBit[n][bit]; ok {
					news = append(news, id)
				} else {
					news = append(news, fmt.Sprintf("phantom:%s:bit%d", n, bit))
				}
			}
		}
	})
	mm.Timers.Each(func(n, _ string, t gostatsd.Timer) {
		n = seriesKey(n, t.Tags)
		series = append(series, n)
		sum := 0.0
		for _, v := range t.Values {
			if id, ok := w.byVal[n][v]; ok {
				news = append(news, id)
				sum += w.inv[id]
			} else {
				news = append(news, fmt.Sprintf("phantom:%s:%v", n, v))
			}
		}
		if math.Abs(sum-t.SampledCount) > 1e-9*math.Max(1, sum) {
			news = append(news, fmt.Sprintf("phantom:%s:sampledcount=%v,want=%v", n, t.SampledCount, sum))
		}
	})
	mm.Sets.Each(func(n, _ string, s gostatsd.Set) {
		n = seriesKey(n, s.Tags)
		series = append(series, n)
		for m := range s.Values {
			if id, ok := w.byMem[m]; ok {
				news = append(news, id)
			} else {
				news = append(news, fmt.Sprintf("phantom:%s:%s", n, m))
			}
		}
	})
	mm.Gauges.Each(func(n, _ string, g gostatsd.Gauge) { series = append(series, seriesKey(n, g.Tags)) })
	sort.Strings(series)
	sort.Strings(news)
	w.tw.Emit(map[string]any{"ev": "report", "flush": flush, "who": who, "series": series, "news": news})
	held := w.backend.isClosed()
	if held {
		w.held = append(w.held, cb)
	}
	w.mu.Unlock()
	if !held {
		cb(nil)
	}
}

func (w *world) releaseCallbacks() {
	w.mu.Lock()
	h := w.held
	w.held = nil
	w.mu.Unlock()
	for _, cb := range h {
		cb(nil)
	}
}

// ---------------------------------------------------------------- gated wrapper around the real aggregator

type wagg struct {
	id                 int
	w                  *world
	real               *statsd.MetricAggregator
	merge, flush, post gate
}

func (a *wagg) ReceiveMap(mm *gostatsd.MetricMap) {
	a.merge.wait()
	a.real.ReceiveMap(mm)
	a.w.tw.Emit(map[string]any{"ev": "merge", "shard": a.id})
}
func (a *wagg) Flush(d time.Duration) {
	a.flush.wait()
	a.w.tw.Emit(map[string]any{"ev": "flushbegin", "shard": a.id})
	a.real.Flush(d)
}
func (a *wagg) Process(f statsd.ProcessFunc) {
	a.real.Process(func(m *gostatsd.MetricMap) {
		a.w.mu.Lock()
		a.w.reg[m] = a.id
		a.w.mu.Unlock()
		f(m)
	})
	a.w.tw.Emit(map[string]any{"ev": "processed", "shard": a.id})
}
func (a *wagg) Reset() {
	a.post.wait()
	a.real.Reset()
	a.w.tw.Emit(map[string]any{"ev": "resetdone", "shard": a.id})
}

// ---------------------------------------------------------------- one schedule

func runSchedule(t *testing.T, tw *trace.Writer, c *scase, idx int, seed int64, res *vh.Result) {
	defer func() {
		// goroutines that stay blocked for ever make the bubble panic on exit; the trace written so far is still judged
		if x := recover(); x != nil {
			res.Note("bubble left with blocked goroutines: %v", x)
			res.Hit("goroutines-left-blocked")
		}
	}()
	synctest.Test(t, func(t *testing.T) {
		rng := vh.NewRng(seed, idx)
		ctx, cancel := context.WithCancel(context.Background())
		w := &world{tw: tw, bits: map[string]int{}, byBit: map[string]map[int]string{}, byVal: map[string]map[float64]string{},
			inv: map[string]float64{}, byMem: map[string]string{}, reg: map[*gostatsd.MetricMap]int{}, calls: map[int]int{}}
		var aggs []*wagg
		factory := statsd.AggregatorFactoryFunc(func() statsd.Aggregator {
			a := &wagg{id: len(aggs), w: w, real: statsd.NewMetricAggregator([]float64{90}, 5*time.Minute, 5*time.Minute, 5*time.Minute, 5*time.Minute, gostatsd.TimerSubtypes{}, 10)}
			aggs = append(aggs, a)
			return a
		})
		bh := statsd.NewBackendHandler([]gostatsd.Backend{w}, 1, c.Cfg.W, c.Cfg.Q, factory)
		th := statsd.NewTagHandler(bh, nil, nil)
		in := make(chan []*statsd.Datagram)
		logger := logrus.New()
		logger.SetLevel(logrus.PanicLevel)
		var wg sync.WaitGroup
		for p := 0; p < c.Cfg.P; p++ {
			dp := statsd.NewDatagramParser(in, "", false, 0, th, 0, false, logger)
			wg.Add(1)
			go func() { defer wg.Done(); dp.Run(ctx) }()
		}
		wg.Add(2)
		go func() { defer wg.Done(); bh.Run(ctx) }()
		fl := statsd.NewMetricFlusher(time.Second, 0, false, bh, []gostatsd.Backend{w})
		go func() { defer wg.Done(); fl.Run(ctx) }()
		synctest.Wait()
		tw.Emit(map[string]any{"ev": "reset", "case": idx, "cfg": c.Cfg})
		gateOf := func(g gateID) *gate {
			if g.Kind == "backend" {
				return &w.backend
			}
			a := aggs[g.S%len(aggs)]
			switch g.Kind {
			case "merge":
				return &a.merge
			case "flush":
				return &a.flush
			}
			return &a.post
		}
		offered := 0
		anyClosed := func() string {
			for _, a := range aggs {
				if a.post.isClosed() {
					return "post"
				}
			}
			if w.backend.isClosed() {
				return "backend"
			}
			for _, a := range aggs {
				if a.merge.isClosed() {
					return "merge"
				}
				if a.flush.isClosed() {
					return "flush"
				}
			}
			return ""
		}
		apply := func(s stim) {
			tw.Emit(map[string]any{"ev": "stim", "op": s.Op, "k": s.K, "g": s.G})
			switch s.Op {
			case "offer":
				text, pts, known := w.lines(s.K, rng)
				tw.Emit(map[string]any{"ev": "offer", "pts": pts, "known": known})
				offered++
				if k := anyClosed(); k != "" {
					res.Hit("offer-while-" + k + "-held")
				}
				dg := &statsd.Datagram{IP: "10.0.0.9", Msg: []byte(text), Timestamp: gostatsd.Nanotime(time.Now().UnixNano() + int64((offered*7)%5-2)*1000), DoneFunc: func() {}} // parsers may hand datagrams on out of receive order: arrival order is not timestamp order
				go func() {
					select {
					case in <- []*statsd.Datagram{dg}:
					case <-ctx.Done():
					}
				}()
			case "tick":
				if k := anyClosed(); k != "" {
					res.Hit("tick-while-" + k + "-held")
				}
				time.Sleep(time.Second)
			case "close":
				gateOf(s.G).close()
			case "open":
				gateOf(s.G).open()
				if s.G.Kind == "backend" {
					w.releaseCallbacks()
				}
			}
			synctest.Wait()
		}
		for _, s := range c.Sched {
			apply(s)
		}
		// epilogue: open every gate, let three flushes pass, then the pipeline must be empty
		for _, a := range aggs {
			a.merge.open()
			a.flush.open()
			a.post.open()
		}
		w.backend.open()
		w.releaseCallbacks()
		synctest.Wait()
		for i := 0; i < 3; i++ {
			time.Sleep(time.Second)
			synctest.Wait()
			w.releaseCallbacks()
		}
		tw.Emit(map[string]any{"ev": "quiesce"})
		if c.Cfg.Q == 0 {
			res.Hit("Q=0")
		}
		res.Hit(fmt.Sprintf("P=%d,W=%d,Q=%d", c.Cfg.P, c.Cfg.W, c.Cfg.Q))
		res.Eval(offered >= 2)
		cancel()
		wg.Wait()
	})
}

func TestSchedules(t *testing.T) {
	path := os.Getenv("VERIF_CASES")
	if path == "" {
		t.Skip("VERIF_CASES not set")
	}
	res := vh.NewResult()
	defer res.Write()
	tw, err := trace.New(os.Getenv("VERIF_TRACE_OUT"))
	if err != nil {
		t.Fatal(err)
	}
	defer tw.Close()
	seed := vh.Seed()
	limit := vh.EnvInt("VERIF_LIMIT", 1<<30)
	seen := map[string]bool{}
	err = vh.ReadCases(path, func(idx int, raw []byte) error {
		if seen[string(raw)] || len(seen) >= limit {
			return nil
		}
		seen[string(raw)] = true
		var c scase
		if err := json.Unmarshal(raw, &c); err != nil {
			return err
		}
		offers := 0
		for _, s := range c.Sched {
			if s.Op == "offer" {
				offers++
			}
		}
		if offers == 0 {
			return nil
		}
		runSchedule(t, tw, &c, idx, seed, res)
		if idx%211 == 3 {
			res.Sample(c)
		}
		return nil
	})
	if err != nil {
		t.Fatal(err)
	}
	res.Traces = tw.N
	res.Distinct = res.Evaluations
}
