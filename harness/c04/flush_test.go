//go:build verif

// Package c04 replays the TLC-enumerated timer cases (spec/MCTimer.tla) into the real aggregator under varying
// configurations and hands every flushed map -- including the flush after which a persisted series got no new data -- to
// every bundled backend variant (internal/bk, in-memory transports). Oracle: no panic anywhere, and every
// SendMetricsAsync is answered by its callback (C04; the completion part also serves C16).
package c04

import (
	"context"
	"encoding/json"
	"fmt"
	"os"
	"strconv"
	"testing"
	"testing/synctest"
	"time"

	"github.com/atlassian/gostatsd"
	"github.com/atlassian/gostatsd/pkg/statsd"

	"verifharness/internal/bk"
	"verifharness/internal/vh"
)

type tcase struct {
	Mode  string           `json:"mode"`
	Vals  []int            `json:"vals"`
	Invs  []int            `json:"invs"`
	Tag   int              `json:"tag"`
	Limit uint32           `json:"limit"`
	Pcts  map[string][]any `json:"pcts"`
}

var tagPool = []string{"", "0_2", "x_1__-1_3", "", "1_1_5", "abc", "1_x_x"}

type built struct {
	name string
	b    gostatsd.Backend
	env  *bk.Env
	stop func()
	ctx  context.Context
}

type group struct {
	label string
	mask  gostatsd.TimerSubtypes
	batch int
	bs    []*built
}

func masks(rng *vh.Rng) []gostatsd.TimerSubtypes {
	all := gostatsd.TimerSubtypes{Lower: true, LowerPct: true, Upper: true, UpperPct: true, Count: true, CountPct: true, CountPerSecond: true,
		Mean: true, MeanPct: true, Median: true, StdDev: true, Sum: true, SumPct: true, SumSquares: true, SumSquaresPct: true}
	pctOff := gostatsd.TimerSubtypes{LowerPct: true, UpperPct: true, CountPct: true, MeanPct: true, SumPct: true, SumSquaresPct: true}
	baseOff := gostatsd.TimerSubtypes{Lower: true, Upper: true, Count: true, CountPerSecond: true, Mean: true, Median: true, StdDev: true, Sum: true, SumSquares: true}
	r := gostatsd.TimerSubtypes{Lower: rng.Intn(2) == 0, LowerPct: rng.Intn(2) == 0, Upper: rng.Intn(2) == 0, UpperPct: rng.Intn(2) == 0,
		Count: rng.Intn(2) == 0, CountPct: rng.Intn(2) == 0, CountPerSecond: rng.Intn(2) == 0, Mean: rng.Intn(2) == 0, MeanPct: rng.Intn(2) == 0,
		Median: rng.Intn(2) == 0, StdDev: rng.Intn(2) == 0, Sum: rng.Intn(2) == 0, SumPct: rng.Intn(2) == 0, SumSquares: rng.Intn(2) == 0, SumSquaresPct: rng.Intn(2) == 0}
	return []gostatsd.TimerSubtypes{{}, all, pctOff, baseOff, r}
}

func TestCases(t *testing.T) {
	path := os.Getenv("VERIF_CASES")
	if path == "" {
		t.Skip("VERIF_CASES not set")
	}
	res := vh.NewResult()
	defer res.Write()
	seed := vh.Seed()
	every := vh.EnvInt("VERIF_EVERY", 1)
	synctest.Test(t, func(t *testing.T) {
		ctx, cancel := context.WithCancel(context.Background())
		rng0 := vh.NewRng(seed, 99)
		var groups []*group
		for gi, m := range masks(rng0) {
			g := &group{label: fmt.Sprintf("mask%d", gi), mask: m, batch: []int{0, 1, 2, 3, 1}[gi]}
			for _, v := range bk.Variants() {
				if v.Name == "stdout" && gi != 0 { // the stdout variant redirects a process global: one instance
					continue
				}
				env := bk.NewEnv()
				env.Disabled = m
				env.MetricsPerBatch = g.batch
				b, err := v.New(env)
				if err != nil {
					t.Fatalf("%s: %v", v.Name, err)
				}
				g.bs = append(g.bs, &built{name: v.Name, b: b, env: env, stop: env.Start(ctx, b), ctx: env.Context(ctx)})
			}
			groups = append(groups, g)
		}
		synctest.Wait()
		tick := 0
		sendAll := func(g *group, mm *gostatsd.MetricMap, what string, rec map[string]any) {
			called := make([]int, len(g.bs))
			for i, bb := range g.bs {
				i, bb := i, bb
				func() {
					defer func() {
						if x := recover(); x != nil {
							res.Fail("C04", "payload-panic:"+bb.name, fmt.Sprintf("%s panicked building its payload (%s, %s): %v", bb.name, what, g.label, x), rec)
							called[i] = -1
						}
					}()
					bb.b.SendMetricsAsync(bb.ctx, mm, func(errs []error) { called[i]++ })
				}()
				if tick%16 == 0 {
					// the flush context may already be over when the payload is built (shutdown, a slow flush): building it must still
					// not panic; a few tries, because which branch notices the dead context is up to the runtime
					for k := 0; k < 6; k++ {
						func() {
							defer func() {
								if x := recover(); x != nil {
									res.Fail("C04", "payload-panic-cancelled:"+bb.name, fmt.Sprintf("%s panicked building its payload under a cancelled context (%s, %s): %v", bb.name, what, g.label, x), rec)
								}
							}()
							dead, kill := context.WithCancel(bb.ctx)
							kill()
							bb.b.SendMetricsAsync(dead, mm, func(errs []error) {})
						}()
					}
					res.Hit("payload-under-cancelled-context")
				}
			}
			tick++
			synctest.Wait()
			for i, bb := range g.bs {
				if p := bb.env.RunPanic(); p != nil {
					res.Fail("C04", "run-panic:"+bb.name, fmt.Sprintf("%s: Run goroutine panicked: %v", bb.name, p), rec)
				}
				if called[i] != 1 && called[i] != -1 {
					res.Fail("C16", "callback-count:"+bb.name, fmt.Sprintf("%s: callback invoked %d times for one SendMetricsAsync (%s)", bb.name, called[i], what), rec)
				}
				bb.env.HTTP.Take()
				bb.env.Conn.Take()
				bb.env.Logs.Reset()
				bb.env.Stdout.Reset()
			}
			res.Eval(true)
		}
		ran := 0 // cases actually run: choices made by position must not alias with the seed-dependent selection above
		err := vh.ReadCases(path, func(idx int, raw []byte) error {
			if (idx+int(seed))%every != 0 {
				return nil
			}
			ran++
			var c tcase
			if err := json.Unmarshal(raw, &c); err != nil {
				return fmt.Errorf("case %d: %v", idx, err)
			}
			rng := vh.NewRng(seed, idx)
			g := groups[ran%len(groups)]
			var pcts []float64
			for p := range c.Pcts {
				if rng.Intn(3) != 0 {
					f, _ := strconv.ParseFloat(p, 64)
					pcts = append(pcts, f)
				}
			}
			if c.Mode == "hist" {
				pcts = []float64{90, -50}
			}
			limit := c.Limit
			if c.Mode != "hist" {
				limit = []uint32{0, 1, 1000}[rng.Intn(3)]
			}
			tags := gostatsd.Tags{"a:b"}
			if c.Mode == "hist" {
				tags = append(tags, "gsd_histogram:"+tagPool[c.Tag])
			}
			var many gostatsd.Tags
			if ran%4 == 3 { // series with many tags: ten on the timer (one more with the bucket tag a backend adds), twelve on the gauge
				for k := 0; k < 9; k++ {
					tags = append(tags, fmt.Sprintf("t%d:v", k))
				}
				for k := 0; k < 12; k++ {
					many = append(many, fmt.Sprintf("m%d:v", k))
				}
				res.Hit("many-tags")
			}
			rec := map[string]any{"values": c.Vals, "percentiles": pcts, "histogram_limit": limit, "tags": tags, "mask": fmt.Sprintf("%+v", g.mask), "batch": g.batch, "case": idx}
			agg := statsd.NewMetricAggregator(pcts, 0, 0, 0, 0, g.mask, limit)
			in := gostatsd.NewMetricMap(false)
			ts := gostatsd.Nanotime(time.Now().UnixNano())
			for i, v := range c.Vals {
				in.Receive(&gostatsd.Metric{Name: "t", Type: gostatsd.TIMER, Value: float64(v), Rate: 1 / float64(c.Invs[i]), Tags: tags.Copy(), Timestamp: ts, Source: "10.0.0.1"})
			}
			if len(c.Vals) == 0 {
				in.Receive(&gostatsd.Metric{Name: "t", Type: gostatsd.TIMER, Value: 1, Rate: 1, Tags: tags.Copy(), Timestamp: ts, Source: "10.0.0.1"})
			}
			in.Receive(&gostatsd.Metric{Name: "c", Type: gostatsd.COUNTER, Value: 3, Rate: 0.5, Tags: gostatsd.Tags{"solo", "k:v"}, Timestamp: ts, Source: "10.0.0.1"})
			in.Receive(&gostatsd.Metric{Name: "g", Type: gostatsd.GAUGE, Value: -1.5, Rate: 1, Tags: many, Timestamp: ts})
			in.Receive(&gostatsd.Metric{Name: "s", Type: gostatsd.SET, StringValue: "x", Rate: 1, Tags: gostatsd.Tags{"k:v"}, Timestamp: ts, Source: "h"})
			agg.ReceiveMap(in)
			for flush := 1; flush <= 2; flush++ {
				what := fmt.Sprintf("flush %d%s", flush, map[bool]string{true: " (persisted series, no new data)", false: ""}[flush == 2])
				func() {
					defer func() {
						if x := recover(); x != nil {
							res.Fail("C04", "flush-panic", fmt.Sprintf("Aggregator.Flush panicked (%s): %v", what, x), rec)
						}
					}()
					agg.Flush(time.Second)
				}()
				agg.Process(func(mm *gostatsd.MetricMap) { sendAll(g, mm, what, rec) })
				agg.Reset()
			}
			if c.Mode == "hist" && limit == 0 {
				res.Hit("empty-non-nil-histogram")
			}
			res.Hit("persisted-idle-timer")
			if len(pcts) > 0 {
				for _, p := range pcts {
					if p < 0 {
						res.Hit("negative-percentile")
						break
					}
				}
			}
			res.Hit(g.label)
			if idx%1999 == 5 {
				res.Sample(rec)
			}
			return nil
		})
		if err != nil {
			t.Fatal(err)
		}
		for _, g := range groups {
			for _, bb := range g.bs {
				bb.stop()
				bb.env.Close()
			}
		}
		cancel()
		synctest.Wait()
	})
	res.Distinct = res.Evaluations
}
