//go:build verif

// Package rcv drives the real DatagramReceiver (with its buffer pool) and real DatagramParsers over an in-memory PacketConn with
// TLC-generated schedules (spec/ReceiverSched.tla); the trace is judged by spec/ReceiverTrace.tla. It serves the socket side of C01
// (nothing lost or duplicated), C03 (no datagram stops the process) and C05 (a datagram's bytes are its own until it is parsed; the
// sender address is the source).
package rcv

import (
	"context"
	"encoding/json"
	"fmt"
	"net"
	"os"
	"sort"
	"strings"
	"sync"
	"testing"
	"testing/synctest"
	"time"

	"github.com/sirupsen/logrus"

	"github.com/atlassian/gostatsd"
	"github.com/atlassian/gostatsd/pkg/statsd"

	"verifharness/internal/trace"
	"verifharness/internal/vh"
)

type op struct {
	Op string `json:"op"`
	K  int    `json:"k"`
	S  int    `json:"s"`
}

type scase struct {
	Cfg struct {
		Parsers int `json:"parsers"`
		Readers int `json:"readers"`
	} `json:"cfg"`
	Sched []op `json:"sched"`
}

type packet struct {
	data []byte
	addr net.Addr
}

// conn is the socket: ReadFrom takes the next packet that was put on it
type conn struct {
	q      chan packet
	closed chan struct{}
	once   sync.Once
}

func (c *conn) ReadFrom(p []byte) (int, net.Addr, error) {
	select {
	case pk := <-c.q:
		return copy(p, pk.data), pk.addr, nil
	case <-c.closed:
		return 0, nil, fmt.Errorf("use of closed network connection")
	}
}
func (c *conn) WriteTo(p []byte, addr net.Addr) (int, error) { return len(p), nil }
func (c *conn) Close() error                                 { c.once.Do(func() { close(c.closed) }); return nil }
func (c *conn) LocalAddr() net.Addr                          { return &net.UDPAddr{IP: net.IPv4(127, 0, 0, 1), Port: 8125} }
func (c *conn) SetDeadline(time.Time) error                  { return nil }
func (c *conn) SetReadDeadline(time.Time) error              { return nil }
func (c *conn) SetWriteDeadline(time.Time) error             { return nil }

// sink is the pipeline behind the parsers; it can be held
type sink struct {
	mu    sync.Mutex
	tw    *trace.Writer
	gate  chan struct{}
	owner map[string]int   // counter name -> datagram
	names map[int][]string // datagram -> its counter names
	from  map[int]string   // datagram -> sender
	res   *vh.Result
}

func (s *sink) EstimatedTags() int                             { return 0 }
func (s *sink) DispatchEvent(context.Context, *gostatsd.Event) {}
func (s *sink) WaitForEvents()                                 {}
func (s *sink) DispatchMetricMap(ctx context.Context, mm *gostatsd.MetricMap) {
	s.mu.Lock()
	g := s.gate
	s.mu.Unlock()
	if g != nil {
		<-g
	}
	// which datagram is this the content of?
	var got []string
	src := map[string]bool{}
	add := func(name string, source gostatsd.Source) {
		got = append(got, name)
		src[string(source)] = true
	}
	mm.Counters.Each(func(n, _ string, c gostatsd.Counter) { add(n, c.Source) })
	mm.Gauges.Each(func(n, _ string, c gostatsd.Gauge) { add(n, c.Source) })
	mm.Timers.Each(func(n, _ string, c gostatsd.Timer) { add(n, c.Source) })
	mm.Sets.Each(func(n, _ string, c gostatsd.Set) { add(n, c.Source) })
	sort.Strings(got)
	s.mu.Lock()
	defer s.mu.Unlock()
	d, ok := "?", false
	if len(got) > 0 {
		if id, known := s.owner[got[0]]; known && strings.Join(got, ",") == strings.Join(s.names[id], ",") {
			d = fmt.Sprint(id)
			ok = len(src) == 1 && src[s.from[id]]
		}
	}
	s.tw.Emit(map[string]any{"ev": "parsed", "d": d, "ok": ok, "n": len(got)})
}

func runSchedule(t *testing.T, tw *trace.Writer, c *scase, idx int, res *vh.Result) {
	defer func() {
		// goroutines that stay blocked for ever make the bubble panic on exit; the trace written so far is still judged
		if x := recover(); x != nil {
			res.Note("bubble left with blocked goroutines: %v", x)
			res.Hit("goroutines-left-blocked")
		}
	}()
	synctest.Test(t, func(t *testing.T) {
		ctx, cancel := context.WithCancel(context.Background())
		logger := logrus.New()
		logger.SetLevel(logrus.PanicLevel)
		cn := &conn{q: make(chan packet, 64), closed: make(chan struct{})}
		sk := &sink{tw: tw, owner: map[string]int{}, names: map[int][]string{}, from: map[int]string{}, res: res}
		datagrams := make(chan []*statsd.Datagram)
		rcv := statsd.NewDatagramReceiver(datagrams, func() (net.PacketConn, error) { return cn, nil }, c.Cfg.Readers, 1)
		var wg sync.WaitGroup
		running := int32(0)
		var rmu sync.Mutex
		run := func(f func(context.Context)) {
			wg.Add(1)
			rmu.Lock()
			running++
			rmu.Unlock()
			go func() {
				defer wg.Done()
				f(ctx)
				rmu.Lock()
				running--
				rmu.Unlock()
			}()
		}
		run(rcv.Run)
		for i := 0; i < c.Cfg.Parsers; i++ {
			run(statsd.NewDatagramParser(datagrams, "", false, 0, sk, 0, false, logger).Run)
		}
		started := int32(1 + c.Cfg.Parsers)
		synctest.Wait()
		tw.Emit(map[string]any{"ev": "start", "case": idx, "cfg": c.Cfg})
		n := 0
		for _, o := range c.Sched {
			switch o.Op {
			case "dg":
				n++
				var lines []string
				var names []string
				nm := func(j int) string { x := fmt.Sprintf("d%d.%d", n, j); names = append(names, x); return x }
				switch o.K {
				case 0:
					lines = []string{nm(0) + ":1|c"}
				case 1:
					lines = []string{nm(0) + ":1|c", nm(1) + ":2.5|g", nm(2) + ":7|ms"}
				case 2: // zero bytes
				case 3:
					lines = []string{""}
				case 4:
					for j := 0; j < 200; j++ {
						lines = append(lines, nm(j)+":1|c|#tag:"+strings.Repeat("v", j%17))
					}
				case 5:
					lines = []string{"this is not a metric", nm(0) + ":1|c"}
				case 6:
					lines = []string{nm(0) + ":3|c|@0.5|#a:b,c", nm(1) + ":-1|g|#a:b", nm(2) + ":5|ms|#a:b", nm(3) + ":m1|s|#a:b", nm(4) + ":9|h"}
				}
				data := strings.Join(lines, "\n")
				if o.K == 3 {
					data = "\n"
				}
				ip := fmt.Sprintf("10.0.0.%d", o.S)
				sort.Strings(names)
				sk.mu.Lock()
				for _, x := range names {
					sk.owner[x] = n
				}
				sk.names[n], sk.from[n] = names, ip
				sk.mu.Unlock()
				if len(names) > 0 {
					tw.Emit(map[string]any{"ev": "sent", "d": fmt.Sprint(n), "shape": o.K, "from": ip})
				} else {
					res.Hit("empty-datagram")
				}
				cn.q <- packet{[]byte(data), &net.UDPAddr{IP: net.ParseIP(ip), Port: 40000 + n}}
				res.Hit(fmt.Sprint("shape:", o.K))
			case "hold":
				sk.mu.Lock()
				if sk.gate == nil {
					sk.gate = make(chan struct{})
					res.Hit("held")
				}
				sk.mu.Unlock()
			case "release":
				sk.mu.Lock()
				if sk.gate != nil {
					close(sk.gate)
					sk.gate = nil
				}
				sk.mu.Unlock()
			}
			synctest.Wait()
		}
		sk.mu.Lock()
		if sk.gate != nil {
			close(sk.gate)
			sk.gate = nil
		}
		sk.mu.Unlock()
		synctest.Wait()
		time.Sleep(time.Second)
		synctest.Wait()
		rmu.Lock()
		live := running == started
		rmu.Unlock()
		tw.Emit(map[string]any{"ev": "quiesce", "live": live})
		res.Eval(n >= 2)
		cancel()
		cn.Close()
		wg.Wait()
	})
}

func TestReceiver(t *testing.T) {
	path := os.Getenv("VERIF_CASES")
	if path == "" {
		t.Skip("VERIF_CASES not set")
	}
	logrus.SetLevel(logrus.PanicLevel)
	res := vh.NewResult()
	defer res.Write()
	tw, err := trace.New(os.Getenv("VERIF_TRACE_OUT"))
	if err != nil {
		t.Fatal(err)
	}
	defer tw.Close()
	seen := map[string]bool{}
	err = vh.ReadCases(path, func(idx int, raw []byte) error {
		if seen[string(raw)] {
			return nil
		}
		seen[string(raw)] = true
		var c scase
		if err := json.Unmarshal(raw, &c); err != nil {
			return err
		}
		runSchedule(t, tw, &c, idx, res)
		if idx%97 == 0 {
			res.Sample(c)
		}
		return nil
	})
	if err != nil {
		t.Fatal(err)
	}
	res.Traces = tw.N
	res.Distinct = res.Evaluations
}
