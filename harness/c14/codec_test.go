//go:build verif

// Package c14 composes the two real halves: HttpForwarderHandlerV2 (translate, serialize, compress, POST) -> an in-memory
// RoundTripper -> the real ingestion router (decompress, decode, translate) -> a capturing handler, and compares what
// arrives with what was given, for the structural cases enumerated by spec/Codec.tla; corrupted bodies must be refused.
package c14

import (
	"bytes"
	"context"
	"encoding/json"
	"fmt"
	"google.golang.org/protobuf/encoding/protowire"
	"io"
	"math"
	"net/http"
	"net/http/httptest"
	"os"
	"sort"
	"strconv"
	"strings"
	"sync"
	"testing"
	"testing/synctest"
	"time"

	"github.com/sirupsen/logrus"
	"github.com/spf13/viper"

	"github.com/atlassian/gostatsd"
	"github.com/atlassian/gostatsd/pkg/statsd"
	"github.com/atlassian/gostatsd/pkg/transport"
	"github.com/atlassian/gostatsd/pkg/web"

	"verifharness/internal/fakes"
	"verifharness/internal/vh"
)

type entry struct {
	Ty   string `json:"ty"`
	Name string `json:"name"`
	Tags string `json:"tags"`
	Src  string `json:"src"`
	Val  string `json:"val"`
	Cnt  any    `json:"cnt"`
}

// longText: a stack trace sized event text (5 680 bytes, multi-byte characters included): no length is special to the codec
var longText = strings.Repeat("at com.example.Handler.invoke(Handler.java:42) — ünïcode ✓\n", 80)

type event struct {
	Title string `json:"title"`
	Text  string `json:"text"`
	Date  string `json:"date"`
	Src   string `json:"src"`
	Agg   string `json:"agg"`
	SType string `json:"stype"`
	Tags  string `json:"tags"`
	Pri   string `json:"pri"`
	Alert string `json:"alert"`
}

type ccase struct {
	Kind string  `json:"kind"`
	Core bool    `json:"core"`
	MM   []entry `json:"mm"`
	Ev   event   `json:"ev"`
	Comp struct {
		Type  string `json:"type"`
		Level int    `json:"level"`
	} `json:"comp"`
}

// loop is the RoundTripper that hands the forwarder's request to the real ingestion router.
type loop struct {
	failNext int // answer this many requests with 503 without showing them to the server
	mu       sync.Mutex
	router   http.Handler
	corrupt  func(body []byte, hdr http.Header) []byte // nil = deliver as is
	statuses []int
	encs     []string
}

func (l *loop) RoundTrip(req *http.Request) (*http.Response, error) {
	body, _ := io.ReadAll(req.Body)
	req.Body.Close()
	l.mu.Lock()
	c := l.corrupt
	l.encs = append(l.encs, req.Header.Get("Content-Encoding"))
	if l.failNext > 0 {
		l.failNext--
		l.mu.Unlock()
		rec := httptest.NewRecorder()
		rec.WriteHeader(503)
		return rec.Result(), nil
	}
	l.mu.Unlock()
	hdr := req.Header.Clone()
	if c != nil {
		body = c(body, hdr)
	}
	var rd io.Reader = bytes.NewReader(body)
	if v := hdr.Get("X-Verif-Cut"); v != "" {
		// the connection breaks in the middle of the body: the server reads a prefix, then the read fails (Content-Length says more)
		hdr.Del("X-Verif-Cut")
		k, _ := strconv.Atoi(v)
		rd = io.MultiReader(bytes.NewReader(body[:k]), cutReader{})
	}
	in := httptest.NewRequest(req.Method, req.URL.Path, rd)
	in.ContentLength = int64(len(body))
	in.Header = hdr
	rec := httptest.NewRecorder()
	l.router.ServeHTTP(rec, in)
	l.mu.Lock()
	l.statuses = append(l.statuses, rec.Code)
	l.mu.Unlock()
	return rec.Result(), nil
}

type cutReader struct{}

func (cutReader) Read([]byte) (int, error) { return 0, io.ErrUnexpectedEOF }

// cutPoint: where the body breaks off; for an uncompressed protobuf at the end of its first top-level field, so that what did arrive
// decodes on its own
func cutPoint(b []byte, identity bool) int {
	if identity {
		if _, _, n := protowire.ConsumeField(b); n > 0 && n < len(b) {
			return n
		}
	}
	return len(b) / 2
}

func tagsOf(class string) gostatsd.Tags {
	switch class {
	case "one":
		return gostatsd.Tags{"env:prod"}
	case "two":
		return gostatsd.Tags{"env:prod", "ünïcode:✓"}
	case "srclike": // with no source its tags key is the string a series with tags "one" and source h1 has
		return gostatsd.Tags{"env:prod", "s:h1"}
	}
	return nil
}

func build(es []entry, rng *vh.Rng) *gostatsd.MetricMap {
	mm := gostatsd.NewMetricMap(false)
	fval := func(c string) float64 {
		switch c {
		case "neg":
			return -12.5
		case "zero":
			return 0
		case "huge":
			return 1.7e308
		case "posinf":
			return math.Inf(1)
		case "neginf":
			return math.Inf(-1)
		case "nan":
			return math.NaN()
		}
		return 0.1 + float64(rng.Intn(1000))/7
	}
	for _, e := range es {
		tags := tagsOf(e.Tags)
		src := gostatsd.Source(e.Src)
		tk := gostatsd.FormatTagsKey(src, tags.Copy())
		ts := gostatsd.Nanotime(12345)
		switch e.Ty {
		case "counter":
			v := map[string]int64{"neg": -7, "zero": 0, "huge": math.MaxInt64}[e.Val]
			if mm.Counters[e.Name] == nil {
				mm.Counters[e.Name] = map[string]gostatsd.Counter{}
			}
			mm.Counters[e.Name][tk] = gostatsd.Counter{Value: v, Timestamp: ts, Source: src, Tags: tags}
		case "gauge":
			if mm.Gauges[e.Name] == nil {
				mm.Gauges[e.Name] = map[string]gostatsd.Gauge{}
			}
			mm.Gauges[e.Name][tk] = gostatsd.Gauge{Value: fval(e.Val), Timestamp: ts, Source: src, Tags: tags}
		case "timer":
			var vals []float64
			switch e.Val {
			case "one-nan":
				vals = []float64{math.NaN()}
			case "three-mixed":
				vals = []float64{-1, 0, 2.5}
			case "two-inf":
				vals = []float64{math.Inf(1), math.Inf(-1)}
			case "many-same": // a very repetitive batch: it compresses a thousand times
				vals = make([]float64, 4000)
				for i := range vals {
					vals[i] = 1.5
				}
			}
			cnt := float64(len(vals))
			switch fmt.Sprint(e.Cnt) {
			case "ten":
				cnt = 10
			case "frac":
				cnt = 3.3333333333333335
			case "zero": // a timer whose sampled count was never set
				cnt = 0
			}
			if mm.Timers[e.Name] == nil {
				mm.Timers[e.Name] = map[string]gostatsd.Timer{}
			}
			mm.Timers[e.Name][tk] = gostatsd.Timer{Values: vals, SampledCount: cnt, Timestamp: ts, Source: src, Tags: tags}
		case "set":
			m := map[string]struct{}{}
			switch e.Val {
			case "size1": // members differ from series to series (by source): a member showing up in the wrong series is visible
				m["a"+string(src)] = struct{}{}
			case "size2-utf8":
				m["b"+string(src)], m["ünï ✓"+string(src)] = struct{}{}, struct{}{}
			}
			if mm.Sets[e.Name] == nil {
				mm.Sets[e.Name] = map[string]gostatsd.Set{}
			}
			mm.Sets[e.Name][tk] = gostatsd.Set{Values: m, Timestamp: ts, Source: src, Tags: tags}
		}
	}
	return mm
}

// render ignores timestamps (they are deliberately not carried) and the in-memory tags key
func render(mm *gostatsd.MetricMap) string {
	var sb strings.Builder
	for _, s := range fakes.Flatten(mm) {
		fmt.Fprintf(&sb, "%s c=%d g=%s v=%v n=%v m=%q\n", s.Key(), s.Counter, s.GaugeS, s.Values, s.Sampled, s.Members)
	}
	return sb.String()
}

type rig struct {
	fwd  *statsd.HttpForwarderHandlerV2
	lp   *loop
	sink *fakes.Handler
}

func TestCases(t *testing.T) {
	path := os.Getenv("VERIF_CASES")
	if path == "" {
		t.Skip("VERIF_CASES not set")
	}
	res := vh.NewResult()
	defer res.Write()
	seed := vh.Seed()
	every := vh.EnvInt("VERIF_EVERY", 1)
	logger := logrus.New()
	logger.SetLevel(logrus.PanicLevel)
	synctest.Test(t, func(t *testing.T) {
		ctx, cancel := context.WithCancel(context.Background())
		var wg sync.WaitGroup
		rigs := map[string]*rig{}
		get := func(ctype string, level int) *rig {
			k := fmt.Sprint(ctype, level)
			if r, ok := rigs[k]; ok {
				return r
			}
			sink := &fakes.Handler{}
			srv, err := web.NewHttpServer(logger, sink, "in", "127.0.0.1:0", false, false, true, false, nil, nil)
			if err != nil {
				t.Fatal(err)
			}
			lp := &loop{router: srv.Router}
			pool := transport.NewTransportPool(logger, viper.New())
			cl, err := pool.Get("default")
			if err != nil {
				t.Fatal(err)
			}
			cl.Client.Transport = lp
			cl.Client.Timeout = 0
			fwd, err := statsd.NewHttpForwarderHandlerV2(logger, "default", "http://upstream", 2, 4, 1, ctype != "none", map[string]string{"none": "zlib"}[ctype]+map[string]string{"zlib": "zlib", "lz4": "lz4"}[ctype], level,
				20*time.Second, time.Second, nil, nil, pool, nil)
			if err != nil {
				t.Fatal(err)
			}
			wg.Add(1)
			go func() { defer wg.Done(); fwd.Run(ctx) }()
			synctest.Wait()
			sink.Take()
			lp.mu.Lock()
			lp.statuses, lp.encs = nil, nil
			lp.mu.Unlock()
			r := &rig{fwd, lp, sink}
			rigs[k] = r
			return r
		}
		seen := map[string]bool{}
		err := vh.ReadCases(path, func(idx int, raw []byte) error {
			if seen[string(raw)] {
				return nil
			}
			seen[string(raw)] = true
			var c ccase
			if err := json.Unmarshal(raw, &c); err != nil {
				return err
			}
			if c.Kind == "map" && !c.Core && (idx+int(seed))%every != 0 {
				return nil
			}
			rng := vh.NewRng(seed, idx)
			r := get(c.Comp.Type, c.Comp.Level)
			rec := map[string]any{"case": idx, "compression": c.Comp, "input": c.MM, "event": c.Ev}
			wantEnc := map[string]string{"none": "identity", "zlib": "deflate", "lz4": "lz4"}[c.Comp.Type]
			// corruption pass for a share of the cases: a damaged body must be refused and dispatch nothing
			corrupt := idx%5 == 3
			r.lp.mu.Lock()
			r.lp.corrupt = nil
			if corrupt {
				r.lp.corrupt = func(b []byte, h http.Header) []byte {
					if len(b) < 4 {
						return []byte{0xff, 0xff, 0xff}
					}
					// only damage that is certain to make the body unreadable: a truncated zlib stream, a prefix that is neither a
					// zlib header, an lz4 magic nor a protobuf tag (field 1 with the invalid wire type 7), an unknown encoding
					switch k := rng.Intn(6); {
					case k == 5 && (h.Get("Content-Encoding") == "" || h.Get("Content-Encoding") == "identity"):
						// a complete message followed by a tag with the invalid wire type 7: undecodable whatever came before it,
						// and nothing of what came before it may be dispatched, now or with a later request
						return append(append([]byte(nil), b...), 0x0f)
					case k == 4 && len(b) > 8:
						enc := h.Get("Content-Encoding")
						h.Set("X-Verif-Cut", strconv.Itoa(cutPoint(b, enc == "" || enc == "identity")))
						return b
					case k == 0 && h.Get("Content-Encoding") == "deflate":
						return b[:len(b)/2]
					case k == 3 && h.Get("Content-Encoding") == "deflate" && len(b) > 8:
						// one flipped bit in the adler32 trailer of a zlib stream: the stream is invalid (RFC 1950) whatever it contains
						c := append([]byte(nil), b...)
						c[len(c)-1-rng.Intn(4)] ^= byte(1 << rng.Intn(8))
						return c
					case k <= 1:
						return append([]byte{0x0f, 0xff, 0xff, 0xff, 0xff, 0x0f}, b...)
					}
					h.Set("Content-Encoding", "br") // an encoding the server does not know
					return b
				}
			}
			r.lp.mu.Unlock()
			if c.Kind == "map" && !corrupt && idx%7 == 2 {
				// two bodies alive at once: batch A's first attempt is refused, batch B is flushed during A's back-off, then A is
				// retried; both must arrive as given
				a := build(c.MM, rng)
				b := gostatsd.NewMetricMap(false)
				b.Receive(&gostatsd.Metric{Name: fmt.Sprintf("overlap%d", idx), Type: gostatsd.COUNTER, Value: 5, Rate: 1, Source: "o", Timestamp: 1})
				want := gostatsd.NewMetricMap(false)
				want.Merge(build(c.MM, vh.NewRng(seed, idx)))
				bb := gostatsd.NewMetricMap(false)
				bb.Receive(&gostatsd.Metric{Name: fmt.Sprintf("overlap%d", idx), Type: gostatsd.COUNTER, Value: 5, Rate: 1, Source: "o", Timestamp: 1})
				want.Merge(bb)
				r.lp.mu.Lock()
				r.lp.failNext = 3 // A: attempts at about +1.0 s, +1.5 s, +2.3 s refused, the fourth (about +3.4 s) goes through
				r.lp.mu.Unlock()
				r.fwd.DispatchMetricMap(ctx, a)
				time.Sleep(time.Second)
				synctest.Wait()
				r.fwd.DispatchMetricMap(ctx, b) // flushed (serialised, compressed) at +2 s, while A waits between attempts
				time.Sleep(12 * time.Second)
				synctest.Wait()
				maps, _ := r.sink.Take()
				r.lp.mu.Lock()
				r.lp.statuses, r.lp.encs = nil, nil
				r.lp.mu.Unlock()
				got := gostatsd.NewMetricMap(false)
				for _, m := range maps {
					got.Merge(m)
				}
				res.Eval(true)
				res.Hit("retry-overlap")
				if g, w := render(got), render(want); g != w {
					res.Fail("C14", "overlapping-bodies-differ", fmt.Sprintf("compression %s/%d: batch A (first attempt refused) and batch B (sent during A's back-off):\n given:\n%s decoded:\n%s", c.Comp.Type, c.Comp.Level, w, g), rec)
				}
				return nil
			}
			if c.Kind == "map" {
				in := build(c.MM, rng)
				want := render(in)
				r.fwd.DispatchMetricMap(ctx, in)
				time.Sleep(time.Second) // the consolidator's flush interval
				synctest.Wait()
				if corrupt {
					time.Sleep(40 * time.Second) // past the retry window
					synctest.Wait()
				}
				maps, _ := r.sink.Take()
				r.lp.mu.Lock()
				statuses, encs := r.lp.statuses, r.lp.encs
				r.lp.statuses, r.lp.encs = nil, nil
				r.lp.mu.Unlock()
				res.Eval(len(c.MM) >= 2)
				if corrupt {
					res.Hit("corrupted")
					for _, s := range statuses {
						if s < 400 {
							res.Fail("C14", "corrupt-body-accepted", fmt.Sprintf("a damaged body was answered %d", s), rec)
						}
					}
					if len(maps) != 0 {
						res.Fail("C14", "corrupt-body-dispatched", "a damaged body was dispatched to the pipeline", rec)
					}
					return nil
				}
				got := gostatsd.NewMetricMap(false)
				for _, m := range maps {
					got.Merge(m)
				}
				if len(statuses) != 1 || statuses[0] != 202 {
					res.Fail("C14", "not-accepted:"+c.Comp.Type, fmt.Sprintf("request statuses %v (compression %s level %d)", statuses, c.Comp.Type, c.Comp.Level), rec)
				}
				for _, e := range encs {
					if e != wantEnc {
						res.Fail("C14", "content-encoding", fmt.Sprintf("Content-Encoding %q, want %q", e, wantEnc), rec)
					}
				}
				if g := render(got); g != want {
					sig := "decoded-differs"
					for _, ty := range []string{"counter", "gauge", "timer", "set"} {
						if strings.Contains(want, ty+"|") && !strings.Contains(g, ty+"|") {
							sig = "decoded-differs:" + ty + "-lost"
						}
					}
					res.Fail("C14", sig, fmt.Sprintf("compression %s/%d:\n given:\n%s decoded:\n%s", c.Comp.Type, c.Comp.Level, want, g), rec)
				}
				res.Hit("comp:" + c.Comp.Type)
			} else {
				e := &gostatsd.Event{Title: c.Ev.Title, Text: map[string]string{"plain": "text", "newline-utf8": "line1\nlïne2 ✓", "long": longText}[c.Ev.Text], Source: gostatsd.Source(c.Ev.Src),
					AggregationKey: c.Ev.Agg, SourceTypeName: c.Ev.SType, Tags: tagsOf(c.Ev.Tags)}
				if c.Ev.Date == "set" {
					e.DateHappened = 1234567
				}
				if c.Ev.Pri == "low" {
					e.Priority = gostatsd.PriLow
				}
				e.AlertType = map[string]gostatsd.AlertType{"info": gostatsd.AlertInfo, "warning": gostatsd.AlertWarning, "error": gostatsd.AlertError, "success": gostatsd.AlertSuccess}[c.Ev.Alert]
				want := fakes.RenderEvent(e)
				r.fwd.DispatchEvent(context.Background(), e)
				synctest.Wait()
				if corrupt {
					time.Sleep(40 * time.Second)
					synctest.Wait()
				}
				_, evs := r.sink.Take()
				r.lp.mu.Lock()
				statuses := r.lp.statuses
				r.lp.statuses, r.lp.encs = nil, nil
				r.lp.mu.Unlock()
				res.Eval(true)
				if corrupt {
					if len(evs) != 0 {
						res.Fail("C14", "corrupt-body-dispatched", "a damaged event body was dispatched", rec)
					}
					for _, s := range statuses {
						if s < 400 {
							res.Fail("C14", "corrupt-body-accepted", fmt.Sprintf("a damaged event body was answered %d", s), rec)
						}
					}
					return nil
				}
				if len(evs) != 1 {
					res.Fail("C14", "event-count", fmt.Sprintf("%d events decoded, statuses %v", len(evs), statuses), rec)
				} else if g := fakes.RenderEvent(evs[0]); g != want {
					res.Fail("C14", "event-differs", fmt.Sprintf("given %s\ndecoded %s", want, g), rec)
				}
				res.Hit("event")
			}
			if idx%4001 == 7 {
				res.Sample(c)
			}
			return nil
		})
		if err != nil {
			t.Fatal(err)
		}
		cancel()
		wg.Wait()
	})
	res.Distinct = res.Evaluations
	_ = sort.Strings
}
