// Package nodes binds spec/MembershipProp.tla (P-level monitor, through MembershipTrace.tla) and spec/NodeTracker.tla (whose stimuli
// NodeSched.tla enumerates) to the real Redis node tracker of internal/cluster/nodes: one real tracker per node, each with its own go-redis
// client against one miniredis server, the real consistent-hash picker behind a recording wrapper, one mock clock.
// This harness runs in real time (go-redis does network I/O, which a synctest bubble cannot hold): "the cluster is at rest" is decided by
// watching every observable activity (publishes, picker calls, clock readings -- handleMessage reads the clock once per message) stay
// silent for a quiet period.  The pipeline re-runs a rejected schedule with a much longer quiet period before it believes it.
package nodes

import (
	"context"
	"encoding/json"
	"errors"
	"fmt"
	"io"
	"os"
	"sort"
	"strings"
	"sync"
	"sync/atomic"
	"testing"
	"time"

	"github.com/alicebob/miniredis/v2"
	"github.com/go-redis/redis/v8"
	"github.com/sirupsen/logrus"
	"github.com/tilinna/clock"

	"github.com/atlassian/gostatsd/verifhooks"

	"verifharness/internal/vh"
)

const (
	unit   = 500 * time.Millisecond
	unitsU = 2
	unitsE = 5
)

var routeKeys = []string{"web.requests", "db.latency", "a", "b", "c", "queue.depth|host:x", "k6", "k7", "k8", "k9", "k10", "k11"}

type stim struct {
	Op string `json:"op"`
	T  string `json:"t"`
	D  int    `json:"d"`
}

type scase struct {
	Sched []stim `json:"sched"`
}

// run is one schedule's world.
type run struct {
	mu       sync.Mutex
	events   []map[string]any
	activity atomic.Int64
	named    map[string]int
	stormed  bool // the last settle saw more than 20 000 publishes / picker calls / clock readings: the trackers keep each other busy
	live     map[string]*tracker // trackers that hear what is published (started, not yet cancelled); guarded by mu
	phase    atomic.Value
}

func (r *run) emit(ev map[string]any) {
	r.mu.Lock()
	r.events = append(r.events, ev)
	r.mu.Unlock()
	r.activity.Add(1)
}

func (r *run) hit(n string) {
	r.mu.Lock()
	r.named[n]++
	r.mu.Unlock()
}

// countingClock is the shared mock clock; every reading counts as activity of the cluster.
type countingClock struct {
	*clock.Mock
	r  *run
	tr *tracker
}

func (c countingClock) Now() time.Time {
	c.tr.readings.Add(1)
	c.r.activity.Add(1)
	return c.Mock.Now()
}

// client is a tracker's Redis client: publishes are recorded (before they are forwarded) and fail while the node is muted.
type client struct {
	*redis.Client
	r     *run
	t     string
	muted *atomic.Bool
}

func (c *client) Publish(ctx context.Context, channel string, message interface{}) *redis.IntCmd {
	msg, _ := message.(string)
	ok := !c.muted.Load()
	if len(msg) > 0 {
		c.r.emit(map[string]any{"ev": "pub", "t": c.t, "k": msg[:1], "n": msg[1:], "ok": ok})
		if !ok {
			c.r.hit("publish-failed")
		} else if msg[:1] == "+" && c.r.phase.Load() == "up" {
			c.r.hit("introduction-answered")
		}
	}
	if !ok {
		cmd := redis.NewIntCmd(ctx)
		cmd.SetErr(errors.New("verif: connection to redis lost"))
		return cmd
	}
	c.r.mu.Lock()
	for _, tr := range c.r.live {
		tr.expect.Add(1)
	}
	c.r.mu.Unlock()
	return c.Client.Publish(ctx, channel, message)
}

// picker records effective additions and removals in front of the real consistent-hash picker.
type picker struct {
	verifhooks.NodePicker
	r   *run
	t   string
	mu  sync.Mutex
	set map[string]bool
}

func (p *picker) Add(node string) {
	p.mu.Lock()
	p.set[node] = true
	p.r.emit(map[string]any{"ev": "add", "t": p.t, "n": node})
	p.NodePicker.Add(node)
	p.mu.Unlock()
}

func (p *picker) Remove(node string) {
	p.mu.Lock()
	if p.set[node] {
		delete(p.set, node)
		p.r.emit(map[string]any{"ev": "rem", "t": p.t, "n": node})
		switch p.r.phase.Load() {
		case "adv":
			p.r.hit("removed-by-expiry")
		case "cancel":
			if node != p.t {
				p.r.hit("removed-by-drop")
			}
		}
	} else {
		p.r.activity.Add(1)
		p.r.hit("remove-of-a-node-not-held")
	}
	p.NodePicker.Remove(node)
	p.mu.Unlock()
}

type tracker struct {
	cancel context.CancelFunc
	done   chan struct{}
	pick   *picker
	cli    *redis.Client
	start  int // clock units at which it was started: its ticks fall at start + k * unitsU
	// the tracker reads the clock once per message it handles and once per tick: readings catching up with expect is the positive sign
	// that nothing is in flight towards it (a tracker that reads the clock less often just makes settle fall back to silence alone)
	readings atomic.Int64
	expect   atomic.Int64
}

func quietPeriod() time.Duration {
	return time.Duration(vh.EnvInt("VERIF_QUIET_MS", 60)) * time.Millisecond
}

// settle waits until nothing observable has happened for a quiet period.
func (r *run) caughtUp() bool {
	r.mu.Lock()
	defer r.mu.Unlock()
	for _, tr := range r.live {
		if tr.readings.Load() < tr.expect.Load() {
			return false
		}
	}
	return true
}

func (r *run) settle(q time.Duration) bool {
	begin := time.Now()
	a0 := r.activity.Load()
	deadline := begin.Add(12 * time.Second)
	defer func() { r.stormed = r.activity.Load()-a0 > 20000 }()
	for time.Now().Before(deadline) {
		if !r.caughtUp() && time.Since(begin) < 3*time.Second {
			time.Sleep(2 * time.Millisecond)
			continue
		}
		a := r.activity.Load()
		time.Sleep(q)
		if r.activity.Load() == a && (r.caughtUp() || time.Since(begin) >= 3*time.Second) {
			return true
		}
	}
	return false
}

// drive runs one schedule and returns its trace, or an error text when the machinery (not the property) failed.
func drive(idx int, c scase, q time.Duration) (*run, string, string) {
	r := &run{named: map[string]int{}, live: map[string]*tracker{}}
	r.phase.Store("")
	mr, err := miniredis.Run()
	if err != nil {
		return r, "", "miniredis: " + err.Error()
	}
	defer mr.Close()
	mock := clock.NewMock(time.Unix(2147480000, 0))
	log := logrus.New()
	log.SetOutput(io.Discard)
	muted := map[string]*atomic.Bool{"a": {}, "b": {}, "c": {}}
	trackers := map[string]*tracker{}
	defer func() { // whatever way the schedule ends, nothing of it keeps running beside the other schedules
		for _, tr := range trackers {
			tr.cancel()
		}
	}()
	ran := map[string]bool{}
	now := 0
	sj, _ := json.Marshal(c.Sched)
	r.emit(map[string]any{"ev": "start", "u": unitsU, "e": unitsE, "idx": idx, "sched": string(sj)})
	stuck := ""
	observe := func() bool {
		if !r.settle(q) {
			return false
		}
		r.emit(map[string]any{"ev": "settle"})
		names := make([]string, 0, len(trackers))
		for n := range trackers {
			names = append(names, n)
		}
		sort.Strings(names)
		for _, n := range names {
			l := trackers[n].pick.List()
			if l == nil {
				l = []string{}
			}
			sort.Strings(l)
			r.emit(map[string]any{"ev": "view", "t": n, "s": l})
			// what the cluster routes by: the owner of a fixed set of keys, and whether the picker says it is this node
			own, self, failed := []string{}, []bool{}, false
			for _, k := range routeKeys {
				o, me, err := trackers[n].pick.Select(k)
				if err != nil {
					failed = true
					break
				}
				own, self = append(own, o), append(self, me)
			}
			if failed {
				own, self = []string{}, []bool{}
				r.hit("select-on-an-empty-picker")
			}
			r.emit(map[string]any{"ev": "select", "t": n, "own": own, "self": self, "err": failed})
		}
		return true
	}
	stop := func(n string) bool {
		tr := trackers[n]
		r.mu.Lock()
		delete(r.live, n)
		r.mu.Unlock()
		tr.cancel()
		select {
		case <-tr.done:
		case <-time.After(20 * time.Second):
			return false
		}
		r.emit(map[string]any{"ev": "down", "t": n})
		tr.cli.Close()
		delete(trackers, n)
		return true
	}
	for _, s := range c.Sched {
		r.phase.Store(s.Op)
		switch s.Op {
		case "up":
			if ran[s.T] {
				r.hit("restart")
			}
			ran[s.T] = true
			rc := redis.NewClient(&redis.Options{Addr: mr.Addr(), DB: 0})
			p := &picker{NodePicker: verifhooks.NewConsistentNodePicker(s.T, 20), r: r, t: s.T, set: map[string]bool{}}
			nt := verifhooks.NewRedisNodeTracker(log, p, &client{rc, r, s.T, muted[s.T]}, "ns", s.T, unitsU*unit, unitsE*unit)
			tr := &tracker{done: make(chan struct{}), pick: p, cli: rc, start: now}
			ctx, cancel := context.WithCancel(clock.Context(context.Background(), countingClock{mock, r, tr}))
			tr.cancel = cancel
			r.emit(map[string]any{"ev": "up", "t": s.T})
			r.mu.Lock()
			r.live[s.T] = tr
			r.mu.Unlock()
			timers := mock.Len()
			go func() { defer close(tr.done); nt.Run(ctx) }()
			trackers[s.T] = tr
			// "Starting the ticker is how we signal to tests that everything is ready to go" (tracker_redis.go)
			for w := time.Now(); mock.Len() <= timers && time.Since(w) < 10*time.Second; {
				time.Sleep(time.Millisecond)
			}
		case "cancel":
			r.emit(map[string]any{"ev": "cancel", "t": s.T})
			if !stop(s.T) {
				stuck = "Run of node " + s.T + " did not return within 20 s of its cancellation"
			}
		case "mute":
			muted[s.T].Store(true)
			r.emit(map[string]any{"ev": "mute", "t": s.T})
		case "unmute":
			muted[s.T].Store(false)
			r.emit(map[string]any{"ev": "unmute", "t": s.T})
		case "adv":
			now += s.D
			r.emit(map[string]any{"ev": "clock", "c": now})
			for _, tr := range trackers {
				if (now-tr.start)/unitsU > (now-s.D-tr.start)/unitsU {
					tr.expect.Add(1)
				}
			}
			mock.Add(time.Duration(s.D) * unit)
		}
		if stuck != "" {
			break
		}
		if !observe() {
			if r.stormed {
				// NodeTracker.tla's liveness property: the trackers' own steps come to an end after every stimulus
				return r, "ComesToRest: after stimulus " + s.Op + " " + s.T + " the trackers kept publishing / handling messages for 12 s without a pause", ""
			}
			return r, "", "the cluster did not come to rest within 12 s"
		}
	}
	r.phase.Store("end")
	for n := range trackers {
		r.emit(map[string]any{"ev": "cancel", "t": n})
		if !stop(n) && stuck == "" {
			stuck = "Run of node " + n + " did not return within 20 s of its cancellation"
		}
		if stuck != "" {
			break
		}
		if !observe() {
			return r, "", "the cluster did not come to rest within 12 s"
		}
	}
	return r, stuck, ""
}

func TestSchedules(t *testing.T) {
	res := vh.NewResult()
	defer res.Write()
	var cases []scase
	err := vh.ReadCases(vh.Env("VERIF_CASES", ""), func(i int, raw []byte) error {
		var c scase
		if err := json.Unmarshal(raw, &c); err != nil {
			return err
		}
		cases = append(cases, c)
		return nil
	})
	if err != nil {
		t.Fatal(err)
	}
	only := vh.EnvInt("VERIF_ONLY", -1)
	q := quietPeriod()
	out, err := os.Create(vh.Env("VERIF_TRACE_OUT", os.DevNull))
	if err != nil {
		t.Fatal(err)
	}
	defer out.Close()
	var wmu sync.Mutex
	var wg sync.WaitGroup
	sem := make(chan struct{}, vh.EnvInt("VERIF_PAR", 12))
	for i, c := range cases {
		if only >= 0 && i != only {
			continue
		}
		wg.Add(1)
		sem <- struct{}{}
		go func(i int, c scase) {
			defer wg.Done()
			defer func() { <-sem }()
			r, stuck, mach := drive(i, c, q)
			if mach != "" {
				res.Note("schedule %d: %s", i, mach)
				res.Hit("machinery-failure")
				return
			}
			if stuck != "" {
				sig := "Terminates"
				if strings.HasPrefix(stuck, "ComesToRest") {
					sig = "ComesToRest"
				}
				res.Fail("X05", sig, stuck, c)
			}
			wmu.Lock()
			for _, ev := range r.events {
				b, _ := json.Marshal(ev)
				out.Write(b)
				out.Write([]byte("\n"))
				res.Traces++
			}
			wmu.Unlock()
			res.Eval(len(c.Sched) >= 2)
			res.Sample(c)
			for k, v := range r.named {
				for j := 0; j < v; j++ {
					res.Hit(k)
				}
			}
		}(i, c)
	}
	wg.Wait()
	if res.Named["machinery-failure"] > 0 {
		t.Fatalf("%d schedules could not be driven: %v", res.Named["machinery-failure"], res.Notes)
	}
	fmt.Printf("schedules=%d lines=%d\n", res.Evaluations, res.Traces)
}
