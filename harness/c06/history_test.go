//go:build verif

package c06

import (
	"fmt"
	"os"
	"sort"
	"sync"
	"testing"

	"github.com/atlassian/gostatsd"

	"verifharness/internal/trace"
	"verifharness/internal/vh"
)

// TestHistory: the shard of a series depends on the series and the shard count only -- not on what the process has split before, and not
// on what other goroutines are splitting at the same moment. Recorded in the format of TestCases ("split" events, judged by
// PartitionTrace.tla: the route of a series is learned on first sight and must never change).
//
//	(a) pairs of series whose name and tag string concatenate to the same bytes, split one after the other, with some 70000 other series
//	    split in between (more than any bounded memo would keep) and then again;
//	(b) several goroutines splitting their own batches at the same time, after every batch has been split once on its own.
func TestHistory(t *testing.T) {
	if os.Getenv("VERIF_TRACE_OUT") == "" {
		t.Skip("VERIF_TRACE_OUT not set")
	}
	res := vh.NewResult()
	defer res.Write()
	tw, err := trace.New(os.Getenv("VERIF_TRACE_OUT"))
	if err != nil {
		t.Fatal(err)
	}
	defer tw.Close()
	var mu sync.Mutex
	id := func(name string, tags gostatsd.Tags) string { // a series is its name and its tag SET
		t := append([]string{}, tags...)
		sort.Strings(t)
		return name + "|" + fmt.Sprint(t)
	}
	// split emits one "split" event for the batch
	split := func(n int, names []string, tagsets []gostatsd.Tags) {
		mm := gostatsd.NewMetricMap(false)
		var keys []string
		for i, name := range names {
			mm.Receive(&gostatsd.Metric{Name: name, Type: gostatsd.COUNTER, Value: 1, Rate: 1, Tags: append(gostatsd.Tags{}, tagsets[i]...)})
			keys = append(keys, id(name, tagsets[i]))
		}
		shards := mm.Split(n)
		out := make([][]string, n)
		for i, sh := range shards {
			out[i] = []string{}
			sh.Counters.Each(func(name, _ string, c gostatsd.Counter) { out[i] = append(out[i], id(name, c.Tags)) })
		}
		mu.Lock()
		tw.Emit(map[string]any{"ev": "split", "n": n, "keys": keys, "shards": out, "same": true})
		mu.Unlock()
	}
	quiet := func(n, from, count int) { // many other series, not recorded
		mm := gostatsd.NewMetricMap(false)
		for i := 0; i < count; i++ {
			mm.Receive(&gostatsd.Metric{Name: fmt.Sprintf("filler.%d.%d", from, i), Type: gostatsd.COUNTER, Value: 1, Rate: 1, Tags: gostatsd.Tags{"f:1"}})
		}
		mm.Split(n)
	}
	pairs := [][2]struct {
		name string
		tags gostatsd.Tags
	}{
		{{"queue.depth", gostatsd.Tags{"a:1"}}, {"queue.deptha", gostatsd.Tags{":1"}}},
		{{"req", gostatsd.Tags{"s:x"}}, {"reqs", gostatsd.Tags{":x"}}},
		{{"a.b", gostatsd.Tags{"c", "d:1"}}, {"a.bc", gostatsd.Tags{"", "d:1"}}},
		{{"m", gostatsd.Tags{"k:v"}}, {"mk", gostatsd.Tags{":v"}}},
	}
	round := 0
	for _, n := range []int{2, 3, 5, 7} {
		tw.Emit(map[string]any{"ev": "reset", "case": 800000 + n, "what": "history"})
		for _, p := range pairs {
			x, y := p[0], p[1]
			split(n, []string{x.name}, []gostatsd.Tags{x.tags})
			for k := 0; k < 10; k++ {
				round++
				quiet(n, round, 7000)
			}
			split(n, []string{y.name}, []gostatsd.Tags{y.tags})
			split(n, []string{x.name}, []gostatsd.Tags{x.tags})
			split(n, []string{x.name, y.name}, []gostatsd.Tags{x.tags, y.tags})
			res.Hit("same-bytes-pair-across-a-large-history")
			res.Eval(true)
		}
	}
	// (b)
	for _, n := range []int{3, 8} {
		tw.Emit(map[string]any{"ev": "reset", "case": 810000 + n, "what": "concurrent"})
		const workers, per = 8, 40
		names := make([][]string, workers)
		tags := make([][]gostatsd.Tags, workers)
		for w := 0; w < workers; w++ {
			for i := 0; i < per; i++ {
				names[w] = append(names[w], fmt.Sprintf("svc%d.endpoint%d.latency.with.a.long.name", w, i))
				tags[w] = append(tags[w], gostatsd.Tags{fmt.Sprintf("shard:%d", i%5), "env:prod"})
			}
			split(n, names[w], tags[w]) // on its own first: this is where the routes are learned
		}
		var wg sync.WaitGroup
		for w := 0; w < workers; w++ {
			w := w
			wg.Add(1)
			go func() {
				defer wg.Done()
				for k := 0; k < 150; k++ {
					split(n, names[w], tags[w])
				}
			}()
		}
		wg.Wait()
		res.Hit("concurrent-splits")
		res.Eval(true)
	}
	res.Traces = tw.N
	res.Distinct = res.Evaluations
}
