package c06

import (
	"fmt"
	"testing"

	"github.com/atlassian/gostatsd"

	"verifharness/internal/vh"
)

// TestIdentity: the statement's series identity is the triple (name, tag set, source).  MetricMap files a series under its name and a
// tags key, the STRING "sorted tags joined by ','" + ",s:" + source.  Two different triples can spell the same string: tags [env:prod]
// from source h1, and tags [env:prod, s:h1] from nobody.  Each pair of such triples, in every type, goes into one batch and through
// Split(n): both series must come out, each with its own datapoint.
func TestIdentity(t *testing.T) {
	res := vh.NewResult()
	defer res.Write()
	type triple struct {
		tags gostatsd.Tags
		src  gostatsd.Source
	}
	pairs := [][2]triple{
		{{gostatsd.Tags{"env:prod"}, "h1"}, {gostatsd.Tags{"env:prod", "s:h1"}, ""}},
		{{nil, "10.0.0.1"}, {gostatsd.Tags{"s:10.0.0.1"}, ""}},
		{{gostatsd.Tags{"a:b", "c:d"}, ""}, {gostatsd.Tags{"a:b,c:d"}, ""}}, // a comma inside a tag (the lexer splits on commas, the HTTP ingestion does not)
		{{gostatsd.Tags{"a:b"}, "h1"}, {gostatsd.Tags{"a:b"}, "h2"}},        // control: an ordinary pair that differs in its source
	}
	types := []gostatsd.MetricType{gostatsd.COUNTER, gostatsd.GAUGE, gostatsd.TIMER, gostatsd.SET}
	for pi, p := range pairs {
		for _, ty := range types {
			for n := 1; n <= 4; n++ {
				mm := gostatsd.NewMetricMap(false)
				for i, tr := range p {
					mm.Receive(&gostatsd.Metric{Name: "x", Type: ty, Value: float64(i + 1), Rate: 1, StringValue: fmt.Sprint("m", i), Tags: append(gostatsd.Tags{}, tr.tags...), Source: tr.src})
				}
				series := 0
				for _, sh := range mm.Split(n) {
					sh.Counters.Each(func(string, string, gostatsd.Counter) { series++ })
					sh.Gauges.Each(func(string, string, gostatsd.Gauge) { series++ })
					sh.Timers.Each(func(string, string, gostatsd.Timer) { series++ })
					sh.Sets.Each(func(string, string, gostatsd.Set) { series++ })
				}
				res.Eval(true)
				if pi == len(pairs)-1 {
					res.Hit("identity-control-pair")
				} else {
					res.Hit("identity-same-key-string")
				}
				if series != 2 {
					kind := "source-suffix"
					if pi == 2 {
						kind = "comma-in-tag"
					}
					res.Fail("C06", "Identity:tags-key-collision:"+kind,
						fmt.Sprintf("%s series x with tags %v source %q and with tags %v source %q are different series (name, tag set, source) but share the tags key string %q: %d series after Split(%d), want 2",
							ty, p[0].tags, p[0].src, p[1].tags, p[1].src, gostatsd.FormatTagsKey(p[0].src, p[0].tags), series, n),
						map[string]any{"type": fmt.Sprint(ty), "a": fmt.Sprint(p[0]), "b": fmt.Sprint(p[1]), "n": n})
				}
			}
		}
	}
}
