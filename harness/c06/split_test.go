//go:build verif

// Package c06 records what MetricMap.Split and BackendHandler.DispatchMetricMap do with TLC-enumerated batches and
// writes an NDJSON trace that spec/PartitionTrace.tla judges.
package c06

import (
	"context"
	"encoding/json"
	"fmt"
	"os"
	"sort"
	"sync"
	"testing"
	"testing/synctest"
	"time"

	"github.com/atlassian/gostatsd"
	"github.com/atlassian/gostatsd/pkg/statsd"

	"verifharness/internal/fakes"
	"verifharness/internal/trace"
	"verifharness/internal/vh"
)

type scase struct {
	N       int     `json:"n"`
	Batches [][]int `json:"batches"`
}

type variant struct {
	name   string
	tags   []string
	source string
}

// series identities: same name with different tag sets, different sources, empty components, tag-order twins
var variants = []variant{
	{"m", []string{"a:1", "b:2"}, "10.0.0.1"},
	{"m", []string{"a:1", "b:2"}, "10.0.0.2"},
	{"m", []string{"a:1"}, "10.0.0.1"},
	{"", nil, ""},
	{"m", nil, ""},
	{"", []string{"a:1"}, "h"},
	{"n.o", []string{"b:2", "a:1", "c:3"}, ""},
}
var types = []string{"counter", "gauge", "timer", "set"}

func keyID(i int) string { return fmt.Sprintf("%s%d", types[(i-1)%4][:1], (i-1)/4) }

// put adds series i (1-based pool index) with a seeded value and a seeded tag order; returns its canonical rendering.
func put(mm *gostatsd.MetricMap, i int, rng *vh.Rng) {
	v := variants[((i-1)/4)%len(variants)]
	tags := append(gostatsd.Tags{}, v.tags...)
	if len(tags) > 1 && rng.Intn(2) == 0 { // tag order must not matter: the series is (name, tag SET, source)
		tags[0], tags[len(tags)-1] = tags[len(tags)-1], tags[0]
	}
	m := &gostatsd.Metric{Name: v.name, Tags: tags, Source: gostatsd.Source(v.source), Timestamp: gostatsd.Nanotime(1 + rng.Intn(1000)), Rate: 1}
	switch types[(i-1)%4] {
	case "counter":
		m.Type, m.Value = gostatsd.COUNTER, float64(1+rng.Intn(100))
	case "gauge":
		m.Type, m.Value = gostatsd.GAUGE, float64(rng.Intn(100))/4
	case "timer":
		m.Type, m.Value = gostatsd.TIMER, float64(rng.Intn(100))
	default:
		m.Type, m.StringValue = gostatsd.SET, fmt.Sprint("v", rng.Intn(5))
	}
	mm.Receive(m)
	if types[(i-1)%4] == "timer" && rng.Intn(2) == 0 {
		m2 := *m
		m2.TagsKey = ""
		m2.Value = 7
		mm.Receive(&m2)
	}
}

// idOf maps a flattened series back to its pool id.
func idOf(s fakes.Series) string {
	for vi, v := range variants {
		t := append([]string{}, v.tags...)
		sort.Strings(t)
		if v.name == s.Name && v.source == s.Source && fmt.Sprint(t) == fmt.Sprint(s.Tags) {
			return fmt.Sprintf("%s%d", s.Type[:1], vi)
		}
	}
	return "unknown:" + s.Key()
}

type recAgg struct {
	id   int
	mu   *sync.Mutex
	got  *[][]fakes.Series
	real statsd.Aggregator
	hold *chan struct{} // shared by the workers of one handler: non-nil while they are held inside ReceiveMap
}

func (a *recAgg) ReceiveMap(mm *gostatsd.MetricMap) {
	a.mu.Lock()
	g := *a.hold
	a.mu.Unlock()
	if g != nil {
		<-g
	}
	a.mu.Lock()
	(*a.got)[a.id] = append((*a.got)[a.id], fakes.Flatten(mm)...)
	a.mu.Unlock()
}
func (a *recAgg) Flush(time.Duration)        {}
func (a *recAgg) Process(statsd.ProcessFunc) {}
func (a *recAgg) Reset()                     {}

func TestCases(t *testing.T) {
	path := os.Getenv("VERIF_CASES")
	if path == "" {
		t.Skip("VERIF_CASES not set")
	}
	res := vh.NewResult()
	defer res.Write()
	tw, err := trace.New(os.Getenv("VERIF_TRACE_OUT"))
	if err != nil {
		t.Fatal(err)
	}
	defer tw.Close()
	seed := vh.Seed()
	emit := func(n int, in *gostatsd.MetricMap, before string, shards [][]fakes.Series) {
		var keys []string
		want := map[string]string{}
		for _, s := range fakes.Flatten(in) {
			keys = append(keys, idOf(s))
			want[idOf(s)] = fmt.Sprint(s)
		}
		same := fakes.Render(in) == before // Split must not disturb its input either
		out := make([][]string, len(shards))
		for i, sh := range shards {
			out[i] = []string{}
			for _, s := range sh {
				out[i] = append(out[i], idOf(s))
				if want[idOf(s)] != fmt.Sprint(s) {
					same = false
				}
			}
		}
		if keys == nil {
			keys = []string{}
		}
		tw.Emit(map[string]any{"ev": "split", "n": n, "keys": keys, "shards": out, "same": same})
	}
	synctest.Test(t, func(t *testing.T) {
		holds := map[int]*chan struct{}{}
		handlers := map[int]*statsd.BackendHandler{}
		gots := map[int]*[][]fakes.Series{}
		var mu sync.Mutex
		ctx, cancel := context.WithCancel(context.Background())
		defer cancel()
		handler := func(n int) (*statsd.BackendHandler, *[][]fakes.Series) {
			if h, ok := handlers[n]; ok {
				return h, gots[n]
			}
			got := make([][]fakes.Series, n)
			id := 0
			hold := new(chan struct{})
			holds[n] = hold
			h := statsd.NewBackendHandler(nil, 1, n, n%3, statsd.AggregatorFactoryFunc(func() statsd.Aggregator {
				a := &recAgg{id: id, mu: &mu, got: &got, hold: hold}
				id++
				return a
			}))
			go h.Run(ctx)
			handlers[n], gots[n] = h, &got
			return h, &got
		}
		run := func(n int, batch []int, rng *vh.Rng) {
			mm := gostatsd.NewMetricMap(false)
			for _, i := range batch {
				put(mm, i, rng)
			}
			before := fakes.Render(mm)
			// (1) MetricMap.Split
			parts := mm.Split(n)
			shards := make([][]fakes.Series, len(parts))
			for i, p := range parts {
				shards[i] = fakes.Flatten(p)
			}
			emit(n, mm, before, shards)
			// (3) the same series as an ingestion endpoint may deliver them: the values' tag slices in another order (the key is the
			//     series' identity; the slice order is not)
			rev := func(t gostatsd.Tags) gostatsd.Tags {
				o := make(gostatsd.Tags, len(t))
				for i, x := range t {
					o[len(t)-1-i] = x
				}
				return o
			}
			mm2 := gostatsd.NewMetricMap(false)
			mm.Counters.Each(func(n, k string, v gostatsd.Counter) { v.Tags = rev(v.Tags); mm2.MergeCounter(n, k, v) })
			mm.Gauges.Each(func(n, k string, v gostatsd.Gauge) { v.Tags = rev(v.Tags); mm2.MergeGauge(n, k, v) })
			mm.Timers.Each(func(n, k string, v gostatsd.Timer) {
				v.Tags, v.Values = rev(v.Tags), append([]float64{}, v.Values...)
				mm2.MergeTimer(n, k, v)
			})
			mm.Sets.Each(func(n, k string, v gostatsd.Set) {
				v.Tags = rev(v.Tags)
				m := map[string]struct{}{}
				for x := range v.Values {
					m[x] = struct{}{}
				}
				v.Values = m
				mm2.MergeSet(n, k, v)
			})
			before2 := fakes.Render(mm2)
			parts2 := mm2.Split(n)
			shards2 := make([][]fakes.Series, len(parts2))
			for i, p := range parts2 {
				shards2[i] = fakes.Flatten(p)
			}
			emit(n, mm2, before2, shards2)
			res.Hit("tags-in-another-order")
			// (2) the same batch through a real BackendHandler with n workers
			h, got := handler(n)
			h.DispatchMetricMap(ctx, mm)
			synctest.Wait()
			mu.Lock()
			emit(n, mm, before, *got)
			for i := range *got {
				(*got)[i] = nil
			}
			mu.Unlock()
			res.Eval(len(batch) >= 2)
			// (4) a dispatch given up half way (its context ends while the workers are busy) must leave nothing behind: the next batch is
			//     delivered as if the abandoned one had never been
			if n >= 2 && rng.Intn(4) == 0 {
				mu.Lock()
				g := make(chan struct{})
				*holds[n] = g
				mu.Unlock()
				cctx, ccancel := context.WithCancel(ctx)
				lost := gostatsd.NewMetricMap(false)
				for k := 0; k < 40; k++ { // enough series to reach every shard; they are not part of any later batch
					lost.Receive(&gostatsd.Metric{Name: fmt.Sprintf("abandoned.%d", k), Type: gostatsd.COUNTER, Value: 1, Rate: 1, Tags: gostatsd.Tags{"k:v"}, Source: "10.9.9.9"})
				}
				done := make(chan struct{})
				go func() { h.DispatchMetricMap(cctx, lost); close(done) }()
				synctest.Wait()
				done2 := make(chan struct{})
				go func() { h.DispatchMetricMap(cctx, lost.Split(1)[0]); close(done2) }() // a second one queues behind the held workers
				synctest.Wait()
				ccancel()
				synctest.Wait()
				<-done2
				mu.Lock()
				close(g)
				*holds[n] = nil
				mu.Unlock()
				<-done
				synctest.Wait()
				mu.Lock()
				for i := range *got {
					(*got)[i] = nil
				}
				mu.Unlock()
				h.DispatchMetricMap(ctx, mm)
				synctest.Wait()
				mu.Lock()
				emit(n, mm, before, *got)
				for i := range *got {
					(*got)[i] = nil
				}
				mu.Unlock()
				res.Hit("dispatch-after-abandoned-dispatch")
			}
		}
		// (5) one name carrying many series: every split of the same batch files each series in the same shard
		for _, n := range []int{2, 3, 16} {
			wide := gostatsd.NewMetricMap(false)
			for k := 0; k < 300; k++ {
				wide.Receive(&gostatsd.Metric{Name: "wide", Type: gostatsd.COUNTER, Value: 1, Rate: 1, Tags: gostatsd.Tags{fmt.Sprintf("i:%d", k)}, Source: gostatsd.Source(fmt.Sprintf("10.1.%d.%d", k/200, k%200))})
				if k%3 == 0 {
					wide.Receive(&gostatsd.Metric{Name: "wide", Type: gostatsd.TIMER, Value: float64(k), Rate: 1, Tags: gostatsd.Tags{fmt.Sprintf("i:%d", k)}, Source: "10.1.0.1"})
				}
			}
			before := fakes.Render(wide)
			for rep := 0; rep < 3; rep++ {
				parts := wide.Split(n)
				shards := make([][]fakes.Series, len(parts))
				for i, p := range parts {
					shards[i] = fakes.Flatten(p)
				}
				emit(n, wide, before, shards)
			}
			res.Hit("wide-name")
		}
		err := vh.ReadCases(path, func(idx int, raw []byte) error {
			var c scase
			if err := json.Unmarshal(raw, &c); err != nil {
				return err
			}
			rng := vh.NewRng(seed, idx)
			for _, b := range c.Batches {
				run(c.N, b, rng)
			}
			if idx%997 == 1 {
				res.Sample(c)
			}
			return nil
		})
		if err != nil {
			t.Fatal(err)
		}
		// seeded random batches over the whole pool and larger shard counts (1..16)
		rng := vh.NewRng(seed, 424242)
		extra := 300
		if vh.Tier() == "thorough" {
			extra = 5000
		}
		for k := 0; k < extra; k++ {
			n := 1 + rng.Intn(16)
			var b []int
			for i := 1; i <= 4*len(variants); i++ {
				if rng.Intn(3) == 0 {
					b = append(b, i)
				}
			}
			if len(b) > 0 {
				run(n, b, rng)
			}
		}
		cancel()
		synctest.Wait()
	})
	res.Traces = tw.N
	res.Distinct = res.Evaluations
}
