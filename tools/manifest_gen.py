#!/usr/bin/env python3
"""Regenerates MANIFEST.json from tools/manifest_src.py (kept as python for comments and reuse)."""
import json, os, sys
sys.path.insert(0, os.path.dirname(os.path.abspath(__file__)))
import manifest_src as m
root = os.path.dirname(os.path.dirname(os.path.abspath(__file__)))
man = {
    "version": 1,
    "setup_cmd": "./check --setup",
    "hooks": m.HOOKS,
    "engines": m.ENGINES,
    "checks": [],
    "not_applicable": m.NOT_APPLICABLE,
    "notes": m.NOTES,
}
for pid, c in sorted(m.CHECKS.items()):
    man["checks"].append({
        "property_id": pid,
        "quick_cmd": "./check %s --tier quick" % pid,
        "thorough_cmd": "./check %s --tier thorough" % pid,
        "evidence_file": "evidence/%s.json" % pid,
        "replay_cmd_template": "./check %s --replay {path}" % pid,
        "engine": c.get("engine", "tlc+harness"),
        "level_claimed": {"category": c.get("category", "model_checking"), "text": c["text"], "design_ref": c["design_ref"]},
        "level_note": c["note"],
        "technique": c["technique"],
    })
json.dump(man, open(os.path.join(root, "MANIFEST.json"), "w"), indent=1)
print("MANIFEST.json: %d checks, %d not_applicable" % (len(man["checks"]), len(man["not_applicable"])))
