#!/bin/bash
# runall.sh <tier> <seed> <lanes> : every check, <lanes> at a time
tier=$1; seed=$2; lanes=${3:-3}
ls props | sed -n 's/^c\([0-9][0-9]\)\.py$/C\1/p' | xargs -P $lanes -I{} sh -c "VERIF_SEED=$seed ./check {} --tier $tier > /tmp/run-$tier-$seed-{}.log 2>&1; echo {} rc=\$? \$(grep -E '^(PASS|FAIL|MACHINERY)' /tmp/run-$tier-$seed-{}.log | tail -1)"
