"""Shared machinery for the /verif checks (python3 stdlib only).

Roles (DESIGN.md 2.2):
  R1 design check   tlc_check(...)      exhaustive BFS of a spec + cfg
  R2 generation     tlc_generate(...)   run a generator cfg, collect CASE lines (JSON) into a file
  R3 validation     tlc_validate(...)   run a *Trace.tla spec over an NDJSON trace file
Bindings:
  go_test(...)      build+run one harness test package against /repo's working tree (tag verif)
Verdicts:
  Ctx.violation / Ctx.finish -> prints VIOLATION / KNOWN-FINDING lines, writes evidence/<id>.json
Exit codes: 0 held, 1 violation observed on the real code, 2 machinery problem (never a VIOLATION line).
"""
import json
import os
import re
import shutil
import subprocess
import sys
import tempfile
import time

VERIF = os.path.dirname(os.path.dirname(os.path.abspath(__file__)))
REPO = os.environ.get("VERIF_REPO", "/repo")
SPEC = os.path.join(VERIF, "spec")
HARNESS = os.path.join(VERIF, "harness")
TLA_CP = "/opt/veriftools/tla/tla2tools.jar:/opt/veriftools/tla/CommunityModules-deps.jar"
GO = os.environ.get("VERIF_GO", "go1.26.8")
NCPU = os.cpu_count() or 4


class MachineryError(Exception):
    """Tool failure, timeout, vacuity: exit 2, never a violation."""


def go_env():
    e = dict(os.environ)
    e.update(GOFLAGS="-mod=mod", GOPROXY="off", GOSUMDB="off", GOTOOLCHAIN="local")
    return e


class TLCResult:
    def __init__(self):
        self.ok = False          # finished without violation or error
        self.violated = None     # name of violated invariant / property, if any
        self.error = None        # tool-level error text
        self.generated = 0
        self.distinct = 0
        self.depth = 0
        self.output = ""
        self.wall = 0.0
        self.coverage = {}       # action name -> count (when -coverage)
        self.trace = []          # counterexample states (text)


def _parse_tlc(out, res):
    m = None
    for m in re.finditer(r"(\d+) states generated, (\d+) distinct states found", out):
        pass
    if m:
        res.generated, res.distinct = int(m.group(1)), int(m.group(2))
    m = re.search(r"The depth of the complete state graph search is (\d+)", out)
    if m:
        res.depth = int(m.group(1))
    m = re.search(r"Invariant (\S+) is violated", out)
    if m:
        res.violated = m.group(1)
    m2 = re.search(r"Action property (\S+) is violated|Temporal properties were violated|property (\S+) is violated|Temporal property (\S+) was violated", out)
    if m2 and not res.violated:
        res.violated = m2.group(1) or m2.group(2) or m2.group(3) or "temporal"
    mc = re.search(r"The invariant of (\S+) is equal to FALSE", out)
    if mc and not res.violated:
        res.violated = mc.group(1)
    if "Deadlock reached" in out and not res.violated:
        res.violated = "Deadlock"
    if re.search(r"Error: (?!Invariant|Action property|Temporal|Deadlock|The behavior up to)", out) and not res.violated:
        em = re.search(r"Error: (.*)", out)
        # "Error: The behavior up to this point is:" accompanies a violation; others are tool errors
        if em and "behavior up to" not in em.group(1) and "is equal to FALSE" not in em.group(1):
            res.error = em.group(1)[:500]
    for cm in re.finditer(r"^<(\w+) line \d+, col \d+ to line \d+, col \d+ of module (\w+)>: (\d+):(\d+)", out, re.M):
        res.coverage[cm.group(2) + "!" + cm.group(1)] = int(cm.group(4))
    res.ok = ("Model checking completed. No error has been found." in out or
              ("Finished in" in out and not res.violated and not res.error and "Error:" not in out))
    if res.violated or res.error:
        res.ok = False


class Ctx:
    def __init__(self, prop, tier, seed):
        self.prop = prop
        self.tier = tier
        self.seed = seed
        self.t0 = time.time()
        self.scratch = tempfile.mkdtemp(prefix="verif-%s-" % prop)
        self.cov = {"states": 0, "transitions": 0, "traces_validated_against_impl": 0,
                    "samples": [], "evaluations": 0, "distinct_nontrivial": 0, "rule": "",
                    "exhaustive": False, "tlc_runs": [], "named_situations": {}, "notes": []}
        self.assumptions = []
        self.violations = []      # (signature, replay_path, description)
        self.known_hits = []
        self.machinery_errors = []
        self._spec_ready = False

    # ------------------------------------------------------------------ scratch spec copy
    def specdir(self):
        d = os.path.join(self.scratch, "spec")
        if not self._spec_ready:
            os.makedirs(d, exist_ok=True)
            for f in os.listdir(SPEC):
                p = os.path.join(SPEC, f)
                if os.path.isfile(p):
                    shutil.copy(p, d)
            cfgd = os.path.join(SPEC, "cfg")
            for f in os.listdir(cfgd):
                shutil.copy(os.path.join(cfgd, f), d)
            self._spec_ready = True
        return d

    def write_cfg(self, name, text):
        """Write a (parameterised) cfg into the scratch spec dir; returns its file name."""
        with open(os.path.join(self.specdir(), name), "w") as fh:
            fh.write(text)
        return name

    def path(self, name):
        return os.path.join(self.scratch, name)

    # ------------------------------------------------------------------ TLC
    def tlc(self, module, cfg, workers=None, simulate=None, depth=None, timeout=900, coverage=False,
            dfid=None, heap=None, extra=None, stdout_to=None, deadlock=True, seed=None, props=None, queue_dfs=False):
        d = self.specdir()
        meta = tempfile.mkdtemp(prefix="meta-", dir=self.scratch)
        java = ["java", "-XX:+UseParallelGC", "-Xss64m", "-Djava.io.tmpdir=%s" % meta]   # TLC's own temporary directories go with the scratch
        if heap:
            java.append("-Xmx%s" % heap)
        if queue_dfs:
            java.append("-Dtlc2.tool.queue.IStateQueue=StateDeque")
        for k, v in (props or {}).items():
            java.append("-D%s=%s" % (k, v))
        cmd = java + ["-cp", TLA_CP, "tlc2.TLC", "-metadir", meta, "-config", cfg,
                      "-workers", str(workers or "auto"), "-noGenerateSpecTE"]
        if not deadlock:
            cmd.append("-deadlock")
        if coverage:
            cmd += ["-coverage", "1"]
        if simulate:
            cmd += ["-simulate", simulate]
            if depth:
                cmd += ["-depth", str(depth)]
            cmd += ["-seed", str(seed if seed is not None else self.seed)]
        if dfid:
            cmd += ["-dfid", str(dfid)]
        cmd += (extra or [])
        cmd.append(module)
        res = TLCResult()
        t = time.time()
        try:
            if stdout_to:
                with open(stdout_to, "w") as fh:
                    p = subprocess.run(cmd, cwd=d, stdout=fh, stderr=subprocess.STDOUT, timeout=timeout)
                # keep only non-CASE lines in memory
                keep = []
                with open(stdout_to, errors="replace") as fh:
                    for line in fh:
                        if not line.startswith('<<"CASE"'):
                            keep.append(line)
                out = "".join(keep)
            else:
                p = subprocess.run(cmd, cwd=d, stdout=subprocess.PIPE, stderr=subprocess.STDOUT, timeout=timeout)
                out = p.stdout.decode(errors="replace")
            res.returncode = p.returncode
        except subprocess.TimeoutExpired:
            subprocess.run(["pkill", "-f", meta], check=False)
            res.error = "timeout after %ds" % timeout
            res.wall = time.time() - t
            shutil.rmtree(meta, ignore_errors=True)
            return res
        res.wall = time.time() - t
        res.output = out
        _parse_tlc(out, res)
        shutil.rmtree(meta, ignore_errors=True)
        return res

    def tlc_check(self, module, cfg, label=None, must_pass=True, **kw):
        """R1: exhaustive design check. Adds states/transitions to the evidence."""
        r = self.tlc(module, cfg, **kw)
        self.cov["tlc_runs"].append({"role": "R1", "module": module, "cfg": cfg, "generated": r.generated,
                                     "distinct": r.distinct, "depth": r.depth, "ok": r.ok,
                                     "violated": r.violated, "wall_s": round(r.wall, 1), "label": label or ""})
        if r.error:
            raise MachineryError("TLC %s/%s: %s\n%s" % (module, cfg, r.error, r.output[-3000:]))
        if must_pass and not r.ok:
            # the I-level models today's code; a model counterexample is a machinery discrepancy unless reproduced (2.5)
            raise MachineryError("R1 design check %s/%s failed (%s) -- model discrepancy, not a code verdict\n%s"
                                 % (module, cfg, r.violated, r.output[-4000:]))
        self.cov["states"] += r.distinct
        self.cov["transitions"] += r.generated
        return r

    def tlc_generate(self, module, cfg, outfile, label=None, **kw):
        """R2: run a generator spec; CASE lines (PrintT(<<"CASE", json>>)) are written to outfile as NDJSON."""
        raw = outfile + ".raw"
        r = self.tlc(module, cfg, stdout_to=raw, **kw)
        n = 0
        seen = set()
        with open(raw, errors="replace") as fh, open(outfile, "w") as out:
            for line in fh:
                if line.startswith('<<"CASE", "'):
                    seen.add(hash(line))
                    s = line.rstrip("\n")
                    s = s[len('<<"CASE", "'):]
                    if s.endswith('">>'):
                        s = s[:-3]
                    s = s.replace('\\"', '"').replace("\\\\", "\\")
                    out.write(s + "\n")
                    n += 1
        os.unlink(raw)
        self.cov["tlc_runs"].append({"role": "R2", "module": module, "cfg": cfg, "generated": r.generated,
                                     "distinct": r.distinct, "cases": n, "distinct_cases": len(seen), "ok": r.ok, "violated": r.violated,
                                     "wall_s": round(r.wall, 1), "label": label or ""})
        if r.error:
            raise MachineryError("TLC generate %s/%s: %s\n%s" % (module, cfg, r.error, r.output[-3000:]))
        if r.violated:
            raise MachineryError("generator %s/%s: spec-level invariant %s violated (I-level disagrees with P-level)\n%s"
                                 % (module, cfg, r.violated, r.output[-4000:]))
        if kw.get("simulate") and n >= 500 and len(seen) * 50 < n:
            # round 6: a seeded simulation whose random choice was a cached constant produced one filter 40 000 times
            raise MachineryError("generator %s/%s is degenerate: %d cases, %d distinct" % (module, cfg, n, len(seen)))
        if n == 0:
            raise MachineryError("generator %s/%s produced no cases\n%s" % (module, cfg, r.output[-2000:]))
        self.cov["states"] += r.distinct
        self.cov["transitions"] += r.generated
        return n

    def tlc_validate(self, module, cfg, tracefile, nlines, label=None, timeout=900, consts=None):
        """R3: validate an NDJSON trace against a trace spec. The trace spec reads env var VERIF_TRACE via
        IOEnv (CommunityModules) and must set TLCSet(1, highwater). Returns (accepted, violated_invariant, result)."""
        os.environ["VERIF_TRACE"] = tracefile
        r = self.tlc(module, cfg, workers=1, timeout=timeout, deadlock=False)
        self.cov["tlc_runs"].append({"role": "R3", "module": module, "cfg": cfg, "generated": r.generated,
                                     "distinct": r.distinct, "ok": r.ok, "violated": r.violated,
                                     "lines": nlines, "wall_s": round(r.wall, 1), "label": label or ""})
        r.accepted = r.ok and "Postcondition" not in r.output
        m = None
        for m in re.finditer(r'/\\ bad = "([^"]*)"', r.output):
            pass
        r.bad = m.group(1) if m else ""
        m = None
        for m in re.finditer(r"/\\ l = (\d+)", r.output):
            pass
        r.line = int(m.group(1)) - 1 if m else 0
        if r.error and "Postcondition" not in (r.error or ""):
            raise MachineryError("TLC validate %s/%s: %s\n%s" % (module, cfg, r.error, r.output[-3000:]))
        if not r.violated and not r.accepted:
            raise MachineryError("trace %s not consumed to the end by %s (matched prefix shorter than the trace)\n%s"
                                 % (tracefile, module, r.output[-2000:]))
        return r

    # ------------------------------------------------------------------ Go harness
    def go_test(self, pkg, run=None, env=None, timeout=1500, tags="verif", race=False, extra=None):
        e = go_env()
        e.update({"VERIF_SEED": str(self.seed), "VERIF_TIER": self.tier, "VERIF_SCRATCH": self.scratch})
        e.update(env or {})
        ensure_gosum()
        cmd = [GO, "test", "-tags", tags, "-count=1", "-vet=off", "-timeout", "%ds" % timeout]
        if race:
            cmd.append("-race")
        if run:
            cmd += ["-run", run]
        cmd += (extra or [])
        cmd.append("./" + pkg)
        t = time.time()
        try:
            p = subprocess.run(cmd, cwd=HARNESS, env=e, stdout=subprocess.PIPE, stderr=subprocess.STDOUT,
                               timeout=timeout + 120)
        except subprocess.TimeoutExpired:
            raise MachineryError("go test %s timed out" % pkg)
        out = p.stdout.decode(errors="replace")
        return p.returncode, out, time.time() - t

    # ------------------------------------------------------------------ verdicts
    def violation(self, signature, replay_path, description):
        self.violations.append((signature, replay_path, description))

    def note(self, s):
        self.cov["notes"].append(s)

    def finish(self, level="model_checking", exit_on_done=True):
        known = load_known()
        rc = 0
        reported = 0
        for sig, path, desc in self.violations:
            k = match_known(known, self.prop, sig)
            if k is not None:
                self.known_hits.append(k["signature"])
                continue
            reported += 1
            if reported <= 5:
                print("VIOLATION property=%s replay=%s" % (self.prop, path))
                print("  " + desc.replace("\n", "\n  ")[:3000])
            rc = 1
        for s in sorted(set(self.known_hits)):
            print("KNOWN-FINDING: property=%s %s" % (self.prop, s))
        ev = {
            "property_id": self.prop, "tier": self.tier, "seed": self.seed, "level": level,
            "coverage": self.cov, "assumptions": self.assumptions,
            "wall_s": round(time.time() - self.t0, 2), "violations": reported,
        }
        self.cov["known_findings_hit"] = sorted(set(self.known_hits))
        self.cov.setdefault("checker_cmd", "./check %s --tier %s" % (self.prop, self.tier))
        self.cov.setdefault("trusted_base", ["TLC 1.8.0 (tla2tools)", "go1.26.8 testing/synctest",
                                             "harness fakes under /verif/harness", "tools/vlib.py"])
        if not self.cov["samples"]:
            self.cov["samples"] = ["(none recorded)"]
        os.makedirs(os.path.join(VERIF, "evidence"), exist_ok=True)
        with open(os.path.join(VERIF, "evidence", "%s.json" % self.prop), "w") as fh:
            json.dump(ev, fh, indent=1, sort_keys=True, default=str)
            fh.write("\n")
        shutil.rmtree(self.scratch, ignore_errors=True)
        print("%s %s tier=%s seed=%d states=%d transitions=%d impl_traces=%d evaluations=%d wall=%.1fs" % (
            "FAIL" if rc else "PASS", self.prop, self.tier, self.seed, self.cov["states"], self.cov["transitions"],
            self.cov["traces_validated_against_impl"], self.cov["evaluations"], time.time() - self.t0))
        return rc

    def save_replay(self, name, obj):
        d = os.path.join(VERIF, "replays")
        os.makedirs(d, exist_ok=True)
        p = os.path.join(d, "%s-%s-%d-%s.json" % (self.prop, self.tier, self.seed, name))
        with open(p, "w") as fh:
            json.dump(obj, fh, indent=1, default=str)
        return p


def crash_attribution(out):
    """A harness test binary that died: returns (kind, excerpt) when the goroutine that was running at the time of the
    fatal error / panic was executing gostatsd code (its stack has a github.com/atlassian/gostatsd frame above any
    harness frame), else None. Used only by properties whose statement is crash-freedom."""
    m = re.search(r"^(fatal error: .*|panic: .*)$", out, re.M)
    if not m:
        return None
    rest = out[m.start():]
    g = re.search(r"^goroutine \d+ [^\n]*\[running\]:\n((?:.*\n){1,80})", rest, re.M)
    stack = g.group(1) if g else rest[:6000]
    for line in stack.splitlines():
        if "verifharness/" in line:
            return None
        if "github.com/atlassian/gostatsd" in line:
            return (m.group(1).strip(), rest[:4000])
    return None


_gosum_done = False


def ensure_gosum():
    """The harness module resolves gostatsd's dependencies through /repo's go.sum (kept in sync here)."""
    global _gosum_done
    if _gosum_done:
        return
    src = os.path.join(REPO, "go.sum")
    dst = os.path.join(HARNESS, "go.sum")
    extra = os.path.join(HARNESS, "go.sum.extra")
    data = open(src).read()
    if os.path.exists(extra):
        data += open(extra).read()
    old = open(dst).read() if os.path.exists(dst) else ""
    if set(old.splitlines()) < set(data.splitlines()) or not old:
        with open(dst, "w") as fh:
            fh.write(data)
    _gosum_done = True


def load_known():
    p = os.path.join(VERIF, "known_findings.json")
    if not os.path.exists(p):
        return []
    return json.load(open(p)).get("findings", [])


def match_known(known, prop, sig):
    for k in known:
        if k.get("property") == prop and k.get("status") == "known" and re.search(k["match"], sig):
            return k
    return None


def read_ndjson(path):
    out = []
    with open(path) as fh:
        for line in fh:
            line = line.strip()
            if line:
                out.append(json.loads(line))
    return out


def read_results(path):
    """Result file written by a harness test: one JSON object."""
    with open(path) as fh:
        return json.load(fh)
