#!/usr/bin/env python3
"""Entry point of every registered check: ./check <Cxx> --tier quick|thorough [--replay path]."""
import argparse
import importlib
import os
import subprocess
import sys
import traceback

sys.path.insert(0, os.path.dirname(os.path.abspath(__file__)))
sys.path.insert(0, os.path.join(os.path.dirname(os.path.dirname(os.path.abspath(__file__))), "props"))
import vlib  # noqa: E402


def setup():
    rc = 0
    for tool in (["java", "-version"], [vlib.GO, "version"], ["python3", "--version"]):
        try:
            subprocess.run(tool, stdout=subprocess.DEVNULL, stderr=subprocess.DEVNULL, check=True)
        except Exception as e:  # pragma: no cover
            print("setup: missing tool %s: %s" % (tool[0], e))
            rc = 2
    # parse every spec module
    ctx = vlib.Ctx("setup", "quick", 0)
    d = ctx.specdir()
    bad = 0
    for f in sorted(os.listdir(d)):
        if f.endswith(".tla"):
            p = subprocess.run(["java", "-cp", vlib.TLA_CP, "tla2sany.SANY", f], cwd=d,
                               stdout=subprocess.PIPE, stderr=subprocess.STDOUT)
            out = p.stdout.decode(errors="replace")
            if p.returncode != 0 or "error" in out.lower().replace("semantic errors:\n\n", ""):
                if "Semantic processing of module" not in out or "rror" in out.split("Semantic processing")[0]:
                    print("setup: SANY problem in %s\n%s" % (f, out[-1500:]))
                    bad += 1
    import shutil
    shutil.rmtree(ctx.scratch, ignore_errors=True)
    if bad:
        rc = 2
    # warm the Go build cache: compile every harness test binary
    vlib.ensure_gosum()
    p = subprocess.run([vlib.GO, "test", "-tags", "verif", "-count=1", "-vet=off", "-run", "^$", "./..."],
                       cwd=vlib.HARNESS, env=vlib.go_env())
    if p.returncode != 0:
        rc = 2
    print("setup %s" % ("ok" if rc == 0 else "FAILED"))
    return rc


def main():
    ap = argparse.ArgumentParser()
    ap.add_argument("prop", nargs="?")
    ap.add_argument("--tier", default=os.environ.get("VERIF_TIER", "quick"))
    ap.add_argument("--replay")
    ap.add_argument("--setup", action="store_true")
    a = ap.parse_args()
    if a.setup:
        sys.exit(setup())
    if not a.prop:
        ap.error("property id required")
    if a.tier not in ("quick", "thorough"):
        a.tier = "quick"
    seed = int(os.environ.get("VERIF_SEED", "1") or "1")
    mod = importlib.import_module(a.prop.lower())
    ctx = vlib.Ctx(a.prop, a.tier, seed)
    try:
        if a.replay:
            rc = mod.replay(ctx, a.replay)
        else:
            mod.run(ctx)
            rc = ctx.finish(level=getattr(mod, "LEVEL", "model_checking"))
    except vlib.MachineryError as e:
        print("MACHINERY-ERROR %s: %s" % (a.prop, e))
        import shutil
        shutil.rmtree(ctx.scratch, ignore_errors=True)
        sys.exit(2)
    except Exception:
        traceback.print_exc()
        import shutil
        shutil.rmtree(ctx.scratch, ignore_errors=True)
        sys.exit(2)
    sys.exit(rc)


if __name__ == "__main__":
    main()
