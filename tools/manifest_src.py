HOOKS = {
    "guard": "verif",
    "enable": "go1.26.8 test -tags verif (harness module /verif/harness, replace github.com/atlassian/gostatsd => /repo)",
    "baseline_off_cmd": "cd /repo && go test -mod=mod -vet=off -count=1 -timeout 25m ./...",
    "source_commits": ["0b9c779"],
    "add_only": True,
}
ENGINES = [
    {"name": "tlc+harness", "path": "check", "serves_properties": [],
     "kind_free_text": "TLA+ specs under spec/ checked and enumerated by TLC (R1 design check, R2 case/schedule generation, "
                       "R3 trace validation); Go harness under harness/ replays TLC's cases into the real code and records traces"},
]
NOTES = ("Technique: explicit TLA+ specification + TLC, bound to the code by replaying TLC-generated cases/schedules into the "
         "real packages and validating recorded traces against P-level monitors. See DESIGN.md.")
ALL = ["C%02d" % i for i in range(1, 21)]
CHECKS = {
    "C02": {
        "text": "Grammar.tla (documented grammar, declarative) and Lexer.tla (the Go lexer as a transducer) are shown equal by TLC on "
                "every token string the automaton can read up to the bound; every such string is then run through the real lexer and "
                "compared field by field with the P-level expectation.",
        "design_ref": "6/C02",
        "note": "numeric judgements are strconv's, evaluated on the concrete field; byte classes are sampled by seeded substitution; "
                "strings longer than the bound are reached by random walks only",
        "technique": "TLC-enumerated token strings (I-level = P-level invariant) replayed into the real lexer",
    },
}
NOT_APPLICABLE = [{"property_id": p, "reason": "check not built yet (build in progress; see DESIGN.md Appendix B for the order)"}
                  for p in ALL if p not in CHECKS]
ENGINES[0]["serves_properties"] = sorted(CHECKS)
