HOOKS = {
    "guard": "verif",
    "enable": "go1.26.8 test -tags verif (harness module /verif/harness, replace github.com/atlassian/gostatsd => /repo)",
    "baseline_off_cmd": "cd /repo && go test -mod=mod -vet=off -count=1 -timeout 25m ./...",
    "source_commits": ["0b9c779", "179e9e2", "dd29a2f", "7102c18"],
    "add_only": True,
}
ENGINES = [
    {"name": "tlc+harness", "path": "check", "serves_properties": [],
     "kind_free_text": "TLA+ specs under spec/ checked and enumerated by TLC (R1 design check, R2 case/schedule generation, "
                       "R3 trace validation); Go harness under harness/ replays TLC's cases into the real code and records traces"},
]
NOTES = ("Technique: explicit TLA+ specification + TLC, bound to the code by replaying TLC-generated cases/schedules into the "
         "real packages and validating recorded traces against P-level monitors. See DESIGN.md.")
ALL = ["C%02d" % i for i in range(1, 21)]
CHECKS = {
    "C02": {
        "text": "Grammar.tla (documented grammar, declarative) and Lexer.tla (the Go lexer as a transducer) are shown equal by TLC on "
                "every token string the automaton can read up to the bound; every such string is then run through the real lexer and "
                "compared field by field with the P-level expectation.",
        "design_ref": "6/C02",
        "note": "numeric judgements are strconv's, evaluated on the concrete field; byte classes are sampled by seeded substitution; "
                "strings longer than the bound are reached by random walks only",
        "technique": "TLC-enumerated token strings (I-level = P-level invariant) replayed into the real lexer",
    },
}
CHECKS["C03"] = {
    "text": "Every token string the lexer automaton can read (incl. event headers whose declared lengths sit at 2^32-k, 2^32, 2^63, "
            "2^64) is run through the real lexer under recover() and, embedded in datagrams, through a real DatagramParser goroutine "
            "(must survive, count the bad line, still parse the neighbour line); TLC-enumerated sequences of ingestion requests "
            "(endpoint x encoding x body class) with seeded corruptions go through the real router. EventBodyWrap.tla checks the "
            "slice arithmetic of lexEventBody on a scaled machine word.",
    "design_ref": "6/C03",
    "note": "inputs are enumerated per byte class / body class and concretised by seed; resource exhaustion (decompression bombs) is "
            "not a crash in the property's sense; net/http's own panic recovery is bypassed (router called directly)",
    "technique": "TLC-enumerated inputs and request sequences replayed into lexer, DatagramParser and ingestion router under recover()",
}
CHECKS["C05"] = {
    "text": "Datagram.tla states parsing a datagram as the concatenation of its lines (P-level) and models the Go loop and the "
            "MetricMap.Receive fold (I-level); TLC shows them equal for all datagrams of <= MaxLines pool lines and prints each with "
            "its expected batch; the real DatagramParser must dispatch exactly that batch, count exactly the rejected lines, and its "
            "output must not change when the buffer is overwritten or the next datagram is parsed.",
    "design_ref": "6/C05",
    "note": "lines are drawn from a 20-line pool tied to Grammar.tla by PoolAgreesWithGrammar; trunc(value/rate) weights of the pool "
            "are declared in the spec; tag order inside a series is not compared (the statement speaks of sets after parsing)",
    "technique": "TLC-enumerated datagrams (I-level loop = P-level homomorphism) replayed into the real DatagramParser in a synctest bubble",
}
CHECKS["C06"] = {
    "text": "MetricMap.tla states the partition law (IsPartition) and TLC checks the I-level split against it for every bucket function; "
            "the real MetricMap.Split and BackendHandler.DispatchMetricMap are then driven with TLC-enumerated batch structures and "
            "their recorded outputs are judged by the PartitionProp monitor through TLC trace validation (route learned on first sight; "
            "one shard per series; union equals batch; values untouched).",
    "design_ref": "6/C06",
    "note": "the hash itself is opaque: only consistency of the observed routing is checked; end-to-end 'same aggregator, once per flush' "
            "is asserted on C01's traces by the same monitor operator PReport; two recorded findings (known_findings.json: distinct "
            "(tag set, source) pairs that spell the same tags key string are one series to MetricMap) are reported as KNOWN-FINDING lines",
    "technique": "TLC trace validation of recorded Split/dispatch results against a P-level partition monitor",
}
CHECKS["C07"] = {
    "text": "TLC proves on the I-level Merge that every ordered binary merge tree over every bounded family of maps evaluates into the "
            "canonical aggregate (MergeLaw), and prints each family with that aggregate; the harness runs every tree through "
            "MetricMap.Merge and every permutation through MergeMaps, the consolidator and the aggregator and compares.",
    "design_ref": "6/C07",
    "note": "values and timestamps from small domains incl. ties; tag stage and cloud stage merges are exercised under C10 / C11; "
            "concurrent slot assignment under C15",
    "technique": "TLC-enumerated map families with canonical aggregate (MergeLaw invariant) replayed through all merge implementations",
}
CHECKS["C08"] = {
    "text": "TimerStats.tla gives the statistics declaratively over exact integers/fractions and transcribes Flush's index arithmetic "
            "with bounds predicates; TLC shows transcription = statement for every value bag up to the bound, 12 percentiles of both "
            "signs, and every bucket-tag x limit; each case is fed to the real aggregator in seeded arrival order / batching and every "
            "Timer field, the percentile list and the histogram are compared.",
    "design_ref": "6/C08",
    "note": "small integer values (rank/selection/case logic, not floating-point conditioning); both ranks accepted at an exact .5",
    "technique": "TLC-enumerated value bags with declarative expected statistics replayed into MetricAggregator.Flush",
}
CHECKS["C09"] = {
    "text": "Aggregator.tla keeps the statement's (last datapoint time, gone) bookkeeping next to the code-shaped map entries with "
            "timestamps and Reset's expiry test; TLC shows equal reports for every history of datapoint / advance / flush up to the bound "
            "under mixed negative / zero / positive expiries, and every history is replayed into the real aggregator under virtual time, "
            "comparing the reported series set and values after every flush.",
    "design_ref": "6/C09",
    "note": "time advances in whole units so that now - T = expiry exactly is exercised; same-instant gauge datapoints may resolve either way",
    "technique": "TLC-enumerated operation histories with per-flush expected reports replayed under testing/synctest virtual time",
}
CHECKS["C10"] = {
    "text": "TagStage.tla gives the filter / static-tag / de-duplication rules declaratively and models the ordered loop with its early "
            "exits, the dropTags map and the in-place swap-remove; TLC shows them equal for every single filter over the small pattern "
            "pool, every pair of name-agnostic filters, and seeded triples over the full pool; each case runs through a real TagHandler "
            "(fresh, and after a prelude of other metrics) in all four metric types; coinciding series are checked with the MCMerge "
            "families through the stage's collision merge.",
    "design_ref": "6/C10",
    "note": "strings over a three-letter alphabet; regexes limited to prefix / suffix / infix forms whose meaning is definable in TLA+",
    "technique": "TLC-enumerated filter configurations x metrics with declarative expected output replayed into TagHandler",
}
CHECKS["C01"] = {
    "text": "Pipeline.tla models parsers, per-shard queues, workers and the flusher hand-over as separate steps and is composed with the "
            "ConservationProp monitor: TLC checks conservation as an inductive invariant over every interleaving of small instances "
            "(and refutes a design that resets in a second round). TLC-generated stimulus schedules (offers, ticks, gates at "
            "ReceiveMap / Flush / before Reset / backend callback) then drive the real parser -> tag stage -> BackendHandler -> "
            "aggregators -> flusher chain under virtual time, and the recorded trace is validated by TLC against the monitor: every "
            "datapoint id offered is reported in exactly one flush, nothing phantom, no series twice in a flush, same aggregator.",
    "design_ref": "6/C01",
    "note": "interleavings of the real code are steered through gates at the Aggregator and Backend seams plus quiescence waits; "
            "goroutine interleavings inside a window are whatever the Go scheduler does; shutdown excluded as in the statement",
    "technique": "TLC design check of the pipeline model + TLC trace validation of real executions driven by TLC-generated schedules",
}
CHECKS["C11"] = {
    "text": "CloudHandler.tla models every select arm of CloudHandler.Run, the parking queues, the lookup hand-off and the gauges (as "
            "integers, so the uint64 underflow shows) and is composed with the EnrichProp monitor written from the statement; TLC checks "
            "all interleavings of 2 sources x <= 5 arrivals and refutes the pre-fix gauge accounting. TLC-enumerated stimulus schedules "
            "(arrivals, service takes / answers pos | pos-without-tags | neg, emit, next handler held / released, cache eviction) drive "
            "the real CloudHandler under synctest; the recorded trace is validated by TLC against the monitor.",
    "design_ref": "6/C11",
    "note": "the instance cache is owned by the driver, so the hit class of every arrival is known exactly; 'immediately' is checked "
            "at quiescence points (settle) of the bubble",
    "technique": "TLC design check of the cloud-stage model + TLC trace validation of real executions driven by TLC-enumerated schedules",
}
CHECKS["C04"] = {
    "text": "TLC checks the index arithmetic of Flush (TimerStats.tla IndexSafe) and the shape preconditions of every payload builder "
            "against the shapes the aggregator can produce (BackendShapes.tla), refuting the code as found; the TLC-enumerated value "
            "bags / histories are then replayed into the real aggregator under recover(), and every flushed map -- also the flush of a "
            "persisted idle series -- is handed to all 18 backend variants over in-memory transports under 5 sub-metric masks and small "
            "batch sizes: no panic anywhere, one completion callback each.",
    "design_ref": "6/C04",
    "note": "n <= 5 values, <= 3 buckets; backends built through their real NewClientFromViper with scripted transports "
            "(cloudwatch through the package's client interface); a test process killed inside gostatsd code is attributed to C04",
    "technique": "TLC shape/index invariants + TLC-enumerated aggregate states replayed through aggregator and all backend payload builders",
}
CHECKS["C18"] = {
    "text": "AlignedTicker.tla models the ticker goroutine's two phases, the mock clock's firing rule, the capacity-1 non-blocking "
            "send and the flusher's lastFlush arithmetic over integer time, composed with the AlignedProp monitor (aligned, not in the "
            "future, increasing, first within one interval of start-up, later deltas positive multiples); TLC checks every interleaving "
            "of clock jumps and goroutine steps for several (interval, offset, start) and refutes a round-up variant. TLC-generated "
            "schedules drive the real AlignedTicker on a jumping mock clock and the real MetricFlusher (smooth and mock clock); TLC "
            "validates the recorded traces.",
    "design_ref": "6/C18",
    "note": "start-up is the instant the ticker reads the clock; on the mock clock only tick values / elapsed times are meaningful, the "
            "clock reading at the invocation is compared only when time moves without jumps",
    "technique": "TLC design check of the ticker model + TLC trace validation of real ticker / flusher runs under TLC-generated clock schedules",
}
CHECKS["C13"] = {
    "text": "K8sProvider.tla states the answer as CurrentPod(ip) and models the informer index, the memo cache and invalidation by the old "
            "pod version; TLC checks NoStale / AnswersCurrent over every history up to the bound (IP reuse by a new pod while a finished "
            "pod still carries it included). Every history ending in a lookup is replayed into the real provider fed by client-go's fake "
            "clientset and watcher in a synctest bubble; each Peek and each IpSink/InfoSource answer is compared with CurrentPod and the "
            "tags of its current version under three regex configurations.",
    "design_ref": "6/C13",
    "note": "sequential histories only; label/annotation content abstracted to a version number mapped to fixed key sets that cover the "
            "key classes of the tag-name rule",
    "technique": "TLC-enumerated pod histories with expected lookups replayed into the real provider over client-go fakes",
}
CHECKS["C12"] = {
    "text": "InstanceCache.tla models the Run loop, handleInstanceInfo, doRefresh, Peek and the lookup dispatcher's batches over integer "
            "time and is composed with the CacheProp monitor (abstract cache from the statement: one answer per queried source, KeepGood, "
            "last-use, eviction and re-query at refresh ticks, gauges); TLC checks all interleavings of small instances and refutes a "
            "forget-on-error variant. TLC-enumerated schedules (submissions, peeks, clock advances across refresh / TTL / idle "
            "boundaries, provider outcomes full / partial / empty / error / error+partial, batch limits 1 / 2 / 10) drive the real "
            "CachedCloudProvider under virtual time; TLC validates the recorded traces against the monitor. One further recorded run lets "
            "several goroutines read the cache at the very tick at which the entries have become idle (not judged) and then holds the "
            "final gauges and reads against the abstract cache.",
    "design_ref": "6/C12",
    "note": "clients read InfoSource promptly (the monitor dates an entry by its answer); whole-second times; how sources are grouped "
            "into provider calls is not constrained",
    "technique": "TLC design check of the cache model + TLC trace validation of real executions under TLC-enumerated schedules and virtual time",
}
CHECKS["C14"] = {
    "text": "Codec.tla writes the forwarder -> protobuf -> ingestion translation tables as record transformations (round trip = identity "
            "minus timestamps, checked by TLC) and enumerates the structure of maps and events x compression type x level; each case is "
            "pushed through the real forwarder, an in-memory RoundTripper and the real ingestion router and compared; certainly-unreadable "
            "bodies (truncated zlib, bad prefix, unknown encoding, broken adler32 trailer) and the HttpIngest request classes must be "
            "answered >= 400 and dispatch nothing; two bodies alive at once (retry overlap) must both arrive as given.",
    "design_ref": "6/C14",
    "note": "model-generated round-trip testing: TLC proves nothing about protobuf, zlib or lz4; valid UTF-8 only, as the quantifier says",
    "technique": "TLC-enumerated structural cases round-tripped through the real forwarder and the real ingestion endpoint",
}
CHECKS["C15"] = {
    "text": "Forwarder.tla models the consolidator's slot channel (take / merge / put, Drain, hand-over, Fill), request tokens and the retry "
            "give-up rule, composed with the DeliveryProp monitor and a conservation invariant; TLC checks all interleavings of small "
            "instances (also with Fill before the hand-over) and refutes a short Drain. TLC-generated schedules over 64 configurations "
            "drive the real forwarder against a scripted upstream under virtual time (manual flush through the real coordinator or timer); "
            "a real-time stress run adds genuine goroutine concurrency; TLC validates all traces: every datapoint in exactly one distinct "
            "body, resend only after failure and within the window, abandonment only after the window and counted once, header "
            "partition, nothing lost -- also with tags that are not valid UTF-8.",
    "design_ref": "6/C15",
    "note": "observer times are whole milliseconds, so the window clauses leave a 1 ms band undecided; inside the bubble dispatches are "
            "sequential per step, concurrency comes from the I-level check and the stress run",
    "technique": "TLC design check of consolidator+forwarder + TLC trace validation of scheduled (virtual time) and stressed (real time) runs",
}
CHECKS["C16"] = {
    "text": "Sender.tla models the socket sender's Run / innerRun / cleanup label by label (with the variables sink, streamCancel, stream, "
            "errs kept by name), composed with the CompletionProp monitor: TLC checks every interleaving of 3-4 streams, 2 streams per "
            "connection and <= 4 faults, and refutes the code as found (nil dereference; overwritten stream never answered). "
            "TLC-generated fault schedules drive the real sender and 13 real backend variants (otlp also with the retry budget alone, "
            "max_request_elapsed_time 0) over in-memory transports under virtual "
            "time; TLC validates the traces: one callback per request, with an error whenever a batch did not get through, no panic, "
            "answered by the end of the retry window, and a further request with a fresh context is answered after recovery.",
    "design_ref": "6/C16",
    "note": "HTTP backends are not modelled at I-level (their batch goroutine / collector structure is exercised by the schedules only); the "
            "real MetricFlusher on top is covered by C01/C04 (healthy transport) and by the fresh request of the epilogue here",
    "technique": "TLC design check of the sender model + TLC trace validation of real sender/backends under TLC-generated fault schedules",
}
CHECKS["C19"] = {
    "text": "EventPipeline.tla models the cloud stage's wait group (incremented before parking, decremented after forwarding), the backend "
            "stage's wait group (+B per event), the event semaphore and WaitForEvents as cloud-wait-then-backend-wait, composed with the "
            "EventProp monitor (offered => accepted, at most once per backend, fields, delivered with a live context, WaitForEvents sound); "
            "TLC checks every interleaving for 3-4 events and refutes the swapped wait order. TLC-generated configurations x stimulus "
            "schedules (event lines with their documented fields from Grammar!PLine, cache hit / miss / pending lookups, held backends, "
            "HTTP-ingested events whose request context is cancelled on return, forwarder mode) drive the real parser -> cloud -> tag -> "
            "backend pipeline and the real forwarder under virtual time; TLC validates the traces.",
    "design_ref": "6/C19",
    "note": "an event is accepted when the parser / HTTP endpoint dispatches it into the pipeline; a well-formed event offered but never "
            "dispatched by quiescence is a violation; recording backends honour their context (ok = context alive at return)",
    "technique": "TLC design check of the event pipeline model + TLC trace validation of the real event path under TLC-generated schedules",
}
CHECKS["C20"] = {
    "text": "LambdaExtension.tla models the heartbeat (Flush, then WaitForFlush -> GET /event/next), the telemetry handler, the capacity-1 "
            "notification channel, the consolidator hand-over and the forwarder's attempt / back-off / give-up loop followed by the "
            "notification, composed with the LambdaProp monitor (no next request before the runtime-done signal, before every due datapoint "
            "has an answered upstream request, or while one is in flight; no delivery after the next request; first request and progress; "
            "init-error reported); the server's start-up racing the heartbeat's first flush is part of the model (finding 18: the code as found "
            "violates NoStall); TLC checks all interleavings and refutes five deviations. TLC-generated invocation histories (with the server's "
            "start-up delay, the runtime's delay in answering the telemetry subscription, the number of consolidator slots and a large "
            "dispatch in progress at the runtime-done signal as dimensions) drive the "
            "real pkg/lambda extension around a real forwarder-mode server on loopback sockets against a fake runtime API and a fake "
            "upstream (refusing, dropping, slow, given up); TLC validates the observed request order.",
    "design_ref": "6/C20",
    "note": "real time and real sockets (net/http servers and the manager's own client cannot run under virtual time); a datapoint is accepted "
            "when the extension's HTTP ingestion endpoint answers 202 (UDP has no observable acceptance point without a hook); the initial "
            "flush is observed through its consequence, the first next request",
    "technique": "TLC design check of the extension model + TLC trace validation of the real extension under TLC-generated invocation histories",
}
CHECKS["C17"] = {
    "text": "BackendBatching.tla models the batchers (datadog / newrelic maybeFlush(+20) and finish, influxdb count >= per-batch, otlp groups, "
            "cloudwatch chunks of 20, the statsd relay's overflow handler over line lengths) as automata composed with the BatchProp monitor "
            "(valid, size limit, duplicate, unexpected, missing); TLC checks every stream of series up to the bound and refutes three "
            "deviations. TLC-generated aggregate states x configurations go through the real aggregator and every real backend variant "
            "(17); strict protocol parsers (InfluxDB line protocol, Graphite plaintext / tagged, Datadog and New Relic JSON, OTLP protobuf, "
            "CloudWatch inputs, stdout; the relay: gostatsd's own parser) turn the captured payloads back into records, and TLC judges "
            "every flush of the trace; part of the cases are flushed as the maps of six aggregators handed to the backend at the same time.",
    "design_ref": "6/C17",
    "note": "values are compared to 1e-6 absolute (text formats print six decimals); series that a variant's documented naming cannot tell "
            "apart (graphite legacy / basic drop tags and host, relay with tags disabled) are left out of the comparison; five recorded "
            "findings (known_findings.json) are reported as KNOWN-FINDING lines",
    "technique": "TLC design check of the batcher models + TLC judging of parsed-back payloads of real backends for TLC-generated aggregate states",
}
NOT_APPLICABLE = [{"property_id": p, "reason": "check not built yet (build in progress; see DESIGN.md Appendix B for the order)"}
                  for p in ALL if p not in CHECKS]
ENGINES[0]["serves_properties"] = sorted(CHECKS)
