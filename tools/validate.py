#!/usr/bin/env python3-vt
import json, jsonschema, glob, sys
ok = True
try:
    jsonschema.validate(json.load(open('/verif/MANIFEST.json')), json.load(open('/root/.vp/MANIFEST.schema.json')))
except Exception as e:
    print("MANIFEST invalid:", str(e)[:500]); ok = False
es = json.load(open('/root/.vp/EVIDENCE.schema.json'))
for f in sorted(glob.glob('/verif/evidence/*.json')):
    try:
        jsonschema.validate(json.load(open(f)), es)
    except Exception as e:
        print(f, "invalid:", str(e)[:500]); ok = False
print("valid" if ok else "INVALID")
sys.exit(0 if ok else 1)
