#!/usr/bin/env python3
"""tools/keep_mutant.py <prop> <worktree> <n> <id> <needs> <caught_by> -- store a confirmed seeded change under seeded/<id>/"""
import json, os, shutil, sys
prop, wt, n, mid, needs, caught = sys.argv[1:7]
d = os.path.join("/verif/seeded", mid)
os.makedirs(d, exist_ok=True)
src = os.path.join(wt, "mutants", n)
shutil.copy(os.path.join(src, "patch.diff"), d)
shutil.copy(os.path.join(src, "demo_test.go"), os.path.join(d, "demo_test.go.txt"))
if os.path.exists(os.path.join(src, "README.md")):
    shutil.copy(os.path.join(src, "README.md"), d)
meta = {"property": prop, "needs_to_manifest": needs,
        "confirmed": "tools/confirm_mutant.sh: patch applies, go build ./..., full suite (minus the 3 offline cloudwatch tests) passes, demo fails with the patch and passes without",
        "checks_run": caught, "source": "independent sub-agent given only the property text and a scratch worktree"}
json.dump(meta, open(os.path.join(d, "meta.json"), "w"), indent=1)
print("kept", d)
