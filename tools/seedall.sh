#!/bin/bash
# tools/seedall.sh [tier] [filter] [outfile]: every kept seeded change against its property's check on the current tree; one at a time
# (the patch is applied to /repo itself and reverted straight afterwards). Writes seeded/RESULTS.txt (or outfile); VERIF_SEED is passed on.
# A filtered run should name another outfile, or RESULTS.txt holds only the filtered part afterwards.
tier=${1:-quick}; filter=${2:-.}
cd /verif || exit 2
out=${3:-/verif/seeded/RESULTS.txt}; : > $out.tmp
for d in /verif/seeded/*/; do
  id=$(basename $d); echo "$id" | grep -q -E "$filter" || continue
  prop=$(python3 -c "import json;print(json.load(open('$d/meta.json'))['property'])")
  if ! git -C /repo apply --check $d/patch.diff 2>/dev/null; then echo "$id $prop DOES-NOT-APPLY" | tee -a $out.tmp; continue; fi
  res=$(tools/seedtest.sh $d/patch.diff $prop $tier 2>&1)
  rc=$(echo "$res" | sed -n 's/^rc=//p' | tail -1)
  first=$(echo "$res" | grep -m1 '^VIOLATION' | sed 's/.*replay=.*replays\///')
  case "$rc" in 1) v=CAUGHT;; 0) v=MISSED;; *) v="RC=$rc";; esac
  echo "$id $prop $v $first" | tee -a $out.tmp
  if [ -n "$(git -C /repo status --short)" ]; then echo "REPO NOT CLEAN after $id"; git -C /repo checkout -- .; fi
done
mv $out.tmp $out
