#!/bin/bash
# tools/confirm_mutant.sh <worktree> <n> <pkgdir> <run-regex> [suite]
# Confirms in the scratch worktree: patch applies, builds, (optionally) the full suite passes apart from the three
# cloudwatch tests that always fail offline, the demo FAILS with the patch and PASSES without.
wt="$1"; n="$2"; pkg="$3"; rx="$4"; suite="${5:-suite}"
export GOFLAGS=-mod=mod GOPROXY=off
cd "$wt" || exit 2
git checkout -q -- . ; rm -f "$pkg"/zz_demo_test.go
git apply "mutants/$n/patch.diff" || { echo "APPLY-FAIL"; exit 1; }
go build ./... || { echo "BUILD-FAIL"; git checkout -q -- .; exit 1; }
if [ "$suite" = suite ]; then
  go test -vet=off -count=1 $(go list ./... | grep -v /mutants/) 2>&1 | grep -E "^(FAIL|---)" | grep -v -E "TestSendHistogram|TestSendMetricDimensions|TestSendMetrics|pkg/backends/cloudwatch|^FAIL$" > $wt/.confirm-suite.txt
  if [ -s $wt/.confirm-suite.txt ] && ! grep -v "internal/awslambda/extension" $wt/.confirm-suite.txt | grep -q .; then
    # the Lambda extension's integration test listens on fixed ports: it times out when another suite runs on this machine; once more, alone
    go test -vet=off -count=1 ./internal/awslambda/extension/... 2>&1 | grep -E "^(FAIL|---)" > $wt/.confirm-suite.txt
  fi
  if [ -s $wt/.confirm-suite.txt ]; then echo "SUITE-FAIL"; cat $wt/.confirm-suite.txt | head; git checkout -q -- .; exit 1; fi
  echo "suite ok"
fi
cp "mutants/$n/demo_test.go" "$pkg/zz_demo_test.go"
if go test -vet=off -count=1 -run "$rx" "./$pkg/" >$wt/.confirm-demo1.txt 2>&1; then echo "DEMO-DID-NOT-FAIL-WITH-PATCH"; rm -f "$pkg/zz_demo_test.go"; git checkout -q -- .; exit 1; fi
echo "demo fails with patch"
git checkout -q -- .
if ! go test -vet=off -count=1 -run "$rx" "./$pkg/" >$wt/.confirm-demo2.txt 2>&1; then echo "DEMO-FAILS-WITHOUT-PATCH"; tail -5 $wt/.confirm-demo2.txt; rm -f "$pkg/zz_demo_test.go"; exit 1; fi
echo "demo passes without patch"
rm -f "$pkg/zz_demo_test.go"
echo CONFIRMED
