#!/bin/sh
# tools/seedtest.sh <patch.diff> <Cxx> [tier]: apply a seeded change to /repo, run the check, undo the change.
set -u
patch="$1"; prop="$2"; tier="${3:-quick}"
cd /repo || exit 2
if ! git diff --quiet; then echo "repo dirty"; exit 2; fi
git apply "$patch" || { echo "patch does not apply"; exit 2; }
cd /verif && ./check "$prop" --tier "$tier" > /tmp/seedtest.out 2>&1; rc=$?
cd /repo && git apply -R "$patch" || git checkout -- .
grep -E "^(VIOLATION|KNOWN|PASS|FAIL|MACHINERY)" /tmp/seedtest.out | head -6
echo "rc=$rc"
