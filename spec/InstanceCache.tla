----------------------------- MODULE InstanceCache -----------------------------
(* I-level for C12: pkg/cachedinstances/cloudprovider (CachedCloudProvider.Run, handleInstanceInfo, doRefresh, Peek, and the
   lookup dispatcher), integer seconds.
     Submit(s)        a client's send on IpSink is received by the dispatcher (appended to the current batch; a full batch is
                      looked up at once, otherwise when the 10 ms window ends = action Window)
     Window           the batch window ends: cloudProvider.Instance(batch) with a nondeterministic outcome per source
                      (found / not found; an error is "nothing found"), one InstanceInfo per source of the batch
     HandleInfo       Run receives one info: handleInstanceInfo (new entry, or refresh keeping a resolved instance on failure;
                      gauges), queues it for the clients
     Deliver          a client reads one answer from InfoSource
     Peek(s)          cache read with last-access update
     Tick             time moves to the next refresh boundary: doRefresh's scan (idle entries listed and booked out of the gauges, expired
                      ones queued for lookup); TickDelete removes the listed entries; RacePeek(s) is a client's read in between
     Requeue          Run hands one queued refresh lookup to the dispatcher
     Wait(d)          time passes inside a refresh period
   Composed with the CacheProp monitor. Gauges are integers (underflow visible). ForgetOnError = TRUE is a deliberately broken
   variant (a failed refresh overwrites the instance) used to show the check is not vacuous. *)
EXTENDS Integers, FiniteSets, Sequences, TLC

CONSTANTS Srcs, Limit, Refresh, TTL, NegTTL, Idle, MaxTime, MaxSubmits, ForgetOnError, RecheckUnderLock,
          CoalesceAnswers   \* deviation (round-6 seeded change C12 m2): an answer still waiting for the consumer is overwritten by a newer one for the same source

VARIABLES now, cache, batch, infos, toReturn, toLookup, gPos, gNeg, submits, pend,
          par, entry, owed, unqueried, requery, bad
Prop == INSTANCE CacheProp
ivars == <<now, cache, batch, infos, toReturn, toLookup, gPos, gNeg, submits, pend>>
vars == <<ivars, par, entry, owed, unqueried, requery, bad>>
MonUnch == UNCHANGED <<par, entry, owed, unqueried, requery, bad>>

Init == /\ now = 0 /\ cache = <<>> /\ batch = <<>> /\ infos = <<>> /\ toReturn = <<>> /\ toLookup = <<>> /\ gPos = 0 /\ gNeg = 0 /\ submits = 0 /\ pend = {}
        /\ par = [refresh |-> Refresh, ttl |-> TTL, negttl |-> NegTTL, idle |-> Idle]
        /\ entry = <<>> /\ owed = <<>> /\ unqueried = <<>> /\ requery = {} /\ bad = ""

\* the dispatcher calls the provider: every source of the batch gets an info; outcome chosen per source
DoLookup(b, found) ==
  /\ Prop!PCall(b)
  /\ infos' = infos \o [i \in 1..Len(b) |-> [src |-> b[i], res |-> IF b[i] \in found THEN "pos" ELSE "neg"]]
Submit(s) ==
  /\ submits < MaxSubmits /\ submits' = submits + 1
  /\ Len(batch) < Limit                    \* a full batch is looked up (Window) before the dispatcher reads IpSink again
  /\ batch' = Append(batch, s) /\ Prop!PSubmit(s)
  /\ UNCHANGED <<now, cache, infos, toReturn, toLookup, gPos, gNeg, pend>>
Window == /\ batch # <<>>
          /\ \E found \in SUBSET Srcs : DoLookup(batch, found)
          /\ batch' = <<>>
          /\ UNCHANGED <<now, cache, toReturn, toLookup, gPos, gNeg, submits, par, entry, bad, pend>>
HandleInfo ==
  /\ infos # <<>> /\ pend = {}
  /\ LET i == Head(infos) s == i.src
         cur == IF s \in DOMAIN cache THEN cache[s] ELSE [kind |-> "none", lastUse |-> 0, exp |-> 0]
         kind == IF cur.kind = "none" THEN i.res
                 ELSE IF i.res = "pos" THEN "pos"
                 ELSE IF ForgetOnError THEN "neg" ELSE cur.kind
         new == [kind |-> kind, lastUse |-> IF cur.kind = "none" THEN now ELSE cur.lastUse,
                 exp |-> now + (IF i.res = "pos" THEN TTL ELSE NegTTL)]
     IN /\ cache' = [x \in DOMAIN cache \cup {s} |-> IF x = s THEN new ELSE cache[x]]
        /\ gPos' = gPos + (IF cur.kind = "none" /\ i.res = "pos" THEN 1 ELSE IF cur.kind = "neg" /\ i.res = "pos" THEN 1 ELSE 0)
        /\ gNeg' = gNeg + (IF cur.kind = "none" /\ i.res = "neg" THEN 1 ELSE IF cur.kind = "neg" /\ i.res = "pos" THEN -1 ELSE 0)
        /\ toReturn' = IF CoalesceAnswers /\ \E k \in 1..Len(toReturn) : toReturn[k].src = s
                       THEN [k \in 1..Len(toReturn) |-> IF toReturn[k].src = s THEN i ELSE toReturn[k]]
                       ELSE Append(toReturn, i)
  /\ infos' = Tail(infos)
  /\ UNCHANGED <<now, batch, toLookup, submits, pend>> /\ MonUnch
Deliver == /\ toReturn # <<>>
           /\ Prop!PAnswer(toReturn[Len(toReturn)].src, toReturn[Len(toReturn)].res, now)      \* the LAST queued info goes first
           /\ toReturn' = SubSeq(toReturn, 1, Len(toReturn) - 1)
           /\ UNCHANGED <<now, cache, batch, infos, toLookup, gPos, gNeg, submits, par, unqueried, requery, pend>>
Peek(s) == /\ infos = <<>> /\ toReturn = <<>> /\ pend = {}          \* the monitor's cache follows delivered answers: compare at rest
           /\ Prop!PPeek(s, IF s \in DOMAIN cache THEN cache[s].kind ELSE "miss", now)
           /\ cache' = IF s \in DOMAIN cache THEN [cache EXCEPT ![s].lastUse = now] ELSE cache
           /\ UNCHANGED <<now, batch, infos, toReturn, toLookup, gPos, gNeg, submits, par, owed, unqueried, requery, pend>>
Tick == /\ infos = <<>> /\ toReturn = <<>> /\ batch = <<>> /\ toLookup = <<>> /\ pend = {}
        /\ (now \div Refresh + 1) * Refresh <= MaxTime
        /\ LET t == (now \div Refresh + 1) * Refresh
               dead == {s \in DOMAIN cache : t - cache[s].lastUse > Idle}
               live == DOMAIN cache \ dead
               expired == {s \in live : t > cache[s].exp}
           IN /\ now' = t /\ cache' = cache /\ pend' = dead          \* the scan (read lock): idle entries are listed and booked out of the gauges
              /\ gPos' = gPos - Cardinality({s \in dead : cache[s].kind = "pos"})
              /\ gNeg' = gNeg - Cardinality({s \in dead : cache[s].kind = "neg"})
              /\ toLookup' = IF expired = {} THEN <<>> ELSE LET f == CHOOSE f \in [1..Cardinality(expired) -> expired] : \A a, b \in 1..Cardinality(expired) : a # b => f[a] # f[b] IN f
              /\ Prop!PTick(t)
        /\ UNCHANGED <<batch, infos, toReturn, submits>>
\* doRefresh's second half (write lock): the listed entries are deleted.  RecheckUnderLock = TRUE is a deliberately broken variant that keeps
\* an entry a client has read in between, although the scan has already booked it out of the gauges.
TickDelete == /\ pend # {}
              /\ LET gone == {s \in pend : ~RecheckUnderLock \/ now - cache[s].lastUse > Idle}
                 IN cache' = [s \in DOMAIN cache \ gone |-> cache[s]]
              /\ pend' = {}
              /\ UNCHANGED <<now, batch, infos, toReturn, toLookup, gPos, gNeg, submits>> /\ MonUnch
\* a client reads an entry between the scan and the deletion: Peek stamps the access time after it has let go of the read lock (what it
\* returns is not judged: hit or miss are both possible at that instant)
RacePeek(s) == /\ s \in pend /\ cache' = [cache EXCEPT ![s].lastUse = now]
               /\ UNCHANGED <<now, batch, infos, toReturn, toLookup, gPos, gNeg, submits, pend>> /\ MonUnch
Requeue == /\ toLookup # <<>> /\ Len(batch) < Limit /\ pend = {}
           /\ batch' = Append(batch, toLookup[Len(toLookup)]) /\ toLookup' = SubSeq(toLookup, 1, Len(toLookup) - 1)
           /\ UNCHANGED <<now, cache, infos, toReturn, gPos, gNeg, submits, pend>> /\ MonUnch
\* time passes only when nothing is half way (clients read InfoSource promptly: the monitor dates an entry by its answer)
Wait(d) == /\ infos = <<>> /\ toReturn = <<>> /\ pend = {} /\ now + d <= MaxTime /\ (now + d) \div Refresh = now \div Refresh /\ now' = now + d
           /\ UNCHANGED <<cache, batch, infos, toReturn, toLookup, gPos, gNeg, submits, pend>> /\ MonUnch
Emit == /\ infos = <<>> /\ toReturn = <<>> /\ pend = {} /\ Prop!PGauge(gPos, gNeg) /\ UNCHANGED ivars

Next == \/ \E s \in Srcs : Submit(s) \/ Peek(s) \/ RacePeek(s)
        \/ TickDelete
        \/ Window \/ HandleInfo \/ Deliver \/ Tick \/ Requeue \/ Emit \/ \E d \in {1, 2} : Wait(d)
Spec == Init /\ [][Next]_vars
MonitorQuiet == bad = ""
GaugesNonNegative == gPos >= 0 /\ gNeg >= 0
=============================================================================
