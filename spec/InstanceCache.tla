----------------------------- MODULE InstanceCache -----------------------------
(* I-level for C12: pkg/cachedinstances/cloudprovider (CachedCloudProvider.Run, handleInstanceInfo, doRefresh, Peek, and the
   lookup dispatcher), integer seconds.
     Submit(s)        a client's send on IpSink is received by the dispatcher (appended to the current batch; a full batch is
                      looked up at once, otherwise when the 10 ms window ends = action Window)
     Window           the batch window ends: cloudProvider.Instance(batch) with a nondeterministic outcome per source
                      (found / not found; an error is "nothing found"), one InstanceInfo per source of the batch
     HandleInfo       Run receives one info: handleInstanceInfo (new entry, or refresh keeping a resolved instance on failure;
                      gauges), queues it for the clients
     Deliver          a client reads one answer from InfoSource
     Peek(s)          cache read with last-access update
     Tick             time moves to the next refresh boundary: doRefresh (evict idle entries, queue expired ones for lookup)
     Requeue          Run hands one queued refresh lookup to the dispatcher
     Wait(d)          time passes inside a refresh period
   Composed with the CacheProp monitor. Gauges are integers (underflow visible). ForgetOnError = TRUE is a deliberately broken
   variant (a failed refresh overwrites the instance) used to show the check is not vacuous. *)
EXTENDS Integers, FiniteSets, Sequences, TLC

CONSTANTS Srcs, Limit, Refresh, TTL, NegTTL, Idle, MaxTime, MaxSubmits, ForgetOnError

VARIABLES now, cache, batch, infos, toReturn, toLookup, gPos, gNeg, submits,
          par, entry, owed, unqueried, requery, bad
Prop == INSTANCE CacheProp
ivars == <<now, cache, batch, infos, toReturn, toLookup, gPos, gNeg, submits>>
vars == <<ivars, par, entry, owed, unqueried, requery, bad>>
MonUnch == UNCHANGED <<par, entry, owed, unqueried, requery, bad>>

Init == /\ now = 0 /\ cache = <<>> /\ batch = <<>> /\ infos = <<>> /\ toReturn = <<>> /\ toLookup = <<>> /\ gPos = 0 /\ gNeg = 0 /\ submits = 0
        /\ par = [refresh |-> Refresh, ttl |-> TTL, negttl |-> NegTTL, idle |-> Idle]
        /\ entry = <<>> /\ owed = <<>> /\ unqueried = <<>> /\ requery = {} /\ bad = ""

\* the dispatcher calls the provider: every source of the batch gets an info; outcome chosen per source
DoLookup(b, found) ==
  /\ Prop!PCall(b)
  /\ infos' = infos \o [i \in 1..Len(b) |-> [src |-> b[i], res |-> IF b[i] \in found THEN "pos" ELSE "neg"]]
Submit(s) ==
  /\ submits < MaxSubmits /\ submits' = submits + 1
  /\ Len(batch) < Limit                    \* a full batch is looked up (Window) before the dispatcher reads IpSink again
  /\ batch' = Append(batch, s) /\ Prop!PSubmit(s)
  /\ UNCHANGED <<now, cache, infos, toReturn, toLookup, gPos, gNeg>>
Window == /\ batch # <<>>
          /\ \E found \in SUBSET Srcs : DoLookup(batch, found)
          /\ batch' = <<>>
          /\ UNCHANGED <<now, cache, toReturn, toLookup, gPos, gNeg, submits, par, entry, bad>>
HandleInfo ==
  /\ infos # <<>>
  /\ LET i == Head(infos) s == i.src
         cur == IF s \in DOMAIN cache THEN cache[s] ELSE [kind |-> "none", lastUse |-> 0, exp |-> 0]
         kind == IF cur.kind = "none" THEN i.res
                 ELSE IF i.res = "pos" THEN "pos"
                 ELSE IF ForgetOnError THEN "neg" ELSE cur.kind
         new == [kind |-> kind, lastUse |-> IF cur.kind = "none" THEN now ELSE cur.lastUse,
                 exp |-> now + (IF i.res = "pos" THEN TTL ELSE NegTTL)]
     IN /\ cache' = [x \in DOMAIN cache \cup {s} |-> IF x = s THEN new ELSE cache[x]]
        /\ gPos' = gPos + (IF cur.kind = "none" /\ i.res = "pos" THEN 1 ELSE IF cur.kind = "neg" /\ i.res = "pos" THEN 1 ELSE 0)
        /\ gNeg' = gNeg + (IF cur.kind = "none" /\ i.res = "neg" THEN 1 ELSE IF cur.kind = "neg" /\ i.res = "pos" THEN -1 ELSE 0)
        /\ toReturn' = Append(toReturn, i)
  /\ infos' = Tail(infos)
  /\ UNCHANGED <<now, batch, toLookup, submits>> /\ MonUnch
Deliver == /\ toReturn # <<>>
           /\ Prop!PAnswer(toReturn[Len(toReturn)].src, toReturn[Len(toReturn)].res, now)      \* the LAST queued info goes first
           /\ toReturn' = SubSeq(toReturn, 1, Len(toReturn) - 1)
           /\ UNCHANGED <<now, cache, batch, infos, toLookup, gPos, gNeg, submits, par, unqueried, requery>>
Peek(s) == /\ infos = <<>> /\ toReturn = <<>>          \* the monitor's cache follows delivered answers: compare at rest
           /\ Prop!PPeek(s, IF s \in DOMAIN cache THEN cache[s].kind ELSE "miss", now)
           /\ cache' = IF s \in DOMAIN cache THEN [cache EXCEPT ![s].lastUse = now] ELSE cache
           /\ UNCHANGED <<now, batch, infos, toReturn, toLookup, gPos, gNeg, submits, par, owed, unqueried, requery>>
Tick == /\ infos = <<>> /\ toReturn = <<>> /\ batch = <<>> /\ toLookup = <<>>
        /\ (now \div Refresh + 1) * Refresh <= MaxTime
        /\ LET t == (now \div Refresh + 1) * Refresh
               dead == {s \in DOMAIN cache : t - cache[s].lastUse > Idle}
               live == DOMAIN cache \ dead
               expired == {s \in live : t > cache[s].exp}
           IN /\ now' = t /\ cache' = [s \in live |-> cache[s]]
              /\ gPos' = gPos - Cardinality({s \in dead : cache[s].kind = "pos"})
              /\ gNeg' = gNeg - Cardinality({s \in dead : cache[s].kind = "neg"})
              /\ toLookup' = IF expired = {} THEN <<>> ELSE LET f == CHOOSE f \in [1..Cardinality(expired) -> expired] : \A a, b \in 1..Cardinality(expired) : a # b => f[a] # f[b] IN f
              /\ Prop!PTick(t)
        /\ UNCHANGED <<batch, infos, toReturn, submits>>
Requeue == /\ toLookup # <<>> /\ Len(batch) < Limit
           /\ batch' = Append(batch, toLookup[Len(toLookup)]) /\ toLookup' = SubSeq(toLookup, 1, Len(toLookup) - 1)
           /\ UNCHANGED <<now, cache, infos, toReturn, gPos, gNeg, submits>> /\ MonUnch
\* time passes only when nothing is half way (clients read InfoSource promptly: the monitor dates an entry by its answer)
Wait(d) == /\ infos = <<>> /\ toReturn = <<>> /\ now + d <= MaxTime /\ (now + d) \div Refresh = now \div Refresh /\ now' = now + d
           /\ UNCHANGED <<cache, batch, infos, toReturn, toLookup, gPos, gNeg, submits>> /\ MonUnch
Emit == /\ infos = <<>> /\ toReturn = <<>> /\ Prop!PGauge(gPos, gNeg) /\ UNCHANGED ivars

Next == \/ \E s \in Srcs : Submit(s) \/ Peek(s)
        \/ Window \/ HandleInfo \/ Deliver \/ Tick \/ Requeue \/ Emit \/ \E d \in {1, 2} : Wait(d)
Spec == Init /\ [][Next]_vars
MonitorQuiet == bad = ""
GaugesNonNegative == gPos >= 0 /\ gNeg >= 0
=============================================================================
