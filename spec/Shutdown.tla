------------------------------- MODULE Shutdown -------------------------------
(* I-level model for X02: the goroutines Server.RunWithCustomSocket starts, stage by stage, through the stager, and the way they stop.
   Start order (= stage number): 1 BackendHandler.Run (owns the worker and its queue), 2 MetricFlusher.Run, 3 CloudHandler.Run,
   4..3+P the parsers, 4+P the receiver.  Run: start event; wait for the context; stop event + WaitForEvents (deferred last, so it runs first);
   stager.Shutdown: for every stage, LAST STARTED FIRST: cancel its context, wait for its goroutines.
   Blocking points as in the code:
     receiver    ReadFrom (ended by closing the socket at ctx.Done) | select { out <- batch; ctx.Done }
     parser      select { batch <- in; ctx.Done } | DispatchMetricMap: select { queue <- map; ctx.Done }
     worker      select { map <- queue (exit when closed and drained); cmd <- processChan }; executing a command calls the backends'
                 SendMetricsAsync on the worker's goroutine, whose synchronous part may wait for the backend (a full sender queue) under
                 the FLUSHER's context
     flusher     select { tick; ctx.Done } | NotifyFlush dispatches the internal metrics into the pipeline (select ctx) |
                 Process: select { processChan <- cmd; ctx.Done } | processWait() | sendWg.Wait() (no context: relies on the callbacks)
     backend     calls back when it is done, or when the context it was given ends (C16)
     cloud       a parser's batch from a source the cache does not know is parked; when the lookup is answered CloudHandler.Run starts a
                 RELEASER goroutine that dispatches the parked batch into the pipeline (select { queue <- map; ctx.Done } under the cloud
                 stage's context); Run returns at ctx.Done -- after waiting for its releasers (ReleasersTracked, the code since the repair
                 of finding 15) or without (the code as found: the releaser outlives its stage and may meet the closed queue)
     bh.Run      <-ctx.Done; close(queue); wait for the worker
   Deviation switches (each must be refuted): Order = "forward" (stages stopped in start order), DispatchHonoursCtx = FALSE,
   BackendHonoursCtx = FALSE, ReleasersTracked = FALSE.  Composed with the ShutdownProp monitor. *)
EXTENDS Naturals, FiniteSets, Sequences, TLC
CONSTANTS Q, P, MaxDg, MaxTicks, MaxHolds, Order, DispatchHonoursCtx, BackendHonoursCtx, ReleasersTracked

N == 4 + P
BH == 1
FL == 2
CL == 3
PAR(p) == 3 + p
RCV == 4 + P

VARIABLES main, cur, cancelled, recv, dgLeft, par, qlen, qclosed, wrk, bhrun, fl, procDone, ticks, cbPending, bheld, holds, panicked, cloud, parked, rel,
          nb, evOn, held, started, stopped, stopping, returned, bad
Prop == INSTANCE ShutdownProp
ivars == <<main, cur, cancelled, recv, dgLeft, par, qlen, qclosed, wrk, bhrun, fl, procDone, ticks, cbPending, bheld, holds, panicked, cloud, parked, rel>>
vars == <<ivars, nb, evOn, held, started, stopped, stopping, returned, bad>>
MonUnch == UNCHANGED <<nb, evOn, held, started, stopped, stopping, returned, bad>>

Init == /\ main = "starting" /\ cur = 0 /\ cancelled = {} /\ recv = "read" /\ dgLeft = MaxDg /\ par = [p \in 1..P |-> "idle"] /\ qlen = 0 /\ qclosed = FALSE
        /\ wrk = "idle" /\ bhrun = "wait" /\ fl = "wait" /\ procDone = FALSE /\ ticks = 0 /\ cbPending = 0 /\ bheld = FALSE /\ holds = 0 /\ panicked = FALSE
        /\ cloud = "run" /\ parked = 0 /\ rel = 0
        /\ nb = 1 /\ evOn = TRUE /\ held = FALSE /\ started = {} /\ stopped = {} /\ stopping = FALSE /\ returned = FALSE /\ bad = ""

\* ---------------------------------------------------------------- environment
Hold    == ~bheld /\ holds < MaxHolds /\ bheld' = TRUE /\ holds' = holds + 1 /\ Prop!PHold
           /\ UNCHANGED <<main, cur, cancelled, recv, dgLeft, par, qlen, qclosed, wrk, bhrun, fl, procDone, ticks, cbPending, panicked, cloud, parked, rel>>
Release == bheld /\ bheld' = FALSE /\ MonUnch
           /\ UNCHANGED <<main, cur, cancelled, recv, dgLeft, par, qlen, qclosed, wrk, bhrun, fl, procDone, ticks, cbPending, holds, panicked, cloud, parked, rel>>
Stop    == main = "running" /\ main' = "stopevent" /\ Prop!PStop
           /\ UNCHANGED <<cur, cancelled, recv, dgLeft, par, qlen, qclosed, wrk, bhrun, fl, procDone, ticks, cbPending, bheld, holds, panicked, cloud, parked, rel>>
Env == Hold \/ Release \/ Stop

\* ---------------------------------------------------------------- main goroutine (RunWithCustomSocket)
First == IF Order = "forward" THEN 1 ELSE N
After(i) == IF Order = "forward" THEN (IF i = N THEN 0 ELSE i + 1) ELSE i - 1
StageDone(i) == IF i = BH THEN bhrun = "done" ELSE IF i = FL THEN fl = "done" ELSE IF i = CL THEN cloud = "done" ELSE IF i = RCV THEN recv = "done" ELSE par[i - 3] = "done"
StartEvent == main = "starting" /\ main' = "running" /\ Prop!PEvent(1, "started")
              /\ UNCHANGED <<cur, cancelled, recv, dgLeft, par, qlen, qclosed, wrk, bhrun, fl, procDone, ticks, cbPending, bheld, holds, panicked, cloud, parked, rel>>
\* the stop event goes through the live pipeline; WaitForEvents waits for the backend, which answers or gives up at its own limit
StopEvent == main = "stopevent" /\ main' = "shutdown" /\ cur' = First /\ Prop!PEvent(1, "stopped")
             /\ UNCHANGED <<cancelled, recv, dgLeft, par, qlen, qclosed, wrk, bhrun, fl, procDone, ticks, cbPending, bheld, holds, panicked, cloud, parked, rel>>
ShutCancel == main = "shutdown" /\ cur \notin cancelled /\ cancelled' = cancelled \cup {cur} /\ MonUnch
              /\ UNCHANGED <<main, cur, recv, dgLeft, par, qlen, qclosed, wrk, bhrun, fl, procDone, ticks, cbPending, bheld, holds, panicked, cloud, parked, rel>>
ShutNext == /\ main = "shutdown" /\ cur \in cancelled /\ StageDone(cur)
            /\ IF After(cur) = 0 THEN main' = "returned" /\ cur' = 0 /\ Prop!PReturned ELSE main' = main /\ cur' = After(cur) /\ MonUnch
            /\ UNCHANGED <<cancelled, recv, dgLeft, par, qlen, qclosed, wrk, bhrun, fl, procDone, ticks, cbPending, bheld, holds, panicked, cloud, parked, rel>>

\* ---------------------------------------------------------------- receiver
RecvRead == recv = "read" /\ RCV \notin cancelled /\ dgLeft > 0 /\ recv' = "offer" /\ dgLeft' = dgLeft - 1 /\ MonUnch
            /\ UNCHANGED <<main, cur, cancelled, par, qlen, qclosed, wrk, bhrun, fl, procDone, ticks, cbPending, bheld, holds, panicked, cloud, parked, rel>>
RecvStop == recv \in {"read", "offer"} /\ RCV \in cancelled /\ recv' = "done" /\ MonUnch
            /\ UNCHANGED <<main, cur, cancelled, dgLeft, par, qlen, qclosed, wrk, bhrun, fl, procDone, ticks, cbPending, bheld, holds, panicked, cloud, parked, rel>>

\* ---------------------------------------------------------------- parsers
ParTake(p) == par[p] = "idle" /\ recv = "offer" /\ par' = [par EXCEPT ![p] = "dispatch"] /\ recv' = "read" /\ MonUnch
              /\ UNCHANGED <<main, cur, cancelled, dgLeft, qlen, qclosed, wrk, bhrun, fl, procDone, ticks, cbPending, bheld, holds, panicked, cloud, parked, rel>>
ParStop(p) == par[p] = "idle" /\ PAR(p) \in cancelled /\ par' = [par EXCEPT ![p] = "done"] /\ MonUnch
              /\ UNCHANGED <<main, cur, cancelled, recv, dgLeft, qlen, qclosed, wrk, bhrun, fl, procDone, ticks, cbPending, bheld, holds, panicked, cloud, parked, rel>>
ParDispatch(p) ==
  /\ par[p] = "dispatch"
  /\ \/ qclosed /\ panicked' = TRUE /\ Prop!PPanic /\ par' = [par EXCEPT ![p] = "done"] /\ UNCHANGED qlen           \* send on closed channel
     \/ ~qclosed /\ qlen < Q /\ qlen' = qlen + 1 /\ par' = [par EXCEPT ![p] = "idle"] /\ MonUnch /\ UNCHANGED panicked
     \/ DispatchHonoursCtx /\ PAR(p) \in cancelled /\ par' = [par EXCEPT ![p] = "idle"] /\ MonUnch /\ UNCHANGED <<qlen, panicked>>   \* given up
  /\ UNCHANGED <<main, cur, cancelled, recv, dgLeft, qclosed, wrk, bhrun, fl, procDone, ticks, cbPending, bheld, holds, cloud, parked, rel>>
\* the batch comes from a source the cache does not know: it is handed to CloudHandler.Run (select { incoming <- batch; ctx.Done }) and parked
ParPark(p) == /\ par[p] = "dispatch" /\ cloud = "run" /\ parked < 2 /\ parked' = parked + 1 /\ par' = [par EXCEPT ![p] = "idle"] /\ MonUnch
              /\ UNCHANGED <<main, cur, cancelled, recv, dgLeft, qlen, qclosed, wrk, bhrun, fl, procDone, ticks, cbPending, bheld, holds, panicked, cloud, rel>>

\* ---------------------------------------------------------------- cloud stage
\* a lookup is answered: Run starts a releaser goroutine for what was parked
CloudRelease == cloud = "run" /\ parked > 0 /\ parked' = parked - 1 /\ rel' = rel + 1 /\ MonUnch
                /\ UNCHANGED <<main, cur, cancelled, recv, dgLeft, par, qlen, qclosed, wrk, bhrun, fl, procDone, ticks, cbPending, bheld, holds, panicked, cloud>>
RelDispatch ==
  /\ rel > 0
  /\ \/ qclosed /\ panicked' = TRUE /\ Prop!PPanic /\ rel' = rel - 1 /\ UNCHANGED qlen
     \/ ~qclosed /\ qlen < Q /\ qlen' = qlen + 1 /\ rel' = rel - 1 /\ MonUnch /\ UNCHANGED panicked
     \/ DispatchHonoursCtx /\ CL \in cancelled /\ rel' = rel - 1 /\ MonUnch /\ UNCHANGED <<qlen, panicked>>
  /\ UNCHANGED <<main, cur, cancelled, recv, dgLeft, par, qclosed, wrk, bhrun, fl, procDone, ticks, cbPending, bheld, holds, cloud, parked>>
CloudStop == cloud = "run" /\ CL \in cancelled /\ (ReleasersTracked => rel = 0) /\ cloud' = "done" /\ MonUnch
             /\ UNCHANGED <<main, cur, cancelled, recv, dgLeft, par, qlen, qclosed, wrk, bhrun, fl, procDone, ticks, cbPending, bheld, holds, panicked, parked, rel>>

\* ---------------------------------------------------------------- worker and BackendHandler.Run
WrkTake == wrk = "idle" /\ qlen > 0 /\ qlen' = qlen - 1 /\ MonUnch
           /\ UNCHANGED <<main, cur, cancelled, recv, dgLeft, par, qclosed, wrk, bhrun, fl, procDone, ticks, cbPending, bheld, holds, panicked, cloud, parked, rel>>
WrkExit == wrk = "idle" /\ qclosed /\ qlen = 0 /\ wrk' = "done" /\ MonUnch
           /\ UNCHANGED <<main, cur, cancelled, recv, dgLeft, par, qlen, qclosed, bhrun, fl, procDone, ticks, cbPending, bheld, holds, panicked, cloud, parked, rel>>
WrkCmd == wrk = "idle" /\ fl = "cmd" /\ wrk' = "exec" /\ fl' = "procwait" /\ MonUnch
          /\ UNCHANGED <<main, cur, cancelled, recv, dgLeft, par, qlen, qclosed, bhrun, procDone, ticks, cbPending, bheld, holds, panicked, cloud, parked, rel>>
\* the command hands the flush to the backend on the worker's goroutine; a backend whose own queue is full makes the call wait, under the
\* flusher's context
WrkExec == /\ wrk = "exec" /\ (~bheld \/ (BackendHonoursCtx /\ FL \in cancelled))
           /\ wrk' = "idle" /\ procDone' = TRUE /\ cbPending' = 1 /\ Prop!PFlush(1)
           /\ UNCHANGED <<main, cur, cancelled, recv, dgLeft, par, qlen, qclosed, bhrun, fl, ticks, bheld, holds, panicked, cloud, parked, rel>>
BhStop == bhrun = "wait" /\ BH \in cancelled /\ bhrun' = "closing" /\ qclosed' = TRUE /\ MonUnch
          /\ UNCHANGED <<main, cur, cancelled, recv, dgLeft, par, qlen, wrk, fl, procDone, ticks, cbPending, bheld, holds, panicked, cloud, parked, rel>>
BhDone == bhrun = "closing" /\ wrk = "done" /\ bhrun' = "done" /\ MonUnch
          /\ UNCHANGED <<main, cur, cancelled, recv, dgLeft, par, qlen, qclosed, wrk, fl, procDone, ticks, cbPending, bheld, holds, panicked, cloud, parked, rel>>

\* ---------------------------------------------------------------- flusher and backend
FlTick == fl = "wait" /\ FL \notin cancelled /\ ticks < MaxTicks /\ fl' = "notify" /\ ticks' = ticks + 1 /\ MonUnch
          /\ UNCHANGED <<main, cur, cancelled, recv, dgLeft, par, qlen, qclosed, wrk, bhrun, procDone, cbPending, bheld, holds, panicked, cloud, parked, rel>>
FlStop == fl = "wait" /\ FL \in cancelled /\ fl' = "done" /\ MonUnch
          /\ UNCHANGED <<main, cur, cancelled, recv, dgLeft, par, qlen, qclosed, wrk, bhrun, procDone, ticks, cbPending, bheld, holds, panicked, cloud, parked, rel>>
\* the internal statser's metrics enter the pipeline from the flusher's goroutine
FlNotify ==
  /\ fl = "notify"
  /\ \/ qclosed /\ panicked' = TRUE /\ Prop!PPanic /\ fl' = "done" /\ UNCHANGED qlen
     \/ ~qclosed /\ qlen < Q /\ qlen' = qlen + 1 /\ fl' = "cmd" /\ MonUnch /\ UNCHANGED panicked
     \/ DispatchHonoursCtx /\ FL \in cancelled /\ fl' = "cmd" /\ MonUnch /\ UNCHANGED <<qlen, panicked>>
  /\ UNCHANGED <<main, cur, cancelled, recv, dgLeft, par, qclosed, wrk, bhrun, procDone, ticks, cbPending, bheld, holds, cloud, parked, rel>>
FlCmdGiveUp == fl = "cmd" /\ FL \in cancelled /\ fl' = "wait" /\ MonUnch       \* Process: ctx.Done before the command was taken; nothing to wait for
               /\ UNCHANGED <<main, cur, cancelled, recv, dgLeft, par, qlen, qclosed, wrk, bhrun, procDone, ticks, cbPending, bheld, holds, panicked, cloud, parked, rel>>
FlProcDone == fl = "procwait" /\ procDone /\ fl' = "cbwait" /\ procDone' = FALSE /\ MonUnch
              /\ UNCHANGED <<main, cur, cancelled, recv, dgLeft, par, qlen, qclosed, wrk, bhrun, ticks, cbPending, bheld, holds, panicked, cloud, parked, rel>>
FlCbDone == fl = "cbwait" /\ cbPending = 0 /\ fl' = "wait" /\ MonUnch
            /\ UNCHANGED <<main, cur, cancelled, recv, dgLeft, par, qlen, qclosed, wrk, bhrun, procDone, ticks, cbPending, bheld, holds, panicked, cloud, parked, rel>>
CbFire == cbPending = 1 /\ (~bheld \/ (BackendHonoursCtx /\ FL \in cancelled)) /\ cbPending' = 0 /\ MonUnch
          /\ UNCHANGED <<main, cur, cancelled, recv, dgLeft, par, qlen, qclosed, wrk, bhrun, fl, procDone, ticks, bheld, holds, panicked, cloud, parked, rel>>

Sys == StartEvent \/ StopEvent \/ ShutCancel \/ ShutNext \/ RecvRead \/ RecvStop \/ (\E p \in 1..P : ParTake(p) \/ ParStop(p) \/ ParDispatch(p) \/ ParPark(p))
       \/ CloudRelease \/ RelDispatch \/ CloudStop
       \/ WrkTake \/ WrkExit \/ WrkCmd \/ WrkExec \/ BhStop \/ BhDone \/ FlTick \/ FlStop \/ FlNotify \/ FlCmdGiveUp \/ FlProcDone \/ FlCbDone \/ CbFire
Next == Env \/ Sys
Spec == Init /\ [][Next]_vars /\ WF_vars(Sys)

MonitorQuiet == bad = ""
NoPanic == ~panicked
\* once asked to stop, the server returns -- whatever the pipeline was doing, and even if the backend stays stuck for ever
Terminates == (main = "stopevent") ~> (main = "returned")
\* nothing of the server is left running when Run has returned
AllGone == main = "returned" => bhrun = "done" /\ wrk = "done" /\ fl = "done" /\ recv = "done" /\ cloud = "done" /\ rel = 0 /\ \A p \in 1..P : par[p] = "done"
=============================================================================
