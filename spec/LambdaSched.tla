------------------------------ MODULE LambdaSched ------------------------------
(* R2 for C20: histories for the Lambda extension driver.
   A case is [fault, invs]: fault = "none" | a way of making the server fail during start-up; invs = the invocations, each
     pts    datapoints accepted before the runtime-done signal          late   datapoints accepted after it (unconstrained by the statement)
     shape  the telemetry batches of the invocation (exactly one platform.runtimeDone record among other record types)
     up     what the upstream does with the flush: ok | slow | fail1 (first attempt refused, then accepted) | drop1 (first attempt's
            connection dropped) | failall (refused until the forwarder gives up) *)
EXTENDS Naturals, Sequences, TLC, Json
CONSTANTS MaxInv
VARIABLES invs
Shapes == <<
  << <<"done">> >>,
  << <<"start", "done", "report">> >>,
  << <<"initRuntimeDone">>, <<"done">> >>,
  << <<"start">>, <<"logsDropped", "done">>, <<"report">> >>,
  << <<"initRuntimeDone", "done", "restoreRuntimeDone">> >>,
  << <<"function", "extension">>, <<"done">>, <<"initReport">> >>
>>
Ups == {"ok", "slow", "fail1", "drop1", "failall"}
Inv(p, s, u, l) == [pts |-> p, shape |-> Shapes[s], up |-> u, late |-> l, big |-> 0]
\* big: a very large ingestion request is under way when the runtime-done signal arrives (started big % of its own duration earlier): a
\* dispatch holds one of the consolidator's maps -- with what was accepted into it before -- at the moment of the flush
InvB(p, s, u, l, b) == [pts |-> p, shape |-> Shapes[s], up |-> u, late |-> l, big |-> b]
Invs == {Inv(p, s, u, l) : p \in 0..2, s \in 1..Len(Shapes), u \in Ups, l \in 0..1}
Init == invs = <<>>
Next == Len(invs) < MaxInv /\ \E i \in {RandomElement(Invs)} : invs' = Append(invs, i)
Spec == Init /\ [][Next]_invs
Case(f, is) == [fault |-> f, invs |-> is, init |-> 0, slowstart |-> 0, slowsub |-> 0, slots |-> 0]
\* slowstart: the server's own start-up begins that many ms after the extension was started (a cold start on a throttled sandbox; the manager
\* gives start-up 100 ms before its heartbeat begins);  slowsub: the runtime takes that long to answer the telemetry subscription
CaseS(f, is, st, su) == [fault |-> f, invs |-> is, init |-> 0, slowstart |-> st, slowsub |-> su, slots |-> 0]
\* init: datapoints accepted during the init phase, before the extension's first request for an invocation
CaseI(n, is) == [fault |-> "none", invs |-> is, init |-> n, slowstart |-> 0, slowsub |-> 0, slots |-> 0]
Core == {
  Case("badmode", <<>>), Case("noendpoint", <<>>), Case("badcompression", <<>>),
  \* failures no configuration of the real server produces, from a stand-in server behind the same manager: an ordinary error, errors
  \* whose chain holds a context error although the extension's own context is alive, and a server that just returns
  Case("plainerr", <<>>), Case("deadline", <<>>), Case("canceled", <<>>), Case("earlynil", <<>>),
  Case("none", <<>>),
  \* the server comes up after the manager's start-up window: the initial flush meets a coordinator nobody has registered on yet
  CaseS("none", <<Inv(1, 1, "ok", 0)>>, 300, 0), CaseS("none", <<Inv(2, 2, "fail1", 0), Inv(1, 1, "ok", 0)>>, 400, 0), CaseS("none", <<>>, 300, 150),
  \* start-up failures while the runtime is slow to answer the telemetry subscription
  CaseS("badmode", <<>>, 0, 150), CaseS("noendpoint", <<>>, 0, 250), CaseS("plainerr", <<>>, 0, 150), CaseS("deadline", <<>>, 0, 150), CaseS("earlynil", <<>>, 0, 250),
  \* two consolidator slots, two datapoints accepted (one per slot), then the flush while a dispatch holds one of the slots
  [CaseS("none", <<InvB(2, 1, "ok", 0, 50), InvB(2, 1, "ok", 0, 62), InvB(2, 1, "ok", 0, 74), InvB(2, 1, "ok", 0, 86), InvB(2, 1, "ok", 0, 95)>>, 0, 0) EXCEPT !.slots = 2],
  CaseI(2, <<>>), CaseI(1, <<Inv(1, 1, "ok", 0)>>), CaseI(2, <<Inv(0, 3, "slow", 0), Inv(1, 1, "ok", 0)>>),
  Case("none", <<Inv(2, 1, "ok", 0)>>),
  Case("none", <<Inv(1, 3, "ok", 0), Inv(1, 1, "ok", 0)>>),                  \* a look-alike record type before the real one
  Case("none", <<Inv(1, 5, "slow", 1), Inv(2, 2, "ok", 0)>>),
  Case("none", <<Inv(2, 1, "fail1", 0), Inv(0, 1, "ok", 0)>>),               \* retry after a refused first attempt
  Case("none", <<Inv(1, 4, "drop1", 0), Inv(1, 6, "slow", 1)>>),
  Case("none", <<Inv(1, 1, "failall", 0), Inv(1, 1, "ok", 0)>>),             \* given up: refused counts as delivered
  Case("none", <<Inv(0, 1, "ok", 0), Inv(0, 3, "ok", 1), Inv(2, 1, "slow", 0)>>)
}
ASSUME \A c \in Core : PrintT(<<"CASE", ToJson(c)>>)
Emit == Len(invs) < MaxInv \/ PrintT(<<"CASE", ToJson([CaseI(RandomElement(0..2), invs) EXCEPT !.slowstart = RandomElement({0, 0, 300}), !.slowsub = RandomElement({0, 0, 120})])>>)
=============================================================================
