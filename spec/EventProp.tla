------------------------------ MODULE EventProp ------------------------------
(* P-level monitor for C19, from the statement; driven by observed events.
     POffered(e)             a well-formed event e was put in front of the server (datagram handed to the parser / POSTed to /v2/event)
     PAccepted(e)            event e entered the pipeline (the parser or the HTTP endpoint dispatched it)
     PHanded(b, e, fieldsOK) backend b is handed event e (SendEvent entered); fieldsOK = title, text, time, aggregation key, source
                             type, priority, alert type, tags (own + static + cloud), source are what the statement says
     PSent(b, e, ok)         SendEvent of backend b for e returned; ok = the backend could do its work (its context stayed alive)
     PWaitCall / PWaitReturn WaitForEvents is called / returns
     PQuiesce(B)             nothing in flight; B = number of configured backends
   Clauses: AtMostOnce (per backend), Fields, Delivered (at quiescence every accepted event was sent to every backend, successfully),
   WaitSound (when WaitForEvents returns, every event accepted before the call has completed SendEvent on every backend),
   NoPhantom. *)
EXTENDS Naturals, FiniteSets, Sequences

VARIABLES offered, accepted, handed, sent, waits, bad, nb
\* handed / sent: sets of <<b, e>>;  waits: sequence of sets (events accepted before each outstanding WaitForEvents call)
pvars == <<offered, accepted, handed, sent, waits, bad, nb>>
PInit == offered = {} /\ accepted = {} /\ handed = {} /\ sent = {} /\ waits = <<>> /\ bad = "" /\ nb = 0
Latch(v) == bad' = IF bad # "" THEN bad ELSE v
PStart(B) == nb' = B /\ offered' = {} /\ accepted' = {} /\ handed' = {} /\ sent' = {} /\ waits' = <<>> /\ UNCHANGED bad
POffered(e) == offered' = offered \cup {e} /\ UNCHANGED <<accepted, handed, sent, waits, bad, nb>>
PAccepted(e) == accepted' = accepted \cup {e} /\ offered' = offered \cup {e} /\ UNCHANGED <<handed, sent, waits, bad, nb>>
PHanded(b, e, fieldsOK) ==
  /\ Latch(IF e \notin accepted THEN "NoPhantom"
           ELSE IF <<b, e>> \in handed THEN "AtMostOnce(an event handed to a backend twice)"
           ELSE IF ~fieldsOK THEN "Fields"
           ELSE "")
  /\ handed' = handed \cup {<<b, e>>} /\ UNCHANGED <<offered, accepted, sent, waits, nb>>
PSent(b, e, ok) ==
  /\ Latch(IF ~ok THEN "Delivered(the backend's context was cancelled under it)" ELSE "")
  /\ sent' = sent \cup {<<b, e>>} /\ UNCHANGED <<offered, accepted, handed, waits, nb>>
PWaitCall == waits' = Append(waits, accepted) /\ UNCHANGED <<offered, accepted, handed, sent, bad, nb>>
PWaitReturn ==
  /\ Latch(IF waits # <<>> /\ \E e \in Head(waits) : \E b \in 1..nb : <<b, e>> \notin sent
           THEN "WaitSound(returned before an accepted event was sent to every backend)" ELSE "")
  /\ waits' = (IF waits = <<>> THEN waits ELSE Tail(waits)) /\ UNCHANGED <<offered, accepted, handed, sent, nb>>
PQuiesce ==
  /\ Latch(IF offered \ accepted # {} THEN "Delivered(a well-formed event never entered the pipeline)"
           ELSE IF \E e \in accepted : \E b \in 1..nb : <<b, e>> \notin sent THEN "Delivered(an accepted event did not reach every backend)"
           ELSE IF waits # <<>> THEN "WaitSound(WaitForEvents never returned)" ELSE "")
  /\ UNCHANGED <<offered, accepted, handed, sent, waits, nb>>
PropertyHolds == bad = ""
=============================================================================
