------------------------------ MODULE MembershipProp ------------------------------
(* P-level monitor for X05 (beyond the listed properties): cluster membership as kept by internal/cluster/nodes' Redis node tracker,
   written from the package's doc comments ("tracks nodes ..., and updates the provided NodePicker with lifecycle events"; "Send an
   immediate heartbeat, this will also solicit other nodes to respond"; "Only add it to the picker if it wasn't already being tracked";
   "On shutdown, remove ourselves from other hosts + the NodePicker"; update interval / expiry interval).  Integer time units; the
   update interval is U units, the expiry interval E units.  The environment (the driver) applies one stimulus at a time and lets the
   cluster come to rest before the next one; what the trackers do in between is theirs to interleave.
   The monitor is a function Step(m, e) on one record, so that a code-shaped model may apply several events in one of its actions.
     up t            Run of tracker t is started                 cancel t     its context is cancelled        down t   Run has returned
     mute t / unmute t   publishes of t fail / work again (t still hears the others)
     clock c         the clock was moved to c
     pub t k n ok    tracker t publishes kind k ("?" introduction request, "+" heartbeat, "-" drop) about node n; ok = it got through
     add t n / rem t n   tracker t's picker gains / really loses node n
     settle          the cluster is at rest              view t S     at rest, the picker of tracker t lists S
   Clauses (first one broken is latched in m.bad):
     OwnName        a tracker only ever announces itself
     NoDoubleAdd    a node is not added to a picker that holds it;  NoPhantom: nor one that nobody ever announced
     Introduce      a started tracker sends its introduction request;  Answered: every other running tracker answers it with a heartbeat
     Heartbeat      a running tracker sends a heartbeat every update interval
     DropOnExit     before Run returns the tracker has published its drop and is out of its own picker
     Fresh          at rest a picker lists every node heard of (by a message that got through while this tracker ran) within the last E
     Stale          ... and no node that was never heard of, or that dropped since
     Expired        ... and no node silent for longer than E + U (expiry is evaluated once per update interval)
     PickerTruth    ... and exactly what the add / rem calls left in it
     select t own self err   at rest, tracker t's picker routes the fixed keys k1..kn to own[i], saying self[i]; err = it refused to choose
     Routes         Select fails exactly when the picker is empty; otherwise the owner is a listed node and "self" is said exactly of t
     Agreement      two trackers whose pickers list the same nodes route every key to the same node (what a cluster routes by)
     Consistent     between two looks at one picker a key changes hands only if its owner left or the new owner has just joined *)
EXTENDS Integers, FiniteSets, Sequences
CONSTANTS Nodes

Restrict(f, S) == [x \in S |-> f[x]]
With(f, k, v) == [x \in DOMAIN f \cup {k} |-> IF x = k THEN v ELSE f[x]]
Latch(m, v) == IF m.bad # "" \/ v = "" THEN m ELSE [m EXCEPT !.bad = v]
MInit(u, e) == [U |-> u, E |-> e, now |-> 0, run |-> [t \in Nodes |-> "off"], next |-> [t \in Nodes |-> 0],
                heard |-> [t \in Nodes |-> <<>>], member |-> [t \in Nodes |-> {}], announced |-> {}, muted |-> {}, owed |-> {},
                sel |-> [t \in Nodes |-> [valid |-> FALSE, fresh |-> FALSE, view |-> {}, own |-> <<>>]], bad |-> ""]
Listening(m) == {t \in Nodes : m.run[t] \in {"up", "cancelled"}}
Up(m) == {t \in Nodes : m.run[t] = "up"}

SUp(m, t) == [Latch(m, IF m.run[t] \in {"up", "cancelled"} THEN "Driver(up of a running tracker)" ELSE "")
                EXCEPT !.run[t] = "up", !.next[t] = m.now + m.U, !.heard[t] = <<>>, !.member[t] = {}, !.owed = @ \cup {<<t, "?">>},
                       !.sel[t] = [valid |-> FALSE, fresh |-> FALSE, view |-> {}, own |-> <<>>]]
SCancel(m, t) == [m EXCEPT !.run[t] = "cancelled", !.owed = (@ \ {<<t, "+">>}) \cup {<<t, "-">>}]
SDown(m, t) ==
  [Latch(m, IF <<t, "-">> \in m.owed THEN "DropOnExit(Run returned without publishing the drop)"
            ELSE IF t \in m.member[t] THEN "DropOnExit(Run returned with the tracker still in its own picker)" ELSE "")
     EXCEPT !.run[t] = "down", !.owed = {o \in @ : o[1] # t}]
SMute(m, t) == [m EXCEPT !.muted = @ \cup {t}]
SUnmute(m, t) == [m EXCEPT !.muted = @ \ {t}]
SClock(m, c) ==
  LET due == {t \in Up(m) : m.next[t] <= c} IN
  [m EXCEPT !.now = c, !.next = [t \in Nodes |-> IF t \in due THEN m.next[t] + m.U ELSE m.next[t]], !.owed = @ \cup {<<t, "+">> : t \in due}]
SPub(m, t, k, n, ok) ==
  LET m1 == Latch(m, IF n # t THEN "OwnName(a tracker announced another node)"
                     ELSE IF t \notin Listening(m) THEN "OwnName(a tracker that is not running published)" ELSE "")
      m2 == [m1 EXCEPT !.owed = @ \ {<<t, k>>}]
      ls == Listening(m)
  IN IF ~ok THEN m2
     ELSE IF k = "-" THEN [m2 EXCEPT !.heard = [x \in Nodes |-> IF x \in ls THEN Restrict(m.heard[x], DOMAIN m.heard[x] \ {n}) ELSE m.heard[x]]]
     ELSE [m2 EXCEPT !.heard = [x \in Nodes |-> IF x \in ls THEN With(m.heard[x], n, m.now) ELSE m.heard[x]],
                     !.announced = @ \cup {n},
                     !.owed = IF k = "?" THEN @ \cup {<<x, "+">> : x \in Up(m) \ {t}} ELSE @]
SAdd(m, t, n) ==
  [Latch(m, IF n \in m.member[t] THEN "NoDoubleAdd(a node the picker already holds was added again)"
            ELSE IF n \notin m.announced THEN "NoPhantom(a node nobody announced was added)" ELSE "")
     EXCEPT !.member[t] = @ \cup {n}]
SRem(m, t, n) == [m EXCEPT !.member[t] = @ \ {n}]
SSettle(m) ==
  Latch([m EXCEPT !.sel = [t \in Nodes |-> [@[t] EXCEPT !.fresh = FALSE]]],     (* a new look at the cluster: earlier routes are no longer "now" *)
           IF \E t \in Nodes : <<t, "?">> \in m.owed THEN "Introduce(a started tracker sent no introduction request)"
           ELSE IF \E t \in Up(m) : <<t, "+">> \in m.owed THEN "Heartbeat(an update interval passed, or an introduction request arrived, without a heartbeat)"
           ELSE "")
SView(m, t, S) ==
  IF m.run[t] # "up" THEN m ELSE
  LET h == m.heard[t]
      fresh == {n \in DOMAIN h : m.now <= h[n] + m.E}
      gone == {n \in DOMAIN h : m.now > h[n] + m.E + m.U}
  IN Latch(m, IF ~(fresh \subseteq S) THEN "Fresh(a node heard of within the expiry interval is not in the picker)"
              ELSE IF ~(S \subseteq DOMAIN h) THEN "Stale(the picker lists a node that dropped or was never heard of)"
              ELSE IF S \cap gone # {} THEN "Expired(the picker lists a node silent for longer than expiry + update interval)"
              ELSE IF S # m.member[t] THEN "PickerTruth(the picker's list is not what the add / remove calls left)" ELSE "")
SSelect(m, t, own, self, err) ==
  IF m.run[t] # "up" THEN m ELSE
  LET S == m.member[t]
      prev == m.sel[t]
      n == Len(own)
      peers == {x \in Up(m) \ {t} : m.sel[x].fresh /\ m.sel[x].view = S /\ Len(m.sel[x].own) = n}
  IN [Latch(m, IF S = {} THEN (IF err THEN "" ELSE "Routes(an empty picker chose a node)")
               ELSE IF err THEN "Routes(a picker that lists nodes refused to choose)"
               ELSE IF \E i \in 1..n : own[i] \notin S THEN "Routes(a key is routed to a node the picker does not list)"
               ELSE IF \E i \in 1..n : self[i] # (own[i] = t) THEN "Routes(the self flag does not say whether the owner is this node)"
               ELSE IF \E x \in peers : \E i \in 1..n : m.sel[x].own[i] # own[i] THEN "Agreement(two trackers with the same list route a key differently)"
               ELSE IF prev.valid /\ Len(prev.own) = n /\ prev.view # {} /\
                       \E i \in 1..n : own[i] # prev.own[i] /\ prev.own[i] \in S /\ own[i] \in prev.view
                    THEN "Consistent(a key changed hands although its owner stayed and the new owner had been there before)"
               ELSE "")
       EXCEPT !.sel[t] = [valid |-> TRUE, fresh |-> TRUE, view |-> S, own |-> IF err THEN <<>> ELSE own]]
=============================================================================
