---------------------------- MODULE InternalStats ----------------------------
(* I-level model for the accounting monitor of X02 ("X03"): the way one of the server's own running totals travels to a backend.
     component   keeps a counter (e.g. DatagramReceiver.datagramsReceived); when it is notified of a flush it Reports the counter:
                 in standalone mode a GAUGE with the running total (InternalStatser.Report -> Gauge)
     statser     puts the gauge into its own consolidator (MetricMap.Receive: within one interval the last one wins)
     flusher     every tick: NotifyFlush = drain the consolidator and dispatch it into the pipeline, THEN notify the components (which
                 report into the now empty consolidator), THEN flushData: the aggregator is flushed, hands its map to the backend, Reset
     aggregator  ReceiveMap merges the dispatched gauge into the one it holds: MetricMap.MergeGauge replaces a gauge only by a STRICTLY
                 newer one (timestamps); Reset drops a series whose timestamp is older than the expiry interval, unless expiry is disabled
   The dispatched map and the flush command reach the worker on two channels: which of them it takes first is not determined (Late).
   Stamped = the gauge carries the time it was reported (the code since the repair of finding 16).  With Stamped = FALSE the timestamp is 0:
   with expiry disabled the first value stays for ever (refuted by Accounted), with expiry enabled the series expires at every Reset and is
   created afresh, which happens to work.  Composed with the AccountingProp monitor (one backend, one name). *)
EXTENDS Naturals, FiniteSets, TLC
CONSTANTS MaxOffers, MaxTicks, Expiry, Stamped, SettleAfter
Name == "receiver.datagrams_received"
None == [v |-> 0, ts |-> 0, has |-> FALSE]
G(v, ts) == [v |-> v, ts |-> ts, has |-> TRUE]

VARIABLES cnt, cons, inflight, aggr, tick, phase, quiet, anb, amode, tot, told, bad
\* cons: the statser's consolidator; inflight: a drained map on its way to the aggregator; phase: where the flusher is within a tick
Prop == INSTANCE AccountingProp
ivars == <<cnt, cons, inflight, aggr, tick, phase, quiet>>
vars == <<ivars, anb, amode, tot, told, bad>>
MonUnch == UNCHANGED <<anb, amode, tot, told, bad>>
Now == 1000 + tick          \* the clock is far from the zero time

Init == /\ cnt = 0 /\ cons = None /\ inflight = None /\ aggr = None /\ tick = 0 /\ phase = "idle" /\ quiet = 0
        /\ anb = 1 /\ amode = "standalone" /\ tot = [n \in Prop!Names |-> 0] /\ told = [k \in 1..1 |-> [n \in Prop!Names |-> 0]] /\ bad = ""

\* a datagram arrives and is read
Offer == /\ tot[Name] < MaxOffers /\ phase = "idle" /\ cnt' = cnt + 1 /\ quiet' = 0
         /\ Prop!POffer(1, 0, 0, 0) /\ UNCHANGED <<cons, inflight, aggr, tick, phase>>
\* the flush ticker fires: NotifyFlush drains the consolidator and dispatches what it held
\* (a map dispatched at the previous tick has been taken by the idle worker long before: only within a tick is the order open)
Tick == /\ phase = "idle" /\ tick < MaxTicks /\ ~inflight.has /\ tick' = tick + 1 /\ phase' = "notify"
        /\ inflight' = cons /\ cons' = None /\ quiet' = quiet + 1
        /\ MonUnch /\ UNCHANGED <<cnt, aggr>>
\* ... then tells the components, which report their running totals into the consolidator
Report == /\ phase = "notify" /\ phase' = "flush"
          /\ cons' = G(cnt, IF Stamped THEN Now ELSE 0)
          /\ MonUnch /\ UNCHANGED <<cnt, inflight, aggr, tick, quiet>>
\* the dispatched map reaches the aggregator: MergeGauge keeps what it has unless the newcomer is strictly newer
Merge == /\ inflight.has
         /\ aggr' = (IF ~aggr.has \/ aggr.ts < inflight.ts THEN inflight ELSE aggr)
         /\ inflight' = None /\ MonUnch /\ UNCHANGED <<cnt, cons, tick, phase, quiet>>
\* flushData: the aggregator's map goes to the backend, then Reset expires old series
Flush == /\ phase = "flush" /\ phase' = "idle"
         /\ IF aggr.has THEN Prop!POwn(1, Name, "gauge", aggr.v) ELSE MonUnch
         /\ aggr' = (IF aggr.has /\ Expiry # 0 /\ Now - aggr.ts > Expiry THEN None ELSE aggr)
         /\ UNCHANGED <<cnt, cons, inflight, tick, quiet>>
\* SettleAfter flush intervals without traffic: the system has settled (the driver waits four)
Settled == /\ phase = "idle" /\ quiet >= SettleAfter /\ ~inflight.has /\ Prop!PSettled /\ UNCHANGED ivars
Next == Offer \/ Tick \/ Report \/ Merge \/ Flush \/ Settled
Spec == Init /\ [][Next]_vars
MonitorQuiet == bad = ""
=============================================================================
