-------------------------------- MODULE Receiver --------------------------------
(* I-level: pkg/statsd/receiver.go Receive (one reader, batches of one) with internal/pool's buffer pool, and the parsers.
     the reader owns one buffer at a time: Read(d) fills it with datagram d, wraps it into a Datagram whose DoneFunc returns THAT buffer to
     the pool, takes a fresh buffer (from the pool, or a new one) for the next read, and hands the datagram to a parser (rendezvous);
     a parser parses the datagram -- it reads the buffer at that moment -- and calls DoneFunc.
   Composed with ReceiverProp: what a parser reads is the content of the datagram it was handed.
   ReturnLive = TRUE (deviation): DoneFunc returns the buffer the reader holds at the time it is called. *)
EXTENDS Naturals, FiniteSets, Sequences, TLC
CONSTANTS NData, NParsers, ReturnLive
VARIABLES next, rbuf, content, pool, nbuf, chan, pars, sent, parsed, bad
Prop == INSTANCE ReceiverProp
ivars == <<next, rbuf, content, pool, nbuf, chan, pars>>
vars == <<ivars, sent, parsed, bad>>
Name(d) == IF d = 0 THEN "?" ELSE ToString(d)
Init == next = 1 /\ rbuf = 1 /\ content = [b \in {1} |-> 0] /\ pool = {} /\ nbuf = 1 /\ chan = <<>> /\ pars = [p \in 1..NParsers |-> [st |-> "idle", d |-> 0, b |-> 0]]
        /\ Prop!RInit
\* the socket delivers datagram next into the reader's buffer; the reader wraps it and takes another buffer
Read == /\ next <= NData /\ chan = <<>>
        /\ LET fresh == IF pool # {} THEN CHOOSE b \in pool : TRUE ELSE nbuf + 1 IN
           /\ content' = [b \in DOMAIN content \cup {fresh} |-> IF b = rbuf THEN next ELSE IF b \in DOMAIN content THEN content[b] ELSE 0]
           /\ chan' = <<[d |-> next, b |-> rbuf]>>
           /\ rbuf' = fresh /\ pool' = pool \ {fresh} /\ nbuf' = IF pool # {} THEN nbuf ELSE nbuf + 1
        /\ next' = next + 1 /\ Prop!PSent(Name(next)) /\ UNCHANGED pars
Take(p) == /\ pars[p].st = "idle" /\ chan # <<>> /\ pars' = [pars EXCEPT ![p] = [st |-> "holding", d |-> chan[1].d, b |-> chan[1].b]]
           /\ chan' = <<>> /\ UNCHANGED <<next, rbuf, content, pool, nbuf, sent, parsed, bad>>
\* the parser reads the buffer now; a buffer that was given back and read into again holds another datagram's bytes
Parse(p) == /\ pars[p].st = "holding"
            /\ Prop!PParsed(IF content[pars[p].b] = pars[p].d THEN Name(pars[p].d) ELSE "?", TRUE)
            /\ pars' = [pars EXCEPT ![p].st = "parsed"] /\ UNCHANGED <<next, rbuf, content, pool, nbuf, chan>>
Done(p) == /\ pars[p].st = "parsed" /\ pool' = pool \cup {IF ReturnLive THEN rbuf ELSE pars[p].b}
           /\ pars' = [pars EXCEPT ![p] = [st |-> "idle", d |-> 0, b |-> 0]]
           /\ UNCHANGED <<next, rbuf, content, nbuf, chan, sent, parsed, bad>>
Quiesce == next > NData /\ chan = <<>> /\ (\A p \in 1..NParsers : pars[p].st = "idle") /\ Prop!PQuiesce(TRUE) /\ UNCHANGED ivars
Next == Read \/ Quiesce \/ \E p \in 1..NParsers : Take(p) \/ Parse(p) \/ Done(p)
Spec == Init /\ [][Next]_vars
MonitorQuiet == bad = ""
=============================================================================
