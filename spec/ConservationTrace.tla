-------------------------- MODULE ConservationTrace --------------------------
(* R3: validates recorded NDJSON traces of the standalone pipeline against ConservationProp. Events the monitor does
   not speak of (the I-level events merge / flushbegin / processed / resetdone / stim) are skipped. *)
EXTENDS ConservationProp, TLC, TLCExt, Json, IOUtils

Log == ndJsonDeserialize(IOEnv.VERIF_TRACE)
VARIABLE l
tvars == <<inflight, done, known, seen, owner, bad, cnt, nrep, l>>

SetOf(s) == {s[i] : i \in 1..Len(s)}
TInit == TLCSet(1, 0) /\ PInit /\ l = 1
Ev(e) == l <= Len(Log) /\ Log[l].ev = e /\ l' = l + 1
TOffer   == Ev("offer") /\ POffer(SetOf(Log[l].pts), SetOf(Log[l].known))
TReport  == Ev("report") /\ PReport(Log[l].flush, Log[l].who, SetOf(Log[l].series), SetOf(Log[l].news))
TQuiesce == Ev("quiesce") /\ PQuiesce
TReset   == Ev("reset") /\ inflight' = {} /\ done' = {} /\ known' = {} /\ seen' = <<>> /\ owner' = <<>> /\ bad' = bad
            /\ cnt' = <<>> /\ nrep' = (IF "cfg" \in DOMAIN Log[l] THEN Log[l].cfg.w ELSE 0)
TSkip    == l <= Len(Log) /\ Log[l].ev \notin {"offer", "report", "quiesce", "reset"} /\ l' = l + 1 /\ UNCHANGED pvars
TNext == TOffer \/ TReport \/ TQuiesce \/ TReset \/ TSkip
TSpec == TInit /\ [][TNext]_tvars

HighWater == TLCSet(1, IF l > TLCGet(1) THEN l ELSE TLCGet(1))
Accepted == TLCGet(1) = Len(Log) + 1
=============================================================================
