---------------------------- MODULE BackendShapes ----------------------------
(* C04, payload-building side: which shapes of a flushed timer reach the backends, and what each payload builder
   presupposes about the shape (the index / slice expressions found in the builders, each with its guard).

   A shape is what a builder looks at:  n     number of values in Timer.Values (0 for a persisted idle timer)
                                        hist  "nil" | "empty" (non-nil, no buckets) | "some"
                                        npct  number of percentile entries
                                        base  some non-percentile sub-metric is enabled
   Reachable(shape) says how MetricAggregator.Flush / Reset produce it from a configuration:
     * a gsd_histogram tag gives hist = "empty" when the bucket limit is 0, else "some" (+Inf is always there);
     * no tag gives hist = "nil"; percentiles exist only for n > 0, hist = "nil";
     * n = 0 is reachable for every series that persists across a flush.
   Builders (pkg/backends):
     influxdb addBaseTimer        buf[:len(buf)-1]  guarded by `if sb.Len() == 0 { return }`
     influxdb addHistogramTimer   buf[:len(buf)-1]  needs >= 1 bucket;  chosen whenever Histogram != nil     (GuardInfluxEmptyHist)
     otlp WithHistogramDataPointStatistics  &values[0], &values[len-1]  needs n >= 1                         (GuardOtlpEmptyValues)
     otlp WithHistogramDataPointCumulativeBucketValues  make(len-1)  guarded by len(Histogram) != 0
     newrelic percentile naming   pct.Str[:LastIndex("_")]  needs an underscore: percentile names are <stat>_<p>
   The Guard constants say whether the builder has the guard (TRUE after the repairs; FALSE = code as found). *)
EXTENDS Naturals, TLC

CONSTANTS GuardInfluxEmptyHist, GuardOtlpEmptyValues

Shapes == [n : 0..2, hist : {"nil", "empty", "some"}, npct : 0..2, base : BOOLEAN]
Configs == [tag : BOOLEAN, limit : 0..2, pcts : 0..2, pctEnabled : BOOLEAN, base : BOOLEAN, idle : BOOLEAN]

ShapeOf(c, n) ==
  [n |-> IF c.idle THEN 0 ELSE n,
   hist |-> IF ~c.tag THEN "nil" ELSE IF c.limit = 0 THEN "empty" ELSE "some",
   npct |-> IF c.tag \/ c.idle \/ n = 0 \/ ~c.pctEnabled THEN 0 ELSE c.pcts,
   base |-> c.base]
Reachable == {ShapeOf(c, n) : c \in Configs, n \in 1..2}

InfluxSafe(s) == IF s.hist = "nil" THEN TRUE                     \* `wat` guard: nothing written when no field is enabled
                 ELSE s.hist = "some" \/ GuardInfluxEmptyHist
OtlpHistogramSafe(s) == (s.n >= 1 \/ GuardOtlpEmptyValues)       \* Statistics
                        /\ TRUE                                     \* bucket values only when len(Histogram) # 0
OtlpGaugeSafe(s) == TRUE
NewRelicSafe(s) == TRUE                                            \* every percentile name contains "_"
OthersSafe(s) == TRUE      \* graphite, datadog, statsdaemon, cloudwatch, stdout: range loops only, no index arithmetic on the shape

AllSafe == \A s \in Reachable : InfluxSafe(s) /\ OtlpHistogramSafe(s) /\ OtlpGaugeSafe(s) /\ NewRelicSafe(s) /\ OthersSafe(s)
\* named situations (must be reachable, else the check is vacuous)
NamedReachable == /\ \E s \in Reachable : s.n = 0 /\ s.hist = "nil"       \* persisted idle timer
                  /\ \E s \in Reachable : s.hist = "empty"                  \* limit 0
                  /\ \E s \in Reachable : s.npct = 0 /\ ~s.base             \* nothing to write
VARIABLE x
Init == x = 0
Next == UNCHANGED x
Spec == Init /\ [][Next]_x
Safe == AllSafe /\ NamedReachable
=============================================================================
