------------------------------ MODULE ReceiverProp ------------------------------
(* P-level monitor for the socket side of ingestion (receiver -> parser), serving C01 (nothing lost or duplicated), C03 (no datagram
   stops the process) and C05 (a datagram's buffer is its own until it has been parsed; the sender address is the source):
     PStart
     PSent(d)        datagram d (its content is unique) has been handed to the socket
     PParsed(d, ok)  the pipeline received what the parser made of one datagram; d = the datagram whose content it is, or "?" when it is
                     the content of no single datagram that was sent; ok = the source is d's sender address
     PQuiesce(live)  everything has been read and parsed; live = the process is still running
   Clauses: Garbled, NoPhantom, AtMostOnce, Sender, Lost, Alive. *)
EXTENDS Naturals, FiniteSets
VARIABLES sent, parsed, bad
rvars == <<sent, parsed, bad>>
RInit == sent = {} /\ parsed = {} /\ bad = ""
Latch(v) == bad' = IF bad # "" THEN bad ELSE v
PStart == sent' = {} /\ parsed' = {} /\ UNCHANGED bad
PSent(d) == sent' = sent \cup {d} /\ UNCHANGED <<parsed, bad>>
PParsed(d, ok) ==
  /\ Latch(IF d = "?" THEN "Garbled(what was parsed is the content of no single datagram)"
           ELSE IF d \notin sent THEN "NoPhantom"
           ELSE IF d \in parsed THEN "AtMostOnce(a datagram was parsed twice)"
           ELSE IF ~ok THEN "Sender(the source is not the datagram's sender)" ELSE "")
  /\ parsed' = parsed \cup {d} /\ UNCHANGED sent
PQuiesce(live) == Latch(IF ~live THEN "Alive(the process stopped)" ELSE IF sent \ parsed # {} THEN "Lost(a datagram was never parsed)" ELSE "")
                  /\ UNCHANGED <<sent, parsed>>
PropertyHolds == bad = ""
=============================================================================
