---------------------------- MODULE CompletionTrace ----------------------------
EXTENDS CompletionProp, TLC, TLCExt, Json, IOUtils
Log == ndJsonDeserialize(IOEnv.VERIF_TRACE)
VARIABLE l
tvars == <<reqs, cbs, rets, lastOk, bad, l>>
TInit == TLCSet(1, 0) /\ PInit /\ l = 1
Ev(e) == l <= Len(Log) /\ Log[l].ev = e /\ l' = l + 1
TReq     == Ev("req") /\ PReq(Log[l].id)
TAttempt == Ev("attempt") /\ PAttempt(Log[l].id, Log[l].b, Log[l].ok)
TCb      == Ev("cb") /\ PCb(Log[l].id, Log[l].err)
TPanic   == Ev("panic") /\ PPanic
TFinal   == Ev("final") /\ PFinal
TExpired == Ev("expired") /\ PExpired({Log[l].ids[i] : i \in 1..Len(Log[l].ids)})
TRet     == Ev("ret") /\ PRet(Log[l].id)
TCancelled == Ev("cancelled") /\ PCancelled(Log[l].id)
TReset   == Ev("reset") /\ reqs' = {} /\ cbs' = {} /\ rets' = {} /\ lastOk' = <<>> /\ bad' = bad
TSkip    == l <= Len(Log) /\ Log[l].ev \notin {"req", "attempt", "cb", "panic", "final", "reset", "expired", "ret", "cancelled"} /\ l' = l + 1 /\ UNCHANGED pvars
TNext == TRet \/ TCancelled \/ TReq \/ TAttempt \/ TCb \/ TPanic \/ TFinal \/ TExpired \/ TReset \/ TSkip
TSpec == TInit /\ [][TNext]_tvars
HighWater == TLCSet(1, IF l > TLCGet(1) THEN l ELSE TLCGet(1))
Accepted == TLCGet(1) = Len(Log) + 1
=============================================================================
