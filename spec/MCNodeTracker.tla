---- MODULE MCNodeTracker ----
EXTENDS NodeTracker
N2 == {"a", "b"}
N3 == {"a", "b", "c"}
====
