------------------------------ MODULE Grammar ------------------------------
(* P-level for C02 / C03 / C05 / C19: the documented statsd / dogstatsd line grammar, written
   declaratively (field splitting, no state machine) over *token strings*.

   A line is a sequence of tokens. Every token is a literal byte string (the harness concatenates
   them); single-byte tokens stand for the byte classes the grammar distinguishes, multi-byte
   tokens (numbers, keywords, the two-byte escape "\n") only ever consist of bytes that are plain
   "kept" name bytes, so they never contain structure.  The harness may replace a token by another
   byte string of the same class and the same length (class-preserving substitution), consistently
   in the input and in the expected fields.

   Numeric judgements (does this field parse as a float? is the rate finite and > 0?) are the
   statement's own criterion (strconv.ParseFloat) and are evaluated by the harness on the concrete
   field; the specification returns the raw fields and says which of them must pass.

   Result of PLine(s):
     [k |-> "reject"]                                     the statement demands rejection
     [k |-> "unspec"]                                     outside the documented forms and outside the
                                                          listed rejection clauses: only well-formedness
                                                          of whatever is accepted (and C03: no crash)
     [k |-> "metric", name, value, type, rates, tags, exact]
                                                          accepted iff value parses (non-set) and every
                                                          rate is finite > 0; exact => compare all fields
     [k |-> "event", title, text, date, host, aggkey, stype, pri, alert, tags]
*)
EXTENDS Sequences, Naturals, FiniteSets

Digits      == {"0", "1", "2", "3"}
Letters     == {"a", "b", "c", "g", "m", "s", "h", "e", "d", "k", "p", "t"}
NumToks     == {"1.5", "-2", "0.25", "1e3", "NaN", "Inf", "-Inf", "0.0", "-0.5", "1e999", "x1"}
Words       == {"low", "normal", "info", "error", "warning", "success", "host"}
Esc         == "\\n"                       \* the two bytes backslash, n
Punct       == {".", "-", "_"}
Removed     == {"!", "|", "@", "#", ",", "{", "}"}   \* bytes a metric name drops ("!" = any other byte)
Huge        == {"H32m", "H32", "H63", "H64"}          \* symbolic header numbers (C03), see harness
Tokens      == Digits \cup Letters \cup NumToks \cup Words \cup {Esc} \cup Punct \cup Removed
                 \cup {"/", " ", ":"} \cup Huge

ByteLen(t) == CASE t \in {"1.5", "1e3", "NaN", "Inf", "0.0", "low"} -> 3
                [] t \in {"-2", "x1", Esc, "U2"}                      -> 2      \* "U2": one character of two bytes (UTF-8), e.g. e-acute
                [] t \in {"0.25", "-Inf", "-0.5", "info", "host"}     -> 4
                [] t \in {"1e999", "error"}                           -> 5
                [] t = "normal"                                       -> 6
                [] t \in {"warning", "success"}                       -> 7
                [] t \in Huge                                         -> 99   \* never inside a body
                [] OTHER                                              -> 1

RECURSIVE SumLen(_)
SumLen(s) == IF s = <<>> THEN 0 ELSE ByteLen(Head(s)) + SumLen(Tail(s))

RECURSIVE FirstIdx(_, _, _)
FirstIdx(s, x, i) == IF i > Len(s) THEN 0 ELSE IF s[i] = x THEN i ELSE FirstIdx(s, x, i + 1)

\* Split s on separator x: always at least one (possibly empty) field.
RECURSIVE SplitBy(_, _)
SplitBy(s, x) == LET i == FirstIdx(s, x, 1)
                 IN IF i = 0 THEN <<s>>
                    ELSE <<SubSeq(s, 1, i - 1)>> \o SplitBy(SubSeq(s, i + 1, Len(s)), x)

FilterSeq(ss, P(_)) == SelectSeq(ss, P)

\* ---- names: '/' -> '-', blank -> '_', bytes outside [A-Za-z0-9._-] removed
NameNorm(t) == IF t = "/" THEN <<"-">>
               ELSE IF t = " " THEN <<"_">>
               ELSE IF t \in Removed \/ t = "U2" THEN <<>>
               ELSE IF t = Esc THEN <<"n">>
               ELSE <<t>>
RECURSIVE Norm(_)
Norm(s) == IF s = <<>> THEN <<>> ELSE NameNorm(Head(s)) \o Norm(Tail(s))

\* ---- tags: split on ',', empty tags dropped
TagsOf(body) == FilterSeq(SplitBy(body, ","), LAMBDA f : f # <<>>)

TypeOf(f) == CASE f = <<"c">> -> "counter" [] f = <<"g">> -> "gauge" [] f = <<"m", "s">> -> "timer"
               [] f = <<"h">> -> "timer" [] f = <<"s">> -> "set" [] OTHER -> ""

Reject == [k |-> "reject"]
Unspec == [k |-> "unspec"]

PMetric(s) ==
  LET ci == FirstIdx(s, ":", 1) IN
  IF ci = 0 THEN Reject                                             \* lacks the name separator
  ELSE
  LET name == Norm(SubSeq(s, 1, ci - 1))
      fields == SplitBy(SubSeq(s, ci + 1, Len(s)), "|") IN
  IF name = <<>> THEN Reject                                         \* accepted names are non-empty
  ELSE IF Len(fields) < 2 THEN Reject                                \* lacks the value separator
  ELSE IF TypeOf(fields[2]) = "" THEN Reject                         \* lacks a known type
  ELSE
  LET attrs == SubSeq(fields, 3, Len(fields))
      rateF == FilterSeq(attrs, LAMBDA f : f # <<>> /\ Head(f) = "@")
      tagF  == FilterSeq(attrs, LAMBDA f : f # <<>> /\ Head(f) = "#")
      emptyInside == \E i \in 1..(Len(attrs) - 1) : attrs[i] = <<>>
  IN IF emptyInside THEN Unspec                                      \* "||": not a documented form
     ELSE [k |-> "metric", name |-> name, value |-> fields[1], type |-> TypeOf(fields[2]),
           rates |-> [i \in 1..Len(rateF) |-> Tail(rateF[i])],
           tags |-> IF tagF = <<>> THEN <<>> ELSE TagsOf(Tail(tagF[1])),
           exact |-> Len(rateF) <= 1 /\ Len(tagF) <= 1]

\* ---- events   _e{n,m}:title|text[|d:..|h:..|k:..|p:..|s:..|t:..|#tags]
RECURSIVE DecVal(_, _)
DecVal(ds, acc) == IF ds = <<>> THEN acc
                   ELSE DecVal(Tail(ds), acc * 10 + (CASE Head(ds) = "0" -> 0 [] Head(ds) = "1" -> 1
                                                       [] Head(ds) = "2" -> 2 [] OTHER -> 3))
AllDigits(f) == f # <<>> /\ \A i \in 1..Len(f) : f[i] \in Digits

\* the prefix of s whose byte length is exactly n, or <<-1>> if n falls inside a token / beyond s
RECURSIVE TakeBytes(_, _, _)
TakeBytes(s, n, acc) == IF n = 0 THEN acc
                        ELSE IF s = <<>> \/ ByteLen(Head(s)) > n THEN <<"#bad">>
                        ELSE TakeBytes(Tail(s), n - ByteLen(Head(s)), Append(acc, Head(s)))

Unescape(s) == [i \in 1..Len(s) |-> IF s[i] = Esc THEN "NL" ELSE s[i]]

AttrKeys == {"d", "h", "k", "p", "s", "t"}
AttrOk(f) == \/ (Len(f) >= 1 /\ Head(f) = "#")
             \/ /\ Len(f) >= 2 /\ f[1] \in AttrKeys /\ f[2] = ":"
                /\ (f[1] = "d" => AllDigits(SubSeq(f, 3, Len(f))) /\ Len(f) <= 8)
                /\ (f[1] = "p" => SubSeq(f, 3, Len(f)) \in {<<"low">>, <<"normal">>})
                /\ (f[1] = "t" => SubSeq(f, 3, Len(f)) \in {<<"info">>, <<"error">>, <<"warning">>, <<"success">>})
KeyOf(f) == Head(f)
AttrVal(attrs, key) == LET m == FilterSeq(attrs, LAMBDA f : KeyOf(f) = key)
                       IN IF m = <<>> THEN <<>> ELSE SubSeq(m[1], 3, Len(m[1]))

PEvent(s) ==
  IF Len(s) < 3 \/ s[2] # "e" \/ s[3] # "{" THEN Unspec
  ELSE
  LET rest  == SubSeq(s, 4, Len(s))
      comma == FirstIdx(rest, ",", 1)
      close == FirstIdx(rest, "}", 1) IN
  IF comma = 0 \/ close = 0 \/ close < comma THEN Unspec
  ELSE
  LET nT == SubSeq(rest, 1, comma - 1)
      nX == SubSeq(rest, comma + 1, close - 1) IN
  IF ~AllDigits(nT) \/ ~AllDigits(nX) \/ Len(nT) > 3 \/ Len(nX) > 3 THEN Unspec
  ELSE IF close + 1 > Len(rest) \/ rest[close + 1] # ":" THEN Unspec
  ELSE
  LET body  == SubSeq(rest, close + 2, Len(rest))
      title == TakeBytes(body, DecVal(nT, 0), <<>>) IN
  IF title = <<"#bad">> THEN Unspec
  ELSE
  LET b2 == SubSeq(body, Len(title) + 1, Len(body)) IN
  IF b2 = <<>> \/ Head(b2) # "|" THEN Unspec
  ELSE
  LET text == TakeBytes(Tail(b2), DecVal(nX, 0), <<>>) IN
  IF text = <<"#bad">> THEN Unspec
  ELSE
  LET b3 == SubSeq(Tail(b2), Len(text) + 1, Len(b2) - 1) IN
  IF b3 # <<>> /\ Head(b3) # "|" THEN Unspec
  ELSE
  LET attrs == IF b3 = <<>> THEN <<>> ELSE SplitBy(Tail(b3), "|")
      keys  == [i \in 1..Len(attrs) |-> IF attrs[i] = <<>> THEN "" ELSE KeyOf(attrs[i])] IN
  IF \E i \in 1..Len(attrs) : attrs[i] = <<>> \/ ~AttrOk(attrs[i]) THEN Unspec
  ELSE IF \E i, j \in 1..Len(attrs) : i < j /\ keys[i] = keys[j] THEN Unspec
  ELSE
  LET tagF == FilterSeq(attrs, LAMBDA f : KeyOf(f) = "#") IN
    [k |-> "event", title |-> title, text |-> Unescape(text),
     date |-> AttrVal(attrs, "d"), host |-> AttrVal(attrs, "h"), aggkey |-> AttrVal(attrs, "k"),
     stype |-> AttrVal(attrs, "s"), pri |-> AttrVal(attrs, "p"), alert |-> AttrVal(attrs, "t"),
     tags |-> IF tagF = <<>> THEN <<>> ELSE TagsOf(Tail(tagF[1]))]

PLine(s) == IF s = <<>> THEN Unspec         \* the datagram loop never hands an empty last line over; an empty
                                            \* line inside a datagram is counted bad (Datagram.tla)
            ELSE IF Head(s) = "_" THEN PEvent(s)
            ELSE PMetric(s)

\* Well-formedness of an accepted metric, as far as it is visible at token level (the numeric part is
\* evaluated by the harness): non-empty name, tags non-empty without ',' or '|'.
WellFormedTags(tags) == \A i \in 1..Len(tags) : tags[i] # <<>> /\ \A j \in 1..Len(tags[i]) : tags[i][j] \notin {",", "|"}
=============================================================================
