---------------------------- MODULE CompletionProp ----------------------------
(* P-level monitor for C16, from the statement; driven by observed events.
     PReq(id)              a flush request (one SendMetricsAsync call) is made
     PAttempt(id, b, ok)   the transport answers an operation carrying batch b of request id (an HTTP attempt, a socket write):
                           ok = it got through
     PCb(id, err)          the completion callback of request id is invoked; err = it carries a non-nil error
     PPanic                the backend panicked
     PExpired(ids)         the retry window of these requests (HTTP backends) ended a while ago
     PRet(id)              the SendMetricsAsync call of request id returned
     PCancelled(id)        (socket backends) request id was cancelled and the backend has come to rest since
     PFinal                the fault script has ended (transport recovered / retry windows over / everything cancelled) and the
                           backend is at rest
   Clauses: CbAtMostOnce; CbExactlyOnce (at PFinal every request has been answered); ErrIfNotDelivered (a callback without error
   requires that every batch seen for the request got through in its LAST attempt); NoPanic; UnknownRequest. *)
EXTENDS Naturals, FiniteSets, Sequences

VARIABLES reqs, cbs, rets, lastOk, bad
\* reqs: set of ids;  cbs: set of ids answered;  lastOk: <<id, batch>> -> BOOLEAN
pvars == <<reqs, cbs, rets, lastOk, bad>>
PInit == reqs = {} /\ cbs = {} /\ rets = {} /\ lastOk = <<>> /\ bad = ""
Latch(v) == bad' = IF bad # "" THEN bad ELSE v
PReq(id) == reqs' = reqs \cup {id} /\ UNCHANGED <<cbs, rets, lastOk, bad>>
PAttempt(id, b, ok) == /\ lastOk' = [k \in DOMAIN lastOk \cup {<<id, b>>} |-> IF k = <<id, b>> THEN ok ELSE lastOk[k]]
                       /\ UNCHANGED <<reqs, cbs, rets, bad>>
PCb(id, err) ==
  /\ Latch(IF id \notin reqs THEN "UnknownRequest"
           ELSE IF id \in cbs THEN "CbAtMostOnce"
           ELSE IF ~err /\ \E k \in DOMAIN lastOk : k[1] = id /\ ~lastOk[k] THEN "ErrIfNotDelivered"
           ELSE "")
  /\ cbs' = cbs \cup {id} /\ UNCHANGED <<reqs, rets, lastOk>>
PPanic == Latch("NoPanic") /\ UNCHANGED <<reqs, cbs, rets, lastOk>>
PFinal == Latch(IF reqs \ cbs # {} THEN "CbExactlyOnce(a request was never answered)"
                ELSE IF reqs \ rets # {} THEN "FlusherNotBlocked(a SendMetricsAsync call never returned)" ELSE "") /\ UNCHANGED <<reqs, cbs, rets, lastOk>>
\* the retry window of these requests is over (HTTP backends): they must have been answered by now
PExpired(ids) == Latch(IF ids \ cbs # {} THEN "CbWhenWindowEnds(still unanswered after the retry window)" ELSE "") /\ UNCHANGED <<reqs, cbs, rets, lastOk>>
\* SendMetricsAsync of request id returned to the flusher
PRet(id) == rets' = rets \cup {id} /\ UNCHANGED <<reqs, cbs, lastOk, bad>>
\* a socket backend's request was cancelled and the backend came to rest: whoever made the call has it back (the ANSWER may wait for the
\* sender to reach the request in its queue, which the statement allows: "when the connection recovers or the request is cancelled")
PCancelled(id) == Latch(IF id \notin rets THEN "FlusherNotBlocked(the call of a cancelled request has not returned)" ELSE "")
                  /\ UNCHANGED <<reqs, cbs, rets, lastOk>>
PropertyHolds == bad = ""
=============================================================================
