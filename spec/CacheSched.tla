------------------------------ MODULE CacheSched ------------------------------
(* R2 for C12: stimulus schedules for the real CachedCloudProvider (refresh 60 s, TTL 100 s, negative TTL 30 s, idle 150 s).
     sub s     a client submits source s          peek s   Peek(s)
     adv d     virtual time moves forward d seconds (the driver stops at every refresh boundary on the way)
     out k     from now on the cloud provider answers: full | partial (only source "a" is found) | empty | error (nil map) |
               errpartial (error together with a partial map)
     emit      a flush notification: gauges are published
   Core: hand-written schedules for the named situations that need many steps. *)
EXTENDS Naturals, Sequences, TLC, Json
CONSTANTS MaxLen
VARIABLES lim, sched
S(o, s, d) == [op |-> o, src |-> s, d |-> d]
Ops == {S("sub", s, 0) : s \in {"a", "b", "c"}} \cup {S("peek", s, 0) : s \in {"a", "b"}} \cup
       {S("adv", "", d) : d \in {1, 29, 31, 60, 61, 100, 151}} \cup
       {S("out", k, 0) : k \in {"full", "partial", "empty", "error", "errpartial"}} \cup {S("emit", "", 0)}
Core == {
  \* resolve, let the TTL pass, failed refresh, still served; then idle eviction
  [lim |-> 10, sched |-> <<S("sub", "a", 0), S("adv", "", 1), S("peek", "a", 0), S("out", "error", 0), S("adv", "", 151), S("peek", "a", 0), S("emit", "", 0),
                           S("adv", "", 100), S("adv", "", 100), S("peek", "a", 0), S("emit", "", 0)>>],
  \* partial map: the missing sources still get their answer; batch limit 1 and 2
  [lim |-> 2, sched |-> <<S("out", "partial", 0), S("sub", "a", 0), S("sub", "b", 0), S("sub", "c", 0), S("adv", "", 1), S("peek", "b", 0), S("emit", "", 0),
                          S("out", "full", 0), S("adv", "", 31), S("adv", "", 31), S("peek", "b", 0), S("emit", "", 0)>>],
  [lim |-> 1, sched |-> <<S("sub", "a", 0), S("sub", "a", 0), S("sub", "b", 0), S("adv", "", 1), S("out", "empty", 0), S("adv", "", 100), S("adv", "", 29), S("peek", "a", 0),
                          S("adv", "", 61), S("emit", "", 0), S("adv", "", 151), S("emit", "", 0)>>],
  \* negative entry turns positive on refresh; entry crossing TTL and idle in the same tick
  [lim |-> 10, sched |-> <<S("out", "empty", 0), S("sub", "a", 0), S("adv", "", 1), S("emit", "", 0), S("out", "errpartial", 0), S("adv", "", 61), S("peek", "a", 0), S("emit", "", 0),
                           S("adv", "", 151), S("adv", "", 29), S("emit", "", 0), S("peek", "a", 0)>>]
}
ASSUME \A c \in Core : PrintT(<<"CASE", ToJson(c)>>)
Init == lim \in {1, 2, 10} /\ sched = <<>>
Next == Len(sched) < MaxLen /\ \E o \in Ops : sched' = Append(sched, o) /\ UNCHANGED lim
Spec == Init /\ [][Next]_<<lim, sched>>
Emit == Len(sched) < MaxLen \/ PrintT(<<"CASE", ToJson([lim |-> lim, sched |-> sched])>>)
=============================================================================
