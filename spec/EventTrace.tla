------------------------------ MODULE EventTrace ------------------------------
EXTENDS EventProp, TLC, TLCExt, Json, IOUtils
Log == ndJsonDeserialize(IOEnv.VERIF_TRACE)
VARIABLE l
tvars == <<offered, accepted, handed, sent, waits, bad, nb, l>>
TInit == TLCSet(1, 0) /\ PInit /\ l = 1
Ev(e) == l <= Len(Log) /\ Log[l].ev = e /\ l' = l + 1
TStart    == Ev("start") /\ PStart(Log[l].backends)
TOffered  == Ev("offered") /\ POffered(Log[l].id)
TAccepted == Ev("accepted") /\ PAccepted(Log[l].id)
THanded   == Ev("handed") /\ PHanded(Log[l].b, Log[l].id, Log[l].fields)
TSent     == Ev("sent") /\ PSent(Log[l].b, Log[l].id, Log[l].ok)
TWaitCall == Ev("waitcall") /\ PWaitCall
TWaitRet  == Ev("waitreturn") /\ PWaitReturn
TQuiesce  == Ev("quiesce") /\ PQuiesce
TSkip     == l <= Len(Log) /\ Log[l].ev \notin {"start", "offered", "accepted", "handed", "sent", "waitcall", "waitreturn", "quiesce"} /\ l' = l + 1 /\ UNCHANGED pvars
TNext == TStart \/ TOffered \/ TAccepted \/ THanded \/ TSent \/ TWaitCall \/ TWaitRet \/ TQuiesce \/ TSkip
TSpec == TInit /\ [][TNext]_tvars
HighWater == TLCSet(1, IF l > TLCGet(1) THEN l ELSE TLCGet(1))
Accepted == TLCGet(1) = Len(Log) + 1
=============================================================================
