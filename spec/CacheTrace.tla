------------------------------ MODULE CacheTrace ------------------------------
EXTENDS CacheProp, TLC, TLCExt, Json, IOUtils
Log == ndJsonDeserialize(IOEnv.VERIF_TRACE)
VARIABLE l
tvars == <<par, entry, owed, unqueried, requery, bad, l>>
TInit == TLCSet(1, 0) /\ PInit /\ l = 1
Ev(e) == l <= Len(Log) /\ Log[l].ev = e /\ l' = l + 1
TStart   == Ev("start") /\ PStart(Log[l].refresh, Log[l].ttl, Log[l].negttl, Log[l].idle)
TSubmit  == Ev("submit") /\ PSubmit(Log[l].src)
TCall    == Ev("call") /\ PCall(Log[l].ips)
TAnswer  == Ev("answer") /\ PAnswer(Log[l].src, Log[l].res, Log[l].t)
TPeek    == Ev("peek") /\ PPeek(Log[l].src, Log[l].res, Log[l].t)
TTick    == Ev("tick") /\ PTick(Log[l].t)
TGauge   == Ev("gauge") /\ PGauge(Log[l].pos, Log[l].neg)
TQuiesce == Ev("quiesce") /\ PQuiesce
TSkip    == l <= Len(Log) /\ Log[l].ev \notin {"start", "submit", "call", "answer", "peek", "tick", "gauge", "quiesce"} /\ l' = l + 1 /\ UNCHANGED pvars
TNext == TStart \/ TSubmit \/ TCall \/ TAnswer \/ TPeek \/ TTick \/ TGauge \/ TQuiesce \/ TSkip
TSpec == TInit /\ [][TNext]_tvars
HighWater == TLCSet(1, IF l > TLCGet(1) THEN l ELSE TLCGet(1))
Accepted == TLCGet(1) = Len(Log) + 1
=============================================================================
