-------------------------- MODULE FlushNotifierSeq --------------------------
(* Sequential histories of the flush notifier with the observation each step must produce (S1 binding: harness `notif` replays every
   history into the real notifier inside NullStatser / LoggingStatser / InternalStatser in a synctest bubble).
   P-level reading of the doc comments: RegisterFlush "returns a channel which will receive a notification after every flush ... If the
   channel blocks, the notification will be silently dropped"; unregister "signals the channel is no longer being monitored" (it is
   closed); NotifyFlush is "non-blocking".
     reg i     -- i gets a fresh channel
     park i    -- i's goroutine starts a receive on its channel
     notify d  -- exactly the registered parked ids receive d, once; everybody else receives nothing, now or later; the call returns
     unreg i   -- i's channel is closed: a parked receiver wakes with ok = false; the others are untouched *)
EXTENDS Naturals, Sequences, FiniteSets, TLC, Json

CONSTANTS Ids, MaxLen

VARIABLES reg, parked, hist, nd

vars == <<reg, parked, hist, nd>>

Init == reg = {} /\ parked = {} /\ hist = <<>> /\ nd = 0

Step(e) == hist' = Append(hist, e)

Reg(i)   == /\ i \notin reg /\ reg' = reg \cup {i} /\ UNCHANGED <<parked, nd>>
            /\ Step([op |-> "reg", id |-> i, d |-> 0, got |-> {}, woken |-> {}])
Park(i)  == /\ i \in reg /\ i \notin parked /\ parked' = parked \cup {i} /\ UNCHANGED <<reg, nd>>
            /\ Step([op |-> "park", id |-> i, d |-> 0, got |-> {}, woken |-> {}])
Notify   == /\ nd' = nd + 1 /\ parked' = {} /\ UNCHANGED reg
            /\ Step([op |-> "notify", id |-> 0, d |-> nd + 1, got |-> parked, woken |-> {}])
Unreg(i) == /\ i \in reg /\ reg' = reg \ {i} /\ parked' = parked \ {i} /\ UNCHANGED nd
            /\ Step([op |-> "unreg", id |-> i, d |-> 0, got |-> {}, woken |-> parked \cap {i}])

Next == Len(hist) < MaxLen /\ (Notify \/ \E i \in Ids : Reg(i) \/ Park(i) \/ Unreg(i))

Spec == Init /\ [][Next]_vars

ParkedAreRegistered == parked \subseteq reg

Emit == Len(hist) < MaxLen \/ PrintT(<<"CASE", ToJson([hist |-> hist])>>)
=============================================================================
