------------------------------ MODULE CacheProp ------------------------------
(* P-level monitor for C12, from the statement; integer time (seconds); driven by observed events.
     PStart(refresh, ttl, negttl, idle)
     PSubmit(src)            a client hands src to IpSink
     PCall(ips)              the cloud provider is asked about the sequence ips (one batch)
     PAnswer(src, res, t)    an answer for src arrives on InfoSource at time t: "pos" | "neg" (not found, or the call failed)
     PPeek(src, res, t)      Peek(src) at time t returns "pos" | "neg" | "miss"
     PTick(t)                a refresh tick happened at time t and the cache has finished reacting
     PGauge(pos, neg)        cache_positive / cache_negative as published
     PQuiesce                nothing in flight
   The monitor keeps the abstract cache the statement describes: an entry is created by the first answer; a later "pos"
   replaces it, a later "neg" keeps a resolved instance (KeepGood) and only moves the expiry; Peek hits refresh the last-use
   time; at a tick an entry unused for more than idle is evicted, else if it is past its expiry it must be queried again.
   Clauses: AnswerOnce (per call, one answer per source in it), Queried (every submission reaches a provider call),
   KeepGood, PeekTruth (Peek agrees with the abstract cache: evicted exactly when idle at a tick), Requery, GaugeTruth. *)
EXTENDS Integers, FiniteSets, Sequences

VARIABLES par, entry, owed, unqueried, requery, bad
\* entry: src -> [kind, lastUse, exp];  owed: src -> answers still owed (calls mentioned it, answers not yet seen)
\* unqueried: bag src -> submissions not yet seen in a call;  requery: sources a tick found expired and alive
pvars == <<par, entry, owed, unqueried, requery, bad>>
PInit == par = [refresh |-> 1, ttl |-> 1, negttl |-> 1, idle |-> 1] /\ entry = <<>> /\ owed = <<>> /\ unqueried = <<>> /\ requery = {} /\ bad = ""
Latch(v) == bad' = IF bad # "" THEN bad ELSE v
Get(f, k) == IF k \in DOMAIN f THEN f[k] ELSE 0
Bump(f, k, d) == [x \in DOMAIN f \cup {k} |-> IF x = k THEN Get(f, k) + d ELSE f[x]]

PStart(refresh, ttl, negttl, idle) ==
  /\ par' = [refresh |-> refresh, ttl |-> ttl, negttl |-> negttl, idle |-> idle]
  /\ entry' = <<>> /\ owed' = <<>> /\ unqueried' = <<>> /\ requery' = {} /\ UNCHANGED bad
PSubmit(src) == unqueried' = Bump(unqueried, src, 1) /\ UNCHANGED <<par, entry, owed, requery, bad>>
RECURSIVE BumpAll(_, _, _)
BumpAll(f, ips, d) == IF ips = <<>> THEN f ELSE BumpAll(Bump(f, Head(ips), d), Tail(ips), d)
\* a source in a call settles one pending submission, or an expected re-query, of that source
PCall(ips) ==
  /\ owed' = BumpAll(owed, ips, 1)
  /\ unqueried' = [s \in DOMAIN unqueried |-> LET n == Cardinality({i \in 1..Len(ips) : ips[i] = s})
                                               IN IF unqueried[s] > n THEN unqueried[s] - n ELSE 0]
  /\ requery' = requery \ {ips[i] : i \in 1..Len(ips)}
  /\ Latch(IF \E i \in 1..Len(ips) : Get(unqueried, ips[i]) = 0 /\ ips[i] \notin requery /\ ips[i] \notin DOMAIN entry
           THEN "Queried(a source nobody submitted and that is not cached)" ELSE "")
  /\ UNCHANGED <<par, entry>>
PAnswer(src, res, t) ==
  /\ Latch(IF Get(owed, src) = 0 THEN "AnswerOnce(more answers than the calls mention)" ELSE "")
  /\ owed' = Bump(owed, src, -1)
  /\ entry' = [s \in DOMAIN entry \cup {src} |->
                 IF s # src THEN entry[s]
                 ELSE IF src \notin DOMAIN entry THEN [kind |-> res, lastUse |-> t, exp |-> t + (IF res = "pos" THEN par.ttl ELSE par.negttl)]
                 ELSE [kind |-> IF res = "pos" THEN "pos" ELSE entry[src].kind, lastUse |-> entry[src].lastUse,
                       exp |-> t + (IF res = "pos" THEN par.ttl ELSE par.negttl)]]
  /\ UNCHANGED <<par, unqueried, requery>>
PPeek(src, res, t) ==
  LET want == IF src \in DOMAIN entry THEN entry[src].kind ELSE "miss" IN
  /\ Latch(IF res = want THEN ""
           ELSE IF want = "pos" /\ res = "neg" THEN "KeepGood(a resolved source reads as unresolved)"
           ELSE IF want = "miss" THEN "PeekTruth(hit although the entry was idle at a refresh tick / never resolved)"
           ELSE IF res = "miss" THEN "PeekTruth(miss although the entry was used within the idle period)"
           ELSE "PeekTruth")
  /\ entry' = IF src \in DOMAIN entry THEN [entry EXCEPT ![src].lastUse = t] ELSE entry
  /\ UNCHANGED <<par, owed, unqueried, requery>>
PTick(t) ==
  LET alive == {s \in DOMAIN entry : ~(t - entry[s].lastUse > par.idle)} IN
  /\ entry' = [s \in alive |-> entry[s]]
  /\ requery' = requery \cup {s \in alive : t > entry[s].exp}
  /\ UNCHANGED <<par, owed, unqueried, bad>>
PGauge(pos, neg) ==
  /\ Latch(IF pos # Cardinality({s \in DOMAIN entry : entry[s].kind = "pos"}) THEN "GaugeTruth(cache_positive)"
           ELSE IF neg # Cardinality({s \in DOMAIN entry : entry[s].kind = "neg"}) THEN "GaugeTruth(cache_negative)" ELSE "")
  /\ UNCHANGED <<par, entry, owed, unqueried, requery>>
PQuiesce ==
  /\ Latch(IF \E s \in DOMAIN owed : owed[s] # 0 THEN "AnswerOnce(a queried source got no answer)"
           ELSE IF \E s \in DOMAIN unqueried : unqueried[s] # 0 THEN "Queried(a submitted source was never asked about)"
           ELSE IF requery # {} THEN "Requery(an entry past its TTL was not queried again)" ELSE "")
  /\ UNCHANGED <<par, entry, owed, unqueried, requery>>
PropertyHolds == bad = ""
=============================================================================
