----------------------------- MODULE DeliveryProp -----------------------------
(* P-level monitor for C15, from the statement; integer milliseconds; driven by observed events.
     PStart(W)                      W = the retry window in ms (-1 = retries disabled)
     PDispatch(pts)                 a dispatch call has RETURNED; pts = its datapoints [id, hv]  (hv = the value of the dynamic
                                    header tag on the datapoint's series, "" when none)
     PFlushBegin                    a flush begins (manual: the coordinator's Flush is called; timer: the tick)
     PAttempt(bid, ids, hdr, t0, t, ok)   the upstream answers an attempt for the request body bid (identity = content + header)
                                    carrying the datapoints ids under header value hdr; arrived at t0, answered at t; ok = 2xx
     PSettle                        upstream healthy, nothing in flight: everything dispatched before the last flush began has been sent
     PCounters(sent, dropped, invalid)   http.forwarder.* totals
     PQuiesce
   Clauses: NoPhantom, DistinctBodies (a datapoint in two different bodies), ResendOnlyAfterFailure / NoResendAfterSuccess,
   ResendAfterWindow (a body is attempted again although its window was exhausted at the last failure), AbandonedEarly (a body is
   given up although the window was not exhausted), DroppedCount, HeaderPartition, FlushConservation, Lost. *)
EXTENDS Integers, FiniteSets, Sequences

VARIABLES W, given, where, body, pre, bad
\* given: id -> hv;  where: id -> bid;  body: bid -> [first, last, ok];  pre: ids that must be in bodies at the next settle
pvars == <<W, given, where, body, pre, bad>>
PInit == W = 0 /\ given = <<>> /\ where = <<>> /\ body = <<>> /\ pre = {} /\ bad = ""
Latch(v) == bad' = IF bad # "" THEN bad ELSE v

PStart(w) == W' = w /\ given' = <<>> /\ where' = <<>> /\ body' = <<>> /\ pre' = {} /\ UNCHANGED bad
PDispatch(pts) ==
  /\ given' = [i \in DOMAIN given \cup {p.id : p \in pts} |-> IF i \in DOMAIN given THEN given[i] ELSE (CHOOSE p \in pts : p.id = i).hv]
  /\ UNCHANGED <<W, where, body, pre, bad>>
PFlushBegin == pre' = DOMAIN given \ DOMAIN where /\ UNCHANGED <<W, given, where, body, bad>>
\* times are truncated to whole milliseconds by the observer, so a difference d stands for a real duration in (d - 1, d + 1):
\* the window is certainly exhausted when d >= W + 1 and possibly exhausted when d >= W
ExhaustedForSure(b) == W = -1 \/ b.last - b.first >= W + 1
ExhaustedMaybe(b)   == W = -1 \/ b.last - b.first >= W
PAttempt(bid, ids, hdr, t0, t, ok) ==
  IF bid \notin DOMAIN body
  THEN /\ Latch(IF ~(ids \subseteq DOMAIN given) THEN "NoPhantom"
                ELSE IF ids \cap DOMAIN where # {} THEN "DistinctBodies(a datapoint in two different request bodies)"
                ELSE IF \E i \in ids : given[i] # hdr THEN "HeaderPartition"
                ELSE "")
       /\ body' = [b \in DOMAIN body \cup {bid} |-> IF b = bid THEN [first |-> t0, last |-> t, ok |-> ok] ELSE body[b]]
       /\ where' = [i \in DOMAIN where \cup ids |-> IF i \in ids THEN bid ELSE where[i]]
       /\ UNCHANGED <<W, given, pre>>
  ELSE /\ Latch(IF body[bid].ok THEN "NoResendAfterSuccess"
                ELSE IF ExhaustedForSure(body[bid]) THEN "ResendAfterWindow"
                ELSE "")
       /\ body' = [body EXCEPT ![bid] = [first |-> @.first, last |-> t, ok |-> ok]]
       /\ UNCHANGED <<W, given, where, pre>>
PSettle == /\ Latch(IF pre \ DOMAIN where # {} THEN "FlushConservation(dispatched before the flush began, in none of its bodies)" ELSE "")
           /\ UNCHANGED <<W, given, where, body, pre>>
Failed == {b \in DOMAIN body : ~body[b].ok}
PCounters(sent, dropped, invalid) ==
  /\ Latch(IF dropped # Cardinality(Failed) THEN "DroppedCount"
           ELSE IF sent # Cardinality(DOMAIN body \ Failed) THEN "SentCount" ELSE "")
  /\ UNCHANGED <<W, given, where, body, pre>>
PQuiesce ==
  /\ Latch(IF DOMAIN given \ DOMAIN where # {} THEN "Lost(dispatched, in no request body, not reported dropped)"
           ELSE IF \E b \in Failed : ~ExhaustedMaybe(body[b]) THEN "AbandonedEarly"
           ELSE "")
  /\ UNCHANGED <<W, given, where, body, pre>>
PropertyHolds == bad = ""
=============================================================================
