------------------------------ MODULE LambdaProp ------------------------------
(* P-level monitor for C20, from the statement; driven by what a fake Lambda runtime API, a fake upstream and the driver observe.
     PStart(fault)     a fresh extension is started; fault = TRUE when its server is configured so that start-up fails
     PNextReq          the runtime API receives GET /event/next
     PInvoke           the runtime API answers it with INVOKE (an invocation begins)
     PAccept(d)        datapoint d was accepted (the ingestion endpoint answered 2xx)
     PRuntimeDone      the driver is about to post the telemetry batch that carries this invocation's platform.runtimeDone record
     PInitMark         the init phase is about to end (the driver lets the extension finish its start-up): what was accepted so far must be
                       covered by the initial flush, i.e. delivered before the first next request
     PUpReq(ds)        the upstream receives a POST /v2/raw carrying datapoints ds
     PUpDone(ds)       the upstream has answered that request (any status) or dropped the connection
     PInitError        the runtime API receives POST /extension/init/error
     PStall            the driver gave up waiting for the next GET /event/next (a long real-time limit)
     PEnd              the driver is done with this extension
   Clauses
     NextBeforeRuntimeDone  a next request while the current invocation's runtime-done signal has not even been sent
     NextBeforeDelivery     at a next request some datapoint accepted before the last runtime-done signal has no answered upstream
                            request, or one carrying it is still in flight
     LateDelivery           an upstream request carries a datapoint that was due at an earlier next request: the delivery attempt was
                            not over when the extension asked for the next invocation
     InitialFlush/Progress  the first (a later) next request never comes
     InitErrorReported      start-up failed and /init/error was not called by the end *)
EXTENDS Naturals, FiniteSets

VARIABLES accepted, due, settled, inflight, answered, nexts, running, doneSent, faulty, initErr, bad
pvars == <<accepted, due, settled, inflight, answered, nexts, running, doneSent, faulty, initErr, bad>>
PInit == accepted = {} /\ due = {} /\ settled = {} /\ inflight = {} /\ answered = {} /\ nexts = 0 /\ running = FALSE /\ doneSent = FALSE
         /\ faulty = FALSE /\ initErr = FALSE /\ bad = ""
Latch(v) == bad' = IF bad # "" THEN bad ELSE v
PStart(fault) == accepted' = {} /\ due' = {} /\ settled' = {} /\ inflight' = {} /\ answered' = {} /\ nexts' = 0 /\ running' = FALSE /\ doneSent' = FALSE
                 /\ faulty' = fault /\ initErr' = FALSE /\ UNCHANGED bad
PAccept(d) == accepted' = accepted \cup {d} /\ UNCHANGED <<due, settled, inflight, answered, nexts, running, doneSent, faulty, initErr, bad>>
PRuntimeDone == due' = due \cup accepted /\ doneSent' = TRUE /\ UNCHANGED <<accepted, settled, inflight, answered, nexts, running, faulty, initErr, bad>>
PInitMark == due' = due \cup accepted /\ UNCHANGED <<accepted, settled, inflight, answered, nexts, running, doneSent, faulty, initErr, bad>>
PInvoke == running' = TRUE /\ doneSent' = FALSE /\ UNCHANGED <<accepted, due, settled, inflight, answered, nexts, faulty, initErr, bad>>
PNextReq ==
  /\ Latch(IF running /\ ~doneSent THEN "NextBeforeRuntimeDone"
           ELSE IF \E d \in due : d \notin answered THEN "NextBeforeDelivery(a datapoint accepted before the runtime-done signal has not reached upstream)"
           ELSE IF due \cap inflight # {} THEN "NextBeforeDelivery(an upstream request is still in flight)"
           ELSE "")
  /\ nexts' = nexts + 1 /\ running' = FALSE /\ settled' = settled \cup due
  /\ UNCHANGED <<accepted, due, inflight, answered, doneSent, faulty, initErr>>
PUpReq(ds) ==
  /\ Latch(IF ds \cap settled # {} THEN "LateDelivery(the delivery attempt went on after the next invocation was requested)" ELSE "")
  /\ inflight' = inflight \cup ds /\ UNCHANGED <<accepted, due, settled, answered, nexts, running, doneSent, faulty, initErr>>
PUpDone(ds) == inflight' = inflight \ ds /\ answered' = answered \cup ds
               /\ UNCHANGED <<accepted, due, settled, nexts, running, doneSent, faulty, initErr, bad>>
PInitError == initErr' = TRUE /\ UNCHANGED <<accepted, due, settled, inflight, answered, nexts, running, doneSent, faulty, bad>>
PStall == Latch(IF nexts = 0 THEN "InitialFlush(the first next request never came)" ELSE "Progress(the next invocation was never requested)")
          /\ UNCHANGED <<accepted, due, settled, inflight, answered, nexts, running, doneSent, faulty, initErr>>
PEnd == Latch(IF faulty /\ ~initErr THEN "InitErrorReported(start-up failed and the init-error endpoint was not called)" ELSE "")
        /\ UNCHANGED <<accepted, due, settled, inflight, answered, nexts, running, doneSent, faulty, initErr>>
PropertyHolds == bad = ""
=============================================================================
