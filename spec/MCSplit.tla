------------------------------- MODULE MCSplit -------------------------------
(* R1 + R2 for C06. R1: for every map over a small key pool, every shard count and EVERY bucket function, the
   I-level SplitBy is a partition in the sense of IsPartition. R2: batch sequences (which abstract series appear in
   which batch, which shard count) for the harness, whose recorded Split results are judged by PartitionTrace. *)
EXTENDS MetricMap

CONSTANTS NKeys, MaxN, MaxBatches

KeyPool == {[ty |-> t, s |-> i] : t \in {"counter", "gauge", "timer", "set"}, i \in 1..NKeys}
SmallPool == {[ty |-> "counter", s |-> 1], [ty |-> "gauge", s |-> 1], [ty |-> "counter", s |-> 2]}
AlgebraOK ==
  \A keys \in SUBSET SmallPool : \A n \in 1..3 : \A bf \in [SmallPool -> 0..(n - 1)] :
     LET mm == [k \in keys |-> [v |-> 1, ts |-> 1]]
     IN IsPartition(mm, SplitBy(mm, n, LAMBDA k, m : bf[k]), n)
ASSUME AlgebraOK

\* abstract series ids for the harness: "c1", "g2", ...
VARIABLES batches, n
Init == batches = <<>> /\ n \in 1..MaxN
Next == /\ Len(batches) < MaxBatches
        /\ \E b \in (SUBSET (1..(4 * NKeys))) \ {{}} : batches' = Append(batches, b)
        /\ UNCHANGED n
Spec == Init /\ [][Next]_<<batches, n>>
Emit == batches = <<>> \/ PrintT(<<"CASE", ToJson([n |-> n, batches |-> batches])>>)
=============================================================================
