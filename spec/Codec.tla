-------------------------------- MODULE Codec --------------------------------
(* C14: what a forwarder encodes is what the ingesting server decodes.
   P-level  Decode(Decompress(Compress(c, Encode(x)))) = Strip(x): same series keys, tags, sources, counter and gauge values,
            timer values and sampled counts, set members, event fields; timestamps are not carried.
   I-level  the field-by-field translation tables of translateToProtobufV2 / dispatchEvent (forwarder) and
            translateFromProtobufV2 / EventHandler (ingestion), as record transformations; compression is an opaque bijection
            per (type, level) here -- the real libraries are exercised by the harness, not by TLC.
   The module's main output is the STRUCTURAL enumeration (R2): which types are present, tag list absent / present, empty
   source, value classes (negative, zero, huge, +-Inf, NaN), sampled count different from the number of values, sets of
   size 0..2, series that differ only in their source, event field presence x priority x alert type, x compression type x
   level, which the harness pushes through the two real halves. *)
EXTENDS Naturals, Sequences, FiniteSets, TLC, Json

\* ---- metrics: an entry is [ty, name, tags, src, val]; val is a value-class token the harness concretises
ToPb(e)   == [kind |-> e.ty, Name |-> e.name, TagsKey |-> <<e.tags, e.src>>, Tags |-> e.tags, Hostname |-> e.src,
              Value |-> e.val, SampleCount |-> IF e.ty = "timer" THEN e.cnt ELSE 0]
FromPb(p) == [ty |-> p.kind, name |-> p.Name, tags |-> p.Tags, src |-> p.Hostname, val |-> p.Value,
              cnt |-> IF p.kind = "timer" THEN p.SampleCount ELSE 0, ts |-> "now"]
Strip(e)  == [e EXCEPT !.ts = "now"]
\* ---- events
EvToPb(e)   == [Title |-> e.title, Text |-> e.text, DateHappened |-> e.date, Hostname |-> e.src, SourceIP |-> e.src,
                AggregationKey |-> e.agg, SourceTypeName |-> e.stype, Tags |-> e.tags,
                Priority |-> IF e.pri = "low" THEN "Low" ELSE "Normal",
                Type |-> CASE e.alert = "warning" -> "Warning" [] e.alert = "error" -> "Error" [] e.alert = "success" -> "Success" [] OTHER -> "Info"]
EvFromPb(p) == [title |-> p.Title, text |-> p.Text, date |-> p.DateHappened, src |-> p.Hostname, agg |-> p.AggregationKey,
                stype |-> p.SourceTypeName, tags |-> p.Tags,
                pri |-> IF p.Priority = "Low" THEN "low" ELSE "normal",
                alert |-> CASE p.Type = "Warning" -> "warning" [] p.Type = "Error" -> "error" [] p.Type = "Success" -> "success" [] OTHER -> "info"]

\* ---- structural pools
Vals == {"neg", "zero", "huge", "posinf", "neginf", "nan", "frac"}
Entry(ty, name, tags, src, val, cnt) == [ty |-> ty, name |-> name, tags |-> tags, src |-> src, val |-> val, cnt |-> cnt, ts |-> "t1"]
EntryPool ==
  {Entry("counter", "c", tg, src, v, 0) : tg \in {"none", "two"}, src \in {"", "h1"}, v \in {"neg", "zero", "huge"}} \cup
  \* "srclike": the tags of "one" plus a tag spelled like the source suffix of a tags key (s:h1), no source: its tags key is the same STRING
  \* as that of a series with the tags of "one" and source h1 (the gauges below) -- the key is not injective, the labels must still differ
  {Entry("counter", "c", "srclike", "", v, 0) : v \in {"neg", "huge"}} \cup
  {Entry("gauge", "g", "one", src, v, 0) : src \in {"", "h1", "h2"}, v \in Vals} \cup
  {Entry("timer", "t", tg, "h1", v, cnt) : tg \in {"none", "one"}, v \in {"empty", "one-nan", "three-mixed", "two-inf", "many-same"}, cnt \in {"len", "ten", "frac", "zero"}} \cup
  {Entry("set", "s", "two", src, v, 0) : src \in {"", "h1"}, v \in {"size0", "size1", "size2-utf8"}}
Compressions == {[type |-> "none", level |-> 0]} \cup {[type |-> t, level |-> l] : t \in {"zlib", "lz4"}, l \in 0..9}
EventPool == {[title |-> ti, text |-> tx, date |-> d, src |-> s, agg |-> a, stype |-> a, tags |-> tg, pri |-> p, alert |-> al] :
                ti \in {"t"}, tx \in {"plain", "newline-utf8", "long"}, d \in {"zero", "set"}, s \in {"", "h1"}, a \in {"", "k"},
                tg \in {"none", "two"}, p \in {"normal", "low"}, al \in {"info", "warning", "error", "success"}}

RoundTripOK == /\ \A e \in EntryPool : FromPb(ToPb(e)) = Strip(e)
               /\ \A e \in EventPool : EvFromPb(EvToPb(e)) = e
ASSUME RoundTripOK

CONSTANT MaxEntries
VARIABLES mm, comp
Key(e) == <<e.ty, e.name, e.tags, e.src>>
Init == mm = {} /\ comp \in Compressions
Next == /\ Cardinality(mm) < MaxEntries
        /\ \E e \in EntryPool : Key(e) \notin {Key(x) : x \in mm} /\ mm' = mm \cup {e}
        /\ UNCHANGED comp
Spec == Init /\ [][Next]_<<mm, comp>>
Emit == mm = {} \/ PrintT(<<"CASE", ToJson([kind |-> "map", mm |-> mm, comp |-> comp])>>)
\* maps that always run whatever the sampling: two series of different names whose tags keys are the same string while their tags and
\* sources differ (round-7 seeded change C14 m1: labels cached per tags key)
CoreMaps == {{c, g} : c \in {e \in EntryPool : e.tags = "srclike"}, g \in {e \in EntryPool : e.ty = "gauge" /\ e.src = "h1" /\ e.val \in {"neg", "frac"}}}
ASSUME \A m \in CoreMaps : \A c \in {[type |-> "none", level |-> 0], [type |-> "zlib", level |-> 6], [type |-> "lz4", level |-> 9]} :
         PrintT(<<"CASE", ToJson([kind |-> "map", mm |-> m, comp |-> c, core |-> TRUE])>>)
ASSUME \A e \in EventPool : \A c \in {[type |-> "none", level |-> 0], [type |-> "zlib", level |-> 0], [type |-> "zlib", level |-> 6], [type |-> "lz4", level |-> 9]} :
         PrintT(<<"CASE", ToJson([kind |-> "event", ev |-> e, comp |-> c])>>)
=============================================================================
