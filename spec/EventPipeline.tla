---------------------------- MODULE EventPipeline ----------------------------
(* I-level for C19: the event path parser -> CloudHandler (park until the lookup of the source completes) -> TagHandler ->
   BackendHandler.DispatchEvent, with the two wait groups that WaitForEvents chains:
     cloud:    DispatchEvent on a miss: wg.Add(1) BEFORE handing the event to Run; after the answer a goroutine dispatches the
               parked events downstream and only then does wg.Add(-n)
     backend:  eventWg.Add(len(backends)) first; per backend: take a token of concurrentEvents (blocks when all are in use), start a
               goroutine: SendEvent, then eventWg.Done() and the token goes back
     WaitForEvents = cloud wg.Wait(); then backend eventWg.Wait()
   A backend's SendEvent may fail with an error of its own; the token goes back all the same.
   Composed with the EventProp monitor. Broken variants for vacuity: WaitOrderSwapped = TRUE waits for the backends first;
   LeakTokenOnError = TRUE gives the token back only after a successful send (round-3 seeded change m1). *)
EXTENDS Naturals, FiniteSets, Sequences, TLC

CONSTANTS NEvents, B, Tokens, WaitOrderSwapped, LeakTokenOnError

VARIABLES nextEv, parked, fwd, fwdN, cloudWg, backWg, tokens, pending, running, waiter,
          offered, accepted, handed, sent, waits, bad, nb
Prop == INSTANCE EventProp
ivars == <<nextEv, parked, fwd, fwdN, cloudWg, backWg, tokens, pending, running, waiter>>
vars == <<ivars, offered, accepted, handed, sent, waits, bad, nb>>
MonUnch == UNCHANGED <<offered, accepted, handed, sent, waits, bad, nb>>

Init == /\ nextEv = 1 /\ parked = {} /\ fwd = <<>> /\ fwdN = 0 /\ cloudWg = 0 /\ backWg = 0 /\ tokens = Tokens /\ pending = {} /\ running = {} /\ waiter = "none"
        /\ offered = {} /\ accepted = {} /\ handed = {} /\ sent = {} /\ waits = <<>> /\ bad = "" /\ nb = B

ToBackends(e) == /\ backWg' = backWg + B /\ pending' = pending \cup {<<b, e>> : b \in 1..B}
\* an event arrives; hit: its source is known, the caller hands it on itself; miss: wg.Add(1), then parked
Arrive(hit) == /\ nextEv <= NEvents /\ nextEv' = nextEv + 1
               /\ Prop!PAccepted(nextEv)
               /\ IF hit THEN ToBackends(nextEv) /\ UNCHANGED <<parked, cloudWg>>
                         ELSE parked' = parked \cup {nextEv} /\ cloudWg' = cloudWg + 1 /\ UNCHANGED <<backWg, pending>>
               /\ UNCHANGED <<fwd, fwdN, tokens, running, waiter>>
\* the lookup answer: a goroutine takes the parked events of the source (one forwarding goroutine at a time here)
Answer == /\ parked # {} /\ fwd = <<>> /\ fwdN = 0
          /\ fwd' = (CHOOSE f \in [1..Cardinality(parked) -> parked] : \A i, j \in 1..Cardinality(parked) : i # j => f[i] # f[j])
          /\ parked' = {}
          /\ UNCHANGED <<nextEv, fwdN, cloudWg, backWg, tokens, pending, running, waiter>> /\ MonUnch
FwdOne == /\ fwd # <<>> /\ ToBackends(Head(fwd)) /\ fwd' = Tail(fwd) /\ fwdN' = fwdN + 1
          /\ UNCHANGED <<nextEv, parked, cloudWg, tokens, running, waiter>> /\ MonUnch
\* ch.wg.Add(-dispatched), after every parked event has been handed downstream
FwdDone == /\ fwd = <<>> /\ fwdN > 0 /\ cloudWg' = cloudWg - fwdN /\ fwdN' = 0
           /\ UNCHANGED <<nextEv, parked, fwd, backWg, tokens, pending, running, waiter>> /\ MonUnch
StartSend(b, e) == /\ <<b, e>> \in pending /\ tokens > 0 /\ tokens' = tokens - 1
                   /\ pending' = pending \ {<<b, e>>} /\ running' = running \cup {<<b, e>>}
                   /\ Prop!PHanded(b, e, TRUE)
                   /\ UNCHANGED <<nextEv, parked, fwd, fwdN, cloudWg, backWg, waiter>>
EndSend(b, e, err) == /\ <<b, e>> \in running /\ running' = running \ {<<b, e>>} /\ backWg' = backWg - 1
                      /\ tokens' = (IF err /\ LeakTokenOnError THEN tokens ELSE tokens + 1)
                      /\ Prop!PSent(b, e, TRUE)            \* the event reached the backend; what its transport did afterwards is the backend's affair
                      /\ UNCHANGED <<nextEv, parked, fwd, fwdN, cloudWg, pending, waiter>>
\* everything has arrived and nothing can move any more
Quiesce == /\ nextEv > NEvents /\ parked = {} /\ fwd = <<>> /\ fwdN = 0 /\ running = {} /\ (pending = {} \/ tokens = 0) /\ waiter = "none"
           /\ Prop!PQuiesce /\ UNCHANGED ivars
WaitCall == /\ waiter = "none" /\ waiter' = (IF WaitOrderSwapped THEN "backend" ELSE "cloud") /\ Prop!PWaitCall /\ UNCHANGED <<nextEv, parked, fwd, fwdN, cloudWg, backWg, tokens, pending, running>>
WaitStep == \/ /\ waiter = "cloud" /\ cloudWg = 0 /\ waiter' = (IF WaitOrderSwapped THEN "done" ELSE "backend")
               /\ UNCHANGED <<nextEv, parked, fwd, fwdN, cloudWg, backWg, tokens, pending, running>> /\ MonUnch
            \/ /\ waiter = "backend" /\ backWg = 0 /\ waiter' = (IF WaitOrderSwapped THEN "cloud" ELSE "done")
               /\ UNCHANGED <<nextEv, parked, fwd, fwdN, cloudWg, backWg, tokens, pending, running>> /\ MonUnch
WaitReturn == /\ waiter = "done" /\ waiter' = "none" /\ Prop!PWaitReturn /\ UNCHANGED <<nextEv, parked, fwd, fwdN, cloudWg, backWg, tokens, pending, running>>

Next == \/ \E h \in BOOLEAN : Arrive(h) \/ Answer \/ FwdOne \/ FwdDone \/ WaitCall \/ WaitStep \/ WaitReturn
        \/ \E e \in 1..NEvents : \E b \in 1..B : StartSend(b, e) \/ \E err \in BOOLEAN : EndSend(b, e, err)
        \/ Quiesce
Spec == Init /\ [][Next]_vars
MonitorQuiet == bad = ""
=============================================================================
