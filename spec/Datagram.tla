------------------------------ MODULE Datagram ------------------------------
(* C05 (and the datagram clauses of C03): DatagramParser.handleDatagram + the per-batch MetricMap fold.

   P-level  PParse(lines, ih): "parsing a datagram = concatenation of parsing each line alone":
            metrics in line order, events in line order, bad = number of rejected lines, and the
            batch map: counters add trunc(value/rate), timers append values (sampled count adds 1/rate),
            sets unite, a gauge holds the value of the LAST line that set it.
   I-level  Loop(...) : the Go loop over bytes.IndexByte(msg, '\n') (an empty remainder ends it; an empty line in
            the middle is handed to the lexer, which rejects it), ignore-host handling (first host: tag becomes the
            source and is removed), then MetricMap.Receive for each metric in order, with receiveGauge's timestamp
            comparison written as the constant GaugeKeepsFirstOnTie (all lines of a datagram carry one timestamp).

   Lines come from a fixed pool of token lines (tokens as in Grammar.tla); PoolAgreesWithGrammar ties the pool's
   declared meaning to Grammar!PLine. *)
EXTENDS Grammar, TLC, Json

CONSTANTS MaxLines,
          GaugeKeepsFirstOnTie      \* TRUE models `m.Timestamp > g.Timestamp` (today's code before the fix), FALSE `>=`

M(toks, name, ty, vtok, w, cnt, tags) ==
  [toks |-> toks, k |-> "m", name |-> name, ty |-> ty, vtok |-> vtok, w |-> w, cnt |-> cnt, tags |-> tags]
B(toks) == [toks |-> toks, k |-> "bad", name |-> <<>>, ty |-> "", vtok |-> "", w |-> 0, cnt |-> 0, tags |-> <<>>]
E(toks, title, text, tags) == [toks |-> toks, k |-> "e", name |-> title, ty |-> "", vtok |-> text, w |-> 0, cnt |-> 0, tags |-> tags]

HostTag1 == <<"host", ":", "h", "1">>
HostTag2 == <<"host", ":", "h", "2">>
TagAB    == <<"a", ":", "b">>
DbHost   == <<"dbhost", ":", "p", "1">>        \* a tag whose key merely ends in "host"
Long70   == "xxxxxxxxxxxxxxxxxxxxxxxxxxxxxxxxxxxxxxxxxxxxxxxxxxxxxxxxxxxxxxxxxxxxxx"   \* 70 bytes without a name separator

Pool == <<
  M(<<"a", ":", "1", "|", "c">>,                         <<"a">>, "counter", "1", 1, 1, <<>>),
  M(<<"a", ":", "3", "|", "c", "|", "@", "0.25">>,       <<"a">>, "counter", "3", 12, 4, <<>>),
  M(<<"b", ":", "2", "|", "c", "|", "#", "a", ":", "b">>, <<"b">>, "counter", "2", 2, 1, <<TagAB>>),
  M(<<"a", ":", "1", "|", "g">>,                         <<"a">>, "gauge", "1", 0, 1, <<>>),
  M(<<"a", ":", "2", "|", "g">>,                         <<"a">>, "gauge", "2", 0, 1, <<>>),
  M(<<"a", ":", "1.5", "|", "m", "s">>,                  <<"a">>, "timer", "1.5", 0, 1, <<>>),
  M(<<"a", ":", "-2", "|", "h", "|", "@", "0.25">>,      <<"a">>, "timer", "-2", 0, 4, <<>>),
  M(<<"a", ":", "b", "|", "s">>,                         <<"a">>, "set", "b", 0, 1, <<>>),
  M(<<"a", ":", "a", "|", "s">>,                         <<"a">>, "set", "a", 0, 1, <<>>),
  M(<<"a", "!", "/", "b", " ", ":", "3", "|", "c">>,     <<"a", "-", "b", "_">>, "counter", "3", 3, 1, <<>>),
  M(<<"a", ":", "1", "|", "c", "|", "#", "host", ":", "h", "1", ",", "a", ":", "b">>,
                                                          <<"a">>, "counter", "1", 1, 1, <<HostTag1, TagAB>>),
  M(<<"a", ":", "2", "|", "g", "|", "#", "a", ":", "b", ",", "host", ":", "h", "2", ",", "host", ":", "h", "1">>,
                                                          <<"a">>, "gauge", "2", 0, 1, <<TagAB, HostTag2, HostTag1>>),
  M(<<"a", ":", "1", "|", "c", "|", "#", "dbhost", ":", "p", "1", ",", "host", ":", "h", "1">>,
                                                          <<"a">>, "counter", "1", 1, 1, <<DbHost, HostTag1>>),
  M(<<"b", ":", "2", "|", "g", "|", "#", "dbhost", ":", "p", "1">>, <<"b">>, "gauge", "2", 0, 1, <<DbHost>>),
  B(<<Long70>>),
  B(<<"a", "|", "c">>), B(<<":", "1", "|", "c">>), B(<<"a", ":", "1">>), B(<<"a", ":", "1", "|", "a">>),
  B(<<"a", ":", "x1", "|", "c">>), B(<<"a", ":", "1", "|", "c", "|", "@", "x1">>),
  B(<<>>),
  E(<<"_", "e", "{", "1", ",", "1", "}", ":", "a", "|", "b">>, <<"a">>, "b", <<>>),
  E(<<"_", "e", "{", "1", ",", "1", "}", ":", "b", "|", "a", "|", "#", "a", ":", "b", ",", "host", ":", "h", "1">>, <<"b">>, "a", <<TagAB, HostTag1>>),
  E(<<"_", "e", "{", "1", ",", "1", "}", ":", "a", "|", "a", "|", "#", "b">>, <<"a">>, "a", << <<"b">> >>)
>>

PoolAgreesWithGrammar ==
  \A i \in 1..Len(Pool) :
    LET l == Pool[i] p == PLine(l.toks) IN
      CASE l.toks = <<>> -> TRUE                       \* the empty line: rejected by the lexer (Lexer!Final(Q0))
        [] l.k = "bad" -> p.k = "reject" \/ (p.k = "metric" /\ (p.value = <<"x1">> \/ p.rates = <<<<"x1">>>>))
        [] l.k = "e"   -> p.k = "event" /\ p.title = l.name /\ p.text = <<l.vtok>> /\ p.tags = l.tags
        [] l.k = "m"   -> p.k = "metric" /\ p.name = l.name /\ p.type = l.ty /\ p.value = <<l.vtok>> /\ p.tags = l.tags /\ p.exact

\* ---------------------------------------------------------------- source rule
IsHost(tag) == Len(tag) >= 2 /\ tag[1] = "host" /\ tag[2] = ":"
FirstHost(tags) == LET S == {i \in 1..Len(tags) : IsHost(tags[i])} IN IF S = {} THEN 0 ELSE CHOOSE i \in S : \A j \in S : i <= j
WithoutIdx(s, i) == [j \in 1..(Len(s) - 1) |-> IF j < i THEN s[j] ELSE s[j + 1]]
\* (source, tags) of a metric line: sender address "IP", or with ignore-host the first host: tag (removed), else ""
Src(l, ih)  == IF ~ih THEN <<"IP">> ELSE IF FirstHost(l.tags) = 0 THEN <<>> ELSE SubSeq(l.tags[FirstHost(l.tags)], 3, Len(l.tags[FirstHost(l.tags)]))
Tgs(l, ih)  == IF ih /\ FirstHost(l.tags) # 0 THEN WithoutIdx(l.tags, FirstHost(l.tags)) ELSE l.tags
Sid(l, ih)  == [ty |-> l.ty, name |-> l.name, tags |-> {Tgs(l, ih)[i] : i \in 1..Len(Tgs(l, ih))}, src |-> Src(l, ih)]

\* ---------------------------------------------------------------- P-level
Idx(lines, P(_)) == {i \in 1..Len(lines) : P(Pool[lines[i]])}
PMetricsOf(lines, ih) == LET ms == SelectSeq(lines, LAMBDA x : Pool[x].k = "m")
                         IN [i \in 1..Len(ms) |-> [sid |-> Sid(Pool[ms[i]], ih), vtok |-> Pool[ms[i]].vtok,
                                                   w |-> Pool[ms[i]].w, cnt |-> Pool[ms[i]].cnt]]
\* events keep every field the line gave them (tags in line order; the source is always the sender address)
PEventsOf(lines) == LET es == SelectSeq(lines, LAMBDA x : Pool[x].k = "e")
                    IN [i \in 1..Len(es) |-> [title |-> Pool[es[i]].name, text |-> Pool[es[i]].vtok, tags |-> Pool[es[i]].tags]]
RECURSIVE SumW(_, _), SumC(_, _)
SumW(ms, sid) == IF ms = <<>> THEN 0 ELSE (IF Head(ms).sid = sid THEN Head(ms).w ELSE 0) + SumW(Tail(ms), sid)
SumC(ms, sid) == IF ms = <<>> THEN 0 ELSE (IF Head(ms).sid = sid THEN Head(ms).cnt ELSE 0) + SumC(Tail(ms), sid)
Vals(ms, sid) == LET mine == SelectSeq(ms, LAMBDA m : m.sid = sid) IN [i \in 1..Len(mine) |-> mine[i].vtok]
PMap(ms) ==
  LET sids == {ms[i].sid : i \in 1..Len(ms)} IN
  [sid \in sids |->
     CASE sid.ty = "counter" -> [total |-> SumW(ms, sid)]
       [] sid.ty = "gauge"   -> [last |-> Vals(ms, sid)[Len(Vals(ms, sid))]]
       [] sid.ty = "timer"   -> [values |-> Vals(ms, sid), count |-> SumC(ms, sid)]
       [] OTHER              -> [members |-> {Vals(ms, sid)[i] : i \in 1..Len(Vals(ms, sid))}]]
PParse(lines, ih) ==
  [metrics |-> PMetricsOf(lines, ih),
   map     |-> PMap(PMetricsOf(lines, ih)),
   events  |-> PEventsOf(lines),
   bad     |-> Cardinality(Idx(lines, LAMBDA l : l.k = "bad"))]

\* ---------------------------------------------------------------- I-level: the byte loop and the Receive fold
\* msg as a sequence over line indices and the separator 0 ("\n")
Bytes(lines, trailing) ==
  LET n == Len(lines) IN
  [i \in 1..(IF trailing THEN 2 * n ELSE IF n = 0 THEN 0 ELSE 2 * n - 1) |-> IF i % 2 = 1 THEN lines[(i + 1) \div 2] ELSE 0]
RECURSIVE Loop(_, _)
\* acc = <<sequence of line indices handed to the lexer, in order>>; an empty slice is handed over as line 19 (Pool's <<>>)
EmptyLine == CHOOSE i \in 1..Len(Pool) : Pool[i].toks = <<>>
Loop(msg, acc) ==
  LET idx == FirstIdx(msg, 0, 1) IN
  IF idx = 0 THEN (IF msg = <<>> THEN acc ELSE Append(acc, msg[1]))          \* no "\n": last line, or nothing left
  ELSE Loop(SubSeq(msg, idx + 1, Len(msg)), Append(acc, IF idx = 1 THEN EmptyLine ELSE msg[1]))
\* a non-empty line with empty tokens cannot be written down: a pool line <<>> followed by "\n" is exactly "\n"
RECURSIVE Fold(_, _, _)
Fold(ms, mm, i) ==
  IF i > Len(ms) THEN mm
  ELSE LET m == ms[i] sid == m.sid
           cur == IF sid \in DOMAIN mm THEN mm[sid] ELSE [none |-> TRUE]
           new == CASE sid.ty = "counter" -> [total |-> (IF sid \in DOMAIN mm THEN cur.total ELSE 0) + m.w]
                    [] sid.ty = "gauge"   -> IF sid \in DOMAIN mm /\ GaugeKeepsFirstOnTie THEN cur ELSE [last |-> m.vtok]
                    [] sid.ty = "timer"   -> [values |-> (IF sid \in DOMAIN mm THEN cur.values ELSE <<>>) \o <<m.vtok>>,
                                              count |-> (IF sid \in DOMAIN mm THEN cur.count ELSE 0) + m.cnt]
                    [] OTHER              -> [members |-> (IF sid \in DOMAIN mm THEN cur.members ELSE {}) \cup {m.vtok}]
       IN Fold(ms, [s \in DOMAIN mm \cup {sid} |-> IF s = sid THEN new ELSE mm[s]], i + 1)
IParse(lines, trailing, ih) ==
  LET seen == Loop(Bytes(lines, trailing), <<>>)
      ms   == PMetricsOf(seen, ih)
  IN [metrics |-> ms, map |-> Fold(ms, <<>>, 1),
      events |-> PEventsOf(seen),
      bad |-> Cardinality(Idx(seen, LAMBDA l : l.k = "bad"))]

\* ---------------------------------------------------------------- enumeration
VARIABLES lines, trailing, ih
vars == <<lines, trailing, ih>>
Init == lines = <<>> /\ trailing \in BOOLEAN /\ ih \in BOOLEAN
Next == Len(lines) < MaxLines /\ \E i \in 1..Len(Pool) : lines' = Append(lines, i) /\ UNCHANGED <<trailing, ih>>
Spec == Init /\ [][Next]_vars

\* a datagram whose text cannot be written: a final empty line needs a trailing "\n" to exist at all
Writable == lines = <<>> \/ trailing \/ Pool[lines[Len(lines)]].toks # <<>>
IAgreesWithP == Writable => IParse(lines, trailing, ih) = PParse(lines, ih)

MapAsSeq(mm) == LET S == DOMAIN mm IN
  {[ty |-> s.ty, name |-> s.name, tags |-> s.tags, src |-> s.src, agg |-> mm[s]] : s \in S}
Emit == ~Writable \/ lines = <<>> \/
        LET p == PParse(lines, ih) IN
        PrintT(<<"CASE", ToJson([lines |-> [i \in 1..Len(lines) |-> Pool[lines[i]].toks], trailing |-> trailing, ih |-> ih,
                                 metrics |-> [i \in 1..Len(p.metrics) |-> [ty |-> p.metrics[i].sid.ty, name |-> p.metrics[i].sid.name,
                                              tags |-> p.metrics[i].sid.tags, src |-> p.metrics[i].sid.src, vtok |-> p.metrics[i].vtok,
                                              w |-> p.metrics[i].w, cnt |-> p.metrics[i].cnt]],
                                 map |-> MapAsSeq(p.map), events |-> p.events, bad |-> p.bad])>>)
=============================================================================
