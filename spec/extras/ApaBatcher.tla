------------------------------ MODULE ApaBatcher ------------------------------
(* Unbounded-safety extra for C17 (never gating): the counting skeleton of the influxdb batcher (flush.go: metricCount++ ;
   metricCount >= metricsPerBatch => emit ; finish: metricCount > 0 => emit) over integers, for EVERY batch size >= 1 and every
   stream length, as an inductive invariant.  Checked with Apalache (Init => IndInv at length 0, IndInv /\ Next => IndInv' at length 1)
   and proved with TLAPS (theorem Safe below).  BackendBatching.tla is the bounded, item-level version bound to the code. *)
EXTENDS Integers
CONSTANT
  \* @type: Int;
  PerBatch
ASSUME PerBatchPos == PerBatch \in Int /\ PerBatch >= 1
CInit == PerBatch \in Int /\ PerBatch >= 1       \* Apalache: the constant is symbolic
VARIABLES
  \* @type: Int;
  count,      \* lines in the open batch
  \* @type: Int;
  fed,        \* lines written so far
  \* @type: Int;
  emitted,    \* lines in emitted payloads
  \* @type: Int;
  biggest,    \* size of the biggest payload emitted
  \* @type: Bool;
  finished
vars == <<count, fed, emitted, biggest, finished>>
Init == count = 0 /\ fed = 0 /\ emitted = 0 /\ biggest = 0 /\ finished = FALSE
Max(a, b) == IF a > b THEN a ELSE b
AddLine == /\ ~finished /\ fed' = fed + 1
           /\ IF count + 1 >= PerBatch
              THEN count' = 0 /\ emitted' = emitted + count + 1 /\ biggest' = Max(biggest, count + 1)
              ELSE count' = count + 1 /\ UNCHANGED <<emitted, biggest>>
           /\ UNCHANGED finished
Finish == /\ ~finished /\ finished' = TRUE
          /\ IF count > 0 THEN count' = 0 /\ emitted' = emitted + count /\ biggest' = Max(biggest, count)
             ELSE UNCHANGED <<count, emitted, biggest>>
          /\ UNCHANGED fed
Next == AddLine \/ Finish
Spec == Init /\ [][Next]_vars
TypeOK == count \in Int /\ fed \in Int /\ emitted \in Int /\ biggest \in Int /\ finished \in BOOLEAN
IndInv == /\ TypeOK /\ count >= 0 /\ count < PerBatch /\ emitted + count = fed /\ biggest <= PerBatch /\ biggest >= 0
          /\ (finished => count = 0)
\* what C17 states: nothing lost or duplicated, the hard limit kept, everything out at the end
Conservation == emitted + count = fed
Limit == biggest <= PerBatch
AllOut == finished => emitted = fed
=============================================================================
