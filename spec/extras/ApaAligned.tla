------------------------------ MODULE ApaAligned ------------------------------
(* Unbounded-arithmetic extra for C18 (never gating): the two computations of util.AlignedTicker over integer time, for EVERY start
   instant and EVERY offset >= 0 (interval fixed per run, I):
     first wait   roundup(now - offset, I) + offset            (start)
     tick value   (t - offset) truncated to I, plus offset      (sendTick, for any instant t at which the ticker fires)
   claimed: the first boundary is aligned, after now and at most one interval away; a tick value is aligned, not in the future and less
   than one interval old.  AlignedTicker.tla / AlignedProp.tla are the bounded, interleaving-level versions bound to the code. *)
EXTENDS Integers
CONSTANT
  \* @type: Int;
  I
VARIABLES
  \* @type: Int;
  now,
  \* @type: Int;
  offset,
  \* @type: Int;
  t,
  \* @type: Int;
  first,
  \* @type: Int;
  tick
CInit == I \in {2, 3, 5, 1000}
Trunc(x) == x - (x % I)              \* time.Truncate for x >= 0; the driver keeps now - offset >= 0
Roundup(x) == Trunc(x) + I
Init == /\ offset \in Int /\ offset >= 0 /\ now \in Int /\ now >= offset /\ t \in Int /\ t >= now
        /\ first = Roundup(now - offset) + offset
        /\ tick = Trunc(t - offset) + offset
Next == UNCHANGED <<now, offset, t, first, tick>>
FirstOK == (first - offset) % I = 0 /\ first > now /\ first <= now + I
TickOK == (tick - offset) % I = 0 /\ tick <= t /\ tick > t - I
Inv == FirstOK /\ TickOK
=============================================================================
