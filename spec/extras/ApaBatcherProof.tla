--------------------------- MODULE ApaBatcherProof ---------------------------
(* TLAPS proof of the theorem stated for ApaBatcher: for every batch size >= 1 and every stream, the influxdb batcher's counting
   skeleton loses nothing, duplicates nothing, never exceeds the batch size and has everything out after finish. *)
EXTENDS ApaBatcher, TLAPS
THEOREM Safe == Spec => [](Conservation /\ Limit /\ AllOut)
<1>1. Init => IndInv
  BY PerBatchPos DEF Init, IndInv, TypeOK
<1>2. IndInv /\ [Next]_vars => IndInv'
  <2>1. IndInv /\ AddLine => IndInv'
    BY PerBatchPos DEF IndInv, TypeOK, AddLine, Max
  <2>2. IndInv /\ Finish => IndInv'
    BY PerBatchPos DEF IndInv, TypeOK, Finish, Max
  <2>3. IndInv /\ UNCHANGED vars => IndInv'
    BY DEF IndInv, TypeOK, vars
  <2> QED BY <2>1, <2>2, <2>3 DEF Next
<1>3. IndInv => Conservation /\ Limit /\ AllOut
  BY DEF IndInv, TypeOK, Conservation, Limit, AllOut
<1> QED BY <1>1, <1>2, <1>3, PTL DEF Spec
=============================================================================
