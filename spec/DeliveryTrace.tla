----------------------------- MODULE DeliveryTrace -----------------------------
EXTENDS DeliveryProp, TLC, TLCExt, Json, IOUtils
Log == ndJsonDeserialize(IOEnv.VERIF_TRACE)
VARIABLE l
tvars == <<W, given, where, body, pre, bad, l>>
SetOf(s) == {s[i] : i \in 1..Len(s)}
TInit == TLCSet(1, 0) /\ PInit /\ l = 1
Ev(e) == l <= Len(Log) /\ Log[l].ev = e /\ l' = l + 1
TStart    == Ev("start") /\ PStart(Log[l].w)
TDispatch == Ev("dispatch") /\ PDispatch(SetOf(Log[l].pts))
TFlush    == Ev("flushbegin") /\ PFlushBegin
TAttempt  == Ev("attempt") /\ PAttempt(Log[l].bid, SetOf(Log[l].ids), Log[l].hdr, Log[l].t0, Log[l].t, Log[l].ok)
TSettle   == Ev("settle") /\ PSettle
TCounters == Ev("counters") /\ PCounters(Log[l].sent, Log[l].dropped, Log[l].invalid)
TQuiesce  == Ev("quiesce") /\ PQuiesce
TSkip     == l <= Len(Log) /\ Log[l].ev \notin {"start", "dispatch", "flushbegin", "attempt", "settle", "counters", "quiesce"} /\ l' = l + 1 /\ UNCHANGED pvars
TNext == TStart \/ TDispatch \/ TFlush \/ TAttempt \/ TSettle \/ TCounters \/ TQuiesce \/ TSkip
TSpec == TInit /\ [][TNext]_tvars
HighWater == TLCSet(1, IF l > TLCGet(1) THEN l ELSE TLCGet(1))
Accepted == TLCGet(1) = Len(Log) + 1
=============================================================================
