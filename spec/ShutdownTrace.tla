---------------------------- MODULE ShutdownTrace ----------------------------
(* R3 for X02: a recorded run of harness/shut against the ShutdownProp monitor. *)
EXTENDS ShutdownProp, TLC, TLCExt, Json, IOUtils, Sequences
Log == ndJsonDeserialize(IOEnv.VERIF_TRACE)
VARIABLE l
tvars == <<pvars, l>>
TInit == TLCSet(1, 0) /\ PInit /\ l = 1
Ev(e) == l <= Len(Log) /\ Log[l].ev = e /\ l' = l + 1
Kind(title) == IF title = "Gostatsd started" THEN "started" ELSE IF title = "Gostatsd stopped" THEN "stopped" ELSE "client"
Known == {"start", "hold", "event", "flush", "stop", "returned", "stuck", "leak", "panic"}
TNext == \/ Ev("start") /\ PStart(Log[l].backends, Log[l].events)
         \/ Ev("hold") /\ PHold
         \/ Ev("event") /\ PEvent(Log[l].b, Kind(Log[l].title))
         \/ Ev("flush") /\ PFlush(Log[l].b)
         \/ Ev("stop") /\ PStop
         \/ Ev("returned") /\ PReturned
         \/ Ev("stuck") /\ PStuck
         \/ Ev("leak") /\ PLeak
         \/ Ev("panic") /\ PPanic
         \/ l <= Len(Log) /\ Log[l].ev \notin Known /\ l' = l + 1 /\ UNCHANGED pvars
TSpec == TInit /\ [][TNext]_tvars
HighWater == TLCSet(1, IF l > TLCGet(1) THEN l ELSE TLCGet(1))
Accepted == TLCGet(1) = Len(Log) + 1
=============================================================================
