----------------------------- MODULE ReceiverSched -----------------------------
(* R2 for the socket side of ingestion: stimulus schedules for the real DatagramReceiver -> DatagramParser pair.
     dg k s      a datagram of shape k from sender s is put on the socket:
                 0 one line | 1 three lines | 2 zero bytes | 3 a lone newline | 4 some two hundred lines | 5 an invalid line, then a valid one |
                 6 lines of every type with tags
     hold / release   the pipeline behind the parsers stops taking / takes batches again (parsers stay busy, the reader reads on)
   cfg: parsers, readers *)
EXTENDS Naturals, Sequences, TLC, Json
CONSTANTS MaxLen
VARIABLES cfg, sched, chosen
Cfgs == [parsers : {1, 2, 3}, readers : {1, 2}]
O(op, k, s) == [op |-> op, k |-> k, s |-> s]
Ops == {O("dg", k, s) : k \in 0..6, s \in {1, 2}} \cup {O("hold", 0, 0), O("release", 0, 0)}
Init == cfg = [parsers |-> 1, readers |-> 1] /\ sched = <<>> /\ chosen = FALSE
Next == IF ~chosen THEN \E c \in {RandomElement(Cfgs)} : cfg' = c /\ chosen' = TRUE /\ UNCHANGED sched
        ELSE Len(sched) < MaxLen /\ \E o \in {RandomElement(Ops)} : sched' = Append(sched, o) /\ UNCHANGED <<cfg, chosen>>
Spec == Init /\ [][Next]_<<cfg, sched, chosen>>
Core == {
  [cfg |-> [parsers |-> 1, readers |-> 1], sched |-> <<O("dg", 0, 1), O("dg", 2, 1), O("dg", 1, 2), O("dg", 3, 1), O("dg", 0, 2)>>],
  [cfg |-> [parsers |-> 1, readers |-> 1], sched |-> <<O("hold", 0, 0), O("dg", 1, 1), O("dg", 6, 2), O("dg", 0, 1), O("dg", 4, 2), O("release", 0, 0), O("dg", 1, 1)>>],
  [cfg |-> [parsers |-> 2, readers |-> 1], sched |-> <<O("dg", 4, 1), O("hold", 0, 0), O("dg", 0, 1), O("dg", 1, 2), O("dg", 5, 1), O("dg", 6, 1), O("dg", 0, 2), O("release", 0, 0)>>],
  [cfg |-> [parsers |-> 3, readers |-> 2], sched |-> <<O("hold", 0, 0), O("dg", 2, 1), O("dg", 6, 1), O("dg", 2, 2), O("dg", 1, 1), O("release", 0, 0), O("dg", 3, 2), O("dg", 0, 1)>>]
}
ASSUME \A c \in Core : PrintT(<<"CASE", ToJson(c)>>)
Emit == Len(sched) < MaxLen \/ PrintT(<<"CASE", ToJson([cfg |-> cfg, sched |-> sched])>>)
=============================================================================
