------------------------------- MODULE BatchProp -------------------------------
(* P-level monitor for C17, from the statement; driven by what a backend put on its transport for one flush, parsed back by the
   harness's strict protocol parsers.
     PFlush(want, itemLimit, byteLimit)   a flush begins: want = the set of records the statement demands (one per series and enabled
                                          sub-metric: kind, name, sub-metric, tags, host -- the aggregated value is compared by the
                                          harness, a record whose value is off arrives under a name that is not wanted);
                                          itemLimit / byteLimit = the hard limits the statement names for this backend (0 = none)
     PPayload(recs, items, bytes, valid, oneLine)
                                          one emitted payload: recs = the records found in it (a sequence: repeats matter), items =
                                          units the batch size counts, bytes = its size, valid = it parses under its protocol,
                                          oneLine = it consists of a single line (the relay may exceed the datagram size only then)
     PDone                                the backend has reported completion of the flush
   Clauses: Valid, SizeLimit, Duplicate (a record twice, in one payload or in two), Unexpected (a record the flush must not contain:
   wrong value, tags, host, name, or a disabled sub-metric), Missing (at completion). *)
EXTENDS Naturals, FiniteSets, Sequences

VARIABLES want, seen, ilim, blim, bad
pvars == <<want, seen, ilim, blim, bad>>
PInit == want = {} /\ seen = {} /\ ilim = 0 /\ blim = 0 /\ bad = ""
Latch(v) == bad' = IF bad # "" THEN bad ELSE v
Range(s) == {s[i] : i \in 1..Len(s)}
PFlush(w, il, bl) == want' = w /\ seen' = {} /\ ilim' = il /\ blim' = bl /\ bad' = ""        \* every flush gets its own verdict
PPayload(recs, items, bytes, valid, oneLine) ==
  /\ Latch(IF ~valid THEN "Valid(a payload does not parse under its protocol)"
           ELSE IF ilim > 0 /\ items > ilim THEN "SizeLimit(more items in one payload than the batch size allows)"
           ELSE IF blim > 0 /\ bytes > blim /\ ~oneLine THEN "SizeLimit(a datagram of several lines exceeds the packet size)"
           ELSE IF \E i, j \in 1..Len(recs) : i # j /\ recs[i] = recs[j] THEN "Duplicate(a record twice in one payload)"
           ELSE IF Range(recs) \cap seen # {} THEN "Duplicate(a record in two payloads)"
           ELSE IF ~(Range(recs) \subseteq want) THEN "Unexpected(a record the flush must not contain, or with a wrong value, tags or host)"
           ELSE "")
  /\ seen' = seen \cup Range(recs) /\ UNCHANGED <<want, ilim, blim>>
PDone == Latch(IF want \ seen # {} THEN "Missing(a series or enabled sub-metric is in no payload)" ELSE "") /\ UNCHANGED <<want, seen, ilim, blim>>
PropertyHolds == bad = ""
=============================================================================
