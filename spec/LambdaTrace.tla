------------------------------ MODULE LambdaTrace ------------------------------
EXTENDS LambdaProp, TLC, TLCExt, Json, IOUtils, Sequences
Log == ndJsonDeserialize(IOEnv.VERIF_TRACE)
VARIABLE l
tvars == <<pvars, l>>
TInit == TLCSet(1, 0) /\ PInit /\ l = 1
Ev(e) == l <= Len(Log) /\ Log[l].ev = e /\ l' = l + 1
SetOf(s) == {s[i] : i \in 1..Len(s)}
Known == {"init_mark", "start", "next_req", "invoke", "accept", "runtime_done", "up_req", "up_done", "init_error", "stall", "end"}
TNext == \/ Ev("start") /\ PStart(Log[l].fault)
         \/ Ev("next_req") /\ PNextReq
         \/ Ev("invoke") /\ PInvoke
         \/ Ev("accept") /\ PAccept(Log[l].d)
         \/ Ev("runtime_done") /\ PRuntimeDone
         \/ Ev("init_mark") /\ PInitMark
         \/ Ev("up_req") /\ PUpReq(SetOf(Log[l].ds))
         \/ Ev("up_done") /\ PUpDone(SetOf(Log[l].ds))
         \/ Ev("init_error") /\ PInitError
         \/ Ev("stall") /\ PStall
         \/ Ev("end") /\ PEnd
         \/ l <= Len(Log) /\ Log[l].ev \notin Known /\ l' = l + 1 /\ UNCHANGED pvars
TSpec == TInit /\ [][TNext]_tvars
HighWater == TLCSet(1, IF l > TLCGet(1) THEN l ELSE TLCGet(1))
Accepted == TLCGet(1) = Len(Log) + 1
=============================================================================
