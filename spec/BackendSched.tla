----------------------------- MODULE BackendSched -----------------------------
(* R2 for C16 (all backends): fault schedules applied to every bundled backend variant through its real constructor and an
   in-memory transport.
     send b       a flush request whose map makes b in {0, 1, 3, 9} batches (small per-batch settings; 9: more than one CloudWatch call)
     sendm b      a dozen flush requests one after the other, each with a context of its own that is never cancelled
     sendc b      a dozen flush requests, one after the other, each with a context that is already cancelled when the call is made
     fail k o     the next k transport operations (HTTP attempts / dials and writes / CloudWatch calls) fail with outcome o:
                  500 | connerr | 429ra (429 with Retry-After 1) | slow (answered 500 after 2 s)
     adv d        virtual time advances d seconds (back-off, reconnect timers)
     cancel       the context of the most recent request is cancelled
   Epilogue by the driver: healthy transport, 12 s (past the retry window of 3 s), one more request with a fresh context, which
   must be answered without error (a failed flush does not prevent the following ones), PFinal. *)
EXTENDS Naturals, Sequences, TLC, Json
CONSTANTS MaxLen
VARIABLE sched
O(op, n, o) == [op |-> op, n |-> n, o |-> o]
Ops == {O("send", b, "") : b \in {0, 1, 3, 9}} \cup {O("sendc", 1, "")} \cup {O("fail", k, o) : k \in {1, 2, 9}, o \in {"500", "connerr", "429ra", "slow"}} \cup
       {O("adv", d, "") : d \in {1, 4}} \cup {O("cancel", 0, "")}
Core == {
  <<O("fail", 9, "slow"), O("send", 3, ""), O("cancel", 0, ""), O("adv", 4, "")>>,        \* cancelled while every request slot is busy
  <<O("fail", 9, "429ra"), O("fail", 9, "429ra"), O("fail", 9, "429ra"), O("send", 1, ""), O("adv", 4, ""), O("adv", 4, ""), O("adv", 1, "")>>,   \* the window ends while the server keeps saying retry-after
  <<O("fail", 9, "500"), O("fail", 9, "connerr"), O("fail", 9, "slow"), O("send", 3, ""), O("adv", 4, ""), O("adv", 4, ""), O("adv", 4, "")>>,
  <<O("send", 3, ""), O("fail", 2, "connerr"), O("send", 1, ""), O("adv", 1, ""), O("send", 0, ""), O("adv", 4, "")>>,
  <<O("fail", 9, "slow"), O("send", 9, ""), O("cancel", 0, ""), O("adv", 4, "")>>,          \* cancelled between the calls of a flush that needs several
  <<O("sendc", 1, ""), O("adv", 1, ""), O("send", 1, "")>>,
  <<O("fail", 2, "connerr"), O("sendc", 1, ""), O("adv", 4, "")>>,
  \* an outage during which more requests arrive than a socket sender's queue holds; the last one is then cancelled
  <<O("fail", 9, "connerr"), O("fail", 9, "connerr"), O("sendm", 1, ""), O("send", 1, ""), O("cancel", 0, ""), O("adv", 1, "")>>,
  <<O("fail", 9, "connerr"), O("sendm", 1, ""), O("adv", 1, ""), O("send", 1, ""), O("adv", 1, ""), O("cancel", 0, "")>>
}
ASSUME \A c \in Core : PrintT(<<"CASE", ToJson([sched |-> c])>>)
Init == sched = <<>>
Next == Len(sched) < MaxLen /\ \E o \in Ops : sched' = Append(sched, o)
Spec == Init /\ [][Next]_sched
Emit == Len(sched) < MaxLen \/ PrintT(<<"CASE", ToJson([sched |-> sched])>>)
=============================================================================
