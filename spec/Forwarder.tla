------------------------------- MODULE Forwarder -------------------------------
(* I-level for C15: metric_consolidator.go (slots channel: take / merge / put, Drain = cap takes, sink rendezvous, Fill) and the
   posting side of handler_http_forwarder_v2.go (one body per flush here: no dynamic headers; request semaphore; retry loop with
   the back-off give-up rule), over integer time. Composed with the DeliveryProp monitor.
     DispTake(p) / DispPut(p)   a dispatcher takes a slot map out of the channel, merges its batch, puts it back
                                (ReceiveMetricMap); the dispatch has returned after the put
     FlushBegin, DrainTake, Hand, Fill   consolidator.Flush: collect cap maps (waits for slots that dispatchers hold), hand
                                the slice to the forwarder (rendezvous), refill with empty maps
     NewBody                    the forwarder merges what it was handed into one body and takes a request token
     Attempt(b, ok)             one HTTP attempt, answered at once; failure: give up when now - first > W, else wait
     Tick                       time advances
   FillBeforeHand = TRUE refills before the slice is handed over: the code's order exists for back-pressure, and TLC confirms
   that conservation does not depend on it. DrainShort = TRUE is a broken Drain used against vacuity. *)
EXTENDS Integers, FiniteSets, Sequences, TLC

CONSTANTS Slots, Clients, MaxBatches, MaxReq, Win, MaxTime, MaxFlushes, FillBeforeHand,
          DrainShort     \* TRUE: a deliberately broken Drain that collects one map too few (vacuity check)

MinusOne == -1      \* for configuration files: Win <- MinusOne disables retries

VARIABLES chan,        \* the slots channel: sequence of sets of ids
          hand,        \* p -> [st |-> "idle" | "holding", slot, batch]
          nextId, fl,  \* flush: [pc |-> "idle" | "draining" | "handing" | "filling", got |-> seq of sets, n |-> flushes done]
          inbox,       \* slices handed to the forwarder, not yet turned into a body
          bodies,      \* set of [bid, ids, first, last, state]  state: "new" | "wait" | "done" | "dropped"
          tokens, now,
          W, given, where, body, pre, bad
Prop == INSTANCE DeliveryProp
ivars == <<chan, hand, nextId, fl, inbox, bodies, tokens, now>>
vars == <<ivars, W, given, where, body, pre, bad>>
MonUnch == UNCHANGED <<W, given, where, body, pre, bad>>

Init == /\ chan = [i \in 1..Slots |-> {}] /\ hand = [p \in Clients |-> [st |-> "idle", slot |-> {}, batch |-> {}]]
        /\ nextId = 1 /\ fl = [pc |-> "idle", got |-> <<>>, n |-> 0] /\ inbox = <<>> /\ bodies = {} /\ tokens = MaxReq /\ now = 0
        /\ W = Win /\ given = <<>> /\ where = <<>> /\ body = <<>> /\ pre = {} /\ bad = ""

DispTake(p) == /\ hand[p].st = "idle" /\ nextId <= MaxBatches /\ chan # <<>>
               /\ hand' = [hand EXCEPT ![p] = [st |-> "holding", slot |-> Head(chan), batch |-> {nextId}]]
               /\ chan' = Tail(chan) /\ nextId' = nextId + 1
               /\ UNCHANGED <<fl, inbox, bodies, tokens, now>> /\ MonUnch
DispPut(p) == /\ hand[p].st = "holding"
              /\ chan' = Append(chan, hand[p].slot \cup hand[p].batch)
              /\ Prop!PDispatch({[id |-> i, hv |-> ""] : i \in hand[p].batch})
              /\ hand' = [hand EXCEPT ![p] = [st |-> "idle", slot |-> {}, batch |-> {}]]
              /\ UNCHANGED <<nextId, fl, inbox, bodies, tokens, now>>
FlushBegin == /\ fl.pc = "idle" /\ fl.n < MaxFlushes
              /\ fl' = [fl EXCEPT !.pc = "draining", !.got = <<>>]
              /\ Prop!PFlushBegin
              /\ UNCHANGED <<chan, hand, nextId, inbox, bodies, tokens, now>>
DrainTake == /\ fl.pc = "draining" /\ chan # <<>>
             /\ fl' = [fl EXCEPT !.got = Append(@, Head(chan)), !.pc = IF Len(fl.got) + 1 = (IF DrainShort THEN Slots - 1 ELSE Slots) THEN (IF FillBeforeHand THEN "filling" ELSE "handing") ELSE "draining"]
             /\ chan' = Tail(chan)
             /\ UNCHANGED <<hand, nextId, inbox, bodies, tokens, now>> /\ MonUnch
Hand == /\ fl.pc = "handing"
        /\ inbox' = Append(inbox, fl.got)
        /\ fl' = [fl EXCEPT !.pc = IF FillBeforeHand THEN "idle" ELSE "filling", !.n = IF FillBeforeHand THEN @ + 1 ELSE @, !.got = <<>>]
        /\ UNCHANGED <<chan, hand, nextId, bodies, tokens, now>> /\ MonUnch
Fill == /\ fl.pc = "filling"
        /\ chan' = chan \o [i \in 1..Slots |-> {}]
        /\ fl' = [fl EXCEPT !.pc = IF FillBeforeHand THEN "handing" ELSE "idle", !.n = IF FillBeforeHand THEN @ ELSE @ + 1]
        /\ UNCHANGED <<hand, nextId, inbox, bodies, tokens, now>> /\ MonUnch
NewBody == /\ inbox # <<>> /\ tokens > 0
           /\ LET ids == UNION {Head(inbox)[i] : i \in 1..Len(Head(inbox))} IN
                IF ids = {} THEN bodies' = bodies /\ tokens' = tokens
                ELSE bodies' = bodies \cup {[ids |-> ids, first |-> -1, last |-> -1, state |-> "new"]} /\ tokens' = tokens - 1
           /\ inbox' = Tail(inbox)
           /\ UNCHANGED <<chan, hand, nextId, fl, now>> /\ MonUnch
Attempt(b, ok) ==
  /\ b \in bodies /\ b.state \in {"new", "wait"}
  /\ LET first == IF b.first = -1 THEN now ELSE b.first
         st == IF ok THEN "done" ELSE IF W = -1 \/ now - first > W THEN "dropped" ELSE "wait"   \* back-off gives up when elapsed > W
     IN /\ Prop!PAttempt(b.ids, b.ids, "", first, now, ok)
        /\ bodies' = (bodies \ {b}) \cup {[b EXCEPT !.first = first, !.last = now, !.state = st]}
        /\ tokens' = IF st \in {"done", "dropped"} THEN tokens + 1 ELSE tokens
  /\ UNCHANGED <<chan, hand, nextId, fl, inbox, now>>
Tick == /\ now < MaxTime /\ now' = now + 1
        /\ UNCHANGED <<chan, hand, nextId, fl, inbox, bodies, tokens>> /\ MonUnch
\* at rest with a healthy history: everything dispatched before the last flush began is in a body
Settle == /\ fl.pc = "idle" /\ inbox = <<>> /\ \A b \in bodies : b.state # "new" /\ \A p \in Clients : hand[p].st = "idle"
          /\ Prop!PSettle /\ UNCHANGED ivars

Next == \/ \E p \in Clients : DispTake(p) \/ DispPut(p)
        \/ FlushBegin \/ DrainTake \/ Hand \/ Fill \/ NewBody \/ Tick \/ Settle
        \/ \E b \in bodies, ok \in BOOLEAN : Attempt(b, ok)
Spec == Init /\ [][Next]_vars
MonitorQuiet == bad = ""
TokensOK == tokens >= 0 /\ tokens <= MaxReq
\* every datapoint is in exactly one place: a slot, a dispatcher's hand, the flush in progress, the forwarder's inbox, or a body
Places(i) == Cardinality({k \in 1..Len(chan) : i \in chan[k]}) + Cardinality({p \in Clients : i \in hand[p].slot \cup hand[p].batch})
             + Cardinality({k \in 1..Len(fl.got) : fl.pc # "idle" /\ i \in fl.got[k]})
             + Cardinality({k \in 1..Len(inbox) : \E j \in 1..Len(inbox[k]) : i \in inbox[k][j]}) + Cardinality({b \in bodies : i \in b.ids})
Conservation == \A i \in 1..(nextId - 1) : Places(i) = 1
=============================================================================
