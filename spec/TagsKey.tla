------------------------------- MODULE TagsKey -------------------------------
(* Finding 19 at specification level: gostatsd.FormatTagsKey(source, tags) -- the string under which MetricMap files a series of a given
   name -- is not an injective function of the pair (tag set, source) the statements C01 / C06 / C07 identify a series by.
     Key(tags, src) = the sorted tags joined by ","   followed by   ",s:" + src   when there is a source
   Strings are sequences over a three-symbol alphabet: "a" (any ordinary byte), "," and "s:" (the two spellings the format itself uses).
   TLC evaluates Injective over every pair of (tag set of <= 2 tags of <= 2 symbols, source of <= 1 symbol): with Escape = FALSE (the code)
   it is violated -- tags {a} with source a, and tags {a, s:a} without a source; tags {a, aa}... and the single tag "a,aa" -- and with
   Escape = TRUE (the format's own two spellings are written differently when they occur inside a tag or a source) it holds.
   MetricMap.tla and Codec.tla model the key as the pair itself, which is why no run of theirs could show this (DESIGN 11.4). *)
EXTENDS Naturals, Sequences, FiniteSets, TLC
CONSTANT Escape
VARIABLE dummy
Sym == {"a", ",", "s:"}
Rank(x) == CASE x = "," -> 0 [] x = "a" -> 1 [] x = "s:" -> 2 [] x = "\\," -> 3 [] OTHER -> 4
Strs(n) == UNION {[1..k -> Sym] : k \in 1..n}
RECURSIVE Less(_, _)
Less(u, v) == IF u = <<>> THEN v # <<>> ELSE IF v = <<>> THEN FALSE
              ELSE IF Head(u) # Head(v) THEN Rank(Head(u)) < Rank(Head(v)) ELSE Less(Tail(u), Tail(v))
Esc(u) == IF Escape THEN [i \in 1..Len(u) |-> IF u[i] = "," THEN "\\," ELSE IF u[i] = "s:" THEN "\\s:" ELSE u[i]] ELSE u
RECURSIVE Join(_)
Join(T) == IF T = {} THEN <<>>
           ELSE LET m == CHOOSE m \in T : \A x \in T \ {m} : Less(m, x) IN
                IF T = {m} THEN Esc(m) ELSE Esc(m) \o <<",">> \o Join(T \ {m})
Key(tags, src) == Join(tags) \o (IF src = <<>> THEN <<>> ELSE <<",", "s:">> \o Esc(src))
Pairs == {<<T, s>> : T \in {X \in SUBSET Strs(2) : Cardinality(X) <= 2}, s \in {<<>>} \cup Strs(1)}
Injective == \A p, q \in Pairs : Key(p[1], p[2]) = Key(q[1], q[2]) => p = q
InjectiveNow == dummy = 0 => Injective      \* state level, so that TLC reports it as a violated invariant
Init == dummy = 0
Next == UNCHANGED dummy
Spec == Init /\ [][Next]_dummy
=============================================================================
